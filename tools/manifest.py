#!/usr/bin/env python3
"""Regenerate MANIFEST.json from the table below (kept valid at all times)."""
import json
import os

HERE = os.path.dirname(os.path.abspath(__file__))
VERIF = os.path.abspath(os.path.join(HERE, '..'))

LEVEL_NOTE = ('Trusted: Lean 4.33 kernel; axioms limited to propext, Classical.choice, Quot.sound (audited by #print axioms on every run); '
              'the hand-written Lean model of the Python code (modelled, not extracted) tied to /repo by the correspondence check '
              '(same generated inputs through the compiled model driver and the real code in-process, canonicalised and diffed) and by '
              'the translator tools/gen_lean.py for data (Operator enum, std.wal, initial global frame); the per-property Python oracle '
              'used for the failing-input search. ')

CLAIMED = {
    'C02': dict(
        text='Theorems over the model of Trace.step / TraceContainer.step / the step operator for every trace length, amount, number of '
             'traces and history (step_exact_in/out, step_reports, stepAll_each/success/ended, stepNamed_isolation/target, inv_reachable by '
             'induction over the request list). Correspondence: generated navigation histories on 1-2 traces through the real interpreter '
             'and the model; oracle = index arithmetic.',
        ref='DESIGN.md §6 C02', note='set-index is exercised with a single trace (it reads unqualified INDEX); its defining equation is C15.',
        technique='Lean 4 proof (invariant by induction over operation lists) + model/implementation correspondence'),
    'C12': dict(
        text='Theorems over the container model for every history of load / failing load / unload / step: count_consistent (the counter the '
             'dispatch relies on equals the number of loaded traces, ids unique), failed_load_noop, qualified_eq_single, '
             'unqualified_after_unload, load/unload isolation. Correspondence: op sequences over three generated traces, probed after '
             'every op; oracle = dictionary-of-traces reference.',
        ref='DESIGN.md §6 C12', note='File I/O of the readers is exercised by the correspondence only; FST traces are not modelled (pylibfst absent).',
        technique='Lean 4 proof (invariant over all op sequences, refinement to a dict of traces) + correspondence'),
    'C19': dict(
        text='Theorems over the model of set_sampling_points / set_max_index for every trace and index list: sample_index0, sample_ts '
             '(MAX-INDEX = number of distinct selected samples - 1, TS at j = original timestamp of the j-th distinct sample), sample_value '
             '(every signal at j reads the original column at L\'[j]), resample_refers_to_original, trim_spec. Correspondence: resampling / '
             'trimming / navigation histories with a full probe of every new index incl. a virtual signal, @ offsets, find and count; '
             'oracle = the original trace at L\'[j].',
        ref='DESIGN.md §6 C19', note='Assumes strictly increasing timestamps (samples are identified by timestamp); trimming below the current position is outside the property.',
        technique='Lean 4 proof (pointwise denotation of the re-indexed trace) + correspondence'),
    'C01': dict(
        text='Theorems over the model of the VCD reader for every list of dump items and every identifier code: runDump_col (the fold over all '
             'ids computes per id a column that depends on that id alone), col_pointwise (cell j = last value assigned at or before timestamp j, '
             'x before any assignment), col_length / runDump_ts (one index per # marker, in file order), shared_id, bitsToVal_binary/xz at any '
             'width; kernel-evaluated instances of the name normalisation. Correspondence: generated well-formed VCD texts with random layout, '
             'every (signal,index) pair read through the language; oracle = independent pointwise denotation of the same abstract file.',
        ref='DESIGN.md §6 C01', note='Proved part covers the dump section from classified items (dump_denote_partial); token classification, header walk and '
             'name normalisation on rendered files are tied by the correspondence only. Layout is abstracted by str.split(); file I/O, keep_signals, FST not covered.',
        technique='Lean 4 proof (fold invariant + pointwise denotation) + correspondence'),
    'C18': dict(
        text='Theorems over the model of the CSV reader for every input: csvTime_frac/int/dot (time cell -> integer nanoseconds for 0-9 fraction '
             'digits), split_join (rows and cells recovered exactly), row_places (each cell goes to the column named by its own header position; the '
             'time column is skipped wherever it stands), rows_ts (one index per row, in order). Correspondence: generated CSV texts, every '
             '(column,row) read; oracle = independent reference denotation.',
        ref='DESIGN.md §6 C18', note='Header-name normalisation on arbitrary names is tied by the correspondence (kernel-evaluated instances only); file I/O on the implementation side only.',
        technique='Lean 4 proof (numeral and positional lemmas over the reader model) + correspondence'),
    'C03': dict(
        text='Theorems about the model of op_rel_eval against an arbitrary evaluator of the sub-terms (hence for every e, trace set and state): '
             'reval_out_of_range (#f, e not evaluated, state = after the offset), reval_in_range (exactly e evaluated with every trace moved by the '
             'offset, then restore), reval_neutral (every index and the saved-position stack afterwards equal before, via restore_exact), '
             'shift_compose ((e@j)@k positions = e@(j+k) positions when intermediate and final are in range). Global (Props/C03_Global.lean over '
             'Lemmas/Tid.lean + Bal.lean): reval_position_neutral — for EVERY body e, whenever (reval e k) completes under the restricted evaluator '
             'evalT (eval without unload / set-scope / unset-scope, proved a restriction of eval) every trace index equals its value before and no '
             'saved position is pending; the premises of reval_neutral are theorems (evalT_T: trace ids kept, evalT_B: stack balanced). Correspondence: random e of the '
             'trace-reading fragment x (position,k) pairs on 1-2 traces; oracle = (reval e k) vs e after (step k) on the implementation.',
        ref='DESIGN.md §6 C03', note='The global theorem assumes distinct trace ids (decidable; holds of every state the driver builds) and speaks about evaluations that do not execute unload / set-scope / unset-scope; the evidence records per correspondence request whether the restricted evaluator completes on it (theorem_coverage.position_theorem_applies). Exactness of the value (e at i+k) is the operator-level reval_in_range plus the correspondence.',
        technique='Lean 4 proof (operator-level laws for every sub-evaluator; global position neutrality by induction on the fuel through every operator) + correspondence'),
    'C04': dict(
        text='Theorems against an arbitrary evaluator of the condition: findLoop_spec / find_spec (by induction on the distance to the end: the '
             'hits are exactly the indices from the current one to MAX-INDEX at which the condition is truthy, ascending, index restored), '
             'hits_ascending, scan_restores (find/g and whenever put every trace back), scanLoop_step (condition once, body once iff truthy, '
             'lock-step advance, stop when the first trace ends), length_of_list for count. Global (Props/C04_Global.lean, Props/C04_Neutral.lean '
             'over Lemmas/Tid.lean, Neu.lean): whenever_position_neutral / findG_position_neutral for every condition and body, and '
             'completed_evaluation_position_neutral / pipeline_position_neutral — every evaluation the restricted evaluator evalN completes (eval '
             'without step, sample-at, unload, set-scope, unset-scope; a restriction of eval) leaves every (trace id, index) pair and the '
             'saved-position stack as they were, which discharges the Neutral premise of find_spec for every such condition. Correspondence: random conditions x bodies x start '
             'positions on 1-2 traces; oracle = the condition evaluated independently at every visited position by explicit stepping.',
        ref='DESIGN.md §6 C04', note='find_spec is for one trace and position-neutral conditions (now a theorem for every condition evalN completes); find, count, find/g, whenever and reval are all inside evalN. Distinct trace ids assumed (decidable). Completeness and order of the hits for several traces are the operator-level theorems plus the correspondence.',
        technique='Lean 4 proof (loop invariant by induction; global position neutrality by induction on the fuel through every operator) + correspondence'),
    'C13': dict(
        text='Two layers. Concrete model: read_hit / read_miss (a read of a virtual signal looks the current timestamp up; a hit returns the '
             'cached value and changes nothing, a miss evaluates the body and inserts exactly that pair), defsig_listed, kernel-evaluated '
             'instances of the ~/# rewriting at definition. Abstract machine over every history of jumps, reads and resamplings: '
             'read_after_any_history (whatever a read returns is the body value at the current index; a cached value is never served for '
             'another time point; resampling drops the cache) by run_inv. Correspondence: bodies x visit orders incl. @, find, whenever, '
             'repeated reads, intervening sample-at, definition under in-scope/in-group/in-groups; oracle = v vs body text in place.',
        ref='DESIGN.md §6 C13', note='Single trace; strictly increasing timestamps (increasing_identifies). The link between the concrete read and the abstract read step is by read_hit/read_miss, not a full refinement proof.',
        technique='Lean 4 proof (cache invariant over all operation histories) + correspondence'),
    'C08': dict(
        text='Rule soundness, one theorem per rewrite of optimize, each against an arbitrary literal-respecting evaluator of the sub-terms: '
             'and_fold/and_rule, or_fold/or_rule (folding over the leading run of literals decides exactly like the evaluation, same state), '
             'if_rule3/if_rule2, do_rule, add_rule_num, add_rule_str, mul_rule_int_partial, quote_untouched, atom_untouched, evalStep_lit, and '
             'the rewrite step composed with one evaluator layer (optimize_and_partial, optimize_or_partial). Global (Props/C08_Global.lean, Lemmas/Opt.lean, Lemmas/OptMain.lean): '
             'optimize_preserves_restricted - every evaluation the restricted evaluator evalF completes also completes on the optimised expression with the same value, the same final '
             'state and the same fuel, by induction on the fuel with one congruence lemma per operator (operand_congruence) and the rule theorems; evalF is eval with dynamic checks '
             'that exclude fn/defsig/defmacro/array on operands the pass rewrites, reval/all-scopes on an operand that is no expression form after the pass, constant products '
             'with a non-integer factor, and operators obtained as values (restricted_is_evaluation: evalF is a restriction of eval); optimize_preserves_any_fuel; groups_untouched (second defect found and repaired: efa3f75); case_key_untouched (the key of a case clause is data: '
             'left as written - the defect found by this check and repaired). Correspondence and search: every '
             'generated program runs with and without the pass (without and with resolve) on fresh interpreters and on the model; oracle = '
             'result+type, stdout, variables, trace index with vs without the pass on the implementation.',
        ref='DESIGN.md §6 C08', note='The global theorem excludes evaluations that create functions / virtual signals / macros from code the pass rewrites (the two runs would store different bodies: needs a value relation, not proved); '
             'those are covered by the with/without differential on implementation and model. The float case of the * rule rests on IEEE 1*x = x (stated for integers only).',
        technique='Lean 4 proof (per-rewrite soundness for every sub-evaluator; global preservation for the restricted evaluator by induction on fuel with a congruence lemma per operator) + with/without-pass differential'),
    'C06': dict(
        text='Operator-level laws of the model evaluator, each against an arbitrary evaluator of the sub-terms: evalList_seq / evalList_length '
             '(operands left to right, each exactly once, state threaded), fn_captures_definition_env, call_frame (body runs in a fresh frame '
             'under the captured environment; arguments evaluated first, in the caller), call_env_restored, let_sequential, let_vanishes, '
             'define_current_frame, set_nearest, bound_reads, and the four error laws (unbound_errors, set_undefined_errors, redefine_errors, '
             'arity_errors). Global, by induction on the fuel through every operator of the model (Lemmas/Global.lean, Lemmas/Mono.lean): '
             'eval_restores_env / eval_frames_grow (every completed evaluation of every expression ends in the environment it started in and only '
             'grows the frame heap), more_fuel_same_result / evaluation_deterministic (the fuel of the model is not observable: evaluation is a '
             'function of state and expression). Correspondence: generated core-calculus programs through the full pipeline (Wal.eval) and the bare evaluator vs the '
             'model; search oracle = an independent textbook reference evaluator (harness/gen_prog.py::Ref): result, stdout, final globals per form.',
        ref='DESIGN.md §6 C06', note='The reference evaluator and the Lean model are two independent renderings of lexical scoping; agreement with the reference on all programs is by '
             'differential execution; proved globally are the environment/heap invariant and fuel independence, the binding laws are operator-level. First-class macros at run time are outside the model (unsupported).',
        technique='Lean 4 proof (operator-level binding/order/error laws; global invariant and monotonicity by induction on fuel over all operators) + differential against model and reference evaluator'),
    'C07': dict(
        text='On the real frame heap of the model (parent pointers, several names per frame): findFrame_fuel, find_skip, find_hop / read_hop / '
             'write_hop (hopping over frames that do not bind x is invisible to the dynamic walk), resolved_read_eq_dynamic and '
             'resolved_write_eq_dynamic (an annotation whose skipped frames do not bind the name denotes the same cell, for reads and '
             'assignments), lookupSteps_sound (the pass annotates with the nearest static scope that knows the name, only if defined there), '
             'announced_stays_dynamic, reaches_announced / reachable_define_stays_dynamic (every define that evaluation can execute in the frame - statement, do block or operand of any '
             'form at any depth - is announced by predefine and is never resolved statically before it has been passed), case_key_untouched, '
             'resolve_symbol_only_annotates, resolve_refuses_only_upfront, double_define_refused; heap_ok_invariant / heap_ok_pipeline (well-formedness of '
             'the frame heap - parents allocated before children, current environment allocated - is an invariant of every evaluation, by induction on '
             'the fuel through every operator) and resolved_read_eq_dynamic_reachable (the cell-identity lemma with its heap premises discharged for every reachable state). '
             'Global (Props/C07_Global.lean, Lemmas/Res.lean): resolved_run_eq_dynamic_run - two evaluators run the same annotated program, evalD ignores every annotation, '
             'evalC follows them and checks at the moment of each annotated read / assignment that the frames hopped over do not bind the name; whatever evalC completes, '
             'evalD completes with the same value and state (induction on the fuel: reads and assignments by the cell-identity lemmas, every other operator by monotonicity); '
             'checked_is_evaluation (evalC is a restriction of eval); the evidence counts how many correspondence cases pass the checks. Correspondence and '
             'search: twin interpreters expand->optimize->resolve->eval vs expand->optimize->eval on generated programs (incl. std macros, eval of '
             'quoted code), plus the reference evaluator as second opinion.',
        ref='DESIGN.md §6 C07', note='The global preservation theorem (run-time invariant static scopes = parent chain through every operator) is proved on the prototype calculus only; on the full model the heap half of that invariant is proved (heap_ok_invariant); that the annotations computed by resolve always pass the run-time check of evalC (scope agreement) is not proved but counted per case '
             '(notes/prototypes/lean/Res2.lean); on the full model it is covered by the twin differential. Defines created by run-time eval and then read statically are outside the quantifier.',
        technique='Lean 4 proof (cell-identity of resolved vs dynamic access on the frame heap; soundness of the annotation) + twin-interpreter differential'),
    'C09': dict(
        text='Theorems over unbounded Int/Nat (any width): add/sub/mul_exact, sum_exact, prod_exact, mod_floor, cmp_exact, exp_exact, slice_bit '
             '(x[i] = floor(x/2^i) mod 2), slice_range (x[h:l] = floor(x/2^l) mod 2^(h-l+1)), slice_reassemble, convertBin_value (the numeral '
             'of v padded to >= w digits), signal_value_exact (a purely binary bit string reads as its numeral at any width), kernel-evaluated '
             'instances of bits->sint and of the two\'s-complement bit operations beyond 64 bits. Correspondence: operand tuples up to 256 bits '
             '(literal, variable and trace-signal operands); oracle = Python arbitrary-precision integers.',
        ref='DESIGN.md §6 C09', note='slice theorems are stated for non-negative x (two\'s-complement negatives by instances + correspondence); bits->sint and string<->int round trips '
             'are covered by instances and the correspondence, not by a general theorem.',
        technique='Lean 4 proof (bit-level extensionality, numeral lemmas) + correspondence against big-integer oracle'),
    'C14': dict(
        text='Each list built-in on list values is the named List function for every evaluator of the operand (first/second/last/rest/length/list/+ '
             'as concatenation and element append/zip; mapLoop_pure, foldLoop_pure: map and fold are List.map / List.foldl for state-neutral '
             'element functions; range_spec; in_spec_ints), with the error guards the code has (first_empty_errors). Arrays refine a finite map '
             'with insertion order: seta_get, seta_other, seta_order, seta_length, dela_spec, geta_missing_errors; keys compared by textual '
             'form; aliasing through the heap (kernel-evaluated). Correspondence: list cases and array histories vs model; oracle = Python list/dict '
             'incl. a second reference to every argument list.',
        ref='DESIGN.md §6 C14', note='Immutability of Python list objects is a statement about the implementation and is established by the correspondence only. The library functions '
             'written in WAL (reverse filter partition sort) are regenerated from std.wal and compared by execution; no inductive proof through the evaluator.',
        technique='Lean 4 proof (operator = List function; finite-map refinement) + correspondence against Python list/dict oracle'),
    'C15': dict(
        text='All theorems are about Gen.stdEnv, regenerated from std.wal on every run. Expansion equations, proved by kernel evaluation of the model\'s '
             'expand running the real macro bodies: when unless cond (1 clause+else, 2 clauses, else only, empty) for/list for dowhile until inc dec '
             'set! defun car cdr cadr rising falling stable unstable always step-until step-while count signed sum timeframe (27 theorems); '
             'macro_args_unevaluated (a user macro receives (print 1) unevaluated, nothing printed); gensym_dollar; template_hygienic (a decidable '
             'check over every quasiquote template of std.wal/module.wal: no literal binder scopes over an unquoted user operand). '
             'Correspondence and search: every library form with printing/assigning operands on a loaded trace vs its defining expression on a twin '
             'interpreter (result, stdout, variables, final INDEX), user macros vs macroexpand and vs the quoted datum, operand variable named after '
             'every template binder.',
        ref='DESIGN.md §6 C15', note='Operands in the expansion theorems are opaque symbols (the macros only splice them); semantic equations for the temporal forms are the C03/C04 theorems '
             'applied to the expansions and are otherwise covered by the twin differential. A false expansion theorem makes the kernel evaluation run into the proof time limit (reported as a broken obligation).',
        technique='Lean 4 proof by kernel evaluation over the regenerated library (translator) + twin-interpreter differential'),
    'C05': dict(
        text='Operator-level theorems against an arbitrary evaluator of the body: scoped_ref (~n under a captured real scope S denotes S.n, a missing signal '
             'is an error), grouped_ref (#n denotes G immediately followed by n), scoped_ref_alias / alias_read / alias_sets (the alias is looked up at '
             'each evaluation, so re-aliasing takes effect for every later reference), candidate_literal (suffixes matched as literal text) with '
             'kernel-evaluated instances (.valid does not match a_valid; direct non-empty local part under a captured scope), scoped_restores, '
             'scoped_body_sees_scope, allscopes_restores, ingroup_restores, writeGlobal_fields. Correspondence: generated hierarchies x scripts of '
             'constructs at a random index; oracle = set comprehension over the generated names.',
        ref='DESIGN.md §6 C05', note='groups with a captured scope follows the reading "p = CS.m with a non-empty local part m without dots". The restore theorems speak about the captured scope/group '
             'fields; that the CS/CG variables carry the same value is by the correspondence (CS CG LOCAL-SIGNALS LOCAL-SCOPES probed before, inside, after).',
        technique='Lean 4 proof (operator-level denotation and restore laws) + correspondence against a set-comprehension oracle'),
    'C17': dict(
        text='Balance is compositional: for an arbitrary evaluator of the body each context-establishing operator returns with the component it manages '
             'restored - let_balanced, call_balanced (environment), inscope_balanced, ingroup_balanced, allscopes_balanced (captured scope/group), '
             'reval_balanced (trace positions and the saved-position stack), scan_balanced (find/g, whenever) - and balanced_history lifts a balanced '
             'top-level evaluator to every history by induction; define_global_at_top; run_fresh / run_fresh_context (the state Wal.run starts from '
             'is a function of the loaded traces alone, everything else as on a fresh interpreter, every trace at index 0). Global (induction on the fuel through every '
             'operator): history_env_balanced / history_from_fresh_at_global (environment and frame-heap well-formedness after any history, unconditionally), '
             'eval_balanced / toplevel_balanced / history_balanced (every evaluation that completes without executing set-scope / unset-scope - Bal.evalR, a proven '
             'restriction of eval - leaves captured scope, captured group and the stack of saved positions as they were; from the top-level context back to it after any history). Correspondence: histories '
             'of nested constructs with context probes after every evaluation, Wal.run after a history vs a new interpreter; keyword bindings for '
             'all subsets of pre-defined/fresh names (implementation-side oracle). Props/C17_Neutral.lean (over Lemmas/Neu.lean): completed_evaluation_leaves_traces_and_context and history_leaves_traces_and_context — every evaluation (and every history of evaluations) the restricted evaluator evalN completes (eval without step, sample-at, unload, set-scope, unset-scope) returns with the same loaded traces, every trace at the index it had, the captured scope and group as before and no saved position pending.',
        ref='DESIGN.md §6 C17', note='The global theorem speaks about evaluations that do not execute set-scope / unset-scope (stated through the restricted evaluator evalR with evalR_sub); the '
             'globals CS / CG are ordinary variables a program may assign and are compared by the correspondence only. Keyword bindings of Wal.eval are Python glue: covered by the oracle only, not modelled.',
        technique='Lean 4 proof (balance of every evaluation by induction on fuel over all operators, per-operator restore laws, induction over histories) + correspondence and fresh-interpreter differential'),
    'C16': dict(
        text='About the model\'s passes: resolve_recomputes / resolve_symbol_idem (the annotation of a symbol depends on the scope stack only, so '
             'resolving an already resolved symbol gives the same annotation), quoted data and atoms are fixed points of every pass '
             '(resolve_quote_fixed, optimize_quote_fixed, optimize_atom_fixed, expand_quote_fixed, expand_atom_fixed), optimize_lit_result_fixed, '
             'pipeline_def (Wal.eval = expand, optimize, resolve, eval), kernel-evaluated idempotence of the whole front end on library code '
             '(twice_eq_once_for / cond / let over the regenerated std.wal) and second_pass_witness (the one shape on which a second optimize is '
             'not the identity), pipeline_fuel_irrelevant (two completed runs of a form through the passes give the same value and state whatever fuel the model was given: '
             'walEval is monotone in the fuel, by evalStep_mono through every operator). Correspondence and search: generated multi-form programs run four ways (API, python -m wal file, -c, walc + .wo) as '
             'subprocesses: stdout, exit status, final trace position; the API run is also compared with the model.',
        ref='DESIGN.md §6 C16', note='partial: argparse, pickle, process exit codes and file handling are runtime behaviour, exercised by the subprocess differential only. General idempotence of '
             'optimize is false on heads that optimise into an operator (witness proved); general resolve/expand idempotence is not proved.',
        technique='Lean 4 proof (fixed-point and recomputation lemmas, kernel-evaluated idempotence on library code) + four-path subprocess differential'),
    'C10': dict(
        text='About the recursive-descent reader model: read_total (by type: expression, the parse error, or unsupported - nothing else), '
             'read_consumes_all, dec_value (every decimal numeral of any length lexes to the number it denotes, via core\'s ofDigitChars_ten_toDigits), '
             'natOfDigits_ten, hexDigitVal_dec, toDigits_all_dig, natOfDigits_append, unescape_plain, unescape_escape (for every ASCII string the '
             'reader\'s unescaping inverts the printer\'s escaping), kernel-evaluated literals in every position (top level, list, after quote, @ '
             'offset, slice bounds, 0x / 0b / signed decimal, 50-digit numerals), layouts, comments and rejected texts. Correspondence: 4000+ random, '
             'grammar-generated and mutated texts through the real Lark reader and the model; search oracle = totality (only ParseError), literal '
             'denotation by position, layout invariance, whole-input consumption, shebang.',
        ref='DESIGN.md §6 C10', note='The Lark LALR tables / contextual lexer are not translated: the model is a hand-written recursive descent whose agreement with the real reader is by correspondence only. '
             'Floats denote float(text) (compared by bits); non-ASCII input and exotic string escapes are unsupported in the model (skipped, counted).',
        technique='Lean 4 proof (numeral and escaping lemmas, totality by type) + reader correspondence and literal/ layout oracles'),
    'C11': dict(
        text='stringBody_plain / stringBody_pair / stringBody_escape and string_token_roundtrip (for every ASCII string, incl. quote, backslash, newline, '
             'tab: the printed literal followed by any text scans back to exactly that string and that rest), dec_roundtrip, kernel-evaluated round '
             'trips over all expression shapes and the shorthand equations (e@k ~s #s e[i] e[h:l] quote forms, three bracket pairs, nested '
             'operands). Correspondence: generated expressions: Lean printer vs wal_str text, Lean reader vs Lark; search oracle = read(print(read(src))) '
             '== read(src) and shorthand text vs long-form text on the implementation.',
        ref='DESIGN.md §6 C11', note='partial: the general theorem read(walStr e) = e for all readable e is proved on the reduced grammar of the prototype (notes/prototypes/lean/RT.lean) only; on the full grammar the '
             'string and numeral tokens are proved, the rest is by correspondence. ~s with an operator-named s keeps the symbol (long form reads the operator): outside the quantifier.',
        technique='Lean 4 proof (token-level round trip for strings and numerals) + printer/reader correspondence and round-trip oracle'),
    'C20': dict(
        text='Theorems over the model of wawk/ast_defs.py and the operator constructors of TreeToWal: emit_shape / emit_begin_first_end_last / '
             'emit_no_patterns (pre-definitions and BEGIN actions first, at most one whenever loop, END actions last, nothing else), '
             'main_loop_in_source_order / pattern_order (k-th when = k-th pattern statement), and_runs_iff_all (for neutral conditions (&& c1..cn) '
             'is true exactly when all are truthy), chainl_value (left-to-right value of an operator chain), transpile_bin / transpile_chain_head '
             '(binary nodes, no re-association); parse_pp / parse_pp_at (token-level model of the stratified operator grammar: every expression tree written '
             'with exactly the necessary parentheses parses back to itself, by induction over the tree, all sizes and nestings - left to right, '
             '* / over + -, comparisons below arithmetic, && over ||, ! tightest). Correspondence: generated WAWK programs: AST.emit vs the Lean emit, then every emitted form through '
             'the model evaluator vs Wal.eval (value, printed text, final state). Oracle: stdout of the emitted program vs a direct AWK-style '
             'reference evaluation of the generated tree; wawk -o text read back vs the emitted forms; sampled runs of the real wawk / wal command '
             'line tools (direct execution vs -o then wal).',
        ref='DESIGN.md §6 C20, §16', note='partial: Lark\'s Earley engine is not modelled; that parse_wawk agrees with the token-level grammar model (parseExpr) and with the generating tree '
             'is decided by the correspondence and the oracle over generated operator expressions and programs. Comparisons and ! are written parenthesised (their binding relative to the other operators is not stated by the property); '
             'integer-literal array keys (ambiguous with bit selection) and division are outside the generated fragment.',
        technique='Lean 4 proof (shape of the emitted program, && semantics, left-fold value of chains) + emit/evaluator correspondence + reference-evaluation oracle'),
}

REASONS_PENDING = 'check under construction in this round (DESIGN.md §13 build order); not a claim of inapplicability'


def main():
    props = [json.loads(l) for l in open(os.path.join(VERIF, 'properties.jsonl'))]
    checks = []
    na = []
    for p in props:
        pid = p['id']
        if pid in CLAIMED:
            c = CLAIMED[pid]
            checks.append({
                'property_id': pid,
                'quick_cmd': f'./check {pid} --tier quick',
                'thorough_cmd': f'./check {pid} --tier thorough',
                'evidence_file': f'/verif/evidence/{pid}.json',
                'replay_cmd_template': f'./check {pid} --replay {{path}}',
                'engine': 'lean4-model+correspondence',
                'level_claimed': {'category': 'proof', 'text': c['text'], 'design_ref': c['ref']},
                'level_note': LEVEL_NOTE + c['note'],
                'technique': c['technique'],
            })
        else:
            na.append({'property_id': pid, 'reason': REASONS_PENDING})
    m = {
        'version': 1,
        'setup_cmd': 'cd /verif && ./setup.sh',
        'hooks': {
            'guard': 'ICS_JKU_WAL_VERIF',
            'enable': 'no hooks: every observation point is reachable through the public API or by in-process attribute reads; '
                      'the guard name is reserved and unused',
            'baseline_off_cmd': 'cd /repo && /venv/bin/python -m pytest -ra -q -p no:cacheprovider --timeout=900 --continue-on-collection-errors',
            'source_commits': [],
            'add_only': True,
        },
        'engines': [{
            'name': 'lean4-model+correspondence', 'path': '/verif/check',
            'serves_properties': sorted(CLAIMED),
            'kind_free_text': 'Lean 4 theorems over a hand-written executable model (lean/Wal), re-elaborated and axiom-audited on every run; '
                              'compiled model driver (lean_exe walmodel) vs the real Python code in-process on generated inputs; '
                              'Python oracle per property for the failing-input search',
        }],
        'checks': checks,
        'not_applicable': na,
        'notes': 'See DESIGN.md. known_findings.json lists recorded findings and fixed defects; seeded/ holds confirmed seeded changes.',
    }
    json.dump(m, open(os.path.join(VERIF, 'MANIFEST.json'), 'w'), indent=1)
    print('MANIFEST.json:', len(checks), 'checks,', len(na), 'pending')


if __name__ == '__main__':
    main()
