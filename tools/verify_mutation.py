#!/usr/bin/env python3
"""Confirm a seeded change independently and keep it under /verif/seeded/<name>/.

usage: verify_mutation.py <dir with patch.diff, demo.py, meta.json> <name> [--check Cxx]

In a scratch worktree of /repo (removed afterwards): demo passes on the clean tree, patch applies,
demo fails on the changed tree, the pinned test suite still passes its 87 baseline tests.
"""
import json
import os
import shutil
import subprocess
import sys

src, name = sys.argv[1], sys.argv[2]
wt = f'/tmp/wtv/{name}'
os.makedirs('/tmp/wtv', exist_ok=True)
PY = '/venv/bin/python'


def sh(cmd, **kw):
    return subprocess.run(cmd, stdout=subprocess.PIPE, stderr=subprocess.STDOUT, **kw)


subprocess.run(['git', '-C', '/repo', 'worktree', 'remove', '--force', wt], stdout=subprocess.DEVNULL, stderr=subprocess.DEVNULL)
r = sh(['git', '-C', '/repo', 'worktree', 'add', '--detach', wt, 'HEAD'])
assert r.returncode == 0, r.stdout.decode()
env = dict(os.environ, PYTHONPATH=wt)
res = {'name': name}
try:
    demo = os.path.join(src, 'demo.py')
    r0 = sh(['timeout', '300', PY, demo], env=env, cwd='/tmp')
    res['demo_clean_exit'] = r0.returncode
    ra = sh(['git', '-C', wt, 'apply', '--3way', os.path.join(src, 'patch.diff')])
    res['applies'] = ra.returncode == 0
    if not res['applies']:
        res['apply_output'] = ra.stdout.decode()[-500:]
    else:
        r1 = sh(['timeout', '300', PY, demo], env=env, cwd='/tmp')
        res['demo_mutated_exit'] = r1.returncode
        res['demo_mutated_tail'] = r1.stdout.decode()[-400:]
        junit = f'/tmp/wtv/{name}.xml'
        rt = sh(['timeout', '1200', PY, '-m', 'pytest', 'tests', '-q', '-p', 'no:cacheprovider', '--timeout=900',
                 f'--junitxml={junit}'], env=env, cwd=wt)
        tail = rt.stdout.decode().strip().split('\n')[-1]
        res['pytest_tail'] = tail
        base = set(json.load(open('/root/.vp/BASELINE.json'))['stable_pass'])
        import xml.etree.ElementTree as ET
        passed = set()
        for tc in ET.parse(junit).getroot().iter('testcase'):
            if not list(tc):
                passed.add(f'{tc.get("classname")}::{tc.get("name")}')
        res['baseline_missing'] = sorted(base - passed)
        os.unlink(junit)
    ok = (res.get('demo_clean_exit') == 0 and res.get('applies') and res.get('demo_mutated_exit') not in (0, None, 124)
          and not res.get('baseline_missing'))
    res['confirmed'] = bool(ok)
    if ok:
        dst = f'/verif/seeded/{name}'
        os.makedirs(dst, exist_ok=True)
        # store the patch relative to the current /repo HEAD
        d = sh(['git', '-C', wt, 'diff', 'HEAD'])
        open(os.path.join(dst, 'patch.diff'), 'wb').write(d.stdout)
        shutil.copy(demo, os.path.join(dst, 'demo.py'))
        meta = json.load(open(os.path.join(src, 'meta.json')))
        meta['verified'] = {'demo_clean_exit': 0, 'demo_mutated_exit': res['demo_mutated_exit'], 'pytest': res['pytest_tail'],
                            'baseline_87_pass': True,
                            'ran': 'tools/verify_mutation.py in a scratch worktree of /repo HEAD (removed afterwards)'}
        json.dump(meta, open(os.path.join(dst, 'meta.json'), 'w'), indent=1)
finally:
    subprocess.run(['git', '-C', '/repo', 'worktree', 'remove', '--force', wt], stdout=subprocess.DEVNULL, stderr=subprocess.DEVNULL)
print(json.dumps(res))
