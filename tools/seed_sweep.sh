#!/bin/sh
# usage: tools/seed_sweep.sh <tier> <seed> [<seed> ...]   — every check on the tree as it is, once per seed; prints one line per run
tier="$1"; shift
cd "$(dirname "$0")/.." || exit 2
for seed in "$@"; do
  for p in C01 C02 C03 C04 C05 C06 C07 C08 C09 C10 C11 C12 C13 C14 C15 C16 C17 C18 C19 C20; do
    out=$(VERIF_SEED=$seed ./check $p --tier "$tier" 2>&1); rc=$?
    echo "seed=$seed $p rc=$rc $(echo "$out" | grep -E "^\[$p\] tier" | tail -1)"
    [ $rc -ne 0 ] && echo "$out" | grep -E "VIOLATION|INFRA|first violation" | head -5
  done
done
