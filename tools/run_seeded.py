#!/usr/bin/env python3
"""Run every kept seeded change against the check of its property and record what reported it.

usage: run_seeded.py [name ...]       (default: all directories under /verif/seeded)

For each: git -C /repo apply --3way seeded/<name>/patch.diff, ./check <Cxx> (quick), undo straight afterwards
(git -C /repo checkout HEAD -- .). Results go to seeded/RESULTS.json (the table in DESIGN.md §16 is written from it).
/repo must be clean and no other check may be running.
"""
import json
import os
import re
import subprocess
import sys
import time

VERIF = os.path.abspath(os.path.join(os.path.dirname(os.path.abspath(__file__)), '..'))
SEEDED = os.path.join(VERIF, 'seeded')


def sh(cmd, **kw):
    return subprocess.run(cmd, stdout=subprocess.PIPE, stderr=subprocess.STDOUT, **kw)


def main():
    names = sys.argv[1:] or sorted(d for d in os.listdir(SEEDED) if os.path.isdir(os.path.join(SEEDED, d)))
    assert sh(['git', '-C', '/repo', 'status', '--porcelain']).stdout.strip() == b'', '/repo is not clean'
    out_path = os.path.join(SEEDED, 'RESULTS.json')
    results = json.load(open(out_path)) if os.path.exists(out_path) else {}
    for name in names:
        d = os.path.join(SEEDED, name)
        pid = json.load(open(os.path.join(d, 'meta.json')))['property']
        t0 = time.time()
        r = sh(['git', '-C', '/repo', 'apply', '--3way', os.path.join(d, 'patch.diff')])
        if r.returncode != 0:
            results[name] = {'property': pid, 'applies': False}
            sh(['git', '-C', '/repo', 'checkout', 'HEAD', '--', '.'])
            print(name, 'patch does not apply')
            continue
        try:
            c = sh([os.path.join(VERIF, 'check'), pid, '--tier', 'quick'], cwd=VERIF,
                   env=dict(os.environ, VERIF_EVIDENCE_DIR='/tmp/seeded-evidence'))
        finally:
            sh(['git', '-C', '/repo', 'checkout', 'HEAD', '--', '.'])
        text = c.stdout.decode('utf-8', 'replace')
        viol = [ln for ln in text.split('\n') if ln.startswith('VIOLATION')]
        summ = [ln for ln in text.split('\n') if re.match(r'\[C\d\d\] tier=', ln)]
        lean = [ln for ln in text.split('\n') if 'lean phase' in ln]
        m = re.search(r'diff=(\d+) oracle-violations=(\d+)', summ[0]) if summ else None
        res = {'property': pid, 'applies': True, 'exit': c.returncode, 'violations': len(viol),
               'with_failing_input': sum(1 for v in viol if 'no-failing-input-found' not in v),
               'correspondence_diffs': int(m.group(1)) if m else None, 'oracle_violations': int(m.group(2)) if m else None,
               'lean_phase_ok': ('ok=True' in lean[0]) if lean else None, 'seconds': round(time.time() - t0, 1)}
        what = []
        if res['lean_phase_ok'] is False:
            what.append('proof obligation')
        if res['correspondence_diffs']:
            what.append('correspondence')
        if res['oracle_violations']:
            what.append('oracle (failing input)')
        res['reported_by'] = what
        results[name] = res
        print(name, res)
        json.dump(results, open(out_path, 'w'), indent=1, sort_keys=True)
    assert sh(['git', '-C', '/repo', 'status', '--porcelain']).stdout.strip() == b''


if __name__ == '__main__':
    main()
