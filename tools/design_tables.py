#!/usr/bin/env python3
"""Rewrite the generated tables of DESIGN.md §16 (between the marker comments) from known_findings.json and seeded/RESULTS.json."""
import json
import os
import re

VERIF = os.path.abspath(os.path.join(os.path.dirname(os.path.abspath(__file__)), '..'))


def esc(t):
    return t.replace('|', '\\|').replace('\n', ' ')


def fixes():
    d = json.load(open(os.path.join(VERIF, 'known_findings.json')))
    rows = ['| Property | Commit | What failed (input) |', '|---|---|---|']
    for f in d['fixed']:
        m = re.match(r'fixed: property=(\S+) (\S+) (.*)', f, re.S)
        rows.append(f'| {m.group(1).replace(",", ", ")} | {m.group(2)} | {esc(m.group(3))} |')
    return '\n'.join(rows), len(d['fixed'])


def seeded():
    r = json.load(open(os.path.join(VERIF, 'seeded', 'RESULTS.json')))
    rows = ['| Change | Property | What was changed (short) | Reported by | Failing input |', '|---|---|---|---|---|']
    for k in sorted(r):
        v = r[k]
        m = json.load(open(os.path.join(VERIF, 'seeded', k, 'meta.json')))
        s = esc(m['summary'])
        if len(s) > 150:
            s = s[:147] + '...'
        by = ', '.join(x.replace(' (failing input)', '') for x in v.get('reported_by', [])) or '—'
        rows.append(f"| {k} | {v['property']} | {s} | {by} | {'yes' if v.get('with_failing_input') else 'no'} |")
    n = len(r)
    nf = sum(1 for v in r.values() if v.get('with_failing_input'))
    return '\n'.join(rows), n, nf


def main():
    p = os.path.join(VERIF, 'DESIGN.md')
    s = open(p).read()
    ft, nfix = fixes()
    st, n, nf = seeded()
    for name, body in (('FIXES', ft), ('SEEDED', st)):
        a, b = f'<!-- {name}-TABLE-BEGIN -->', f'<!-- {name}-TABLE-END -->'
        assert a in s and b in s, name
        s = s[:s.index(a) + len(a)] + '\n' + body + '\n' + s[s.index(b):]
    open(p, 'w').write(s)
    print('fixes:', nfix, 'seeded:', n, 'with failing input:', nf)


if __name__ == '__main__':
    main()
