#!/bin/sh
# usage: tools/try_mutation.sh <patch.diff> <Cxx> [tier]  — apply to /repo, run the check, undo straight afterwards
patch="$1"; pid="$2"; tier="${3:-quick}"
git -C /repo apply --3way "$patch" >/dev/null 2>&1 || { echo "patch does not apply"; exit 3; }
cd /verif && ./check "$pid" --tier "$tier" > /tmp/try_mut.log 2>&1
rc=$?
git -C /repo checkout HEAD -- .
grep -E "VIOLATION|KNOWN-FINDING|INFRA|^\[$pid\] tier" /tmp/try_mut.log | head -8
echo "exit=$rc"
