#!/bin/sh
# usage: tools/process_round.sh <dir with Cxx/{C,D,E}/> — confirm each new seeded change in a scratch worktree, keep the confirmed ones
# under seeded/<Cxx>-<X>/, then run the quick check of its property against it (tools/run_seeded.py). Skips what is already in RESULTS.json.
src="$1"; cd "$(dirname "$0")/.." || exit 2
for d in "$src"/C??/[A-Z]; do
  [ -f "$d/patch.diff" ] && [ -f "$d/demo.py" ] && [ -f "$d/meta.json" ] || continue
  pid=$(basename "$(dirname "$d")"); x=$(basename "$d"); name="$pid-$x"
  grep -q "\"$name\"" seeded/RESULTS.json 2>/dev/null && continue
  [ -f "$src/$name.verify" ] || /venv/bin/python tools/verify_mutation.py "$d" "$name" > "$src/$name.verify" 2>&1
  if grep -q '"confirmed": true' "$src/$name.verify"; then
    /venv/bin/python tools/run_seeded.py "$name" 2>&1 | tail -1
  else
    echo "$name NOT CONFIRMED: $(tail -1 "$src/$name.verify" | cut -c1-300)"
  fi
done
