import Wal.Lemmas.Bal
namespace Wal.Opt
open Wal

theorem optList_length : ∀ (l : List Sx), (optList l).length = l.length := by
  intro l; induction l with
  | nil => simp [optList]
  | cons a r ih => simp [optList, ih]

theorem optList_cons (a : Sx) (r : List Sx) : optList (a :: r) = optimize a :: optList r := by simp [optList]
theorem optList_nil : optList [] = [] := by simp [optList]

theorem opt_int (i : Int) : optimize (.int i) = .int i := by simp [optimize]
theorem opt_bool (b : Bool) : optimize (.bool b) = .bool b := by simp [optimize]
theorem opt_str (x : String) : optimize (.str x) = .str x := by simp [optimize]
theorem opt_sym (x : String) (k : Option Nat) : optimize (.sym x k) = .sym x k := by simp [optimize]
theorem opt_flt (b : UInt64) : optimize (.flt b) = .flt b := by simp [optimize]

theorem opt_pair (n : String) (k : Option Nat) (e : Sx) :
    optimize (.list true [.sym n k, e]) = .list true [.sym n k, optimize e] := by
  simp [optimize, optList]

/-- a list of well-formed binding pairs is optimised pair by pair -/
theorem opt_pairs (p : Sx) (ps : List Sx) (hp : ∃ n k e, p = .list true [.sym n k, e]) :
    optimize (.list true (p :: ps)) = .list true (optList (p :: ps)) := by
  obtain ⟨n, k, e, rfl⟩ := hp
  simp [optimize, optList]

section
variable (recF rec : St → Sx → Res)
  (hsub : ∀ st e r, recF st e = .ok r → rec st e = .ok r)
  (hm : ∀ st e r, recF st e = .ok r → rec st (optimize e) = .ok r)
include hsub hm

theorem evalList_cong : ∀ (as : List Sx) (st : St) (r : List Sx × St),
    evalList recF st as = .ok r → evalList rec st (optList as) = .ok r := by
  intro as
  induction as with
  | nil => intro st r h; simpa [evalList, optList] using h
  | cons a as ih =>
    intro st r h
    simp only [optList_cons, evalList, Glob.bind_ok] at h ⊢
    obtain ⟨⟨v, st1⟩, h1, ⟨ws, st2⟩, h2, h3⟩ := h
    exact ⟨(v, st1), hm _ _ _ h1, (ws, st2), ih _ _ h2, h3⟩


/-- closes a congruence case: split the hypothesis, reduce `optList` on the argument pattern, let `grind` transport
the completed sub-evaluations (`hm` for operands, `hsub` for stored code, the loop lemmas in context) -/
syntax "cong_tac" ident : tactic
set_option hygiene false in
macro_rules
  | `(tactic| cong_tac $h:ident) => `(tactic| (
      try simp only [bind, Except.bind, pure, Except.pure, ofOpt] at $h:ident ⊢
      repeat' (split at $h:ident)
      all_goals try (simp at $h:ident; done)
      all_goals (first
        | (grind [optList_cons, optList_nil, optList_length, opt_int, opt_bool, opt_str, opt_sym, opt_flt])
        | (simp only [optList_cons, optList_nil, optList_length, opt_int, opt_bool, opt_str, opt_sym, opt_flt] at *; grind))))

theorem opNot_cong  (st : St) (args : List Sx) (r : Sx × St)
    (h : opNot  recF st args = .ok r) : opNot  rec st (optList args) = .ok r := by
  have hl := evalList_cong recF rec hsub hm
  unfold opNot at h ⊢
  cong_tac h

theorem opEq_cong (neg : Bool) (st : St) (args : List Sx) (r : Sx × St)
    (h : opEq neg recF st args = .ok r) : opEq neg rec st (optList args) = .ok r := by
  have hl := evalList_cong recF rec hsub hm
  unfold opEq at h ⊢
  cong_tac h

theorem opCmp_cong (op : CmpOp) (st : St) (args : List Sx) (r : Sx × St)
    (h : opCmp op recF st args = .ok r) : opCmp op rec st (optList args) = .ok r := by
  have hl := evalList_cong recF rec hsub hm
  unfold opCmp at h ⊢
  cong_tac h

theorem opPrint_cong  (st : St) (args : List Sx) (r : Sx × St)
    (h : opPrint  recF st args = .ok r) : opPrint  rec st (optList args) = .ok r := by
  have hl := evalList_cong recF rec hsub hm
  unfold opPrint at h ⊢
  cong_tac h

theorem opIf_cong  (st : St) (args : List Sx) (r : Sx × St)
    (h : opIf  recF st args = .ok r) : opIf  rec st (optList args) = .ok r := by
  have hl := evalList_cong recF rec hsub hm
  unfold opIf at h ⊢
  cong_tac h

theorem opDo_cong  (st : St) (args : List Sx) (r : Sx × St)
    (h : opDo  recF st args = .ok r) : opDo  rec st (optList args) = .ok r := by
  have hl := evalList_cong recF rec hsub hm
  unfold opDo at h ⊢
  cong_tac h

theorem opType_cong  (st : St) (args : List Sx) (r : Sx × St)
    (h : opType  recF st args = .ok r) : opType  rec st (optList args) = .ok r := by
  have hl := evalList_cong recF rec hsub hm
  unfold opType at h ⊢
  cong_tac h

theorem opSlice_cong  (st : St) (args : List Sx) (r : Sx × St)
    (h : opSlice  recF st args = .ok r) : opSlice  rec st (optList args) = .ok r := by
  have hl := evalList_cong recF rec hsub hm
  unfold opSlice at h ⊢
  cong_tac h

theorem opExit_cong  (st : St) (args : List Sx) (r : Sx × St)
    (h : opExit  recF st args = .ok r) : opExit  rec st (optList args) = .ok r := by
  have hl := evalList_cong recF rec hsub hm
  unfold opExit at h ⊢
  cong_tac h

theorem opAdd_cong  (st : St) (args : List Sx) (r : Sx × St)
    (h : opAdd  recF st args = .ok r) : opAdd  rec st (optList args) = .ok r := by
  have hl := evalList_cong recF rec hsub hm
  unfold opAdd at h ⊢
  cong_tac h

theorem opSub_cong  (st : St) (args : List Sx) (r : Sx × St)
    (h : opSub  recF st args = .ok r) : opSub  rec st (optList args) = .ok r := by
  have hl := evalList_cong recF rec hsub hm
  unfold opSub at h ⊢
  cong_tac h

theorem opMul_cong  (st : St) (args : List Sx) (r : Sx × St)
    (h : opMul  recF st args = .ok r) : opMul  rec st (optList args) = .ok r := by
  have hl := evalList_cong recF rec hsub hm
  unfold opMul at h ⊢
  cong_tac h

theorem opDiv_cong  (st : St) (args : List Sx) (r : Sx × St)
    (h : opDiv  recF st args = .ok r) : opDiv  rec st (optList args) = .ok r := by
  have hl := evalList_cong recF rec hsub hm
  unfold opDiv at h ⊢
  cong_tac h

theorem opExp_cong  (st : St) (args : List Sx) (r : Sx × St)
    (h : opExp  recF st args = .ok r) : opExp  rec st (optList args) = .ok r := by
  have hl := evalList_cong recF rec hsub hm
  unfold opExp at h ⊢
  cong_tac h

theorem opRoundLike_cong  (st : St) (args : List Sx) (r : Sx × St)
    (h : opRoundLike  recF st args = .ok r) : opRoundLike  rec st (optList args) = .ok r := by
  have hl := evalList_cong recF rec hsub hm
  unfold opRoundLike at h ⊢
  cong_tac h

theorem opMod_cong  (st : St) (args : List Sx) (r : Sx × St)
    (h : opMod  recF st args = .ok r) : opMod  rec st (optList args) = .ok r := by
  have hl := evalList_cong recF rec hsub hm
  unfold opMod at h ⊢
  cong_tac h

theorem opBitwise_cong (f : Int → Int → Int) (fb : Bool → Bool → Bool) (st : St) (args : List Sx) (r : Sx × St)
    (h : opBitwise f fb recF st args = .ok r) : opBitwise f fb rec st (optList args) = .ok r := by
  have hl := evalList_cong recF rec hsub hm
  unfold opBitwise at h ⊢
  cong_tac h

theorem opIsDefined_cong  (st : St) (args : List Sx) (r : Sx × St)
    (h : opIsDefined  recF st args = .ok r) : opIsDefined  rec st (optList args) = .ok r := by
  have hl := evalList_cong recF rec hsub hm
  unfold opIsDefined at h ⊢
  cong_tac h

theorem opAllPred_cong (p : Sx → Bool) (st : St) (args : List Sx) (r : Sx × St)
    (h : opAllPred p recF st args = .ok r) : opAllPred p rec st (optList args) = .ok r := by
  have hl := evalList_cong recF rec hsub hm
  unfold opAllPred at h ⊢
  cong_tac h

theorem opConvertBin_cong  (st : St) (args : List Sx) (r : Sx × St)
    (h : opConvertBin  recF st args = .ok r) : opConvertBin  rec st (optList args) = .ok r := by
  have hl := evalList_cong recF rec hsub hm
  unfold opConvertBin at h ⊢
  cong_tac h

theorem opStringToInt_cong  (st : St) (args : List Sx) (r : Sx × St)
    (h : opStringToInt  recF st args = .ok r) : opStringToInt  rec st (optList args) = .ok r := by
  have hl := evalList_cong recF rec hsub hm
  unfold opStringToInt at h ⊢
  cong_tac h

theorem opBitsToSint_cong  (st : St) (args : List Sx) (r : Sx × St)
    (h : opBitsToSint  recF st args = .ok r) : opBitsToSint  rec st (optList args) = .ok r := by
  have hl := evalList_cong recF rec hsub hm
  unfold opBitsToSint at h ⊢
  cong_tac h

theorem opSymbolToString_cong  (st : St) (args : List Sx) (r : Sx × St)
    (h : opSymbolToString  recF st args = .ok r) : opSymbolToString  rec st (optList args) = .ok r := by
  have hl := evalList_cong recF rec hsub hm
  unfold opSymbolToString at h ⊢
  cong_tac h

theorem opStringToSymbol_cong  (st : St) (args : List Sx) (r : Sx × St)
    (h : opStringToSymbol  recF st args = .ok r) : opStringToSymbol  rec st (optList args) = .ok r := by
  have hl := evalList_cong recF rec hsub hm
  unfold opStringToSymbol at h ⊢
  cong_tac h

theorem opIntToString_cong  (st : St) (args : List Sx) (r : Sx × St)
    (h : opIntToString  recF st args = .ok r) : opIntToString  rec st (optList args) = .ok r := by
  have hl := evalList_cong recF rec hsub hm
  unfold opIntToString at h ⊢
  cong_tac h

theorem opList_cong  (st : St) (args : List Sx) (r : Sx × St)
    (h : opList  recF st args = .ok r) : opList  rec st (optList args) = .ok r := by
  have hl := evalList_cong recF rec hsub hm
  unfold opList at h ⊢
  cong_tac h

theorem opListAccess_cong (sel : Bool → List Sx → Except Err Sx) (st : St) (args : List Sx) (r : Sx × St)
    (h : opListAccess sel recF st args = .ok r) : opListAccess sel rec st (optList args) = .ok r := by
  have hl := evalList_cong recF rec hsub hm
  unfold opListAccess at h ⊢
  cong_tac h

theorem opIn_cong  (st : St) (args : List Sx) (r : Sx × St)
    (h : opIn  recF st args = .ok r) : opIn  rec st (optList args) = .ok r := by
  have hl := evalList_cong recF rec hsub hm
  unfold opIn at h ⊢
  cong_tac h

theorem opMaxMin_cong (isMax : Bool) (st : St) (args : List Sx) (r : Sx × St)
    (h : opMaxMin isMax recF st args = .ok r) : opMaxMin isMax rec st (optList args) = .ok r := by
  have hl := evalList_cong recF rec hsub hm
  unfold opMaxMin at h ⊢
  cong_tac h

theorem opAverage_cong  (st : St) (args : List Sx) (r : Sx × St)
    (h : opAverage  recF st args = .ok r) : opAverage  rec st (optList args) = .ok r := by
  have hl := evalList_cong recF rec hsub hm
  unfold opAverage at h ⊢
  cong_tac h

theorem opLength_cong  (st : St) (args : List Sx) (r : Sx × St)
    (h : opLength  recF st args = .ok r) : opLength  rec st (optList args) = .ok r := by
  have hl := evalList_cong recF rec hsub hm
  unfold opLength at h ⊢
  cong_tac h

theorem opZip_cong  (st : St) (args : List Sx) (r : Sx × St)
    (h : opZip  recF st args = .ok r) : opZip  rec st (optList args) = .ok r := by
  have hl := evalList_cong recF rec hsub hm
  unfold opZip at h ⊢
  cong_tac h

theorem opRange_cong  (st : St) (args : List Sx) (r : Sx × St)
    (h : opRange  recF st args = .ok r) : opRange  rec st (optList args) = .ok r := by
  have hl := evalList_cong recF rec hsub hm
  unfold opRange at h ⊢
  cong_tac h

theorem opUnload_cong  (st : St) (args : List Sx) (r : Sx × St)
    (h : opUnload  recF st args = .ok r) : opUnload  rec st (optList args) = .ok r := by
  have hl := evalList_cong recF rec hsub hm
  unfold opUnload at h ⊢
  cong_tac h

theorem opIsSignal_cong  (st : St) (args : List Sx) (r : Sx × St)
    (h : opIsSignal  recF st args = .ok r) : opIsSignal  rec st (optList args) = .ok r := by
  have hl := evalList_cong recF rec hsub hm
  unfold opIsSignal at h ⊢
  cong_tac h

theorem opSignalWidth_cong  (st : St) (args : List Sx) (r : Sx × St)
    (h : opSignalWidth  recF st args = .ok r) : opSignalWidth  rec st (optList args) = .ok r := by
  have hl := evalList_cong recF rec hsub hm
  unfold opSignalWidth at h ⊢
  cong_tac h

theorem opTrimTrace_cong  (st : St) (args : List Sx) (r : Sx × St)
    (h : opTrimTrace  recF st args = .ok r) : opTrimTrace  rec st (optList args) = .ok r := by
  have hl := evalList_cong recF rec hsub hm
  unfold opTrimTrace at h ⊢
  cong_tac h

theorem letBind_cong (fid : Nat) : ∀ (as : List Sx) (st : St) (r : St),
    letBind recF fid st as = .ok r → letBind rec fid st (optList as) = .ok r := by
  intro as
  induction as with
  | nil => intro st r h; simpa [letBind, optList] using h
  | cons a as ih =>
    intro st r h
    unfold letBind at h
    simp only [bind, Except.bind] at h
    repeat' (split at h)
    all_goals try (simp at h; done)
    all_goals (subst_vars; simp only [optList_cons, opt_pair]; unfold letBind; simp only [bind, Except.bind]; grind)

theorem letBind_shape (fid : Nat) (p : Sx) (ps : List Sx) (st : St) (r : St)
    (h : letBind recF fid st (p :: ps) = .ok r) : ∃ n k e, p = .list true [.sym n k, e] := by
  unfold letBind at h
  split at h
  · exact ⟨_, _, _, rfl⟩
  · simp at h

theorem opLet_cong (st : St) (args : List Sx) (r : Sx × St)
    (h : opLet recF st args = .ok r) : opLet rec st (optList args) = .ok r := by
  have hl := evalList_cong recF rec hsub hm
  have hb := letBind_cong recF rec hsub hm
  unfold opLet at h
  split at h
  · rename_i pairs body
    simp only [bind, Except.bind, pure, Except.pure] at h
    have hopt : optimize (.list true pairs) = .list true (optList pairs) := by
      cases pairs with
      | nil => simp [optimize, optList]
      | cons p ps =>
        apply opt_pairs
        cases hlb : letBind recF (st.pushFrame (some st.env) []).2 { (st.pushFrame (some st.env) []).1 with env := (st.pushFrame (some st.env) []).2 } (p :: ps) with
        | error e => simp [hlb] at h
        | ok st1 => exact letBind_shape recF rec hsub hm _ _ _ _ _ hlb
    simp only [optList_cons, hopt]
    unfold opLet
    simp only [bind, Except.bind, pure, Except.pure]
    repeat' (split at h)
    all_goals try (simp at h; done)
    grind
  · simp at h

theorem setLoop_cong : ∀ (as : List Sx) (st : St) (l : Sx) (r : Sx × St),
    setLoop recF st as l = .ok r → setLoop rec st (optList as) l = .ok r := by
  intro as
  induction as with
  | nil => intro st l r h; simpa [setLoop, optList] using h
  | cons a as ih =>
    intro st l r h
    unfold setLoop at h
    simp only [bind, Except.bind, pure, Except.pure, ofOpt] at h
    repeat' (split at h)
    all_goals try (simp at h; done)
    all_goals (subst_vars; simp only [optList_cons, opt_pair]; unfold setLoop; simp only [bind, Except.bind, pure, Except.pure, ofOpt]; grind)

theorem opSet_cong (st : St) (args : List Sx) (r : Sx × St)
    (h : opSet recF st args = .ok r) : opSet rec st (optList args) = .ok r := by
  have hl := setLoop_cong recF rec hsub hm
  unfold opSet at h ⊢
  cong_tac h

theorem opDefine_cong (st : St) (args : List Sx) (r : Sx × St)
    (h : opDefine recF st args = .ok r) : opDefine rec st (optList args) = .ok r := by
  unfold opDefine at h ⊢
  cong_tac h

theorem opAlias_cong (st : St) (args : List Sx) (r : Sx × St)
    (h : opAlias recF st args = .ok r) : opAlias rec st (optList args) = .ok r := by
  unfold opAlias at h ⊢
  cong_tac h

theorem opGet_cong (st : St) (args : List Sx) (r : Sx × St)
    (h : opGet recF st args = .ok r) : opGet rec st (optList args) = .ok r := by
  unfold opGet at h ⊢
  cong_tac h

theorem whileLoop_cong (c : Sx) (body : List Sx) : ∀ (k : Nat) (st : St) (l : Sx) (r : Sx × St),
    whileLoop recF c body k st l = .ok r → whileLoop rec (optimize c) (optList body) k st l = .ok r := by
  have hl := evalList_cong recF rec hsub hm
  intro k
  induction k with
  | zero => intro st l r h; unfold whileLoop at h; simp at h
  | succ k ih => intro st l r h; unfold whileLoop at h ⊢; cong_tac h

theorem opWhile_cong (n : Nat) (st : St) (args : List Sx) (r : Sx × St)
    (h : opWhile n recF st args = .ok r) : opWhile n rec st (optList args) = .ok r := by
  have hl := whileLoop_cong recF rec hsub hm
  unfold opWhile at h ⊢
  cong_tac h

end

theorem optClauses_true (k : Sx) (body cl : List Sx) :
    optClauses (.list true (k :: body) :: cl) = .list true (k :: optList body) :: optClauses cl := by
  simp [optClauses]

theorem optClauses_false (xs cl : List Sx) :
    optClauses (.list false xs :: cl) = .list false xs :: optClauses cl := by
  simp [optClauses]

section
variable (recF rec : St → Sx → Res)
  (hsub : ∀ st e r, recF st e = .ok r → rec st e = .ok r)
  (hm : ∀ st e r, recF st e = .ok r → rec st (optimize e) = .ok r)
include hsub hm

theorem evalList_sub : ∀ (as : List Sx) (st : St) (r : List Sx × St),
    evalList recF st as = .ok r → evalList rec st as = .ok r :=
  Mono.evalList_mono recF rec hsub

theorem caseLoop_cong (key : Sx) : ∀ (cl : List Sx) (st : St) (d : Sx) (r : Sx × St),
    caseLoop recF key st cl d = .ok r → caseLoop rec key st (optClauses cl) d = .ok r := by
  have hl := evalList_cong recF rec hsub hm
  have hl' := evalList_sub recF rec hsub hm
  intro cl
  induction cl with
  | nil => intro st d r h; simpa [caseLoop, optClauses] using h
  | cons c cl ih =>
    intro st d r h
    unfold caseLoop at h
    split at h
    · rename_i w k cons
      cases w with
      | true =>
        rw [optClauses_true]; unfold caseLoop
        cong_tac h
      | false =>
        rw [optClauses_false]; unfold caseLoop
        cong_tac h
    · simp at h

omit hsub hm in
theorem mapM_optClauses {β : Type} (g : Sx → Except Err β)
    (hg : ∀ k body, g (.list true (k :: optList body)) = g (.list true (k :: body))) :
    ∀ (cl : List Sx), (optClauses cl).mapM g = cl.mapM g := by
  intro cl
  induction cl with
  | nil => simp [optClauses]
  | cons c cl ih =>
    cases c with
    | list w xs =>
      cases w with
      | false => rw [optClauses_false]; simp only [List.mapM_cons, ih]
      | true =>
        cases xs with
        | nil => simp [optClauses, List.mapM_cons, ih]
        | cons k body => rw [optClauses_true]; simp only [List.mapM_cons, ih, hg]
    | _ => simp [optClauses, List.mapM_cons, ih]

theorem opCase_cong (st : St) (kf : Sx) (clauses : List Sx) (r : Sx × St)
    (h : opCase recF st (kf :: clauses) = .ok r) : opCase rec st (optimize kf :: optClauses clauses) = .ok r := by
  have hl := caseLoop_cong recF rec hsub hm
  unfold opCase at h ⊢
  simp only []
  rw [mapM_optClauses _ (by intro k body; rfl)]
  cong_tac h

theorem bindParams_cong (st : St) (params : Sx) (args : List Sx) (r : List (String × Sx) × St)
    (h : bindParams recF st params args = .ok r) : bindParams rec st params (optList args) = .ok r := by
  have hl := evalList_cong recF rec hsub hm
  unfold bindParams at h ⊢
  cong_tac h

theorem evalClosure_cong (st : St) (clo : Sx) (args : List Sx) (r : Sx × St)
    (h : evalClosure recF st clo args = .ok r) : evalClosure rec st clo (optList args) = .ok r := by
  have hl := bindParams_cong recF rec hsub hm
  unfold evalClosure at h ⊢
  cong_tac h

theorem readSignal_sub (st : St) (name scope : String) (r : Sx × St)
    (h : readSignal recF st name scope = .ok r) : readSignal rec st name scope = .ok r :=
  Mono.readSignal_mono recF rec hsub st name scope r h

theorem evalSym_sub (st : St) (name : String) (steps : Option Nat) (r : Sx × St)
    (h : evalSym recF st name steps = .ok r) : evalSym rec st name steps = .ok r :=
  Mono.evalSym_mono recF rec hsub st name steps r h

theorem opEval_cong (n : Nat) (st : St) (args : List Sx) (r : Sx × St)
    (h : opEval n recF st args = .ok r) : opEval n rec st (optList args) = .ok r := by
  have hl := (Mono.expand_mono recF rec hsub (some 0) n n (Nat.le_refl n)).1
  unfold opEval at h ⊢
  cong_tac h

theorem opMacroexpand_cong (n : Nat) (st : St) (args : List Sx) (r : Sx × St)
    (h : opMacroexpand n recF st args = .ok r) : opMacroexpand n rec st (optList args) = .ok r := by
  have hl := fun p => (Mono.expand_mono recF rec hsub p n n (Nat.le_refl n)).1
  unfold opMacroexpand at h ⊢
  cong_tac h

theorem opScoped_cong (st : St) (args : List Sx) (r : Sx × St)
    (h : opScoped recF st args = .ok r) : opScoped rec st (optList args) = .ok r := by
  unfold opScoped at h ⊢
  cong_tac h

theorem opResolveScope_cong (st : St) (args : List Sx) (r : Sx × St)
    (h : opResolveScope recF st args = .ok r) : opResolveScope rec st (optList args) = .ok r := by
  have hl := readSignal_sub recF rec hsub hm
  unfold opResolveScope at h ⊢
  cong_tac h

theorem opResolveGroup_cong (st : St) (args : List Sx) (r : Sx × St)
    (h : opResolveGroup recF st args = .ok r) : opResolveGroup rec st (optList args) = .ok r := by
  have hl := readSignal_sub recF rec hsub hm
  unfold opResolveGroup at h ⊢
  cong_tac h

theorem opInGroup_cong' (st : St) (g g' : Sx) (body : List Sx) (r : Sx × St)
    (hg : ∀ st r, recF st g = .ok r → rec st g' = .ok r)
    (h : opInGroup recF st (g :: body) = .ok r) : opInGroup rec st (g' :: optList body) = .ok r := by
  have hl := evalList_cong recF rec hsub hm
  cases body with
  | nil => simp [opInGroup] at h
  | cons b bs =>
    simp only [opInGroup, optList_cons, bind, Except.bind, pure, Except.pure] at h ⊢
    repeat' (split at h)
    all_goals try (simp at h; done)
    have h1 := hg _ _ ‹recF _ _ = Except.ok _›
    have h2 := hl _ _ _ ‹evalList recF _ _ = Except.ok _›
    simp only [optList_cons] at h2
    simp_all

theorem inGroupsLoop_cong (body : List Sx) : ∀ (gs : List Sx) (st : St) (l : Sx) (r : Sx × St),
    inGroupsLoop recF body st gs l = .ok r → inGroupsLoop rec (optList body) st gs l = .ok r := by
  have hg : ∀ st g r, opInGroup recF st (g :: body) = .ok r → opInGroup rec st (g :: optList body) = .ok r := by
    intro st g r hh
    exact opInGroup_cong' recF rec hsub hm st g g body r (fun st r hh => hsub _ _ _ hh) hh
  intro gs
  induction gs with
  | nil => intro st l r h; unfold inGroupsLoop at h ⊢; exact h
  | cons a as ih => intro st l r h; unfold inGroupsLoop at h ⊢; cong_tac h

theorem opInGroup_cong (st : St) (args : List Sx) (r : Sx × St)
    (h : opInGroup recF st args = .ok r) : opInGroup rec st (optList args) = .ok r := by
  cases args with
  | nil => simp [opInGroup] at h
  | cons g body =>
    rw [optList_cons]
    exact opInGroup_cong' recF rec hsub hm st g (optimize g) body r (fun st r hh => hm _ _ _ hh) h

theorem opInGroups_cong (st : St) (args : List Sx) (r : Sx × St)
    (h : opInGroups recF st args = .ok r) : opInGroups rec st (optList args) = .ok r := by
  have hl := inGroupsLoop_cong recF rec hsub hm
  unfold opInGroups at h ⊢
  cong_tac h

theorem allScopesLoop_cong (e : Sx) : ∀ (ss : List String) (st : St) (acc : List Sx) (r : List Sx × St),
    allScopesLoop recF e st ss acc = .ok r → allScopesLoop rec (optimize e) st ss acc = .ok r := by
  intro ss
  induction ss with
  | nil => intro st acc r h; unfold allScopesLoop at h ⊢; exact h
  | cons a as ih => intro st acc r h; unfold allScopesLoop at h ⊢; cong_tac h

theorem opAllScopes_cong (st : St) (e : Sx) (rest : List Sx) (r : Sx × St) (hok : revalArgOk (optimize e) = true)
    (h : opAllScopes recF st (e :: rest) = .ok r) : opAllScopes rec st (optimize e :: optList rest) = .ok r := by
  have hl := allScopesLoop_cong recF rec hsub hm
  unfold opAllScopes at h ⊢
  simp only [hok]
  cong_tac h

theorem opReval_cong (st : St) (e k : Sx) (r : Sx × St) (hok : revalArgOk (optimize e) = true)
    (h : opReval recF st [e, k] = .ok r) : opReval rec st [optimize e, optimize k] = .ok r := by
  unfold opReval at h ⊢
  simp only [hok]
  cong_tac h

theorem opMap_cong (hope : ∀ st o r, rec st (.op o) ≠ .ok r) (st : St) (args : List Sx) (r : Sx × St)
    (h : opMap recF st args = .ok r) : opMap rec st (optList args) = .ok r := by
  have hc := Mono.evalClosure_mono recF rec hsub
  have hl1 := fun o => Mono.mapLoop_mono (fun s x => recF s (.list true [.op o, quoteOf x])) (fun s x => rec s (.list true [.op o, quoteOf x]))
    (fun s x r hh => hsub _ _ _ hh)
  have hl2 := fun fv => Mono.mapLoop_mono (fun s x => evalClosure recF s fv [.list false [.op .QUOTE, x]])
    (fun s x => evalClosure rec s fv [.list false [.op .QUOTE, x]]) (fun s x r hh => hc _ _ _ _ hh)
  have hop : ∀ o, optimize (.op o) = .op o := fun o => by simp [optimize]
  unfold opMap at h ⊢
  simp only [bind, Except.bind, pure, Except.pure] at h ⊢
  repeat' (split at h)
  all_goals try (simp at h; done)
  all_goals try (have hx2 := hl2 _ _ _ _ ‹_›)
  all_goals try (have hx1 := hl1 _ _ _ _ ‹_›)
  all_goals (simp only [optList_cons, optList_nil, hop]; grind)

theorem opFold_cong (hope : ∀ st o r, rec st (.op o) ≠ .ok r) (st : St) (args : List Sx) (r : Sx × St)
    (h : opFold recF st args = .ok r) : opFold rec st (optList args) = .ok r := by
  have hc := Mono.evalClosure_mono recF rec hsub
  have hl := evalList_cong recF rec hsub hm
  have hl1 := fun o => Mono.foldLoop_mono (fun s acc x => recF s (.list true [.op o, quoteOf acc, quoteOf x]))
    (fun s acc x => rec s (.list true [.op o, quoteOf acc, quoteOf x])) (fun s a x r hh => hsub _ _ _ hh)
  have hl2 := fun fv => Mono.foldLoop_mono (fun s acc x => evalClosure recF s fv [quoteOf acc, quoteOf x])
    (fun s acc x => evalClosure rec s fv [quoteOf acc, quoteOf x]) (fun s a x r hh => hc _ _ _ _ hh)
  have hop : ∀ o, optimize (.op o) = .op o := fun o => by simp [optimize]
  unfold opFold at h ⊢
  simp only [bind, Except.bind, pure, Except.pure] at h ⊢
  repeat' (split at h)
  all_goals try (simp at h; done)
  all_goals try (have hx2 := hl2 _ _ _ _ _ ‹_›)
  all_goals try (have hx1 := hl1 _ _ _ _ _ ‹_›)
  all_goals (have hx3 := hl _ _ _ ‹evalList recF _ _ = Except.ok _›; simp only [optList_cons, optList_nil, hop] at hx3 ⊢; grind)

theorem opMapa_cong (st : St) (args : List Sx) (r : Sx × St)
    (h : opMapa recF st args = .ok r) : opMapa rec st (optList args) = .ok r := by
  have hl2 := fun fv => Mono.mapLoop_mono (mapaCall recF fv) (mapaCall rec fv) (fun s x r hh => Mono.mapaCall_mono recF rec hsub fv s x r hh)
  unfold opMapa at h ⊢
  simp only [bind, Except.bind, pure, Except.pure] at h ⊢
  repeat' (split at h)
  all_goals try (simp at h; done)
  all_goals try (have hx2 := hl2 _ _ _ _ ‹_›)
  all_goals (simp only [optList_cons, optList_nil]; grind)

omit hsub hm in
theorem nameOf_opt (t : Sx) (x : String) (h : nameOf? t = some x) : optimize t = t := by
  cases t <;> simp [nameOf?] at h <;> simp [optimize]

omit hsub hm in
theorem optList_map : ∀ (l : List Sx), optList l = l.map optimize := by
  intro l; induction l with
  | nil => simp [optList]
  | cons a r ih => simp [optList, ih]

omit hsub hm in
theorem stepTids_opt (k : Int) : ∀ (ts : List Sx) (st : St) (acc : List String) (r : St × List String),
    stepTids k st ts acc = .ok r → stepTids k st (optList ts) acc = .ok r := by
  intro ts
  induction ts with
  | nil => intro st acc r h; simpa [optList] using h
  | cons t ts ih =>
    intro st acc r h
    unfold stepTids at h
    simp only [bind, Except.bind] at h
    split at h
    · simp at h
    · rename_i v hd
      have ht : optimize t = t := by
        unfold doStepNamed at hd
        split at hd
        · simp at hd
        · rename_i tid hn; exact nameOf_opt t tid hn
      rw [optList_cons, ht]
      unfold stepTids
      simp only [bind, Except.bind, hd]
      exact ih _ _ _ h

theorem opStep_cong (st : St) (args : List Sx) (r : Sx × St)
    (h : opStep recF st args = .ok r) : opStep rec st (optList args) = .ok r := by
  have hst := stepTids_opt
  cases args with
  | nil => simpa [opStep, optList] using h
  | cons a tail =>
    cases tail with
    | nil =>
      unfold opStep at h ⊢
      simp only [bind, Except.bind, pure, Except.pure, optList_cons, optList_nil] at h ⊢
      repeat' (split at h)
      all_goals try (simp at h; done)
      · grind
      · rename_i hd
        have ht : optimize a = a := by
          unfold doStepNamed at hd
          split at hd
          · simp at hd
          · rename_i tid hn; exact nameOf_opt a tid hn
        grind
    | cons b rest =>
      unfold opStep at h ⊢
      have hlast : (optList (a :: b :: rest)).getLast? = ((a :: b :: rest).getLast?).map optimize := by
        rw [optList_map, List.getLast?_map]
      have hdrop : (optList (a :: b :: rest)).dropLast = optList ((a :: b :: rest).dropLast) := by
        rw [optList_map, optList_map, List.map_dropLast]
      simp only [bind, Except.bind, pure, Except.pure] at h ⊢
      repeat' (split at h)
      all_goals try (simp at h; done)
      rename_i hl _ _ hrec _ _ _ _ _ hstep
      have h1 := hm _ _ _ hrec
      have h2 := hst _ _ _ _ _ hstep
      simp only [optList_cons] at hlast hdrop ⊢
      simp_all

theorem findLoop_cong (c : Sx) (tid : String) : ∀ (k : Nat) (st : St) (acc : List Int) (r : List Int × St),
    findLoop recF c tid k st acc = .ok r → findLoop rec (optimize c) tid k st acc = .ok r := by
  intro k
  induction k with
  | zero => intro st acc r h; unfold findLoop at h; simp at h
  | succ k ih => intro st acc r h; unfold findLoop at h ⊢; cong_tac h

theorem findTraces_cong (n : Nat) (c : Sx) : ∀ (tids : List String) (st : St) (acc : List Int) (r : List Int × St),
    findTraces n recF c st tids acc = .ok r → findTraces n rec (optimize c) st tids acc = .ok r := by
  have hl := findLoop_cong recF rec hsub hm
  intro tids
  induction tids with
  | nil => intro st acc r h; unfold findTraces at h ⊢; exact h
  | cons a as ih => intro st acc r h; unfold findTraces at h ⊢; cong_tac h

theorem opFind_cong (n : Nat) (st : St) (args : List Sx) (r : Sx × St)
    (h : opFind n recF st args = .ok r) : opFind n rec st (optList args) = .ok r := by
  have hl := findTraces_cong recF rec hsub hm
  unfold opFind at h ⊢
  cong_tac h

theorem scanLoop_cong {α : Type} (c : Sx) (onHit onHit' : St → α → Except Err (α × St))
    (ho : ∀ s a r, onHit s a = .ok r → onHit' s a = .ok r) : ∀ (k : Nat) (st : St) (acc : α) (r : α × St),
    scanLoop recF c onHit k st acc = .ok r → scanLoop rec (optimize c) onHit' k st acc = .ok r := by
  intro k
  induction k with
  | zero => intro st acc r h; unfold scanLoop at h; simp at h
  | succ k ih => intro st acc r h; unfold scanLoop at h ⊢; cong_tac h

theorem opFindG_cong (n : Nat) (st : St) (args : List Sx) (r : Sx × St)
    (h : opFindG n recF st args = .ok r) : opFindG n rec st (optList args) = .ok r := by
  have hl := fun c (onHit : St → List Sx → Except Err (List Sx × St)) => scanLoop_cong recF rec hsub hm c onHit onHit (fun _ _ _ hh => hh)
  unfold opFindG at h ⊢
  cong_tac h

theorem wheneverBody_cong (body : List Sx) (s : St) (a : Sx) (r : Sx × St)
    (h : wheneverBody recF body s a = .ok r) : wheneverBody rec (optList body) s a = .ok r := by
  have hl := evalList_cong recF rec hsub hm
  unfold wheneverBody at h ⊢
  cong_tac h

theorem opWhenever_cong (n : Nat) (st : St) (args : List Sx) (r : Sx × St)
    (h : opWhenever n recF st args = .ok r) : opWhenever n rec st (optList args) = .ok r := by
  have hl2 := fun c body => scanLoop_cong recF rec hsub hm c (wheneverBody recF body) (wheneverBody rec (optList body))
    (fun s a r hh => wheneverBody_cong recF rec hsub hm body s a r hh)
  unfold opWhenever at h ⊢
  simp only [bind, Except.bind, pure, Except.pure] at h ⊢
  repeat' (split at h)
  all_goals try (simp at h; done)
  all_goals (have hx := hl2 _ _ _ _ _ _ ‹_›; simp only [optList_cons] at hx ⊢; simp_all)

theorem opSampleAt_cong (st : St) (args : List Sx) (r : Sx × St)
    (h : opSampleAt recF st args = .ok r) : opSampleAt rec st (optList args) = .ok r := by
  cases args with
  | nil => simp [opSampleAt] at h
  | cons a tail =>
    cases tail with
    | nil => unfold opSampleAt at h ⊢; cong_tac h
    | cons b tail2 =>
      cases tail2 with
      | nil => unfold opSampleAt at h ⊢; cong_tac h
      | cons c t3 => simp [opSampleAt] at h

theorem evalArrKey_cong (st : St) (a k : Sx) (r : Nat × String × St)
    (h : evalArrKey recF st a k = .ok r) : evalArrKey rec st (optimize a) (optimize k) = .ok r := by
  unfold evalArrKey at h ⊢
  cong_tac h

theorem opSeta_cong (st : St) (args : List Sx) (r : Sx × St)
    (h : opSeta recF st args = .ok r) : opSeta rec st (optList args) = .ok r := by
  have hl := evalArrKey_cong recF rec hsub hm
  unfold opSeta at h ⊢
  cong_tac h

theorem opGeta_cong (st : St) (args : List Sx) (r : Sx × St)
    (h : opGeta recF st args = .ok r) : opGeta rec st (optList args) = .ok r := by
  have hl := evalArrKey_cong recF rec hsub hm
  unfold opGeta at h ⊢
  cong_tac h

theorem opDela_cong (st : St) (args : List Sx) (r : Sx × St)
    (h : opDela recF st args = .ok r) : opDela rec st (optList args) = .ok r := by
  have hl := evalArrKey_cong recF rec hsub hm
  unfold opDela at h ⊢
  cong_tac h

theorem reval_case (st : St) (args : List Sx) (r : Sx × St)
    (hrev : ∀ e rest, args = e :: rest → revalArgOk (optimize e) = true)
    (h : opReval recF st args = .ok r) : opReval rec st (optList args) = .ok r := by
  unfold opReval at h
  split at h
  · rename_i e k
    simp only [optList_cons, optList_nil]
    exact opReval_cong recF rec hsub hm st e k r (hrev e [k] rfl) (by unfold opReval; exact h)
  · simp at h

theorem allscopes_case (st : St) (args : List Sx) (r : Sx × St)
    (hrev : ∀ e rest, args = e :: rest → revalArgOk (optimize e) = true)
    (h : opAllScopes recF st args = .ok r) : opAllScopes rec st (optList args) = .ok r := by
  cases args with
  | nil => simp [opAllScopes] at h
  | cons e rest =>
    rw [optList_cons]
    exact opAllScopes_cong recF rec hsub hm st e rest r (hrev e rest rfl) h

end

/-- operators whose operands `optimize` maps over and that evaluate them only through the sub-evaluator -/
def genericOp : Op → Bool
  | .FN | .DEFSIG | .DEFMACRO | .GROUPS | .ARRAY | .UNALIAS | .SETSCOPE | .UNSETSCOPE | .LOADED_TRACES | .GENSYM
  | .QUOTE | .QUASIQUOTE | .AND | .OR | .CASE => false
  | _ => true

/-- **congruence of every generic operator**: if the sub-evaluator `rec` completes on the optimised form of an
expression whenever `recF` completes on the expression itself (same result), then the operator applied to the
optimised operands completes with the result it had on the original operands -/
theorem dispatch_cong (recF rec : St → Sx → Res)
    (hsub : ∀ st e r, recF st e = .ok r → rec st e = .ok r)
    (hm : ∀ st e r, recF st e = .ok r → rec st (optimize e) = .ok r)
    (hope : ∀ st o r, rec st (.op o) ≠ .ok r)
    (n : Nat) (st : St) (o : Op) (args : List Sx) (r : Sx × St) (hgen : genericOp o = true)
    (hrev : ∀ e rest, args = e :: rest → (o = .REL_EVAL ∨ o = .ALLSCOPES) → revalArgOk (optimize e) = true)
    (h : dispatch n recF st o args = .ok r) : dispatch n rec st o (optList args) = .ok r := by
  cases o with
  | NOT => exact opNot_cong recF rec hsub hm  _ _ _ h
  | EQ => exact opEq_cong recF rec hsub hm false _ _ _ h
  | NEQ => exact opEq_cong recF rec hsub hm true _ _ _ h
  | LARGER => exact opCmp_cong recF rec hsub hm .gt _ _ _ h
  | SMALLER => exact opCmp_cong recF rec hsub hm .lt _ _ _ h
  | LARGER_EQUAL => exact opCmp_cong recF rec hsub hm .ge _ _ _ h
  | SMALLER_EQUAL => exact opCmp_cong recF rec hsub hm .le _ _ _ h
  | AND => simp [genericOp] at hgen
  | OR => simp [genericOp] at hgen
  | LET => exact opLet_cong recF rec hsub hm  _ _ _ h
  | DEFINE => exact opDefine_cong recF rec hsub hm  _ _ _ h
  | SET => exact opSet_cong recF rec hsub hm  _ _ _ h
  | PRINT => exact opPrint_cong recF rec hsub hm  _ _ _ h
  | PRINTF => exact h
  | IF => exact opIf_cong recF rec hsub hm  _ _ _ h
  | CASE => simp [genericOp] at hgen
  | DO => exact opDo_cong recF rec hsub hm  _ _ _ h
  | WHILE => exact opWhile_cong recF rec hsub hm n _ _ _ h
  | ALIAS => exact opAlias_cong recF rec hsub hm  _ _ _ h
  | UNALIAS => simp [genericOp] at hgen
  | QUOTE => simp [genericOp] at hgen
  | QUASIQUOTE => simp [genericOp] at hgen
  | UNQUOTE => exact h
  | EVAL => exact opEval_cong recF rec hsub hm n _ _ _ h
  | PARSE => exact h
  | DEFMACRO => simp [genericOp] at hgen
  | MACROEXPAND => exact opMacroexpand_cong recF rec hsub hm n _ _ _ h
  | GENSYM => simp [genericOp] at hgen
  | FN => simp [genericOp] at hgen
  | GET => exact opGet_cong recF rec hsub hm  _ _ _ h
  | IMPORT => exact h
  | CALL => exact h
  | TYPE => exact opType_cong recF rec hsub hm  _ _ _ h
  | REL_EVAL => exact reval_case recF rec hsub hm st args r (fun e rest he => hrev e rest he (Or.inl rfl)) h
  | SCOPED => exact opScoped_cong recF rec hsub hm  _ _ _ h
  | RESOLVE_SCOPE => exact opResolveScope_cong recF rec hsub hm  _ _ _ h
  | ALLSCOPES => exact allscopes_case recF rec hsub hm st args r (fun e rest he => hrev e rest he (Or.inr rfl)) h
  | SETSCOPE => simp [genericOp] at hgen
  | UNSETSCOPE => simp [genericOp] at hgen
  | GROUPS => simp [genericOp] at hgen
  | IN_GROUP => exact opInGroup_cong recF rec hsub hm  _ _ _ h
  | IN_GROUPS => exact opInGroups_cong recF rec hsub hm  _ _ _ h
  | RESOLVE_GROUP => exact opResolveGroup_cong recF rec hsub hm  _ _ _ h
  | SLICE => exact opSlice_cong recF rec hsub hm  _ _ _ h
  | LOADED_TRACES => simp [genericOp] at hgen
  | EXIT => exact opExit_cong recF rec hsub hm  _ _ _ h
  | ADD => exact opAdd_cong recF rec hsub hm  _ _ _ h
  | SUB => exact opSub_cong recF rec hsub hm  _ _ _ h
  | MUL => exact opMul_cong recF rec hsub hm  _ _ _ h
  | DIV => exact opDiv_cong recF rec hsub hm  _ _ _ h
  | EXP => exact opExp_cong recF rec hsub hm  _ _ _ h
  | FLOOR => exact opRoundLike_cong recF rec hsub hm  _ _ _ h
  | CEIL => exact opRoundLike_cong recF rec hsub hm  _ _ _ h
  | ROUND => exact opRoundLike_cong recF rec hsub hm  _ _ _ h
  | MOD => exact opMod_cong recF rec hsub hm  _ _ _ h
  | BOR => exact opBitwise_cong recF rec hsub hm intLor (· || ·) _ _ _ h
  | BAND => exact opBitwise_cong recF rec hsub hm intLand (· && ·) _ _ _ h
  | BXOR => exact opBitwise_cong recF rec hsub hm intXor (fun a b => a != b) _ _ _ h
  | IS_DEFINED => exact opIsDefined_cong recF rec hsub hm  _ _ _ h
  | IS_ATOM => exact opAllPred_cong recF rec hsub hm isAtomVal _ _ _ h
  | IS_SYMBOL => exact opAllPred_cong recF rec hsub hm isSym _ _ _ h
  | IS_STRING => exact opAllPred_cong recF rec hsub hm isStr _ _ _ h
  | IS_INT => exact opAllPred_cong recF rec hsub hm isIntLike _ _ _ h
  | IS_LIST => exact opAllPred_cong recF rec hsub hm isList _ _ _ h
  | CONVERT_BINARY => exact opConvertBin_cong recF rec hsub hm  _ _ _ h
  | STRING_TO_INT => exact opStringToInt_cong recF rec hsub hm  _ _ _ h
  | BITS_TO_SINT => exact opBitsToSint_cong recF rec hsub hm  _ _ _ h
  | STRING_TO_SYMBOL => exact opStringToSymbol_cong recF rec hsub hm  _ _ _ h
  | SYMBOL_TO_STRING => exact opSymbolToString_cong recF rec hsub hm  _ _ _ h
  | INT_TO_STRING => exact opIntToString_cong recF rec hsub hm  _ _ _ h
  | LIST => exact opList_cong recF rec hsub hm  _ _ _ h
  | FIRST => exact opListAccess_cong recF rec hsub hm selFirst _ _ _ h
  | SECOND => exact opListAccess_cong recF rec hsub hm selSecond _ _ _ h
  | LAST => exact opListAccess_cong recF rec hsub hm selLast _ _ _ h
  | REST => exact opListAccess_cong recF rec hsub hm selRest _ _ _ h
  | IN => exact opIn_cong recF rec hsub hm  _ _ _ h
  | MAP => exact opMap_cong recF rec hsub hm hope _ _ _ h
  | MAX => exact opMaxMin_cong recF rec hsub hm true _ _ _ h
  | MIN => exact opMaxMin_cong recF rec hsub hm false _ _ _ h
  | FOLD => exact opFold_cong recF rec hsub hm hope _ _ _ h
  | LENGTH => exact opLength_cong recF rec hsub hm  _ _ _ h
  | AVERAGE => exact opAverage_cong recF rec hsub hm  _ _ _ h
  | ZIP => exact opZip_cong recF rec hsub hm  _ _ _ h
  | RANGE => exact opRange_cong recF rec hsub hm  _ _ _ h
  | ARRAY => simp [genericOp] at hgen
  | SETA => exact opSeta_cong recF rec hsub hm  _ _ _ h
  | GETA => exact opGeta_cong recF rec hsub hm  _ _ _ h
  | DELA => exact opDela_cong recF rec hsub hm  _ _ _ h
  | MAPA => exact opMapa_cong recF rec hsub hm  _ _ _ h
  | LOAD => exact h
  | UNLOAD => exact opUnload_cong recF rec hsub hm  _ _ _ h
  | STEP => exact opStep_cong recF rec hsub hm  _ _ _ h
  | REPL => exact h
  | IS_SIGNAL => exact opIsSignal_cong recF rec hsub hm  _ _ _ h
  | REQUIRE => exact h
  | EVAL_FILE => exact h
  | FIND => exact opFind_cong recF rec hsub hm n _ _ _ h
  | FIND_G => exact opFindG_cong recF rec hsub hm n _ _ _ h
  | WHENEVER => exact opWhenever_cong recF rec hsub hm n _ _ _ h
  | FOLD_SIGNAL => exact h
  | SIGNAL_WIDTH => exact opSignalWidth_cong recF rec hsub hm  _ _ _ h
  | SAMPLE_AT => exact opSampleAt_cong recF rec hsub hm  _ _ _ h
  | TRIM_TRACE => exact opTrimTrace_cong recF rec hsub hm  _ _ _ h
  | DEFSIG => simp [genericOp] at hgen
  | NEWTRACE => exact h
  | DUMPTRACE => exact h

end Wal.Opt
