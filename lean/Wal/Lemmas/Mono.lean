import Wal.Lemmas.Global
/-!
# Monotonicity of the evaluator in the evaluator of the sub-terms

`evalStep_mono`: if `rec'` completes wherever `rec` does, with the same result, then so does one layer of the
evaluator built on it — for every operator. Consequences: `eval_mono` (more fuel never changes a completed
evaluation), hence the fuel-free big-step relation `Evals`, and refinement lemmas for restricted evaluators.
-/
namespace Wal.Mono
open Wal

section
variable (rec rec' : St → Sx → Res) (hm : ∀ st e r, rec st e = .ok r → rec' st e = .ok r)
include hm

theorem evalList_mono : ∀ (as : List Sx) (st : St) (r : List Sx × St),
    evalList rec st as = .ok r → evalList rec' st as = .ok r := by
  intro as
  induction as with
  | nil => intro st r h; simpa [evalList] using h
  | cons a as ih =>
    intro st r h
    simp only [evalList, Glob.bind_ok] at h ⊢
    obtain ⟨⟨v, st1⟩, h1, ⟨ws, st2⟩, h2, h3⟩ := h
    exact ⟨(v, st1), hm _ _ _ h1, (ws, st2), ih _ _ h2, h3⟩

/-- closes an operator case: split every match/if of the hypothesis, transport each completed sub-evaluation to
`rec'`, and let `simp` replay the same branches in the goal -/
syntax "mono_tac" ident : tactic
set_option hygiene false in
macro_rules
  | `(tactic| mono_tac $h:ident) => `(tactic| (
      try simp only [bind, Except.bind, pure, Except.pure, ofOpt] at $h:ident ⊢
      repeat' (split at $h:ident)
      all_goals try (simp at $h:ident; done)
      all_goals (repeat (first
        | (have hx := hm _ _ _ ‹rec _ _ = Except.ok _›; clear ‹rec _ _ = Except.ok _›)
        | (have hx := evalList_mono rec rec' hm _ _ _ ‹evalList rec _ _ = Except.ok _›; clear ‹evalList rec _ _ = Except.ok _›)))
      all_goals try (have hx1 := hl1 _ _ _ _ ‹_›)
      all_goals try (have hx1 := hl1 _ _ _ _ _ ‹_›)
      all_goals try (have hx2 := hl2 _ _ _ _ ‹_›)
      all_goals try (have hx2 := hl2 _ _ _ _ _ ‹_›)
      all_goals (first | (simp [*]; done) | grind | simp_all)))

theorem opNot_mono  (st : St) (args : List Sx) (r : Sx × St)
    (h : opNot  rec st args = .ok r) : opNot  rec' st args = .ok r := by
  unfold opNot at h ⊢
  mono_tac h

theorem opEq_mono (neg : Bool) (st : St) (args : List Sx) (r : Sx × St)
    (h : opEq neg rec st args = .ok r) : opEq neg rec' st args = .ok r := by
  unfold opEq at h ⊢
  mono_tac h

theorem opCmp_mono (op : CmpOp) (st : St) (args : List Sx) (r : Sx × St)
    (h : opCmp op rec st args = .ok r) : opCmp op rec' st args = .ok r := by
  unfold opCmp at h ⊢
  mono_tac h

theorem opPrint_mono  (st : St) (args : List Sx) (r : Sx × St)
    (h : opPrint  rec st args = .ok r) : opPrint  rec' st args = .ok r := by
  unfold opPrint at h ⊢
  mono_tac h

theorem opIf_mono  (st : St) (args : List Sx) (r : Sx × St)
    (h : opIf  rec st args = .ok r) : opIf  rec' st args = .ok r := by
  unfold opIf at h ⊢
  mono_tac h

theorem opDo_mono  (st : St) (args : List Sx) (r : Sx × St)
    (h : opDo  rec st args = .ok r) : opDo  rec' st args = .ok r := by
  unfold opDo at h ⊢
  mono_tac h

theorem opAlias_mono  (st : St) (args : List Sx) (r : Sx × St)
    (h : opAlias  rec st args = .ok r) : opAlias  rec' st args = .ok r := by
  unfold opAlias at h ⊢
  mono_tac h

theorem opGet_mono  (st : St) (args : List Sx) (r : Sx × St)
    (h : opGet  rec st args = .ok r) : opGet  rec' st args = .ok r := by
  unfold opGet at h ⊢
  mono_tac h

theorem opType_mono  (st : St) (args : List Sx) (r : Sx × St)
    (h : opType  rec st args = .ok r) : opType  rec' st args = .ok r := by
  unfold opType at h ⊢
  mono_tac h

theorem opSlice_mono  (st : St) (args : List Sx) (r : Sx × St)
    (h : opSlice  rec st args = .ok r) : opSlice  rec' st args = .ok r := by
  unfold opSlice at h ⊢
  mono_tac h

theorem opExit_mono  (st : St) (args : List Sx) (r : Sx × St)
    (h : opExit  rec st args = .ok r) : opExit  rec' st args = .ok r := by
  unfold opExit at h ⊢
  mono_tac h

theorem opAdd_mono  (st : St) (args : List Sx) (r : Sx × St)
    (h : opAdd  rec st args = .ok r) : opAdd  rec' st args = .ok r := by
  unfold opAdd at h ⊢
  mono_tac h

theorem opSub_mono  (st : St) (args : List Sx) (r : Sx × St)
    (h : opSub  rec st args = .ok r) : opSub  rec' st args = .ok r := by
  unfold opSub at h ⊢
  mono_tac h

theorem opMul_mono  (st : St) (args : List Sx) (r : Sx × St)
    (h : opMul  rec st args = .ok r) : opMul  rec' st args = .ok r := by
  unfold opMul at h ⊢
  mono_tac h

theorem opDiv_mono  (st : St) (args : List Sx) (r : Sx × St)
    (h : opDiv  rec st args = .ok r) : opDiv  rec' st args = .ok r := by
  unfold opDiv at h ⊢
  mono_tac h

theorem opExp_mono  (st : St) (args : List Sx) (r : Sx × St)
    (h : opExp  rec st args = .ok r) : opExp  rec' st args = .ok r := by
  unfold opExp at h ⊢
  mono_tac h

theorem opRoundLike_mono  (st : St) (args : List Sx) (r : Sx × St)
    (h : opRoundLike  rec st args = .ok r) : opRoundLike  rec' st args = .ok r := by
  unfold opRoundLike at h ⊢
  mono_tac h

theorem opMod_mono  (st : St) (args : List Sx) (r : Sx × St)
    (h : opMod  rec st args = .ok r) : opMod  rec' st args = .ok r := by
  unfold opMod at h ⊢
  mono_tac h

theorem opBitwise_mono (f : Int → Int → Int) (fb : Bool → Bool → Bool) (st : St) (args : List Sx) (r : Sx × St)
    (h : opBitwise f fb rec st args = .ok r) : opBitwise f fb rec' st args = .ok r := by
  unfold opBitwise at h ⊢
  mono_tac h

theorem opIsDefined_mono  (st : St) (args : List Sx) (r : Sx × St)
    (h : opIsDefined  rec st args = .ok r) : opIsDefined  rec' st args = .ok r := by
  unfold opIsDefined at h ⊢
  mono_tac h

theorem opAllPred_mono (p : Sx → Bool) (st : St) (args : List Sx) (r : Sx × St)
    (h : opAllPred p rec st args = .ok r) : opAllPred p rec' st args = .ok r := by
  unfold opAllPred at h ⊢
  mono_tac h

theorem opConvertBin_mono  (st : St) (args : List Sx) (r : Sx × St)
    (h : opConvertBin  rec st args = .ok r) : opConvertBin  rec' st args = .ok r := by
  unfold opConvertBin at h ⊢
  mono_tac h

theorem opStringToInt_mono  (st : St) (args : List Sx) (r : Sx × St)
    (h : opStringToInt  rec st args = .ok r) : opStringToInt  rec' st args = .ok r := by
  unfold opStringToInt at h ⊢
  mono_tac h

theorem opBitsToSint_mono  (st : St) (args : List Sx) (r : Sx × St)
    (h : opBitsToSint  rec st args = .ok r) : opBitsToSint  rec' st args = .ok r := by
  unfold opBitsToSint at h ⊢
  mono_tac h

theorem opSymbolToString_mono  (st : St) (args : List Sx) (r : Sx × St)
    (h : opSymbolToString  rec st args = .ok r) : opSymbolToString  rec' st args = .ok r := by
  unfold opSymbolToString at h ⊢
  mono_tac h

theorem opStringToSymbol_mono  (st : St) (args : List Sx) (r : Sx × St)
    (h : opStringToSymbol  rec st args = .ok r) : opStringToSymbol  rec' st args = .ok r := by
  unfold opStringToSymbol at h ⊢
  mono_tac h

theorem opIntToString_mono  (st : St) (args : List Sx) (r : Sx × St)
    (h : opIntToString  rec st args = .ok r) : opIntToString  rec' st args = .ok r := by
  unfold opIntToString at h ⊢
  mono_tac h

theorem opList_mono  (st : St) (args : List Sx) (r : Sx × St)
    (h : opList  rec st args = .ok r) : opList  rec' st args = .ok r := by
  unfold opList at h ⊢
  mono_tac h

theorem opListAccess_mono (sel : Bool → List Sx → Except Err Sx) (st : St) (args : List Sx) (r : Sx × St)
    (h : opListAccess sel rec st args = .ok r) : opListAccess sel rec' st args = .ok r := by
  unfold opListAccess at h ⊢
  mono_tac h

theorem opIn_mono  (st : St) (args : List Sx) (r : Sx × St)
    (h : opIn  rec st args = .ok r) : opIn  rec' st args = .ok r := by
  unfold opIn at h ⊢
  mono_tac h

theorem opMaxMin_mono (isMax : Bool) (st : St) (args : List Sx) (r : Sx × St)
    (h : opMaxMin isMax rec st args = .ok r) : opMaxMin isMax rec' st args = .ok r := by
  unfold opMaxMin at h ⊢
  mono_tac h

theorem opAverage_mono  (st : St) (args : List Sx) (r : Sx × St)
    (h : opAverage  rec st args = .ok r) : opAverage  rec' st args = .ok r := by
  unfold opAverage at h ⊢
  mono_tac h

theorem opLength_mono  (st : St) (args : List Sx) (r : Sx × St)
    (h : opLength  rec st args = .ok r) : opLength  rec' st args = .ok r := by
  unfold opLength at h ⊢
  mono_tac h

theorem opZip_mono  (st : St) (args : List Sx) (r : Sx × St)
    (h : opZip  rec st args = .ok r) : opZip  rec' st args = .ok r := by
  unfold opZip at h ⊢
  mono_tac h

theorem opRange_mono  (st : St) (args : List Sx) (r : Sx × St)
    (h : opRange  rec st args = .ok r) : opRange  rec' st args = .ok r := by
  unfold opRange at h ⊢
  mono_tac h

theorem opUnload_mono  (st : St) (args : List Sx) (r : Sx × St)
    (h : opUnload  rec st args = .ok r) : opUnload  rec' st args = .ok r := by
  unfold opUnload at h ⊢
  mono_tac h

theorem opIsSignal_mono  (st : St) (args : List Sx) (r : Sx × St)
    (h : opIsSignal  rec st args = .ok r) : opIsSignal  rec' st args = .ok r := by
  unfold opIsSignal at h ⊢
  mono_tac h

theorem opSignalWidth_mono  (st : St) (args : List Sx) (r : Sx × St)
    (h : opSignalWidth  rec st args = .ok r) : opSignalWidth  rec' st args = .ok r := by
  unfold opSignalWidth at h ⊢
  mono_tac h

theorem opSampleAt_mono  (st : St) (args : List Sx) (r : Sx × St)
    (h : opSampleAt  rec st args = .ok r) : opSampleAt  rec' st args = .ok r := by
  unfold opSampleAt at h ⊢
  mono_tac h

theorem opTrimTrace_mono  (st : St) (args : List Sx) (r : Sx × St)
    (h : opTrimTrace  rec st args = .ok r) : opTrimTrace  rec' st args = .ok r := by
  unfold opTrimTrace at h ⊢
  mono_tac h

theorem opReval_mono  (st : St) (args : List Sx) (r : Sx × St)
    (h : opReval  rec st args = .ok r) : opReval  rec' st args = .ok r := by
  unfold opReval at h ⊢
  mono_tac h

theorem opDefine_mono  (st : St) (args : List Sx) (r : Sx × St)
    (h : opDefine  rec st args = .ok r) : opDefine  rec' st args = .ok r := by
  unfold opDefine at h ⊢
  mono_tac h

theorem andLoop_mono : ∀ (as : List Sx) (st : St) (r : Sx × St), andLoop rec st as = .ok r → andLoop rec' st as = .ok r := by
  intro as
  induction as with
  | nil => intro st r h; unfold andLoop at h ⊢; exact h
  | cons a as ih => intro st r h; unfold andLoop at h ⊢; mono_tac h

theorem orLoop_mono : ∀ (as : List Sx) (st : St) (r : Sx × St), orLoop rec st as = .ok r → orLoop rec' st as = .ok r := by
  intro as
  induction as with
  | nil => intro st r h; unfold orLoop at h ⊢; exact h
  | cons a as ih => intro st r h; unfold orLoop at h ⊢; mono_tac h

theorem opAnd_mono (st : St) (args : List Sx) (r : Sx × St) (h : opAnd rec st args = .ok r) : opAnd rec' st args = .ok r := by
  have hl := andLoop_mono rec rec' hm
  unfold opAnd at h ⊢
  mono_tac h

theorem opOr_mono (st : St) (args : List Sx) (r : Sx × St) (h : opOr rec st args = .ok r) : opOr rec' st args = .ok r := by
  have hl := orLoop_mono rec rec' hm
  unfold opOr at h ⊢
  mono_tac h

theorem letBind_mono (fid : Nat) : ∀ (as : List Sx) (st : St) (r : St), letBind rec fid st as = .ok r → letBind rec' fid st as = .ok r := by
  intro as
  induction as with
  | nil => intro st r h; unfold letBind at h ⊢; exact h
  | cons a as ih => intro st r h; unfold letBind at h ⊢; mono_tac h

theorem opLet_mono (st : St) (args : List Sx) (r : Sx × St) (h : opLet rec st args = .ok r) : opLet rec' st args = .ok r := by
  have hl := letBind_mono rec rec' hm
  unfold opLet at h ⊢
  mono_tac h

theorem setLoop_mono : ∀ (as : List Sx) (st : St) (l : Sx) (r : Sx × St), setLoop rec st as l = .ok r → setLoop rec' st as l = .ok r := by
  intro as
  induction as with
  | nil => intro st l r h; unfold setLoop at h ⊢; exact h
  | cons a as ih => intro st l r h; unfold setLoop at h ⊢; mono_tac h

theorem opSet_mono (st : St) (args : List Sx) (r : Sx × St) (h : opSet rec st args = .ok r) : opSet rec' st args = .ok r := by
  have hl := setLoop_mono rec rec' hm
  unfold opSet at h ⊢
  mono_tac h

theorem caseLoop_mono (key : Sx) : ∀ (as : List Sx) (st : St) (d : Sx) (r : Sx × St),
    caseLoop rec key st as d = .ok r → caseLoop rec' key st as d = .ok r := by
  intro as
  induction as with
  | nil => intro st d r h; unfold caseLoop at h ⊢; exact h
  | cons a as ih => intro st d r h; unfold caseLoop at h ⊢; mono_tac h

theorem opCase_mono (st : St) (args : List Sx) (r : Sx × St) (h : opCase rec st args = .ok r) : opCase rec' st args = .ok r := by
  have hl := caseLoop_mono rec rec' hm
  unfold opCase at h ⊢
  mono_tac h

theorem whileLoop_mono (c : Sx) (body : List Sx) : ∀ (k k' : Nat), k ≤ k' → ∀ (st : St) (l : Sx) (r : Sx × St),
    whileLoop rec c body k st l = .ok r → whileLoop rec' c body k' st l = .ok r := by
  intro k
  induction k with
  | zero => intro k' _ st l r h; unfold whileLoop at h; simp at h
  | succ k ih =>
    intro k' hk st l r h
    obtain ⟨k'', rfl⟩ : ∃ k'', k' = k'' + 1 := ⟨k' - 1, by omega⟩
    have ih' := ih k'' (by omega)
    unfold whileLoop at h ⊢; mono_tac h

theorem readSignal_mono (st : St) (name scope : String) (r : Sx × St)
    (h : readSignal rec st name scope = .ok r) : readSignal rec' st name scope = .ok r := by
  unfold readSignal at h ⊢
  mono_tac h

theorem evalSym_mono (st : St) (name : String) (steps : Option Nat) (r : Sx × St)
    (h : evalSym rec st name steps = .ok r) : evalSym rec' st name steps = .ok r := by
  have hl := readSignal_mono rec rec' hm
  unfold evalSym at h ⊢
  mono_tac h

theorem bindParams_mono (st : St) (params : Sx) (args : List Sx) (r : List (String × Sx) × St)
    (h : bindParams rec st params args = .ok r) : bindParams rec' st params args = .ok r := by
  unfold bindParams at h ⊢
  mono_tac h

theorem evalClosure_mono (st : St) (clo : Sx) (args : List Sx) (r : Sx × St)
    (h : evalClosure rec st clo args = .ok r) : evalClosure rec' st clo args = .ok r := by
  have hl := bindParams_mono rec rec' hm
  unfold evalClosure at h ⊢
  mono_tac h

theorem opWhile_mono (n n' : Nat) (hn : n ≤ n') (st : St) (args : List Sx) (r : Sx × St) (h : opWhile n rec st args = .ok r) : opWhile n' rec' st args = .ok r := by
  have hl := fun c body => whileLoop_mono rec rec' hm c body n n' hn
  unfold opWhile at h ⊢
  mono_tac h

theorem qq_mono : ∀ (n : Nat), (∀ (e : Sx) (st : St) (r : Sx × St), sizeOf e < n → qq rec st e = .ok r → qq rec' st e = .ok r) ∧
    (∀ (es : List Sx) (st : St) (r : List Sx × St), sizeOf es < n → qqList rec st es = .ok r → qqList rec' st es = .ok r) := by
  intro n
  induction n with
  | zero => exact ⟨fun _ _ _ h => absurd h (Nat.not_lt_zero _), fun _ _ _ h => absurd h (Nat.not_lt_zero _)⟩
  | succ n ih =>
    obtain ⟨ih1, ih2⟩ := ih
    constructor
    · intro e st r hs h
      unfold qq at h ⊢
      split at h
      · rename_i x xs
        have hl := fun st r => ih2 (x :: xs) st r (by simp only [Sx.list.sizeOf_spec] at hs; omega)
        mono_tac h
      · exact h
    · intro es st r hs h
      unfold qqList at h ⊢
      split at h
      · exact h
      · rename_i c rr
        have hl := fun st r => ih1 c st r (by simp only [List.cons.sizeOf_spec, Sx.unq.sizeOf_spec] at hs; omega)
        have hl2 := fun st r => ih2 rr st r (by simp only [List.cons.sizeOf_spec] at hs; omega)
        mono_tac h
      · rename_i c rr
        have hl := fun st r => ih1 c st r (by simp only [List.cons.sizeOf_spec, Sx.unqs.sizeOf_spec] at hs; omega)
        have hl2 := fun st r => ih2 rr st r (by simp only [List.cons.sizeOf_spec] at hs; omega)
        mono_tac h
      · rename_i e rr h1 h2
        have hl := fun st r => ih1 e st r (by simp only [List.cons.sizeOf_spec] at hs; omega)
        have hl2 := fun st r => ih2 rr st r (by simp only [List.cons.sizeOf_spec] at hs; omega)
        mono_tac h

theorem opQuasiquote_mono (st : St) (args : List Sx) (r : Sx × St) (h : opQuasiquote rec st args = .ok r) : opQuasiquote rec' st args = .ok r := by
  unfold opQuasiquote at h ⊢
  split at h
  · rename_i a
    exact (qq_mono rec rec' hm (sizeOf a + 1)).1 a st r (Nat.lt_succ_self _) h
  · simp at h

theorem expand_mono (parent : Option Nat) : ∀ (n n' : Nat), n ≤ n' →
    (∀ (st : St) (e : Sx) (r : Sx × St), expand rec parent n st e = .ok r → expand rec' parent n' st e = .ok r) ∧
    (∀ (st : St) (es : List Sx) (r : List Sx × St), expandList rec parent n st es = .ok r → expandList rec' parent n' st es = .ok r) := by
  intro n
  induction n with
  | zero =>
    intro n' _
    constructor
    · intro st e r h; unfold expand at h; simp at h
    · intro st es r h; unfold expandList at h; simp at h
  | succ n ih =>
    intro n' hn
    obtain ⟨n'', rfl⟩ : ∃ n'', n' = n'' + 1 := ⟨n' - 1, by omega⟩
    obtain ⟨hl, hl2⟩ := ih n'' (by omega)
    constructor
    · intro st e r h
      unfold expand at h ⊢
      mono_tac h
    · intro st es r h
      cases es with
      | nil => simpa [expandList] using h
      | cons e rr =>
        simp only [expandList] at h ⊢
        mono_tac h

theorem opEval_mono (n n' : Nat) (hn : n ≤ n') (st : St) (args : List Sx) (r : Sx × St) (h : opEval n rec st args = .ok r) : opEval n' rec' st args = .ok r := by
  have hl := (expand_mono rec rec' hm (some 0) n n' hn).1
  unfold opEval at h ⊢
  mono_tac h

theorem opMacroexpand_mono (n n' : Nat) (hn : n ≤ n') (st : St) (args : List Sx) (r : Sx × St)
    (h : opMacroexpand n rec st args = .ok r) : opMacroexpand n' rec' st args = .ok r := by
  have hl := fun p => (expand_mono rec rec' hm p n n' hn).1
  unfold opMacroexpand at h ⊢
  mono_tac h

theorem opDefmacro_mono (n n' : Nat) (hn : n ≤ n') (st : St) (args : List Sx) (r : Sx × St)
    (h : opDefmacro n rec st args = .ok r) : opDefmacro n' rec' st args = .ok r := by
  have hl := (expand_mono rec rec' hm Option.none n n' hn).2
  unfold opDefmacro at h ⊢
  mono_tac h

theorem opScoped_mono (st : St) (args : List Sx) (r : Sx × St) (h : opScoped rec st args = .ok r) : opScoped rec' st args = .ok r := by
  unfold opScoped at h ⊢
  mono_tac h

theorem allScopesLoop_mono (e : Sx) : ∀ (ss : List String) (st : St) (acc : List Sx) (r : List Sx × St),
    allScopesLoop rec e st ss acc = .ok r → allScopesLoop rec' e st ss acc = .ok r := by
  intro ss
  induction ss with
  | nil => intro st acc r h; unfold allScopesLoop at h ⊢; exact h
  | cons a as ih => intro st acc r h; unfold allScopesLoop at h ⊢; mono_tac h

theorem opAllScopes_mono (st : St) (args : List Sx) (r : Sx × St) (h : opAllScopes rec st args = .ok r) : opAllScopes rec' st args = .ok r := by
  have hl := allScopesLoop_mono rec rec' hm
  unfold opAllScopes at h ⊢
  mono_tac h

theorem opResolveScope_mono (st : St) (args : List Sx) (r : Sx × St) (h : opResolveScope rec st args = .ok r) : opResolveScope rec' st args = .ok r := by
  have hl := readSignal_mono rec rec' hm
  unfold opResolveScope at h ⊢
  mono_tac h

theorem opResolveGroup_mono (st : St) (args : List Sx) (r : Sx × St) (h : opResolveGroup rec st args = .ok r) : opResolveGroup rec' st args = .ok r := by
  have hl := readSignal_mono rec rec' hm
  unfold opResolveGroup at h ⊢
  mono_tac h

theorem groupArgs_mono : ∀ (as : List Sx) (st : St) (r : List String × St), groupArgs rec st as = .ok r → groupArgs rec' st as = .ok r := by
  intro as
  induction as with
  | nil => intro st r h; unfold groupArgs at h ⊢; exact h
  | cons a as ih => intro st r h; unfold groupArgs at h ⊢; mono_tac h

theorem opGroups_mono (st : St) (args : List Sx) (r : Sx × St) (h : opGroups rec st args = .ok r) : opGroups rec' st args = .ok r := by
  have hl := groupArgs_mono rec rec' hm
  unfold opGroups at h ⊢
  by_cases he : args.isEmpty = true
  · simp [he] at h
  · simp only [he, bind, Except.bind] at h ⊢
    cases hg : groupArgs rec st args with
    | error e => simp [hg] at h
    | ok v => simp only [hl _ _ _ hg]; simp only [hg] at h; exact h

theorem opInGroup_mono (st : St) (args : List Sx) (r : Sx × St) (h : opInGroup rec st args = .ok r) : opInGroup rec' st args = .ok r := by
  unfold opInGroup at h ⊢
  mono_tac h

theorem inGroupsLoop_mono (body : List Sx) : ∀ (gs : List Sx) (st : St) (l : Sx) (r : Sx × St),
    inGroupsLoop rec body st gs l = .ok r → inGroupsLoop rec' body st gs l = .ok r := by
  have hl := opInGroup_mono rec rec' hm
  intro gs
  induction gs with
  | nil => intro st l r h; unfold inGroupsLoop at h ⊢; exact h
  | cons a as ih => intro st l r h; unfold inGroupsLoop at h ⊢; mono_tac h

theorem opInGroups_mono (st : St) (args : List Sx) (r : Sx × St) (h : opInGroups rec st args = .ok r) : opInGroups rec' st args = .ok r := by
  have hl := inGroupsLoop_mono rec rec' hm
  unfold opInGroups at h ⊢
  mono_tac h

omit hm in
theorem mapLoop_mono (call call' : St → Sx → Res) (hc : ∀ s x r, call s x = .ok r → call' s x = .ok r) :
    ∀ (l : List Sx) (st : St) (r : List Sx × St), mapLoop call st l = .ok r → mapLoop call' st l = .ok r := by
  intro l
  induction l with
  | nil => intro st r h; unfold mapLoop at h ⊢; exact h
  | cons a as ih =>
    intro st r h; unfold mapLoop at h ⊢
    simp only [Glob.bind_ok] at h ⊢
    obtain ⟨⟨v, st1⟩, h1, ⟨ws, st2⟩, h2, h3⟩ := h
    exact ⟨(v, st1), hc _ _ _ h1, (ws, st2), ih _ _ h2, h3⟩

omit hm in
theorem foldLoop_mono (call call' : St → Sx → Sx → Res) (hc : ∀ s a x r, call s a x = .ok r → call' s a x = .ok r) :
    ∀ (l : List Sx) (st : St) (acc : Sx) (r : Sx × St), foldLoop call st acc l = .ok r → foldLoop call' st acc l = .ok r := by
  intro l
  induction l with
  | nil => intro st acc r h; unfold foldLoop at h ⊢; exact h
  | cons a as ih =>
    intro st acc r h; unfold foldLoop at h ⊢
    simp only [Glob.bind_ok] at h ⊢
    obtain ⟨⟨v, st1⟩, h1, h2⟩ := h
    exact ⟨(v, st1), hc _ _ _ _ h1, ih _ _ _ h2⟩

theorem opMap_mono (st : St) (args : List Sx) (r : Sx × St) (h : opMap rec st args = .ok r) : opMap rec' st args = .ok r := by
  have hc := evalClosure_mono rec rec' hm
  have hl1 := fun o => mapLoop_mono (fun s x => rec s (.list true [.op o, quoteOf x])) (fun s x => rec' s (.list true [.op o, quoteOf x]))
    (fun s x r hh => hm _ _ _ hh)
  have hl2 := fun fv => mapLoop_mono (fun s x => evalClosure rec s fv [.list false [.op .QUOTE, x]])
    (fun s x => evalClosure rec' s fv [.list false [.op .QUOTE, x]]) (fun s x r hh => hc _ _ _ _ hh)
  unfold opMap at h ⊢
  mono_tac h

theorem opFold_mono (st : St) (args : List Sx) (r : Sx × St) (h : opFold rec st args = .ok r) : opFold rec' st args = .ok r := by
  have hc := evalClosure_mono rec rec' hm
  have hl1 := fun o => foldLoop_mono (fun s acc x => rec s (.list true [.op o, quoteOf acc, quoteOf x]))
    (fun s acc x => rec' s (.list true [.op o, quoteOf acc, quoteOf x])) (fun s a x r hh => hm _ _ _ hh)
  have hl2 := fun fv => foldLoop_mono (fun s acc x => evalClosure rec s fv [quoteOf acc, quoteOf x])
    (fun s acc x => evalClosure rec' s fv [quoteOf acc, quoteOf x]) (fun s a x r hh => hc _ _ _ _ hh)
  unfold opFold at h ⊢
  mono_tac h

theorem mapaCall_mono (fv : Sx) (s : St) (kv : Sx) (r : Sx × St) (h : mapaCall rec fv s kv = .ok r) : mapaCall rec' fv s kv = .ok r := by
  have hc := evalClosure_mono rec rec' hm
  unfold mapaCall at h ⊢
  split at h
  · exact hc _ _ _ _ h
  · simp at h

theorem opMapa_mono (st : St) (args : List Sx) (r : Sx × St) (h : opMapa rec st args = .ok r) : opMapa rec' st args = .ok r := by
  have hl2 := fun fv => mapLoop_mono (mapaCall rec fv) (mapaCall rec' fv) (fun s x r hh => mapaCall_mono rec rec' hm fv s x r hh)
  unfold opMapa at h ⊢
  mono_tac h

theorem arrayBuild_mono : ∀ (as : List Sx) (st : St) (acc : List (String × Sx)) (r : List (String × Sx) × St),
    arrayBuild rec st as acc = .ok r → arrayBuild rec' st as acc = .ok r := by
  intro as
  induction as with
  | nil => intro st acc r h; unfold arrayBuild at h ⊢; exact h
  | cons a as ih => intro st acc r h; unfold arrayBuild at h ⊢; mono_tac h

theorem opArray_mono (st : St) (args : List Sx) (r : Sx × St) (h : opArray rec st args = .ok r) : opArray rec' st args = .ok r := by
  have hl := arrayBuild_mono rec rec' hm
  unfold opArray at h ⊢
  mono_tac h

theorem evalArrKey_mono (st : St) (a k : Sx) (r : Nat × String × St)
    (h : evalArrKey rec st a k = .ok r) : evalArrKey rec' st a k = .ok r := by
  unfold evalArrKey at h ⊢
  mono_tac h

theorem opSeta_mono (st : St) (args : List Sx) (r : Sx × St) (h : opSeta rec st args = .ok r) : opSeta rec' st args = .ok r := by
  have hl := evalArrKey_mono rec rec' hm
  unfold opSeta at h ⊢
  mono_tac h

theorem opGeta_mono (st : St) (args : List Sx) (r : Sx × St) (h : opGeta rec st args = .ok r) : opGeta rec' st args = .ok r := by
  have hl := evalArrKey_mono rec rec' hm
  unfold opGeta at h ⊢
  mono_tac h

theorem opDela_mono (st : St) (args : List Sx) (r : Sx × St) (h : opDela rec st args = .ok r) : opDela rec' st args = .ok r := by
  have hl := evalArrKey_mono rec rec' hm
  unfold opDela at h ⊢
  mono_tac h

theorem opStep_mono (st : St) (args : List Sx) (r : Sx × St) (h : opStep rec st args = .ok r) : opStep rec' st args = .ok r := by
  unfold opStep at h ⊢
  mono_tac h

theorem findLoop_mono (c : Sx) (tid : String) : ∀ (k k' : Nat), k ≤ k' → ∀ (st : St) (acc : List Int) (r : List Int × St),
    findLoop rec c tid k st acc = .ok r → findLoop rec' c tid k' st acc = .ok r := by
  intro k
  induction k with
  | zero => intro k' _ st acc r h; unfold findLoop at h; simp at h
  | succ k ih =>
    intro k' hk st acc r h
    obtain ⟨k'', rfl⟩ : ∃ k'', k' = k'' + 1 := ⟨k' - 1, by omega⟩
    have ih' := ih k'' (by omega)
    unfold findLoop at h ⊢; mono_tac h

theorem findTraces_mono (n n' : Nat) (hn : n ≤ n') (c : Sx) : ∀ (tids : List String) (st : St) (acc : List Int) (r : List Int × St),
    findTraces n rec c st tids acc = .ok r → findTraces n' rec' c st tids acc = .ok r := by
  have hl := fun c tid => findLoop_mono rec rec' hm c tid n n' hn
  intro tids
  induction tids with
  | nil => intro st acc r h; unfold findTraces at h ⊢; exact h
  | cons a as ih => intro st acc r h; unfold findTraces at h ⊢; mono_tac h

theorem opFind_mono (n n' : Nat) (hn : n ≤ n') (st : St) (args : List Sx) (r : Sx × St) (h : opFind n rec st args = .ok r) : opFind n' rec' st args = .ok r := by
  have hl := findTraces_mono rec rec' hm n n' hn
  unfold opFind at h ⊢
  mono_tac h

theorem scanLoop_mono {α : Type} (c : Sx) (onHit onHit' : St → α → Except Err (α × St))
    (ho : ∀ s a r, onHit s a = .ok r → onHit' s a = .ok r) : ∀ (k k' : Nat), k ≤ k' → ∀ (st : St) (acc : α) (r : α × St),
    scanLoop rec c onHit k st acc = .ok r → scanLoop rec' c onHit' k' st acc = .ok r := by
  intro k
  induction k with
  | zero => intro k' _ st acc r h; unfold scanLoop at h; simp at h
  | succ k ih =>
    intro k' hk st acc r h
    obtain ⟨k'', rfl⟩ : ∃ k'', k' = k'' + 1 := ⟨k' - 1, by omega⟩
    have ih' := ih k'' (by omega)
    unfold scanLoop at h ⊢; mono_tac h

theorem opFindG_mono (n n' : Nat) (hn : n ≤ n') (st : St) (args : List Sx) (r : Sx × St) (h : opFindG n rec st args = .ok r) : opFindG n' rec' st args = .ok r := by
  have hl := fun c (onHit : St → List Sx → Except Err (List Sx × St)) => scanLoop_mono rec rec' hm c onHit onHit (fun _ _ _ hh => hh) n n' hn
  unfold opFindG at h ⊢
  mono_tac h

theorem wheneverBody_mono (body : List Sx) (s : St) (a : Sx) (r : Sx × St)
    (h : wheneverBody rec body s a = .ok r) : wheneverBody rec' body s a = .ok r := by
  unfold wheneverBody at h ⊢
  mono_tac h

theorem opWhenever_mono (n n' : Nat) (hn : n ≤ n') (st : St) (args : List Sx) (r : Sx × St) (h : opWhenever n rec st args = .ok r) : opWhenever n' rec' st args = .ok r := by
  have hl2 := fun c body => scanLoop_mono rec rec' hm c (wheneverBody rec body) (wheneverBody rec' body)
    (fun s a r hh => wheneverBody_mono rec rec' hm body s a r hh) n n' hn
  unfold opWhenever at h ⊢
  mono_tac h

theorem dispatch_mono (n n' : Nat) (hn : n ≤ n') (st : St) (o : Op) (args : List Sx) (r : Sx × St)
    (h : dispatch n rec st o args = .ok r) : dispatch n' rec' st o args = .ok r := by
  cases o with
  | NOT => exact opNot_mono rec rec' hm  _ _ _ h
  | EQ => exact opEq_mono rec rec' hm false _ _ _ h
  | NEQ => exact opEq_mono rec rec' hm true _ _ _ h
  | LARGER => exact opCmp_mono rec rec' hm .gt _ _ _ h
  | SMALLER => exact opCmp_mono rec rec' hm .lt _ _ _ h
  | LARGER_EQUAL => exact opCmp_mono rec rec' hm .ge _ _ _ h
  | SMALLER_EQUAL => exact opCmp_mono rec rec' hm .le _ _ _ h
  | AND => exact opAnd_mono rec rec' hm  _ _ _ h
  | OR => exact opOr_mono rec rec' hm  _ _ _ h
  | LET => exact opLet_mono rec rec' hm  _ _ _ h
  | DEFINE => exact opDefine_mono rec rec' hm  _ _ _ h
  | SET => exact opSet_mono rec rec' hm  _ _ _ h
  | PRINT => exact opPrint_mono rec rec' hm  _ _ _ h
  | PRINTF => exact h
  | IF => exact opIf_mono rec rec' hm  _ _ _ h
  | CASE => exact opCase_mono rec rec' hm  _ _ _ h
  | DO => exact opDo_mono rec rec' hm  _ _ _ h
  | WHILE => exact opWhile_mono rec rec' hm n n' hn _ _ _ h
  | ALIAS => exact opAlias_mono rec rec' hm  _ _ _ h
  | UNALIAS => exact h
  | QUOTE => exact h
  | QUASIQUOTE => exact opQuasiquote_mono rec rec' hm  _ _ _ h
  | UNQUOTE => exact h
  | EVAL => exact opEval_mono rec rec' hm n n' hn _ _ _ h
  | PARSE => exact h
  | DEFMACRO => exact opDefmacro_mono rec rec' hm n n' hn _ _ _ h
  | MACROEXPAND => exact opMacroexpand_mono rec rec' hm n n' hn _ _ _ h
  | GENSYM => exact h
  | FN => exact h
  | GET => exact opGet_mono rec rec' hm  _ _ _ h
  | IMPORT => exact h
  | CALL => exact h
  | TYPE => exact opType_mono rec rec' hm  _ _ _ h
  | REL_EVAL => exact opReval_mono rec rec' hm  _ _ _ h
  | SCOPED => exact opScoped_mono rec rec' hm  _ _ _ h
  | RESOLVE_SCOPE => exact opResolveScope_mono rec rec' hm  _ _ _ h
  | ALLSCOPES => exact opAllScopes_mono rec rec' hm  _ _ _ h
  | SETSCOPE => exact h
  | UNSETSCOPE => exact h
  | GROUPS => exact opGroups_mono rec rec' hm  _ _ _ h
  | IN_GROUP => exact opInGroup_mono rec rec' hm  _ _ _ h
  | IN_GROUPS => exact opInGroups_mono rec rec' hm  _ _ _ h
  | RESOLVE_GROUP => exact opResolveGroup_mono rec rec' hm  _ _ _ h
  | SLICE => exact opSlice_mono rec rec' hm  _ _ _ h
  | LOADED_TRACES => exact h
  | EXIT => exact opExit_mono rec rec' hm  _ _ _ h
  | ADD => exact opAdd_mono rec rec' hm  _ _ _ h
  | SUB => exact opSub_mono rec rec' hm  _ _ _ h
  | MUL => exact opMul_mono rec rec' hm  _ _ _ h
  | DIV => exact opDiv_mono rec rec' hm  _ _ _ h
  | EXP => exact opExp_mono rec rec' hm  _ _ _ h
  | FLOOR => exact opRoundLike_mono rec rec' hm  _ _ _ h
  | CEIL => exact opRoundLike_mono rec rec' hm  _ _ _ h
  | ROUND => exact opRoundLike_mono rec rec' hm  _ _ _ h
  | MOD => exact opMod_mono rec rec' hm  _ _ _ h
  | BOR => exact opBitwise_mono rec rec' hm intLor (· || ·) _ _ _ h
  | BAND => exact opBitwise_mono rec rec' hm intLand (· && ·) _ _ _ h
  | BXOR => exact opBitwise_mono rec rec' hm intXor (fun a b => a != b) _ _ _ h
  | IS_DEFINED => exact opIsDefined_mono rec rec' hm  _ _ _ h
  | IS_ATOM => exact opAllPred_mono rec rec' hm isAtomVal _ _ _ h
  | IS_SYMBOL => exact opAllPred_mono rec rec' hm isSym _ _ _ h
  | IS_STRING => exact opAllPred_mono rec rec' hm isStr _ _ _ h
  | IS_INT => exact opAllPred_mono rec rec' hm isIntLike _ _ _ h
  | IS_LIST => exact opAllPred_mono rec rec' hm isList _ _ _ h
  | CONVERT_BINARY => exact opConvertBin_mono rec rec' hm  _ _ _ h
  | STRING_TO_INT => exact opStringToInt_mono rec rec' hm  _ _ _ h
  | BITS_TO_SINT => exact opBitsToSint_mono rec rec' hm  _ _ _ h
  | STRING_TO_SYMBOL => exact opStringToSymbol_mono rec rec' hm  _ _ _ h
  | SYMBOL_TO_STRING => exact opSymbolToString_mono rec rec' hm  _ _ _ h
  | INT_TO_STRING => exact opIntToString_mono rec rec' hm  _ _ _ h
  | LIST => exact opList_mono rec rec' hm  _ _ _ h
  | FIRST => exact opListAccess_mono rec rec' hm selFirst _ _ _ h
  | SECOND => exact opListAccess_mono rec rec' hm selSecond _ _ _ h
  | LAST => exact opListAccess_mono rec rec' hm selLast _ _ _ h
  | REST => exact opListAccess_mono rec rec' hm selRest _ _ _ h
  | IN => exact opIn_mono rec rec' hm  _ _ _ h
  | MAP => exact opMap_mono rec rec' hm  _ _ _ h
  | MAX => exact opMaxMin_mono rec rec' hm true _ _ _ h
  | MIN => exact opMaxMin_mono rec rec' hm false _ _ _ h
  | FOLD => exact opFold_mono rec rec' hm  _ _ _ h
  | LENGTH => exact opLength_mono rec rec' hm  _ _ _ h
  | AVERAGE => exact opAverage_mono rec rec' hm  _ _ _ h
  | ZIP => exact opZip_mono rec rec' hm  _ _ _ h
  | RANGE => exact opRange_mono rec rec' hm  _ _ _ h
  | ARRAY => exact opArray_mono rec rec' hm  _ _ _ h
  | SETA => exact opSeta_mono rec rec' hm  _ _ _ h
  | GETA => exact opGeta_mono rec rec' hm  _ _ _ h
  | DELA => exact opDela_mono rec rec' hm  _ _ _ h
  | MAPA => exact opMapa_mono rec rec' hm  _ _ _ h
  | LOAD => exact h
  | UNLOAD => exact opUnload_mono rec rec' hm  _ _ _ h
  | STEP => exact opStep_mono rec rec' hm  _ _ _ h
  | REPL => exact h
  | IS_SIGNAL => exact opIsSignal_mono rec rec' hm  _ _ _ h
  | REQUIRE => exact h
  | EVAL_FILE => exact h
  | FIND => exact opFind_mono rec rec' hm n n' hn _ _ _ h
  | FIND_G => exact opFindG_mono rec rec' hm n n' hn _ _ _ h
  | WHENEVER => exact opWhenever_mono rec rec' hm n n' hn _ _ _ h
  | FOLD_SIGNAL => exact h
  | SIGNAL_WIDTH => exact opSignalWidth_mono rec rec' hm  _ _ _ h
  | SAMPLE_AT => exact opSampleAt_mono rec rec' hm  _ _ _ h
  | TRIM_TRACE => exact opTrimTrace_mono rec rec' hm  _ _ _ h
  | DEFSIG => exact h
  | NEWTRACE => exact h
  | DUMPTRACE => exact h

theorem evalStep_mono (n n' : Nat) (hn : n ≤ n') (st : St) (e : Sx) (r : Sx × St)
    (h : evalStep n rec st e = .ok r) : evalStep n' rec' st e = .ok r := by
  have hl := evalSym_mono rec rec' hm
  have hl1 := dispatch_mono rec rec' hm n n' hn
  have hl2 := evalClosure_mono rec rec' hm
  unfold evalStep at h ⊢
  mono_tac h

end

/-- **more fuel never changes a completed evaluation** -/
theorem eval_mono : ∀ (n : Nat) (st : St) (e : Sx) (r : Sx × St), eval n st e = .ok r → eval (n + 1) st e = .ok r := by
  intro n
  induction n with
  | zero => intro st e r h; simp [eval] at h
  | succ n ih =>
    intro st e r h
    simp only [eval] at h ⊢
    exact evalStep_mono (eval n) (eval (n + 1)) ih n (n + 1) (Nat.le_succ n) st e r h

theorem eval_mono_le (n m : Nat) (hnm : n ≤ m) (st : St) (e : Sx) (r : Sx × St) (h : eval n st e = .ok r) :
    eval m st e = .ok r := by
  induction hnm with
  | refl => exact h
  | step _ ih => exact eval_mono _ st e r ih

/-- fuel-free big-step evaluation: some amount of fuel suffices -/
def Evals (st : St) (e : Sx) (r : Sx × St) : Prop := ∃ n, eval n st e = .ok r

/-- **the fuel is not observable**: whatever fuel two completed runs of the same expression in the same state were
given, they returned the same value and the same state -/
theorem Evals_det (st : St) (e : Sx) (r r' : Sx × St) (h : Evals st e r) (h' : Evals st e r') : r = r' := by
  obtain ⟨n, hn⟩ := h
  obtain ⟨m, hm⟩ := h'
  have h1 := eval_mono_le n (max n m) (Nat.le_max_left _ _) st e r hn
  have h2 := eval_mono_le m (max n m) (Nat.le_max_right _ _) st e r' hm
  rw [h1] at h2
  exact (Except.ok.inj h2)

/-- the pipeline is monotone in the fuel as well -/
theorem walEval_mono (m : Mode) (n n' : Nat) (hn : n ≤ n') (st : St) (e : Sx) (r : Sx × St)
    (h : walEval m n st e = .ok r) : walEval m n' st e = .ok r := by
  have hm : ∀ st e r, eval n st e = .ok r → eval n' st e = .ok r := fun st e r hh => eval_mono_le n n' hn st e r hh
  have hl := (expand_mono (eval n) (eval n') hm (some 0) n n' hn).1
  unfold walEval at h ⊢
  simp only [bind, Except.bind, pure, Except.pure, ofOpt] at h ⊢
  repeat' (split at h)
  all_goals try (simp at h; done)
  all_goals (first | (simp_all; done) | grind)

end Wal.Mono
