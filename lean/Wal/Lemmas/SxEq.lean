import Wal.Model.Eval
namespace Wal
mutual
/-- structural equality test on values / code -/
def sxEq : Sx → Sx → Bool
  | .none, .none => true
  | .int a, .int b => a == b
  | .bool a, .bool b => a == b
  | .flt a, .flt b => a == b
  | .str a, .str b => a == b
  | .sym a k, .sym b j => a == b && k == j
  | .op a, .op b => decide (a = b)
  | .list w xs, .list v ys => w == v && sxEqL xs ys
  | .unq a, .unq b => sxEq a b
  | .unqs a, .unqs b => sxEq a b
  | .clo e p b n, .clo e' p' b' n' => e == e' && sxEq p p' && sxEq b b' && n == n'
  | .mac n p b, .mac n' p' b' => n == n' && sxEq p p' && sxEq b b'
  | .arr a, .arr b => a == b
  | .ty a, .ty b => a == b
  | _, _ => false
def sxEqL : List Sx → List Sx → Bool
  | [], [] => true
  | a :: r, b :: s => sxEq a b && sxEqL r s
  | _, _ => false
end

theorem sxEq_sound_aux : ∀ (n : Nat), (∀ a b, sizeOf a < n → sxEq a b = true → a = b) ∧
    (∀ l m, sizeOf l < n → sxEqL l m = true → l = m) := by
  intro n
  induction n with
  | zero => exact ⟨fun _ _ h => absurd h (Nat.not_lt_zero _), fun _ _ h => absurd h (Nat.not_lt_zero _)⟩
  | succ n ih =>
    obtain ⟨ih1, ih2⟩ := ih
    constructor
    · intro a b hs h
      cases a <;> cases b <;> simp [sxEq] at h <;> try (first | rfl | (simp_all; done))
      · rename_i w xs v ys
        simp only [Sx.list.sizeOf_spec] at hs
        rw [h.1, ih2 xs ys (by omega) h.2]
      · rename_i e e'
        simp only [Sx.unq.sizeOf_spec] at hs
        rw [ih1 e e' (by omega) h]
      · rename_i e e'
        simp only [Sx.unqs.sizeOf_spec] at hs
        rw [ih1 e e' (by omega) h]
      · rename_i en p b nm en' p' b' nm'
        simp only [Sx.clo.sizeOf_spec] at hs
        rw [h.1.1.1, ih1 p p' (by omega) h.1.1.2, ih1 b b' (by omega) h.1.2, h.2]
      · rename_i nm p b nm' p' b'
        simp only [Sx.mac.sizeOf_spec] at hs
        rw [h.1.1, ih1 p p' (by omega) h.1.2, ih1 b b' (by omega) h.2]
    · intro l m hs h
      cases l <;> cases m <;> simp [sxEqL] at h
      · rfl
      · rename_i a r b s
        simp only [List.cons.sizeOf_spec] at hs
        rw [ih1 a b (by omega) h.1, ih2 r s (by omega) h.2]

theorem sxEqL_sound (l m : List Sx) (h : sxEqL l m = true) : l = m :=
  (sxEq_sound_aux (sizeOf l + 1)).2 l m (Nat.lt_succ_self _) h

theorem sxEq_sound (a b : Sx) (h : sxEq a b = true) : a = b :=
  (sxEq_sound_aux (sizeOf a + 1)).1 a b (Nat.lt_succ_self _) h

end Wal
