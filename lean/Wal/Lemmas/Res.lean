import Wal.Lemmas.OptMain
import Wal.Props.C07
/-!
# Resolved evaluation = dynamic evaluation, for the same annotated program

`evalD` ignores every `steps` annotation (pure dynamic lookup). `evalC` is the evaluator with a dynamic check at every
annotated access: at the moment a resolved read or assignment executes, the frame heap is well formed, the current
environment is allocated, the `k` frames the access hops over do not bind the name (and, for a read, the name is
neither an alias nor a signal). `evalC ⊑ eval` (`evalC_sub`) and `evalC ⊑ evalD` (`resolved_eq_dynamic`): both run the
*same* program, so stored closures are literally equal and no value relation is needed.
-/
namespace Wal.Res
open Wal

/-! ## decidable versions of the premises -/

def heapOkB (st : St) : Bool :=
  (List.range st.frames.size).all (fun i => match st.frames[i]? with
    | some f => (match f.parent with | some p => decide (p < i) | Option.none => true)
    | Option.none => true)

theorem heapOkB_sound (st : St) (h : heapOkB st = true) : Glob.HeapOK st := by
  intro i f p hf hp
  have hi : i < st.frames.size := by
    rcases Nat.lt_or_ge i st.frames.size with hi | hi
    · exact hi
    · have : st.frames[i]? = Option.none := by simp; omega
      rw [this] at hf; simp at hf
  unfold heapOkB at h
  rw [List.all_eq_true] at h
  have := h i (List.mem_range.2 hi)
  simp only [hf, hp] at this
  simpa using this

def skipsFreeB (st : St) (x : String) : Nat → Nat → Bool
  | _, 0 => true
  | i, k + 1 => match st.frames[i]? with
    | some f => !assocHas f.vars x && (match f.parent with
      | some p => skipsFreeB st x p k
      | Option.none => false)
    | Option.none => false

theorem skipsFreeB_sound (st : St) (x : String) : ∀ (k i : Nat), skipsFreeB st x i k = true → C07.SkipsFree st x i k := by
  intro k
  induction k with
  | zero => intro i _; trivial
  | succ k ih =>
    intro i h
    unfold skipsFreeB at h
    split at h
    · rename_i f hf
      simp only [Bool.and_eq_true, Bool.not_eq_true'] at h
      obtain ⟨h1, h2⟩ := h
      split at h2
      · rename_i p hp
        exact ⟨f, p, hf, h1, hp, ih p h2⟩
      · simp at h2
    · simp at h

/-- the premises of `C07.resolved_read_eq_dynamic`, decided at the moment of the access -/
def readOk (st : St) (x : String) (k : Nat) : Bool :=
  heapOkB st && decide (st.env < st.frames.size) && (st.aliases.lookup x).isNone &&
  (match st.tc.contains x with | some false => true | _ => false) &&
  (st.hop st.env k).isSome && skipsFreeB st x st.env k

/-- … and of `C07.resolved_write_eq_dynamic` -/
def writeOk (st : St) (x : String) (k : Nat) : Bool :=
  heapOkB st && decide (st.env < st.frames.size) && (st.hop st.env k).isSome && skipsFreeB st x st.env k

theorem read_eq (rec : St → Sx → Res) (st : St) (x : String) (k : Nat) (h : readOk st x k = true) :
    evalSym rec st x (some k) = evalSym rec st x Option.none := by
  simp only [readOk, Bool.and_eq_true, decide_eq_true_eq, Option.isNone_iff_eq_none, Option.isSome_iff_exists] at h
  obtain ⟨⟨⟨⟨⟨h1, h2⟩, h3⟩, h4⟩, ⟨j, h5⟩⟩, h6⟩ := h
  have h4' : st.tc.contains x = some false := by
    split at h4 <;> first | assumption | simp at h4
  exact C07.resolved_read_eq_dynamic rec st (heapOkB_sound st h1) x k j h2 h3 h4' h5 (skipsFreeB_sound st x k _ h6)

/-! ## assignment: checked and dynamic variants of the binding loop -/

/-- where an assignment starts its walk, with the check in front of an annotated key -/
def startC (st1 : St) (n : String) : Option Nat → Except Err Nat
  | some k =>
    if writeOk st1 n k then ofOpt (st1.hop st1.env k) (errA "AttributeError: no parent environment")
    else .error (.unsupported "annotation does not describe the frames at the moment of the assignment")
  | Option.none => .ok st1.env

/-- `setLoop` with the check in front of every annotated write -/
def setLoopC (rec : St → Sx → Res) : St → List Sx → Sx → Res
  | st, [], last => .ok (last, st)
  | st, a :: r, _ =>
    match a with
    | .list true [.sym n steps, e] => do
      let (v, st1) ← rec st e
      let start ← startC st1 n steps
      match st1.writeFrom start n v with
      | some st2 => setLoopC rec st2 r v
      | Option.none => .error (errA "Write to undefined symbol")
    | _ => .error (errA "set: arguments must be (key:symbol expr) tuples")

/-- `setLoop` that ignores the annotations: the walk always starts at the current environment -/
def setLoopD (rec : St → Sx → Res) : St → List Sx → Sx → Res
  | st, [], last => .ok (last, st)
  | st, a :: r, _ =>
    match a with
    | .list true [.sym n _, e] => do
      let (v, st1) ← rec st e
      match st1.writeFrom st1.env n v with
      | some st2 => setLoopD rec st2 r v
      | Option.none => .error (errA "Write to undefined symbol")
    | _ => .error (errA "set: arguments must be (key:symbol expr) tuples")

theorem write_eq (st1 : St) (n : String) (k : Nat) (v : Sx) (h : writeOk st1 n k = true) :
    ∃ j, st1.hop st1.env k = some j ∧ st1.writeFrom j n v = st1.writeFrom st1.env n v := by
  simp only [writeOk, Bool.and_eq_true, decide_eq_true_eq, Option.isSome_iff_exists] at h
  obtain ⟨⟨⟨h1, h2⟩, ⟨j, h3⟩⟩, h4⟩ := h
  exact ⟨j, h3, (C07.write_hop st1 (heapOkB_sound st1 h1) n v k st1.env j h2 h3 (skipsFreeB_sound st1 n k _ h4)).symm⟩

theorem startC_write (st1 : St) (n : String) (steps : Option Nat) (j : Nat) (v : Sx)
    (h : startC st1 n steps = .ok j) : st1.writeFrom j n v = st1.writeFrom st1.env n v := by
  cases steps with
  | none => simp only [startC, Except.ok.injEq] at h; subst h; rfl
  | some k =>
    simp only [startC] at h
    split at h
    · rename_i hok
      obtain ⟨j', hj, hw⟩ := write_eq st1 n k v hok
      simp only [hj, ofOpt, Except.ok.injEq] at h
      subst h; exact hw
    · simp at h

theorem startC_real (st1 : St) (n : String) (steps : Option Nat) (j : Nat) (h : startC st1 n steps = .ok j) :
    (match steps with
      | some k => ofOpt (st1.hop st1.env k) (errA "AttributeError: no parent environment")
      | Option.none => (pure st1.env : Except Err Nat)) = .ok j := by
  cases steps with
  | none => simpa [startC, pure, Except.pure] using h
  | some k =>
    simp only [startC] at h
    split at h
    · exact h
    · simp at h

theorem setLoopC_sub (rec : St → Sx → Res) : ∀ (as : List Sx) (st : St) (l : Sx) (r : Sx × St),
    setLoopC rec st as l = .ok r → setLoop rec st as l = .ok r := by
  intro as
  induction as with
  | nil => intro st l r h; simpa [setLoopC, setLoop] using h
  | cons a as ih =>
    intro st l r h
    unfold setLoopC at h
    unfold setLoop
    split at h
    · rename_i n steps e
      simp only [bind, Except.bind] at h ⊢
      cases he : rec st e with
      | error er => simp [he] at h
      | ok p =>
        obtain ⟨v, st1⟩ := p
        simp only [he] at h ⊢
        cases hs : startC st1 n steps with
        | error er => simp [hs] at h
        | ok j =>
          simp only [hs] at h
          have hreal := startC_real st1 n steps j hs
          cases steps with
          | none =>
            simp only [pure, Except.pure, Except.ok.injEq] at hreal ⊢
            subst hreal
            split at h
            · rename_i st2 hw; simp only [hw]; exact ih _ _ _ h
            · simp at h
          | some k =>
            simp only at hreal ⊢
            simp only [hreal]
            split at h
            · rename_i st2 hw; simp only [hw]; exact ih _ _ _ h
            · simp at h
    · simp at h

theorem setLoopC_dyn (rec rec' : St → Sx → Res) (hm : ∀ st e r, rec st e = .ok r → rec' st e = .ok r) :
    ∀ (as : List Sx) (st : St) (l : Sx) (r : Sx × St),
    setLoopC rec st as l = .ok r → setLoopD rec' st as l = .ok r := by
  intro as
  induction as with
  | nil => intro st l r h; simpa [setLoopC, setLoopD] using h
  | cons a as ih =>
    intro st l r h
    unfold setLoopC at h
    unfold setLoopD
    split at h
    · rename_i n steps e
      simp only [bind, Except.bind] at h ⊢
      cases he : rec st e with
      | error er => simp [he] at h
      | ok p =>
        obtain ⟨v, st1⟩ := p
        have he' := hm _ _ _ he
        simp only [he] at h
        rw [he']
        dsimp only
        cases hs : startC st1 n steps with
        | error er => simp [hs] at h
        | ok j =>
          simp only [hs] at h
          rw [startC_write st1 n steps j v hs] at h
          cases hw : st1.writeFrom st1.env n v with
          | none => simp [hw] at h
          | some st2 =>
            simp only [hw] at h ⊢
            exact ih _ _ _ h
    · simp at h

/-! ## the two evaluators -/

/-- one layer of the checked evaluator: annotated reads and assignments are checked at the moment they execute -/
def evalStepC (n : Nat) (rec : St → Sx → Res) (st : St) : Sx → Res
  | .sym x (some k) =>
    if readOk st x k then evalSym rec st x (some k)
    else .error (.unsupported "annotation does not describe the frames at the moment of the read")
  | .list _ (.op .SET :: args) =>
    if args.isEmpty then .error (errA "set: expects at least one (key:symbol expr) pair") else setLoopC rec st args .none
  | e => evalStep n rec st e

/-- one layer of the dynamic evaluator: every name is looked up along the chain from the current environment -/
def evalStepD (n : Nat) (rec : St → Sx → Res) (st : St) : Sx → Res
  | .sym x _ => evalSym rec st x Option.none
  | .list _ (.op .SET :: args) =>
    if args.isEmpty then .error (errA "set: expects at least one (key:symbol expr) pair") else setLoopD rec st args .none
  | e => evalStep n rec st e

def evalC : Nat → St → Sx → Res
  | 0, _, _ => .error .fuel
  | n + 1, st, e => evalStepC n (evalC n) st e

def evalD : Nat → St → Sx → Res
  | 0, _, _ => .error .fuel
  | n + 1, st, e => evalStepD n (evalD n) st e

theorem evalStepC_sub (n : Nat) (rec : St → Sx → Res) (st : St) (e : Sx) (r : Sx × St)
    (h : evalStepC n rec st e = .ok r) : evalStep n rec st e = .ok r := by
  unfold evalStepC at h
  split at h
  · split at h
    · simpa [evalStep] using h
    · simp at h
  · split at h
    · simp at h
    · rename_i hne
      simp only [evalStep, dispatch, opSet, hne, Bool.false_eq_true, if_false]
      exact setLoopC_sub rec _ _ _ _ h
  · exact h

/-- the checked evaluator is a restriction of the evaluator -/
theorem evalC_sub : ∀ (n : Nat) (st : St) (e : Sx) (r : Sx × St), evalC n st e = .ok r → eval n st e = .ok r := by
  intro n
  induction n with
  | zero => intro st e r h; simp [evalC] at h
  | succ n ih =>
    intro st e r h
    simp only [evalC] at h
    simp only [eval]
    exact Mono.evalStep_mono (evalC n) (eval n) ih n n (Nat.le_refl n) st e r (evalStepC_sub _ _ _ _ _ h)

theorem evalStepC_dyn (n : Nat) (rec rec' : St → Sx → Res) (hm : ∀ st e r, rec st e = .ok r → rec' st e = .ok r)
    (st : St) (e : Sx) (r : Sx × St) (h : evalStepC n rec st e = .ok r) : evalStepD n rec' st e = .ok r := by
  unfold evalStepC at h
  split at h
  · rename_i x k
    split at h
    · rename_i hok
      rw [read_eq rec st x k hok] at h
      simp only [evalStepD]
      exact Mono.evalSym_mono rec rec' hm st x Option.none r h
    · simp at h
  · rename_i w args
    split at h
    · simp at h
    · rename_i hne
      simp only [evalStepD, hne, Bool.false_eq_true, if_false]
      exact setLoopC_dyn rec rec' hm _ _ _ _ h
  · rename_i h1 h2
    have hstep := Mono.evalStep_mono rec rec' hm n n (Nat.le_refl n) st e r h
    unfold evalStepD
    split
    · rename_i x k
      cases k with
      | none => simpa [evalStep] using hstep
      | some k => exact absurd rfl (h1 x k)
    · rename_i w args; exact absurd rfl (h2 w args)
    · exact hstep

/-- **static resolution preserves behaviour, access by access**: an evaluation of an annotated program in which every
annotated read and assignment, at the moment it executes, hops only over frames that do not bind the name, yields the
same value and the same state as the evaluation of the same program with every name looked up dynamically -/
theorem resolved_eq_dynamic : ∀ (n : Nat) (st : St) (e : Sx) (r : Sx × St), evalC n st e = .ok r → evalD n st e = .ok r := by
  intro n
  induction n with
  | zero => intro st e r h; simp [evalC] at h
  | succ n ih =>
    intro st e r h
    simp only [evalC] at h
    simp only [evalD]
    exact evalStepC_dyn n (evalC n) (evalD n) ih st e r h

/-- the pipeline over the checked evaluator (expand → optimize → resolve as in `Wal.eval`, then `evalC`): used by the
driver to report how many correspondence cases fall under `resolved_eq_dynamic` -/
def walEvalC (m : Mode) (n : Nat) (st : St) (e : Sx) : Res := do
  let (ex, st1) ← (if m.expand then expand (eval n) (some 0) n st e else pure (e, st))
  let opt := if m.optimize then optimize ex else ex
  let res ← (if m.resolve then ofOpt (resolve st1.globalNames opt) (errA "resolve: symbol already defined") else pure opt)
  evalC n st1 res

end Wal.Res
