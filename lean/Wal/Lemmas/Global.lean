import Wal.Model.Eval
/-!
# A global invariant of the evaluator, by induction on the fuel through **every** operator

`eval_P`: every completed evaluation of every expression — whatever operators, closures, macros, scans or nested
evaluations it runs — starts and ends in a well-formed state (`Ok`: the frame heap is acyclic with parents
allocated before their children, the current environment is an allocated frame), ends with the environment that was
current before, and only grows the frame heap. One lemma per operator, each against an arbitrary evaluator `rec` of
the sub-terms that has the property itself; `op_tac` closes the routine cases (unfold the operator, split every
`match`/`if` of the defining equation, chain the facts with `grind`).
-/
namespace Wal.Glob
open Wal

/-- frames are allocated after their parents: the parent id is smaller (chains are finite and acyclic) -/
def HeapOK (st : St) : Prop := ∀ (i : Nat) (f : Frame) (p : Nat), st.frames[i]? = some f → f.parent = some p → p < i

def Ok (st : St) : Prop := HeapOK st ∧ st.env < st.frames.size

/-- what every completed evaluation guarantees about the frame heap and the current environment -/
def P (st st' : St) : Prop :=
  Ok st → (Ok st' ∧ st'.env = st.env ∧ st.frames.size ≤ st'.frames.size)

theorem P.refl (st : St) : P st st := fun h => ⟨h, rfl, Nat.le_refl _⟩

theorem P.trans {a b c : St} (h1 : P a b) (h2 : P b c) : P a c := by
  intro ha
  obtain ⟨hb, e1, s1⟩ := h1 ha
  obtain ⟨hc, e2, s2⟩ := h2 hb
  exact ⟨hc, e2.trans e1, Nat.le_trans s1 s2⟩

/-- a state that differs from `st` in fields other than the frame heap and the environment -/
theorem P.of_eq {st st' : St} (hf : st'.frames = st.frames) (he : st'.env = st.env) : P st st' := by
  intro ⟨h1, h2⟩
  refine ⟨⟨?_, ?_⟩, he, ?_⟩
  · intro i f p; rw [hf]; exact h1 i f p
  · rw [hf, he]; exact h2
  · rw [hf]; exact Nat.le_refl _

def RecP (rec : St → Sx → Res) : Prop := ∀ st e v st', rec st e = .ok (v, st') → P st st'

theorem bind_ok {α β : Type} (x : Except Err α) (f : α → Except Err β) (r : β) :
    (x >>= f) = .ok r ↔ ∃ a, x = .ok a ∧ f a = .ok r := by
  cases x with
  | error e => simp [bind, Except.bind]
  | ok a => simp [bind, Except.bind]

theorem evalList_P (rec : St → Sx → Res) (hr : RecP rec) : ∀ (as : List Sx) (st st' : St) (vs : List Sx),
    evalList rec st as = .ok (vs, st') → P st st' := by
  intro as
  induction as with
  | nil => intro st st' vs h; simp [evalList] at h; rw [← h.2]; exact P.refl _
  | cons a as ih =>
    intro st st' vs h
    simp only [evalList, bind_ok] at h
    obtain ⟨⟨v, st1⟩, h1, ⟨ws, st2⟩, h2, h3⟩ := h
    simp only [pure, Except.pure, Except.ok.injEq, Prod.mk.injEq] at h3
    rw [← h3.2]
    exact (hr _ _ _ _ h1).trans (ih _ _ _ h2)


@[simp] theorem P_out (a b : St) (x : List String) : P a { b with out := x } ↔ P a b := Iff.rfl
@[simp] theorem P_tc (a b : St) (x : Container) : P a { b with tc := x } ↔ P a b := Iff.rfl
@[simp] theorem P_scope (a b : St) (x : String) : P a { b with scope := x } ↔ P a b := Iff.rfl
@[simp] theorem P_group (a b : St) (x : String) : P a { b with group := x } ↔ P a b := Iff.rfl
@[simp] theorem P_aliases (a b : St) (x : List (String × String)) : P a { b with aliases := x } ↔ P a b := Iff.rfl
@[simp] theorem P_gensym (a b : St) (x : Nat) : P a { b with gensym := x } ↔ P a b := Iff.rfl
@[simp] theorem P_arrays (a b : St) (x : Array (List (String × Sx))) : P a { b with arrays := x } ↔ P a b := Iff.rfl

@[simp, grind =] theorem PL_out (a b : St) (x : List String) : P { a with out := x } b = P a b := rfl
@[simp, grind =] theorem PL_tc (a b : St) (x : Container) : P { a with tc := x } b = P a b := rfl
@[simp, grind =] theorem PL_scope (a b : St) (x : String) : P { a with scope := x } b = P a b := rfl
@[simp, grind =] theorem PL_group (a b : St) (x : String) : P { a with group := x } b = P a b := rfl
@[simp, grind =] theorem PL_aliases (a b : St) (x : List (String × String)) : P { a with aliases := x } b = P a b := rfl
@[simp, grind =] theorem PL_gensym (a b : St) (x : Nat) : P { a with gensym := x } b = P a b := rfl
@[simp, grind =] theorem PL_arrays (a b : St) (x : Array (List (String × Sx))) : P { a with arrays := x } b = P a b := rfl
@[simp, grind =] theorem PL_gs (a b : St) (x y : String) : P { a with group := x, scope := y } b = P a b := rfl

/-- closes an operator case: unfold, split every match/if of the hypothesis, then chain the `P` facts -/
syntax "op_tac" ident : tactic
macro_rules
  | `(tactic| op_tac $h:ident) => `(tactic| (
      try simp only [bind, Except.bind, pure, Except.pure, St.updTrace, St.setArr, St.newArr, ofOpt, containsOrErr, readCS, readCG] at $h:ident
      repeat' (split at $h:ident)
      all_goals (first
        | (simp at $h:ident; done)
        | (simp only [Except.ok.injEq, Prod.mk.injEq] at $h:ident
           obtain ⟨_, hst⟩ := $h:ident
           subst hst
           try simp only [P_out, P_tc, P_scope, P_group, P_aliases, P_gensym, P_arrays, PL_out, PL_tc, PL_scope, PL_group, PL_aliases, PL_gensym, PL_arrays]
           grind [P.refl, P.trans])
        | (grind [P.refl, P.trans]))))


/-! ## the primitives that touch the frame heap -/

theorem setVar_P (st : St) (j : Nat) (x : String) (v : Sx) : P st (st.setVar j x v) := by
  unfold St.setVar
  cases hj : st.frames[j]? with
  | none => exact P.refl _
  | some f =>
    intro ⟨h1, h2⟩
    refine ⟨⟨?_, ?_⟩, rfl, ?_⟩
    rotate_left
    · simpa using h2
    · simp
    intro i g p hg hp
    simp only [Array.set!_eq_setIfInBounds, Array.getElem?_setIfInBounds] at hg
    split at hg
    · split at hg
      · simp only [Option.some.injEq] at hg
        subst hg
        rename_i hij _
        subst hij
        exact h1 j f p hj hp
      · simp at hg
    · exact h1 i g p hg hp

theorem defineIn_P (st st' : St) (j : Nat) (x : String) (v : Sx) (h : st.defineIn j x v = some st') : P st st' := by
  unfold St.defineIn at h
  split at h
  · split at h
    · simp at h
    · simp only [Option.some.injEq] at h; subst h; exact setVar_P _ _ _ _
  · simp at h

theorem writeFrom_P (st st' : St) (j : Nat) (x : String) (v : Sx) (h : st.writeFrom j x v = some st') : P st st' := by
  unfold St.writeFrom at h
  split at h
  · simp only [Option.some.injEq] at h; subst h; exact setVar_P _ _ _ _
  · simp at h

theorem writeGlobal_P (st st' : St) (x : String) (v : Sx) (h : st.writeGlobal x v = .ok st') : P st st' := by
  unfold St.writeGlobal ofOpt at h
  split at h
  · simp only [Except.ok.injEq] at h; subst h; rename_i a heq; exact writeFrom_P _ _ _ _ _ heq
  · simp at h

theorem push_Ok (st1 : St) (parent : Option Nat) (binds : List (String × Sx))
    (hok : Ok st1) (hp : ∀ p, parent = some p → p < st1.frames.size) :
    Ok { (st1.pushFrame parent binds).1 with env := (st1.pushFrame parent binds).2 } := by
  obtain ⟨h1, h2⟩ := hok
  refine ⟨?_, by simp [St.pushFrame]⟩
  intro i g p hg hpar
  simp only [St.pushFrame, Array.getElem?_push] at hg
  split at hg
  · simp only [Option.some.injEq] at hg
    subst hg
    simp only at hpar
    have := hp p hpar
    omega
  · exact h1 i g p hg hpar

theorem Ok_env (st : St) (e : Nat) (h : Ok st) (he : e < st.frames.size) : Ok { st with env := e } := ⟨h.1, he⟩

/-- a new frame is pushed under an allocated parent, the body runs in it, the previous environment is current again -/
theorem push_P (st1 st3 : St) (parent : Option Nat) (binds : List (String × Sx)) (save : Nat)
    (hp : Ok st1 → ∀ p, parent = some p → p < st1.frames.size)
    (hs : save = st1.env)
    (hb : P { (st1.pushFrame parent binds).1 with env := (st1.pushFrame parent binds).2 } st3) :
    P st1 { st3 with env := save } := by
  intro hok
  obtain ⟨h1, h2⟩ := hok
  have hpush : Ok { (st1.pushFrame parent binds).1 with env := (st1.pushFrame parent binds).2 } := by
    refine ⟨?_, by simp [St.pushFrame]⟩
    intro i g p hg hpar
    simp only [St.pushFrame, Array.getElem?_push] at hg
    split at hg
    · simp only [Option.some.injEq] at hg
      subst hg
      simp only at hpar
      rename_i hi
      have := hp ⟨h1, h2⟩ p hpar
      omega
    · exact h1 i g p hg hpar
  obtain ⟨⟨g1, g2⟩, _, g3⟩ := hb hpush
  simp only [St.pushFrame, Array.size_push] at g3
  refine ⟨⟨g1, ?_⟩, hs, by simp only; omega⟩
  simp only [hs]; omega


section
variable (rec : St → Sx → Res) (hr : ∀ st e v st', rec st e = .ok (v, st') → P st st')
include hr

theorem evalList_P' : ∀ (as : List Sx) (st st' : St) (vs : List Sx),
    evalList rec st as = .ok (vs, st') → P st st' := evalList_P rec hr

theorem andLoop_P : ∀ (as : List Sx) (st st' : St) (v : Sx), andLoop rec st as = .ok (v, st') → P st st' := by
  intro as
  induction as with
  | nil => intro st st' v h; unfold andLoop at h; op_tac h
  | cons a as ih => intro st st' v h; unfold andLoop at h; op_tac h

theorem orLoop_P : ∀ (as : List Sx) (st st' : St) (v : Sx), orLoop rec st as = .ok (v, st') → P st st' := by
  intro as
  induction as with
  | nil => intro st st' v h; unfold orLoop at h; op_tac h
  | cons a as ih => intro st st' v h; unfold orLoop at h; op_tac h

theorem letBind_P (fid : Nat) : ∀ (as : List Sx) (st st' : St), letBind rec fid st as = .ok st' → P st st' := by
  intro as
  induction as with
  | nil => intro st st' h; unfold letBind at h; simp only [Except.ok.injEq] at h; subst h; exact P.refl _
  | cons a as ih =>
    intro st st' h
    unfold letBind at h
    have hd := defineIn_P
    simp only [bind, Except.bind, pure, Except.pure] at h
    repeat' (split at h)
    all_goals (first | (simp at h; done) | grind [P.refl, P.trans])

theorem setLoop_P : ∀ (as : List Sx) (st st' : St) (l v : Sx), setLoop rec st as l = .ok (v, st') → P st st' := by
  intro as
  induction as with
  | nil => intro st st' l v h; unfold setLoop at h; op_tac h
  | cons a as ih =>
    intro st st' l v h
    unfold setLoop at h
    have hw := writeFrom_P
    simp only [bind, Except.bind, pure, Except.pure, ofOpt] at h
    repeat' (split at h)
    all_goals (first | (simp at h; done) | grind [P.refl, P.trans])

theorem caseLoop_P (key : Sx) : ∀ (as : List Sx) (st st' : St) (d v : Sx), caseLoop rec key st as d = .ok (v, st') → P st st' := by
  have hl := evalList_P rec hr
  intro as
  induction as with
  | nil => intro st st' d v h; unfold caseLoop at h; op_tac h
  | cons a as ih => intro st st' d v h; unfold caseLoop at h; op_tac h

theorem whileLoop_P (c : Sx) (body : List Sx) : ∀ (k : Nat) (st st' : St) (l v : Sx),
    whileLoop rec c body k st l = .ok (v, st') → P st st' := by
  have hl := evalList_P rec hr
  intro k
  induction k with
  | zero => intro st st' l v h; unfold whileLoop at h; simp at h
  | succ k ih => intro st st' l v h; unfold whileLoop at h; op_tac h


theorem readSignal_P (st st' : St) (name scope : String) (v : Sx)
    (h : readSignal rec st name scope = .ok (v, st')) : P st st' := by
  have hl := evalList_P rec hr
  unfold readSignal at h
  op_tac h

theorem evalSym_P (st st' : St) (name : String) (steps : Option Nat) (v : Sx)
    (h : evalSym rec st name steps = .ok (v, st')) : P st st' := by
  have hs := readSignal_P rec hr
  unfold evalSym at h
  op_tac h

theorem bindParams_P (st st' : St) (params : Sx) (args : List Sx) (b : List (String × Sx))
    (h : bindParams rec st params args = .ok (b, st')) : P st st' := by
  have hl := evalList_P rec hr
  unfold bindParams at h
  op_tac h

theorem evalClosure_P (st st' : St) (clo : Sx) (args : List Sx) (v : Sx)
    (h : evalClosure rec st clo args = .ok (v, st')) : P st st' := by
  unfold evalClosure at h
  simp only [bind, Except.bind, pure, Except.pure] at h
  repeat' (split at h)
  all_goals try (simp at h; done)
  rename_i cenv params body nm _ bst hb hge _ r hbody
  obtain ⟨binds, st1⟩ := bst
  obtain ⟨v3, st3⟩ := r
  simp only [Except.ok.injEq, Prod.mk.injEq] at h
  obtain ⟨_, hst⟩ := h
  subst hst
  have h1 : P st st1 := bindParams_P rec hr _ _ _ _ _ hb
  have h2 := hr _ _ _ _ hbody
  intro hok
  obtain ⟨ok1, e1, s1⟩ := h1 hok
  have hp : Ok st1 → ∀ p, some cenv = some p → p < st1.frames.size := by
    intro _ p hp; simp only [Option.some.injEq] at hp; subst hp; simp only at hge; omega
  obtain ⟨ok3, e3, s3⟩ := push_P st1 st3 (some cenv) binds st.env hp e1.symm h2 ok1
  exact ⟨ok3, rfl, Nat.le_trans s1 s3⟩


theorem opLet_P (st st' : St) (args : List Sx) (v : Sx) (h : opLet rec st args = .ok (v, st')) : P st st' := by
  unfold opLet at h
  simp only [bind, Except.bind, pure, Except.pure] at h
  repeat' (split at h)
  all_goals try (simp at h; done)
  rename_i pairs body _ st1 hlb _ r hbody _ v' hlast
  obtain ⟨vs, st2⟩ := r
  simp only [Except.ok.injEq, Prod.mk.injEq] at h
  obtain ⟨_, hst⟩ := h
  subst hst
  have h1 := letBind_P rec hr _ _ _ _ hlb
  have h2 := evalList_P rec hr _ _ _ _ hbody
  exact push_P st st2 (some st.env) [] st.env
    (fun hok p hp => by simp only [Option.some.injEq] at hp; subst hp; exact hok.2) rfl (h1.trans h2)

theorem qq_P : ∀ (n : Nat), (∀ (e : Sx) (st st' : St) (v : Sx), sizeOf e < n → qq rec st e = .ok (v, st') → P st st') ∧
    (∀ (es : List Sx) (st st' : St) (vs : List Sx), sizeOf es < n → qqList rec st es = .ok (vs, st') → P st st') := by
  intro n
  induction n with
  | zero => exact ⟨fun _ _ _ _ h => absurd h (Nat.not_lt_zero _), fun _ _ _ _ h => absurd h (Nat.not_lt_zero _)⟩
  | succ n ih =>
    obtain ⟨ih1, ih2⟩ := ih
    constructor
    · intro e st st' v hs h
      unfold qq at h
      split at h
      · rename_i x xs
        have := ih2 (x :: xs)
        simp only [Sx.list.sizeOf_spec] at hs
        op_tac h
      · op_tac h
    · intro es st st' vs hs h
      unfold qqList at h
      split at h
      · op_tac h
      · rename_i c r
        have h1 := ih1 c
        have h2 := ih2 r
        simp only [List.cons.sizeOf_spec, Sx.unq.sizeOf_spec] at hs
        op_tac h
      · rename_i c r
        have h1 := ih1 c
        have h2 := ih2 r
        simp only [List.cons.sizeOf_spec, Sx.unqs.sizeOf_spec] at hs
        op_tac h
      · rename_i e r _ _
        have h1 := ih1 e
        have h2 := ih2 r
        simp only [List.cons.sizeOf_spec] at hs
        op_tac h

theorem opQuasiquote_P (st st' : St) (args : List Sx) (v : Sx) (h : opQuasiquote rec st args = .ok (v, st')) : P st st' := by
  unfold opQuasiquote at h
  split at h
  · rename_i a
    exact (qq_P rec hr (sizeOf a + 1)).1 a st st' v (Nat.lt_succ_self _) h
  · simp at h


theorem expand_P (parent : Option Nat) : ∀ (n : Nat),
    (∀ (st st' : St) (e v : Sx), expand rec parent n st e = .ok (v, st') →
      Ok st → (∀ p, parent = some p → p < st.frames.size) →
      (Ok st' ∧ st'.env = st.env ∧ st.frames.size ≤ st'.frames.size)) ∧
    (∀ (st st' : St) (es vs : List Sx), expandList rec parent n st es = .ok (vs, st') →
      Ok st → (∀ p, parent = some p → p < st.frames.size) →
      (Ok st' ∧ st'.env = st.env ∧ st.frames.size ≤ st'.frames.size)) := by
  intro n
  induction n with
  | zero =>
    constructor
    · intro st st' e v h; unfold expand at h; simp at h
    · intro st st' es vs h; unfold expandList at h; simp at h
  | succ n ih =>
    obtain ⟨ih1, ih2⟩ := ih
    constructor
    · intro st st' e v h hok hpar
      unfold expand at h
      simp only [bind, Except.bind, pure, Except.pure] at h
      repeat' (split at h)
      all_goals try (simp at h; done)
      all_goals try (simp only [Except.ok.injEq, Prod.mk.injEq] at h; obtain ⟨_, hst⟩ := h; subst hst)
      all_goals try (exact ⟨hok, rfl, Nat.le_refl _⟩)
      · rename_i bs _ _ ex1 st2 hbody _ ex2 st3 hrec _
        have hb := hr _ _ _ _ hbody (push_Ok st parent bs hok hpar)
        obtain ⟨ok2, e2, s2⟩ := hb
        simp only [St.pushFrame, Array.size_push] at s2 e2
        obtain ⟨ok3, e3, s3⟩ := ih1 _ _ _ _ hrec ok2 (fun p hp => by have := hpar p hp; omega)
        refine ⟨⟨ok3.1, ?_⟩, rfl, by simp only; omega⟩
        have := hok.2
        simp only; omega
      · rename_i r hl _
        obtain ⟨items, st1⟩ := r
        exact ih2 _ _ _ _ hl hok hpar
    · intro st st' es vs h hok hpar
      cases es with
      | nil =>
        simp only [expandList, Except.ok.injEq, Prod.mk.injEq] at h; obtain ⟨_, hst⟩ := h; subst hst
        exact ⟨hok, rfl, Nat.le_refl _⟩
      | cons e r =>
        simp only [expandList, bind, Except.bind, pure, Except.pure] at h
        repeat' (split at h)
        all_goals try (simp at h; done)
        rename_i _ r1 h1 _ r2 h2
        obtain ⟨e', st1⟩ := r1
        obtain ⟨r', st2⟩ := r2
        simp only at h2
        simp only [Except.ok.injEq, Prod.mk.injEq] at h; obtain ⟨_, hst⟩ := h; subst hst
        obtain ⟨ok1, e1, s1⟩ := ih1 _ _ _ _ h1 hok hpar
        obtain ⟨ok2, e2, s2⟩ := ih2 _ _ _ _ h2 ok1 (fun p hp => by have := hpar p hp; omega)
        exact ⟨ok2, e2.trans e1, Nat.le_trans s1 s2⟩

theorem opNot_P  (st st' : St) (args : List Sx) (v : Sx)
    (h : opNot  rec st args = .ok (v, st')) : P st st' := by
  have hl := evalList_P rec hr
  unfold opNot at h
  op_tac h

theorem opEq_P (neg : Bool) (st st' : St) (args : List Sx) (v : Sx)
    (h : opEq neg rec st args = .ok (v, st')) : P st st' := by
  have hl := evalList_P rec hr
  unfold opEq at h
  op_tac h

theorem opCmp_P (op : CmpOp) (st st' : St) (args : List Sx) (v : Sx)
    (h : opCmp op rec st args = .ok (v, st')) : P st st' := by
  have hl := evalList_P rec hr
  unfold opCmp at h
  op_tac h

theorem opPrint_P  (st st' : St) (args : List Sx) (v : Sx)
    (h : opPrint  rec st args = .ok (v, st')) : P st st' := by
  have hl := evalList_P rec hr
  unfold opPrint at h
  op_tac h

theorem opIf_P  (st st' : St) (args : List Sx) (v : Sx)
    (h : opIf  rec st args = .ok (v, st')) : P st st' := by
  have hl := evalList_P rec hr
  unfold opIf at h
  op_tac h

theorem opDo_P  (st st' : St) (args : List Sx) (v : Sx)
    (h : opDo  rec st args = .ok (v, st')) : P st st' := by
  have hl := evalList_P rec hr
  unfold opDo at h
  op_tac h

theorem opAlias_P  (st st' : St) (args : List Sx) (v : Sx)
    (h : opAlias  rec st args = .ok (v, st')) : P st st' := by
  have hl := evalList_P rec hr
  unfold opAlias at h
  op_tac h

theorem opGet_P  (st st' : St) (args : List Sx) (v : Sx)
    (h : opGet  rec st args = .ok (v, st')) : P st st' := by
  have hl := evalList_P rec hr
  unfold opGet at h
  op_tac h

theorem opType_P  (st st' : St) (args : List Sx) (v : Sx)
    (h : opType  rec st args = .ok (v, st')) : P st st' := by
  have hl := evalList_P rec hr
  unfold opType at h
  op_tac h

theorem opSlice_P  (st st' : St) (args : List Sx) (v : Sx)
    (h : opSlice  rec st args = .ok (v, st')) : P st st' := by
  have hl := evalList_P rec hr
  unfold opSlice at h
  op_tac h

theorem opExit_P  (st st' : St) (args : List Sx) (v : Sx)
    (h : opExit  rec st args = .ok (v, st')) : P st st' := by
  have hl := evalList_P rec hr
  unfold opExit at h
  op_tac h

theorem opAdd_P  (st st' : St) (args : List Sx) (v : Sx)
    (h : opAdd  rec st args = .ok (v, st')) : P st st' := by
  have hl := evalList_P rec hr
  unfold opAdd at h
  op_tac h

theorem opSub_P  (st st' : St) (args : List Sx) (v : Sx)
    (h : opSub  rec st args = .ok (v, st')) : P st st' := by
  have hl := evalList_P rec hr
  unfold opSub at h
  op_tac h

theorem opMul_P  (st st' : St) (args : List Sx) (v : Sx)
    (h : opMul  rec st args = .ok (v, st')) : P st st' := by
  have hl := evalList_P rec hr
  unfold opMul at h
  op_tac h

theorem opDiv_P  (st st' : St) (args : List Sx) (v : Sx)
    (h : opDiv  rec st args = .ok (v, st')) : P st st' := by
  have hl := evalList_P rec hr
  unfold opDiv at h
  op_tac h

theorem opExp_P  (st st' : St) (args : List Sx) (v : Sx)
    (h : opExp  rec st args = .ok (v, st')) : P st st' := by
  have hl := evalList_P rec hr
  unfold opExp at h
  op_tac h

theorem opRoundLike_P  (st st' : St) (args : List Sx) (v : Sx)
    (h : opRoundLike  rec st args = .ok (v, st')) : P st st' := by
  have hl := evalList_P rec hr
  unfold opRoundLike at h
  op_tac h

theorem opMod_P  (st st' : St) (args : List Sx) (v : Sx)
    (h : opMod  rec st args = .ok (v, st')) : P st st' := by
  have hl := evalList_P rec hr
  unfold opMod at h
  op_tac h

theorem opBitwise_P (f : Int → Int → Int) (fb : Bool → Bool → Bool) (st st' : St) (args : List Sx) (v : Sx)
    (h : opBitwise f fb rec st args = .ok (v, st')) : P st st' := by
  have hl := evalList_P rec hr
  unfold opBitwise at h
  op_tac h

theorem opIsDefined_P  (st st' : St) (args : List Sx) (v : Sx)
    (h : opIsDefined  rec st args = .ok (v, st')) : P st st' := by
  have hl := evalList_P rec hr
  unfold opIsDefined at h
  op_tac h

theorem opAllPred_P (p : Sx → Bool) (st st' : St) (args : List Sx) (v : Sx)
    (h : opAllPred p rec st args = .ok (v, st')) : P st st' := by
  have hl := evalList_P rec hr
  unfold opAllPred at h
  op_tac h

theorem opConvertBin_P  (st st' : St) (args : List Sx) (v : Sx)
    (h : opConvertBin  rec st args = .ok (v, st')) : P st st' := by
  have hl := evalList_P rec hr
  unfold opConvertBin at h
  op_tac h

theorem opStringToInt_P  (st st' : St) (args : List Sx) (v : Sx)
    (h : opStringToInt  rec st args = .ok (v, st')) : P st st' := by
  have hl := evalList_P rec hr
  unfold opStringToInt at h
  op_tac h

theorem opBitsToSint_P  (st st' : St) (args : List Sx) (v : Sx)
    (h : opBitsToSint  rec st args = .ok (v, st')) : P st st' := by
  have hl := evalList_P rec hr
  unfold opBitsToSint at h
  op_tac h

theorem opSymbolToString_P  (st st' : St) (args : List Sx) (v : Sx)
    (h : opSymbolToString  rec st args = .ok (v, st')) : P st st' := by
  have hl := evalList_P rec hr
  unfold opSymbolToString at h
  op_tac h

theorem opStringToSymbol_P  (st st' : St) (args : List Sx) (v : Sx)
    (h : opStringToSymbol  rec st args = .ok (v, st')) : P st st' := by
  have hl := evalList_P rec hr
  unfold opStringToSymbol at h
  op_tac h

theorem opIntToString_P  (st st' : St) (args : List Sx) (v : Sx)
    (h : opIntToString  rec st args = .ok (v, st')) : P st st' := by
  have hl := evalList_P rec hr
  unfold opIntToString at h
  op_tac h

theorem opList_P  (st st' : St) (args : List Sx) (v : Sx)
    (h : opList  rec st args = .ok (v, st')) : P st st' := by
  have hl := evalList_P rec hr
  unfold opList at h
  op_tac h

theorem opListAccess_P (sel : Bool → List Sx → Except Err Sx) (st st' : St) (args : List Sx) (v : Sx)
    (h : opListAccess sel rec st args = .ok (v, st')) : P st st' := by
  have hl := evalList_P rec hr
  unfold opListAccess at h
  op_tac h

theorem opIn_P  (st st' : St) (args : List Sx) (v : Sx)
    (h : opIn  rec st args = .ok (v, st')) : P st st' := by
  have hl := evalList_P rec hr
  unfold opIn at h
  op_tac h

theorem opMaxMin_P (isMax : Bool) (st st' : St) (args : List Sx) (v : Sx)
    (h : opMaxMin isMax rec st args = .ok (v, st')) : P st st' := by
  have hl := evalList_P rec hr
  unfold opMaxMin at h
  op_tac h

theorem opAverage_P  (st st' : St) (args : List Sx) (v : Sx)
    (h : opAverage  rec st args = .ok (v, st')) : P st st' := by
  have hl := evalList_P rec hr
  unfold opAverage at h
  op_tac h

theorem opLength_P  (st st' : St) (args : List Sx) (v : Sx)
    (h : opLength  rec st args = .ok (v, st')) : P st st' := by
  have hl := evalList_P rec hr
  unfold opLength at h
  op_tac h

theorem opZip_P  (st st' : St) (args : List Sx) (v : Sx)
    (h : opZip  rec st args = .ok (v, st')) : P st st' := by
  have hl := evalList_P rec hr
  unfold opZip at h
  op_tac h

theorem opRange_P  (st st' : St) (args : List Sx) (v : Sx)
    (h : opRange  rec st args = .ok (v, st')) : P st st' := by
  have hl := evalList_P rec hr
  unfold opRange at h
  op_tac h

theorem opUnload_P  (st st' : St) (args : List Sx) (v : Sx)
    (h : opUnload  rec st args = .ok (v, st')) : P st st' := by
  have hl := evalList_P rec hr
  unfold opUnload at h
  op_tac h

theorem opIsSignal_P  (st st' : St) (args : List Sx) (v : Sx)
    (h : opIsSignal  rec st args = .ok (v, st')) : P st st' := by
  have hl := evalList_P rec hr
  unfold opIsSignal at h
  op_tac h

theorem opSignalWidth_P  (st st' : St) (args : List Sx) (v : Sx)
    (h : opSignalWidth  rec st args = .ok (v, st')) : P st st' := by
  have hl := evalList_P rec hr
  unfold opSignalWidth at h
  op_tac h

theorem opSampleAt_P  (st st' : St) (args : List Sx) (v : Sx)
    (h : opSampleAt  rec st args = .ok (v, st')) : P st st' := by
  have hl := evalList_P rec hr
  unfold opSampleAt at h
  op_tac h

theorem opTrimTrace_P  (st st' : St) (args : List Sx) (v : Sx)
    (h : opTrimTrace  rec st args = .ok (v, st')) : P st st' := by
  have hl := evalList_P rec hr
  unfold opTrimTrace at h
  op_tac h


theorem opAnd_P (st st' : St) (args : List Sx) (v : Sx) (h : opAnd rec st args = .ok (v, st')) : P st st' := by
  have hl := andLoop_P rec hr
  unfold opAnd at h
  op_tac h

theorem opOr_P (st st' : St) (args : List Sx) (v : Sx) (h : opOr rec st args = .ok (v, st')) : P st st' := by
  have hl := orLoop_P rec hr
  unfold opOr at h
  op_tac h

theorem opSet_P (st st' : St) (args : List Sx) (v : Sx) (h : opSet rec st args = .ok (v, st')) : P st st' := by
  have hl := setLoop_P rec hr
  unfold opSet at h
  op_tac h

theorem opDefine_P (st st' : St) (args : List Sx) (v : Sx) (h : opDefine rec st args = .ok (v, st')) : P st st' := by
  have hd := defineIn_P
  unfold opDefine at h
  op_tac h

theorem opCase_P (st st' : St) (args : List Sx) (v : Sx) (h : opCase rec st args = .ok (v, st')) : P st st' := by
  have hl := caseLoop_P rec hr
  unfold opCase at h
  op_tac h

theorem opWhile_P (n : Nat) (st st' : St) (args : List Sx) (v : Sx) (h : opWhile n rec st args = .ok (v, st')) : P st st' := by
  have hl := whileLoop_P rec hr
  unfold opWhile at h
  op_tac h

theorem opUnalias_P (st st' : St) (args : List Sx) (v : Sx) (h : opUnalias st args = .ok (v, st')) : P st st' := by
  have hl : ∀ (as : List Sx) (st st' : St) (v : Sx), unaliasLoop st as = .ok (v, st') → P st st' := by
    intro as
    induction as with
    | nil => intro st st' v h; unfold unaliasLoop at h; op_tac h
    | cons a as ih => intro st st' v h; unfold unaliasLoop at h; op_tac h
  unfold opUnalias at h
  op_tac h

theorem opQuote_P (st st' : St) (args : List Sx) (v : Sx) (h : opQuote st args = .ok (v, st')) : P st st' := by
  unfold opQuote at h
  op_tac h

theorem opGensym_P (st st' : St) (v : Sx) (h : opGensym st = .ok (v, st')) : P st st' := by
  unfold opGensym at h
  op_tac h

theorem opFn_P (st st' : St) (args : List Sx) (v : Sx) (h : opFn st args = .ok (v, st')) : P st st' := by
  unfold opFn at h
  op_tac h

theorem opLoadedTraces_P (st st' : St) (args : List Sx) (v : Sx) (h : opLoadedTraces st args = .ok (v, st')) : P st st' := by
  unfold opLoadedTraces at h
  op_tac h

theorem opDefsig_P (st st' : St) (args : List Sx) (v : Sx) (h : opDefsig st args = .ok (v, st')) : P st st' := by
  unfold opDefsig at h
  op_tac h

theorem opReval_P (st st' : St) (args : List Sx) (v : Sx) (h : opReval rec st args = .ok (v, st')) : P st st' := by
  unfold opReval at h
  op_tac h

theorem opScoped_P (st st' : St) (args : List Sx) (v : Sx) (h : opScoped rec st args = .ok (v, st')) : P st st' := by
  have hw := writeGlobal_P
  unfold opScoped at h
  op_tac h

theorem opSetScope_P (st st' : St) (args : List Sx) (v : Sx) (h : opSetScope st args = .ok (v, st')) : P st st' := by
  have hw := writeGlobal_P
  unfold opSetScope at h
  op_tac h

theorem opUnsetScope_P (st st' : St) (args : List Sx) (v : Sx) (h : opUnsetScope st args = .ok (v, st')) : P st st' := by
  have hw := writeGlobal_P
  unfold opUnsetScope at h
  op_tac h

theorem allScopesLoop_P (e : Sx) : ∀ (ss : List String) (st st' : St) (acc vs : List Sx),
    allScopesLoop rec e st ss acc = .ok (vs, st') → P st st' := by
  have hw := writeGlobal_P
  intro ss
  induction ss with
  | nil => intro st st' acc vs h; unfold allScopesLoop at h; op_tac h
  | cons a as ih => intro st st' acc vs h; unfold allScopesLoop at h; op_tac h

theorem opAllScopes_P (st st' : St) (args : List Sx) (v : Sx) (h : opAllScopes rec st args = .ok (v, st')) : P st st' := by
  have hw := writeGlobal_P
  have hl := allScopesLoop_P rec hr
  unfold opAllScopes at h
  op_tac h

theorem opResolveScope_P (st st' : St) (args : List Sx) (v : Sx) (h : opResolveScope rec st args = .ok (v, st')) : P st st' := by
  have hs := readSignal_P rec hr
  unfold opResolveScope at h
  op_tac h

theorem opResolveGroup_P (st st' : St) (args : List Sx) (v : Sx) (h : opResolveGroup rec st args = .ok (v, st')) : P st st' := by
  have hs := readSignal_P rec hr
  unfold opResolveGroup at h
  op_tac h

theorem groupArgs_P : ∀ (as : List Sx) (st st' : St) (ss : List String), groupArgs rec st as = .ok (ss, st') → P st st' := by
  intro as
  induction as with
  | nil => intro st st' ss h; unfold groupArgs at h; op_tac h
  | cons a as ih => intro st st' ss h; unfold groupArgs at h; op_tac h

theorem opGroups_P (st st' : St) (args : List Sx) (v : Sx) (h : opGroups rec st args = .ok (v, st')) : P st st' := by
  have hl := groupArgs_P rec hr
  unfold opGroups at h
  op_tac h

theorem opInGroup_P (st st' : St) (args : List Sx) (v : Sx) (h : opInGroup rec st args = .ok (v, st')) : P st st' := by
  have hw := writeGlobal_P
  have hl := evalList_P rec hr
  unfold opInGroup at h
  op_tac h

theorem inGroupsLoop_P (body : List Sx) : ∀ (gs : List Sx) (st st' : St) (l v : Sx),
    inGroupsLoop rec body st gs l = .ok (v, st') → P st st' := by
  have hg := opInGroup_P rec hr
  intro gs
  induction gs with
  | nil => intro st st' l v h; unfold inGroupsLoop at h; op_tac h
  | cons a as ih => intro st st' l v h; unfold inGroupsLoop at h; op_tac h

theorem opInGroups_P (st st' : St) (args : List Sx) (v : Sx) (h : opInGroups rec st args = .ok (v, st')) : P st st' := by
  have hl := inGroupsLoop_P rec hr
  unfold opInGroups at h
  op_tac h


theorem mapLoop_P (call : St → Sx → Res) (hc : ∀ s x v s', call s x = .ok (v, s') → P s s') :
    ∀ (l : List Sx) (st st' : St) (vs : List Sx), mapLoop call st l = .ok (vs, st') → P st st' := by
  intro l
  induction l with
  | nil => intro st st' vs h; unfold mapLoop at h; op_tac h
  | cons a as ih => intro st st' vs h; unfold mapLoop at h; op_tac h

theorem foldLoop_P (call : St → Sx → Sx → Res) (hc : ∀ s a x v s', call s a x = .ok (v, s') → P s s') :
    ∀ (l : List Sx) (st st' : St) (acc v : Sx), foldLoop call st acc l = .ok (v, st') → P st st' := by
  intro l
  induction l with
  | nil => intro st st' acc v h; unfold foldLoop at h; op_tac h
  | cons a as ih => intro st st' acc v h; unfold foldLoop at h; op_tac h

theorem opMap_P (st st' : St) (args : List Sx) (v : Sx) (h : opMap rec st args = .ok (v, st')) : P st st' := by
  have hc := evalClosure_P rec hr
  unfold opMap at h
  simp only [bind, Except.bind, pure, Except.pure] at h
  repeat' (split at h)
  all_goals try (simp at h; done)
  all_goals (simp only [Except.ok.injEq, Prod.mk.injEq] at h; obtain ⟨_, hst⟩ := h; subst hst)
  · have hm := mapLoop_P rec hr _ (fun s x v s' hh => hr _ _ _ _ hh) _ _ _ _ (by assumption)
    grind [P.refl, P.trans]
  · have hm := mapLoop_P rec hr _ (fun s x v s' hh => hc _ _ _ _ _ hh) _ _ _ _ (by assumption)
    grind [P.refl, P.trans]

theorem opFold_P (st st' : St) (args : List Sx) (v : Sx) (h : opFold rec st args = .ok (v, st')) : P st st' := by
  have hc := evalClosure_P rec hr
  have hl := evalList_P rec hr
  unfold opFold at h
  simp only [bind, Except.bind, pure, Except.pure] at h
  repeat' (split at h)
  all_goals try (simp at h; done)
  · have := foldLoop_P rec hr _ (fun s a x v s' hh => hr _ _ _ _ hh) _ _ _ _ _ h
    grind [P.refl, P.trans]
  · have := foldLoop_P rec hr _ (fun s a x v s' hh => hc _ _ _ _ _ hh) _ _ _ _ _ h
    grind [P.refl, P.trans]

theorem mapaCall_P (fv : Sx) (s s' : St) (kv v : Sx) (h : mapaCall rec fv s kv = .ok (v, s')) : P s s' := by
  have hc := evalClosure_P rec hr
  unfold mapaCall at h
  op_tac h

theorem opMapa_P (st st' : St) (args : List Sx) (v : Sx) (h : opMapa rec st args = .ok (v, st')) : P st st' := by
  have hl := fun fv => mapLoop_P rec hr (mapaCall rec fv) (fun s x v s' hh => mapaCall_P rec hr fv s s' x v hh)
  unfold opMapa at h
  simp only [St.arr?] at h
  op_tac h

theorem arrayBuild_P : ∀ (as : List Sx) (st st' : St) (acc kvs : List (String × Sx)),
    arrayBuild rec st as acc = .ok (kvs, st') → P st st' := by
  intro as
  induction as with
  | nil => intro st st' acc kvs h; unfold arrayBuild at h; op_tac h
  | cons a as ih => intro st st' acc kvs h; unfold arrayBuild at h; op_tac h

theorem opArray_P (st st' : St) (args : List Sx) (v : Sx) (h : opArray rec st args = .ok (v, st')) : P st st' := by
  have hl := arrayBuild_P rec hr
  unfold opArray at h
  op_tac h

theorem evalArrKey_P (st st' : St) (a k : Sx) (r : Nat) (ks : String)
    (h : evalArrKey rec st a k = .ok (r, ks, st')) : P st st' := by
  unfold evalArrKey at h
  simp only [bind, Except.bind, pure, Except.pure] at h
  repeat' (split at h)
  all_goals try (simp at h; done)
  all_goals (simp only [Except.ok.injEq, Prod.mk.injEq] at h; obtain ⟨_, _, hst⟩ := h; subst hst)
  all_goals grind [P.refl, P.trans]

theorem opSeta_P (st st' : St) (args : List Sx) (v : Sx) (h : opSeta rec st args = .ok (v, st')) : P st st' := by
  have hl := evalArrKey_P rec hr
  unfold opSeta at h
  op_tac h

theorem opGeta_P (st st' : St) (args : List Sx) (v : Sx) (h : opGeta rec st args = .ok (v, st')) : P st st' := by
  have hl := evalArrKey_P rec hr
  unfold opGeta at h
  op_tac h

theorem opDela_P (st st' : St) (args : List Sx) (v : Sx) (h : opDela rec st args = .ok (v, st')) : P st st' := by
  have hl := evalArrKey_P rec hr
  unfold opDela at h
  op_tac h


theorem doStepNamed_P (st st' : St) (t : Sx) (k : Int) (e : List String)
    (h : doStepNamed st t k = .ok (st', e)) : P st st' := by
  unfold doStepNamed at h
  repeat' (split at h)
  all_goals try (simp at h; done)
  simp only [Except.ok.injEq, Prod.mk.injEq] at h
  obtain ⟨hst, _⟩ := h
  subst hst
  exact P.refl _

theorem stepTids_P (k : Int) : ∀ (ts : List Sx) (st st' : St) (acc e : List String),
    stepTids k st ts acc = .ok (st', e) → P st st' := by
  have hd := doStepNamed_P rec hr
  intro ts
  induction ts with
  | nil =>
    intro st st' acc e h; unfold stepTids at h
    simp only [Except.ok.injEq, Prod.mk.injEq] at h; obtain ⟨hst, _⟩ := h; subst hst; exact P.refl _
  | cons a as ih =>
    intro st st' acc e h; unfold stepTids at h
    simp only [bind, Except.bind] at h
    repeat' (split at h)
    all_goals try (simp at h; done)
    grind [P.refl, P.trans]

theorem opStep_P (st st' : St) (args : List Sx) (v : Sx) (h : opStep rec st args = .ok (v, st')) : P st st' := by
  have hd := doStepNamed_P rec hr
  have hs := stepTids_P rec hr
  unfold opStep at h
  op_tac h

theorem findLoop_P (c : Sx) (tid : String) : ∀ (k : Nat) (st st' : St) (acc found : List Int),
    findLoop rec c tid k st acc = .ok (found, st') → P st st' := by
  intro k
  induction k with
  | zero => intro st st' acc found h; unfold findLoop at h; simp at h
  | succ k ih => intro st st' acc found h; unfold findLoop at h; op_tac h

theorem findTraces_P (n : Nat) (c : Sx) : ∀ (tids : List String) (st st' : St) (acc found : List Int),
    findTraces n rec c st tids acc = .ok (found, st') → P st st' := by
  have hl := findLoop_P rec hr
  intro tids
  induction tids with
  | nil => intro st st' acc found h; unfold findTraces at h; op_tac h
  | cons a as ih => intro st st' acc found h; unfold findTraces at h; op_tac h

theorem opFind_P (n : Nat) (st st' : St) (args : List Sx) (v : Sx) (h : opFind n rec st args = .ok (v, st')) : P st st' := by
  have hl := findTraces_P rec hr
  unfold opFind at h
  op_tac h

theorem scanLoop_P {α : Type} (c : Sx) (onHit : St → α → Except Err (α × St))
    (ho : ∀ s a a' s', onHit s a = .ok (a', s') → P s s') : ∀ (k : Nat) (st st' : St) (acc res : α),
    scanLoop rec c onHit k st acc = .ok (res, st') → P st st' := by
  intro k
  induction k with
  | zero => intro st st' acc res h; unfold scanLoop at h; simp at h
  | succ k ih => intro st st' acc res h; unfold scanLoop at h; op_tac h

theorem restorePrev_P (st st' : St) (prev : List (String × Int)) (h : restorePrev st prev = .ok st') : P st st' := by
  unfold restorePrev at h
  split at h
  · simp only [Except.ok.injEq] at h; subst h; exact P.refl _
  · simp at h

theorem opFindG_P (n : Nat) (st st' : St) (args : List Sx) (v : Sx) (h : opFindG n rec st args = .ok (v, st')) : P st st' := by
  have hp := restorePrev_P rec hr
  unfold opFindG at h
  simp only [bind, Except.bind, pure, Except.pure] at h
  repeat' (split at h)
  all_goals try (simp at h; done)
  simp only [Except.ok.injEq, Prod.mk.injEq] at h; obtain ⟨_, hst⟩ := h; subst hst
  rename_i hs _ _ _ _
  have hs' := scanLoop_P rec hr _ _ (fun s a a' s' hh => by
    repeat' (split at hh)
    all_goals try (simp at hh; done)
    all_goals (simp only [St.newArr, Except.ok.injEq, Prod.mk.injEq] at hh; obtain ⟨_, hst⟩ := hh; subst hst; exact P.refl _)) _ _ _ _ _ hs
  grind [P.refl, P.trans]

theorem wheneverBody_P (body : List Sx) (s s' : St) (a a' : Sx) (h : wheneverBody rec body s a = .ok (a', s')) : P s s' := by
  have hl := evalList_P rec hr
  unfold wheneverBody at h
  op_tac h

theorem opWhenever_P (n : Nat) (st st' : St) (args : List Sx) (v : Sx) (h : opWhenever n rec st args = .ok (v, st')) : P st st' := by
  have hp := restorePrev_P rec hr
  have hs := fun c body => scanLoop_P rec hr c (wheneverBody rec body) (fun s a a' s' hh => wheneverBody_P rec hr body s s' a a' hh)
  unfold opWhenever at h
  op_tac h

theorem expand_P' (parent : Option Nat) (n : Nat) (st st' : St) (e v : Sx)
    (hp : Ok st → ∀ p, parent = some p → p < st.frames.size)
    (h : expand rec parent n st e = .ok (v, st')) : P st st' :=
  fun hok => (expand_P rec hr parent n).1 st st' e v h hok (hp hok)

theorem expandList_P' (parent : Option Nat) (n : Nat) (st st' : St) (es vs : List Sx)
    (hp : Ok st → ∀ p, parent = some p → p < st.frames.size)
    (h : expandList rec parent n st es = .ok (vs, st')) : P st st' :=
  fun hok => (expand_P rec hr parent n).2 st st' es vs h hok (hp hok)

theorem opEval_P (n : Nat) (st st' : St) (args : List Sx) (v : Sx) (h : opEval n rec st args = .ok (v, st')) : P st st' := by
  have he : ∀ st st' e v, expand rec (some 0) n st e = .ok (v, st') → P st st' := fun st st' e v hh =>
    expand_P' rec hr (some 0) n st st' e v (fun hok p hp => by
      simp only [Option.some.injEq] at hp; subst hp; exact Nat.lt_of_le_of_lt (Nat.zero_le _) hok.2) hh
  unfold opEval at h
  op_tac h

theorem opMacroexpand_P (n : Nat) (st st' : St) (args : List Sx) (v : Sx)
    (h : opMacroexpand n rec st args = .ok (v, st')) : P st st' := by
  have he : ∀ st st' e v, expand rec (some st.env) n st e = .ok (v, st') → P st st' := fun st st' e v hh =>
    expand_P' rec hr (some st.env) n st st' e v (fun hok p hp => by
      simp only [Option.some.injEq] at hp; subst hp; exact hok.2) hh
  unfold opMacroexpand at h
  op_tac h

theorem opDefmacro_P (n : Nat) (st st' : St) (args : List Sx) (v : Sx)
    (h : opDefmacro n rec st args = .ok (v, st')) : P st st' := by
  have he : ∀ st st' es vs, expandList rec Option.none n st es = .ok (vs, st') → P st st' := fun st st' es vs hh =>
    expandList_P' rec hr Option.none n st st' es vs (fun _ p hp => by simp at hp) hh
  have hd := defineIn_P
  unfold opDefmacro at h
  op_tac h

theorem dispatch_P (n : Nat) (st st' : St) (o : Op) (args : List Sx) (v : Sx)
    (h : dispatch n rec st o args = .ok (v, st')) : P st st' := by
  cases o <;> simp only [dispatch] at h <;>
  first
  | (simp at h; done)
  | exact opNot_P rec hr _ _ _ _ h
  | exact opEq_P rec hr _ _ _ _ _ h
  | exact opCmp_P rec hr _ _ _ _ _ h
  | exact opAnd_P rec hr _ _ _ _ h
  | exact opOr_P rec hr _ _ _ _ h
  | exact opLet_P rec hr _ _ _ _ h
  | exact opDefine_P rec hr _ _ _ _ h
  | exact opSet_P rec hr _ _ _ _ h
  | exact opPrint_P rec hr _ _ _ _ h
  | exact opIf_P rec hr _ _ _ _ h
  | exact opCase_P rec hr _ _ _ _ h
  | exact opDo_P rec hr _ _ _ _ h
  | exact opWhile_P rec hr _ _ _ _ _ h
  | exact opAlias_P rec hr _ _ _ _ h
  | exact opUnalias_P rec hr _ _ _ _ h
  | exact opQuote_P rec hr _ _ _ _ h
  | exact opQuasiquote_P rec hr _ _ _ _ h
  | exact opEval_P rec hr _ _ _ _ _ h
  | exact opDefmacro_P rec hr _ _ _ _ _ h
  | exact opMacroexpand_P rec hr _ _ _ _ _ h
  | exact opGensym_P rec hr _ _ _ h
  | exact opFn_P rec hr _ _ _ _ h
  | exact opGet_P rec hr _ _ _ _ h
  | exact opType_P rec hr _ _ _ _ h
  | exact opReval_P rec hr _ _ _ _ h
  | exact opScoped_P rec hr _ _ _ _ h
  | exact opResolveScope_P rec hr _ _ _ _ h
  | exact opAllScopes_P rec hr _ _ _ _ h
  | exact opSetScope_P rec hr _ _ _ _ h
  | exact opUnsetScope_P rec hr _ _ _ _ h
  | exact opGroups_P rec hr _ _ _ _ h
  | exact opInGroup_P rec hr _ _ _ _ h
  | exact opInGroups_P rec hr _ _ _ _ h
  | exact opResolveGroup_P rec hr _ _ _ _ h
  | exact opSlice_P rec hr _ _ _ _ h
  | exact opLoadedTraces_P rec hr _ _ _ _ h
  | exact opExit_P rec hr _ _ _ _ h
  | exact opAdd_P rec hr _ _ _ _ h
  | exact opSub_P rec hr _ _ _ _ h
  | exact opMul_P rec hr _ _ _ _ h
  | exact opDiv_P rec hr _ _ _ _ h
  | exact opExp_P rec hr _ _ _ _ h
  | exact opRoundLike_P rec hr _ _ _ _ h
  | exact opMod_P rec hr _ _ _ _ h
  | exact opBitwise_P rec hr _ _ _ _ _ _ h
  | exact opIsDefined_P rec hr _ _ _ _ h
  | exact opAllPred_P rec hr _ _ _ _ _ h
  | exact opConvertBin_P rec hr _ _ _ _ h
  | exact opStringToInt_P rec hr _ _ _ _ h
  | exact opBitsToSint_P rec hr _ _ _ _ h
  | exact opStringToSymbol_P rec hr _ _ _ _ h
  | exact opSymbolToString_P rec hr _ _ _ _ h
  | exact opIntToString_P rec hr _ _ _ _ h
  | exact opList_P rec hr _ _ _ _ h
  | exact opListAccess_P rec hr _ _ _ _ _ h
  | exact opIn_P rec hr _ _ _ _ h
  | exact opMap_P rec hr _ _ _ _ h
  | exact opMaxMin_P rec hr _ _ _ _ _ h
  | exact opFold_P rec hr _ _ _ _ h
  | exact opLength_P rec hr _ _ _ _ h
  | exact opAverage_P rec hr _ _ _ _ h
  | exact opZip_P rec hr _ _ _ _ h
  | exact opRange_P rec hr _ _ _ _ h
  | exact opArray_P rec hr _ _ _ _ h
  | exact opSeta_P rec hr _ _ _ _ h
  | exact opGeta_P rec hr _ _ _ _ h
  | exact opDela_P rec hr _ _ _ _ h
  | exact opMapa_P rec hr _ _ _ _ h
  | exact opUnload_P rec hr _ _ _ _ h
  | exact opStep_P rec hr _ _ _ _ h
  | exact opIsSignal_P rec hr _ _ _ _ h
  | exact opFind_P rec hr _ _ _ _ _ h
  | exact opFindG_P rec hr _ _ _ _ _ h
  | exact opWhenever_P rec hr _ _ _ _ _ h
  | exact opSignalWidth_P rec hr _ _ _ _ h
  | exact opSampleAt_P rec hr _ _ _ _ h
  | exact opTrimTrace_P rec hr _ _ _ _ h
  | exact opDefsig_P rec hr _ _ _ _ h

theorem evalStep_P (n : Nat) (st st' : St) (e v : Sx) (h : evalStep n rec st e = .ok (v, st')) : P st st' := by
  have hs := evalSym_P rec hr
  have hd := dispatch_P rec hr
  have hc := evalClosure_P rec hr
  unfold evalStep at h
  op_tac h

end

/-- **every completed evaluation, at every fuel, of every expression**: from a well-formed state (frame heap acyclic
with parents allocated before children, current environment allocated) it ends in a well-formed state, with the
environment that was current before current again, and the frame heap only grown -/
theorem eval_P : ∀ (n : Nat) (st : St) (e v : Sx) (st' : St), eval n st e = .ok (v, st') → P st st' := by
  intro n
  induction n with
  | zero => intro st e v st' h; simp [eval] at h
  | succ n ih => intro st e v st' h; exact evalStep_P (eval n) ih n st st' e v h

theorem walEval_P (m : Mode) (n : Nat) (st st' : St) (e v : Sx) (h : walEval m n st e = .ok (v, st')) : P st st' := by
  have hr := eval_P n
  have he : ∀ st st' e v, expand (eval n) (some 0) n st e = .ok (v, st') → P st st' := fun st st' e v hh =>
    expand_P' (eval n) hr (some 0) n st st' e v (fun hok p hp => by
      simp only [Option.some.injEq] at hp; subst hp; exact Nat.lt_of_le_of_lt (Nat.zero_le _) hok.2) hh
  unfold walEval at h
  op_tac h

end Wal.Glob
