import Wal.Lemmas.Mono
/-!
# Balance of the evaluation context, for every expression

`B st st'`: the captured scope, the captured group and the stack of saved trace positions of `st'` are those of
`st`. `evalR` is the evaluator with the two operators whose purpose is to change the captured scope persistently
(`set-scope`, `unset-scope`) switched off; every evaluation it completes is one of `eval` with the same result
(`evalR_sub`), and it is balanced (`evalR_B`): by induction on the fuel, one lemma per operator.
-/
namespace Wal.Bal
open Wal

def B (st st' : St) : Prop :=
  st'.scope = st.scope ∧ st'.group = st.group ∧ st'.tc.idxStack = st.tc.idxStack

@[grind =] theorem B_def (a b : St) :
    B a b = (b.scope = a.scope ∧ b.group = a.group ∧ b.tc.idxStack = a.tc.idxStack) := rfl

theorem B.refl (st : St) : B st st := ⟨rfl, rfl, rfl⟩
theorem B.trans {a b c : St} (h1 : B a b) (h2 : B b c) : B a c :=
  ⟨h2.1.trans h1.1, h2.2.1.trans h1.2.1, h2.2.2.trans h1.2.2⟩

/-! ## primitives -/

theorem setVar_B (st : St) (j : Nat) (x : String) (v : Sx) : B st (st.setVar j x v) := by
  unfold St.setVar; split <;> exact B.refl _

theorem defineIn_B (st st' : St) (j : Nat) (x : String) (v : Sx) (h : st.defineIn j x v = some st') : B st st' := by
  unfold St.defineIn at h
  split at h
  · split at h
    · simp at h
    · simp only [Option.some.injEq] at h; subst h; exact setVar_B _ _ _ _
  · simp at h

theorem writeFrom_B (st st' : St) (j : Nat) (x : String) (v : Sx) (h : st.writeFrom j x v = some st') : B st st' := by
  unfold St.writeFrom at h
  split at h
  · simp only [Option.some.injEq] at h; subst h; exact setVar_B _ _ _ _
  · simp at h

theorem writeGlobal_B (st st' : St) (x : String) (v : Sx) (h : st.writeGlobal x v = .ok st') : B st st' := by
  unfold St.writeGlobal ofOpt at h
  split at h
  · simp only [Except.ok.injEq] at h; subst h; rename_i a heq; exact writeFrom_B _ _ _ _ _ heq
  · simp at h

theorem unload_stack (c : Container) (tid : String) : (c.unload tid).idxStack = c.idxStack := by
  unfold Container.unload; split <;> rfl

theorem step_stack (c c' : Container) (k : Int) (tid : Option String) (e : List String)
    (h : c.step k tid = some (c', e)) : c'.idxStack = c.idxStack := by
  unfold Container.step at h
  repeat' (split at h)
  all_goals try (simp at h; done)
  all_goals (simp only [Option.some.injEq, Prod.mk.injEq] at h; obtain ⟨h1, _⟩ := h; subst h1; rfl)

theorem restore_stack (c c' : Container) (x : List (String × Int)) (r : List (List (String × Int)))
    (hs : c.idxStack = x :: r) (h : c.restoreIndices = some c') : c'.idxStack = r := by
  unfold Container.restoreIndices at h
  rw [hs] at h
  simp only at h
  split at h
  · simp only [Option.some.injEq] at h; subst h; rfl
  · simp at h

/-- closes an operator case -/
syntax "opb_tac" ident : tactic
set_option hygiene false in
macro_rules
  | `(tactic| opb_tac $h:ident) => `(tactic| (
      try simp only [bind, Except.bind, pure, Except.pure, St.updTrace, St.setArr, St.newArr, St.pushFrame, ofOpt, containsOrErr, readCS, readCG, Container.storeIndices] at $h:ident
      repeat' (split at $h:ident)
      all_goals (first
        | (simp at $h:ident; done)
        | (simp only [Except.ok.injEq, Prod.mk.injEq] at $h:ident
           obtain ⟨_, hst⟩ := $h:ident
           subst hst
           grind [B.refl, B.trans])
        | (grind [B.refl, B.trans]))))

section
variable (rec : St → Sx → Res) (hr : ∀ st e v st', rec st e = .ok (v, st') → B st st')
include hr

theorem evalList_B : ∀ (as : List Sx) (st st' : St) (vs : List Sx),
    evalList rec st as = .ok (vs, st') → B st st' := by
  intro as
  induction as with
  | nil => intro st st' vs h; simp [evalList] at h; rw [← h.2]; exact B.refl _
  | cons a as ih =>
    intro st st' vs h
    simp only [evalList, Glob.bind_ok] at h
    obtain ⟨⟨v, st1⟩, h1, ⟨ws, st2⟩, h2, h3⟩ := h
    simp only [pure, Except.pure, Except.ok.injEq, Prod.mk.injEq] at h3
    rw [← h3.2]
    exact (hr _ _ _ _ h1).trans (ih _ _ _ h2)


theorem andLoop_B : ∀ (as : List Sx) (st st' : St) (v : Sx), andLoop rec st as = .ok (v, st') → B st st' := by
  intro as
  induction as with
  | nil => intro st st' v h; unfold andLoop at h; opb_tac h
  | cons a as ih => intro st st' v h; unfold andLoop at h; opb_tac h

theorem orLoop_B : ∀ (as : List Sx) (st st' : St) (v : Sx), orLoop rec st as = .ok (v, st') → B st st' := by
  intro as
  induction as with
  | nil => intro st st' v h; unfold orLoop at h; opb_tac h
  | cons a as ih => intro st st' v h; unfold orLoop at h; opb_tac h

theorem letBind_B (fid : Nat) : ∀ (as : List Sx) (st st' : St), letBind rec fid st as = .ok st' → B st st' := by
  have hd := defineIn_B
  intro as
  induction as with
  | nil => intro st st' h; unfold letBind at h; simp only [Except.ok.injEq] at h; subst h; exact B.refl _
  | cons a as ih =>
    intro st st' h
    unfold letBind at h
    simp only [bind, Except.bind, pure, Except.pure] at h
    repeat' (split at h)
    all_goals (first | (simp at h; done) | grind [B.refl, B.trans])

theorem setLoop_B : ∀ (as : List Sx) (st st' : St) (l v : Sx), setLoop rec st as l = .ok (v, st') → B st st' := by
  have hw := writeFrom_B
  intro as
  induction as with
  | nil => intro st st' l v h; unfold setLoop at h; opb_tac h
  | cons a as ih => intro st st' l v h; unfold setLoop at h; opb_tac h

theorem caseLoop_B (key : Sx) : ∀ (as : List Sx) (st st' : St) (d v : Sx), caseLoop rec key st as d = .ok (v, st') → B st st' := by
  have hl := evalList_B rec hr
  intro as
  induction as with
  | nil => intro st st' d v h; unfold caseLoop at h; opb_tac h
  | cons a as ih => intro st st' d v h; unfold caseLoop at h; opb_tac h

theorem whileLoop_B (c : Sx) (body : List Sx) : ∀ (k : Nat) (st st' : St) (l v : Sx),
    whileLoop rec c body k st l = .ok (v, st') → B st st' := by
  have hl := evalList_B rec hr
  intro k
  induction k with
  | zero => intro st st' l v h; unfold whileLoop at h; simp at h
  | succ k ih => intro st st' l v h; unfold whileLoop at h; opb_tac h

theorem readSignal_B (st st' : St) (name scope : String) (v : Sx)
    (h : readSignal rec st name scope = .ok (v, st')) : B st st' := by
  have hl := evalList_B rec hr
  unfold readSignal at h
  opb_tac h

theorem evalSym_B (st st' : St) (name : String) (steps : Option Nat) (v : Sx)
    (h : evalSym rec st name steps = .ok (v, st')) : B st st' := by
  have hs := readSignal_B rec hr
  unfold evalSym at h
  opb_tac h

theorem bindParams_B (st st' : St) (params : Sx) (args : List Sx) (b : List (String × Sx))
    (h : bindParams rec st params args = .ok (b, st')) : B st st' := by
  have hl := evalList_B rec hr
  unfold bindParams at h
  opb_tac h

theorem evalClosure_B (st st' : St) (clo : Sx) (args : List Sx) (v : Sx)
    (h : evalClosure rec st clo args = .ok (v, st')) : B st st' := by
  have hb := bindParams_B rec hr
  unfold evalClosure at h
  opb_tac h

theorem opLet_B (st st' : St) (args : List Sx) (v : Sx) (h : opLet rec st args = .ok (v, st')) : B st st' := by
  have hb := letBind_B rec hr
  have hl := evalList_B rec hr
  unfold opLet at h
  opb_tac h

theorem qq_B : ∀ (n : Nat), (∀ (e : Sx) (st st' : St) (v : Sx), sizeOf e < n → qq rec st e = .ok (v, st') → B st st') ∧
    (∀ (es : List Sx) (st st' : St) (vs : List Sx), sizeOf es < n → qqList rec st es = .ok (vs, st') → B st st') := by
  intro n
  induction n with
  | zero => exact ⟨fun _ _ _ _ h => absurd h (Nat.not_lt_zero _), fun _ _ _ _ h => absurd h (Nat.not_lt_zero _)⟩
  | succ n ih =>
    obtain ⟨ih1, ih2⟩ := ih
    constructor
    · intro e st st' v hs h
      unfold qq at h
      split at h
      · rename_i x xs
        have := ih2 (x :: xs)
        simp only [Sx.list.sizeOf_spec] at hs
        opb_tac h
      · opb_tac h
    · intro es st st' vs hs h
      unfold qqList at h
      split at h
      · opb_tac h
      · rename_i c r
        have h1 := ih1 c
        have h2 := ih2 r
        simp only [List.cons.sizeOf_spec, Sx.unq.sizeOf_spec] at hs
        opb_tac h
      · rename_i c r
        have h1 := ih1 c
        have h2 := ih2 r
        simp only [List.cons.sizeOf_spec, Sx.unqs.sizeOf_spec] at hs
        opb_tac h
      · rename_i e r _ _
        have h1 := ih1 e
        have h2 := ih2 r
        simp only [List.cons.sizeOf_spec] at hs
        opb_tac h

theorem opQuasiquote_B (st st' : St) (args : List Sx) (v : Sx) (h : opQuasiquote rec st args = .ok (v, st')) : B st st' := by
  unfold opQuasiquote at h
  split at h
  · rename_i a
    exact (qq_B rec hr (sizeOf a + 1)).1 a st st' v (Nat.lt_succ_self _) h
  · simp at h

theorem expand_B (parent : Option Nat) : ∀ (n : Nat),
    (∀ (st st' : St) (e v : Sx), expand rec parent n st e = .ok (v, st') → B st st') ∧
    (∀ (st st' : St) (es vs : List Sx), expandList rec parent n st es = .ok (vs, st') → B st st') := by
  intro n
  induction n with
  | zero =>
    constructor
    · intro st st' e v h; unfold expand at h; simp at h
    · intro st st' es vs h; unfold expandList at h; simp at h
  | succ n ih =>
    obtain ⟨ih1, ih2⟩ := ih
    constructor
    · intro st st' e v h
      unfold expand at h
      opb_tac h
    · intro st st' es vs h
      cases es with
      | nil => simp only [expandList, Except.ok.injEq, Prod.mk.injEq] at h; obtain ⟨_, hst⟩ := h; subst hst; exact B.refl _
      | cons e r =>
        simp only [expandList] at h
        opb_tac h

theorem opNot_B  (st st' : St) (args : List Sx) (v : Sx)
    (h : opNot  rec st args = .ok (v, st')) : B st st' := by
  have hl := evalList_B rec hr
  unfold opNot at h
  opb_tac h

theorem opEq_B (neg : Bool) (st st' : St) (args : List Sx) (v : Sx)
    (h : opEq neg rec st args = .ok (v, st')) : B st st' := by
  have hl := evalList_B rec hr
  unfold opEq at h
  opb_tac h

theorem opCmp_B (op : CmpOp) (st st' : St) (args : List Sx) (v : Sx)
    (h : opCmp op rec st args = .ok (v, st')) : B st st' := by
  have hl := evalList_B rec hr
  unfold opCmp at h
  opb_tac h

theorem opPrint_B  (st st' : St) (args : List Sx) (v : Sx)
    (h : opPrint  rec st args = .ok (v, st')) : B st st' := by
  have hl := evalList_B rec hr
  unfold opPrint at h
  opb_tac h

theorem opIf_B  (st st' : St) (args : List Sx) (v : Sx)
    (h : opIf  rec st args = .ok (v, st')) : B st st' := by
  have hl := evalList_B rec hr
  unfold opIf at h
  opb_tac h

theorem opDo_B  (st st' : St) (args : List Sx) (v : Sx)
    (h : opDo  rec st args = .ok (v, st')) : B st st' := by
  have hl := evalList_B rec hr
  unfold opDo at h
  opb_tac h

theorem opAlias_B  (st st' : St) (args : List Sx) (v : Sx)
    (h : opAlias  rec st args = .ok (v, st')) : B st st' := by
  have hl := evalList_B rec hr
  unfold opAlias at h
  opb_tac h

theorem opGet_B  (st st' : St) (args : List Sx) (v : Sx)
    (h : opGet  rec st args = .ok (v, st')) : B st st' := by
  have hl := evalList_B rec hr
  unfold opGet at h
  opb_tac h

theorem opType_B  (st st' : St) (args : List Sx) (v : Sx)
    (h : opType  rec st args = .ok (v, st')) : B st st' := by
  have hl := evalList_B rec hr
  unfold opType at h
  opb_tac h

theorem opSlice_B  (st st' : St) (args : List Sx) (v : Sx)
    (h : opSlice  rec st args = .ok (v, st')) : B st st' := by
  have hl := evalList_B rec hr
  unfold opSlice at h
  opb_tac h

theorem opExit_B  (st st' : St) (args : List Sx) (v : Sx)
    (h : opExit  rec st args = .ok (v, st')) : B st st' := by
  have hl := evalList_B rec hr
  unfold opExit at h
  opb_tac h

theorem opAdd_B  (st st' : St) (args : List Sx) (v : Sx)
    (h : opAdd  rec st args = .ok (v, st')) : B st st' := by
  have hl := evalList_B rec hr
  unfold opAdd at h
  opb_tac h

theorem opSub_B  (st st' : St) (args : List Sx) (v : Sx)
    (h : opSub  rec st args = .ok (v, st')) : B st st' := by
  have hl := evalList_B rec hr
  unfold opSub at h
  opb_tac h

theorem opMul_B  (st st' : St) (args : List Sx) (v : Sx)
    (h : opMul  rec st args = .ok (v, st')) : B st st' := by
  have hl := evalList_B rec hr
  unfold opMul at h
  opb_tac h

theorem opDiv_B  (st st' : St) (args : List Sx) (v : Sx)
    (h : opDiv  rec st args = .ok (v, st')) : B st st' := by
  have hl := evalList_B rec hr
  unfold opDiv at h
  opb_tac h

theorem opExp_B  (st st' : St) (args : List Sx) (v : Sx)
    (h : opExp  rec st args = .ok (v, st')) : B st st' := by
  have hl := evalList_B rec hr
  unfold opExp at h
  opb_tac h

theorem opRoundLike_B  (st st' : St) (args : List Sx) (v : Sx)
    (h : opRoundLike  rec st args = .ok (v, st')) : B st st' := by
  have hl := evalList_B rec hr
  unfold opRoundLike at h
  opb_tac h

theorem opMod_B  (st st' : St) (args : List Sx) (v : Sx)
    (h : opMod  rec st args = .ok (v, st')) : B st st' := by
  have hl := evalList_B rec hr
  unfold opMod at h
  opb_tac h

theorem opBitwise_B (f : Int → Int → Int) (fb : Bool → Bool → Bool) (st st' : St) (args : List Sx) (v : Sx)
    (h : opBitwise f fb rec st args = .ok (v, st')) : B st st' := by
  have hl := evalList_B rec hr
  unfold opBitwise at h
  opb_tac h

theorem opIsDefined_B  (st st' : St) (args : List Sx) (v : Sx)
    (h : opIsDefined  rec st args = .ok (v, st')) : B st st' := by
  have hl := evalList_B rec hr
  unfold opIsDefined at h
  opb_tac h

theorem opAllPred_B (p : Sx → Bool) (st st' : St) (args : List Sx) (v : Sx)
    (h : opAllPred p rec st args = .ok (v, st')) : B st st' := by
  have hl := evalList_B rec hr
  unfold opAllPred at h
  opb_tac h

theorem opConvertBin_B  (st st' : St) (args : List Sx) (v : Sx)
    (h : opConvertBin  rec st args = .ok (v, st')) : B st st' := by
  have hl := evalList_B rec hr
  unfold opConvertBin at h
  opb_tac h

theorem opStringToInt_B  (st st' : St) (args : List Sx) (v : Sx)
    (h : opStringToInt  rec st args = .ok (v, st')) : B st st' := by
  have hl := evalList_B rec hr
  unfold opStringToInt at h
  opb_tac h

theorem opBitsToSint_B  (st st' : St) (args : List Sx) (v : Sx)
    (h : opBitsToSint  rec st args = .ok (v, st')) : B st st' := by
  have hl := evalList_B rec hr
  unfold opBitsToSint at h
  opb_tac h

theorem opSymbolToString_B  (st st' : St) (args : List Sx) (v : Sx)
    (h : opSymbolToString  rec st args = .ok (v, st')) : B st st' := by
  have hl := evalList_B rec hr
  unfold opSymbolToString at h
  opb_tac h

theorem opStringToSymbol_B  (st st' : St) (args : List Sx) (v : Sx)
    (h : opStringToSymbol  rec st args = .ok (v, st')) : B st st' := by
  have hl := evalList_B rec hr
  unfold opStringToSymbol at h
  opb_tac h

theorem opIntToString_B  (st st' : St) (args : List Sx) (v : Sx)
    (h : opIntToString  rec st args = .ok (v, st')) : B st st' := by
  have hl := evalList_B rec hr
  unfold opIntToString at h
  opb_tac h

theorem opList_B  (st st' : St) (args : List Sx) (v : Sx)
    (h : opList  rec st args = .ok (v, st')) : B st st' := by
  have hl := evalList_B rec hr
  unfold opList at h
  opb_tac h

theorem opListAccess_B (sel : Bool → List Sx → Except Err Sx) (st st' : St) (args : List Sx) (v : Sx)
    (h : opListAccess sel rec st args = .ok (v, st')) : B st st' := by
  have hl := evalList_B rec hr
  unfold opListAccess at h
  opb_tac h

theorem opIn_B  (st st' : St) (args : List Sx) (v : Sx)
    (h : opIn  rec st args = .ok (v, st')) : B st st' := by
  have hl := evalList_B rec hr
  unfold opIn at h
  opb_tac h

theorem opMaxMin_B (isMax : Bool) (st st' : St) (args : List Sx) (v : Sx)
    (h : opMaxMin isMax rec st args = .ok (v, st')) : B st st' := by
  have hl := evalList_B rec hr
  unfold opMaxMin at h
  opb_tac h

theorem opAverage_B  (st st' : St) (args : List Sx) (v : Sx)
    (h : opAverage  rec st args = .ok (v, st')) : B st st' := by
  have hl := evalList_B rec hr
  unfold opAverage at h
  opb_tac h

theorem opLength_B  (st st' : St) (args : List Sx) (v : Sx)
    (h : opLength  rec st args = .ok (v, st')) : B st st' := by
  have hl := evalList_B rec hr
  unfold opLength at h
  opb_tac h

theorem opZip_B  (st st' : St) (args : List Sx) (v : Sx)
    (h : opZip  rec st args = .ok (v, st')) : B st st' := by
  have hl := evalList_B rec hr
  unfold opZip at h
  opb_tac h

theorem opRange_B  (st st' : St) (args : List Sx) (v : Sx)
    (h : opRange  rec st args = .ok (v, st')) : B st st' := by
  have hl := evalList_B rec hr
  unfold opRange at h
  opb_tac h

theorem opIsSignal_B  (st st' : St) (args : List Sx) (v : Sx)
    (h : opIsSignal  rec st args = .ok (v, st')) : B st st' := by
  have hl := evalList_B rec hr
  unfold opIsSignal at h
  opb_tac h

theorem opSignalWidth_B  (st st' : St) (args : List Sx) (v : Sx)
    (h : opSignalWidth  rec st args = .ok (v, st')) : B st st' := by
  have hl := evalList_B rec hr
  unfold opSignalWidth at h
  opb_tac h

theorem opSampleAt_B  (st st' : St) (args : List Sx) (v : Sx)
    (h : opSampleAt  rec st args = .ok (v, st')) : B st st' := by
  have hl := evalList_B rec hr
  unfold opSampleAt at h
  opb_tac h

theorem opTrimTrace_B  (st st' : St) (args : List Sx) (v : Sx)
    (h : opTrimTrace  rec st args = .ok (v, st')) : B st st' := by
  have hl := evalList_B rec hr
  unfold opTrimTrace at h
  opb_tac h

theorem opAnd_B (st st' : St) (args : List Sx) (v : Sx) (h : opAnd rec st args = .ok (v, st')) : B st st' := by
  have hl := andLoop_B rec hr
  unfold opAnd at h
  opb_tac h

theorem opOr_B (st st' : St) (args : List Sx) (v : Sx) (h : opOr rec st args = .ok (v, st')) : B st st' := by
  have hl := orLoop_B rec hr
  unfold opOr at h
  opb_tac h

theorem opSet_B (st st' : St) (args : List Sx) (v : Sx) (h : opSet rec st args = .ok (v, st')) : B st st' := by
  have hl := setLoop_B rec hr
  unfold opSet at h
  opb_tac h

theorem opDefine_B (st st' : St) (args : List Sx) (v : Sx) (h : opDefine rec st args = .ok (v, st')) : B st st' := by
  have hd := defineIn_B
  unfold opDefine at h
  opb_tac h

theorem opCase_B (st st' : St) (args : List Sx) (v : Sx) (h : opCase rec st args = .ok (v, st')) : B st st' := by
  have hl := caseLoop_B rec hr
  unfold opCase at h
  opb_tac h

theorem opWhile_B (n : Nat) (st st' : St) (args : List Sx) (v : Sx) (h : opWhile n rec st args = .ok (v, st')) : B st st' := by
  have hl := whileLoop_B rec hr
  unfold opWhile at h
  opb_tac h

theorem unaliasLoop_B : ∀ (as : List Sx) (st st' : St) (v : Sx), unaliasLoop st as = .ok (v, st') → B st st' := by
  intro as
  induction as with
  | nil => intro st st' v h; unfold unaliasLoop at h; opb_tac h
  | cons a as ih => intro st st' v h; unfold unaliasLoop at h; opb_tac h

theorem opUnalias_B (st st' : St) (args : List Sx) (v : Sx) (h : opUnalias st args = .ok (v, st')) : B st st' := by
  have hl := unaliasLoop_B rec hr
  unfold opUnalias at h
  opb_tac h

theorem opQuote_B (st st' : St) (args : List Sx) (v : Sx) (h : opQuote st args = .ok (v, st')) : B st st' := by
  unfold opQuote at h
  opb_tac h

theorem opFn_B (st st' : St) (args : List Sx) (v : Sx) (h : opFn st args = .ok (v, st')) : B st st' := by
  unfold opFn at h
  opb_tac h

theorem opLoadedTraces_B (st st' : St) (args : List Sx) (v : Sx) (h : opLoadedTraces st args = .ok (v, st')) : B st st' := by
  unfold opLoadedTraces at h
  opb_tac h

theorem opDefsig_B (st st' : St) (args : List Sx) (v : Sx) (h : opDefsig st args = .ok (v, st')) : B st st' := by
  unfold opDefsig at h
  opb_tac h

theorem opGensym_B (st st' : St) (v : Sx) (h : opGensym st = .ok (v, st')) : B st st' := by
  unfold opGensym at h
  opb_tac h

theorem opReval_B (st st' : St) (args : List Sx) (v : Sx) (h : opReval rec st args = .ok (v, st')) : B st st' := by
  have hs := restore_stack
  unfold opReval at h
  opb_tac h

theorem opScoped_B (st st' : St) (args : List Sx) (v : Sx) (h : opScoped rec st args = .ok (v, st')) : B st st' := by
  have hw := writeGlobal_B
  unfold opScoped at h
  opb_tac h

theorem allScopesLoop_B (e : Sx) : ∀ (ss : List String) (st st' : St) (acc vs : List Sx),
    allScopesLoop rec e st ss acc = .ok (vs, st') → st'.group = st.group ∧ st'.tc.idxStack = st.tc.idxStack := by
  have hw := writeGlobal_B
  intro ss
  induction ss with
  | nil => intro st st' acc vs h; unfold allScopesLoop at h; simp only [Except.ok.injEq, Prod.mk.injEq] at h; obtain ⟨_, hst⟩ := h; subst hst; exact ⟨rfl, rfl⟩
  | cons a as ih =>
    intro st st' acc vs h; unfold allScopesLoop at h
    simp only [bind, Except.bind] at h
    repeat' (split at h)
    all_goals (first | (simp at h; done) | grind)

theorem opAllScopes_B (st st' : St) (args : List Sx) (v : Sx) (h : opAllScopes rec st args = .ok (v, st')) : B st st' := by
  have hw := writeGlobal_B
  have hl := allScopesLoop_B rec hr
  unfold opAllScopes at h
  opb_tac h

theorem opResolveScope_B (st st' : St) (args : List Sx) (v : Sx) (h : opResolveScope rec st args = .ok (v, st')) : B st st' := by
  have hs := readSignal_B rec hr
  unfold opResolveScope at h
  opb_tac h

theorem opResolveGroup_B (st st' : St) (args : List Sx) (v : Sx) (h : opResolveGroup rec st args = .ok (v, st')) : B st st' := by
  have hs := readSignal_B rec hr
  unfold opResolveGroup at h
  opb_tac h

theorem groupArgs_B : ∀ (as : List Sx) (st st' : St) (ss : List String), groupArgs rec st as = .ok (ss, st') → B st st' := by
  intro as
  induction as with
  | nil => intro st st' ss h; unfold groupArgs at h; opb_tac h
  | cons a as ih => intro st st' ss h; unfold groupArgs at h; opb_tac h

theorem opGroups_B (st st' : St) (args : List Sx) (v : Sx) (h : opGroups rec st args = .ok (v, st')) : B st st' := by
  have hl := groupArgs_B rec hr
  unfold opGroups at h
  opb_tac h

theorem opInGroup_B (st st' : St) (args : List Sx) (v : Sx) (h : opInGroup rec st args = .ok (v, st')) : B st st' := by
  have hw := writeGlobal_B
  have hl := evalList_B rec hr
  unfold opInGroup at h
  opb_tac h

theorem inGroupsLoop_B (body : List Sx) : ∀ (gs : List Sx) (st st' : St) (l v : Sx),
    inGroupsLoop rec body st gs l = .ok (v, st') → B st st' := by
  have hg := opInGroup_B rec hr
  intro gs
  induction gs with
  | nil => intro st st' l v h; unfold inGroupsLoop at h; opb_tac h
  | cons a as ih => intro st st' l v h; unfold inGroupsLoop at h; opb_tac h

theorem opInGroups_B (st st' : St) (args : List Sx) (v : Sx) (h : opInGroups rec st args = .ok (v, st')) : B st st' := by
  have hl := inGroupsLoop_B rec hr
  unfold opInGroups at h
  opb_tac h

omit hr in
theorem mapLoop_B (call : St → Sx → Res) (hc : ∀ s x v s', call s x = .ok (v, s') → B s s') :
    ∀ (l : List Sx) (st st' : St) (vs : List Sx), mapLoop call st l = .ok (vs, st') → B st st' := by
  intro l
  induction l with
  | nil => intro st st' vs h; unfold mapLoop at h; opb_tac h
  | cons a as ih => intro st st' vs h; unfold mapLoop at h; opb_tac h

omit hr in
theorem foldLoop_B (call : St → Sx → Sx → Res) (hc : ∀ s a x v s', call s a x = .ok (v, s') → B s s') :
    ∀ (l : List Sx) (st st' : St) (acc v : Sx), foldLoop call st acc l = .ok (v, st') → B st st' := by
  intro l
  induction l with
  | nil => intro st st' acc v h; unfold foldLoop at h; opb_tac h
  | cons a as ih => intro st st' acc v h; unfold foldLoop at h; opb_tac h

theorem opMap_B (st st' : St) (args : List Sx) (v : Sx) (h : opMap rec st args = .ok (v, st')) : B st st' := by
  have hc := evalClosure_B rec hr
  have hl1 := fun o => mapLoop_B (fun s x => rec s (.list true [.op o, quoteOf x])) (fun s x v s' hh => hr _ _ _ _ hh)
  have hl2 := fun fv => mapLoop_B (fun s x => evalClosure rec s fv [.list false [.op .QUOTE, x]]) (fun s x v s' hh => hc _ _ _ _ _ hh)
  unfold opMap at h
  simp only [bind, Except.bind, pure, Except.pure] at h
  repeat' (split at h)
  all_goals try (simp at h; done)
  all_goals (simp only [Except.ok.injEq, Prod.mk.injEq] at h; obtain ⟨_, hst⟩ := h; subst hst)
  · have := hl1 _ _ _ _ _ ‹_›
    grind [B.refl, B.trans]
  · have := hl2 _ _ _ _ _ ‹_›
    grind [B.refl, B.trans]

theorem opFold_B (st st' : St) (args : List Sx) (v : Sx) (h : opFold rec st args = .ok (v, st')) : B st st' := by
  have hc := evalClosure_B rec hr
  have hl := evalList_B rec hr
  have hl1 := fun o => foldLoop_B (fun s acc x => rec s (.list true [.op o, quoteOf acc, quoteOf x])) (fun s a x v s' hh => hr _ _ _ _ hh)
  have hl2 := fun fv => foldLoop_B (fun s acc x => evalClosure rec s fv [quoteOf acc, quoteOf x]) (fun s a x v s' hh => hc _ _ _ _ _ hh)
  unfold opFold at h
  simp only [bind, Except.bind, pure, Except.pure] at h
  repeat' (split at h)
  all_goals try (simp at h; done)
  · have := hl1 _ _ _ _ _ _ h
    grind [B.refl, B.trans]
  · have := hl2 _ _ _ _ _ _ h
    grind [B.refl, B.trans]

theorem mapaCall_B (fv : Sx) (s s' : St) (kv v : Sx) (h : mapaCall rec fv s kv = .ok (v, s')) : B s s' := by
  have hc := evalClosure_B rec hr
  unfold mapaCall at h
  opb_tac h

theorem opMapa_B (st st' : St) (args : List Sx) (v : Sx) (h : opMapa rec st args = .ok (v, st')) : B st st' := by
  have hl := fun fv => mapLoop_B (mapaCall rec fv) (fun s x v s' hh => mapaCall_B rec hr fv s s' x v hh)
  unfold opMapa at h
  simp only [St.arr?] at h
  opb_tac h

theorem arrayBuild_B : ∀ (as : List Sx) (st st' : St) (acc kvs : List (String × Sx)),
    arrayBuild rec st as acc = .ok (kvs, st') → B st st' := by
  intro as
  induction as with
  | nil => intro st st' acc kvs h; unfold arrayBuild at h; opb_tac h
  | cons a as ih => intro st st' acc kvs h; unfold arrayBuild at h; opb_tac h

theorem evalArrKey_B (st st' : St) (a k : Sx) (r : Nat) (ks : String)
    (h : evalArrKey rec st a k = .ok (r, ks, st')) : B st st' := by
  unfold evalArrKey at h
  simp only [bind, Except.bind, pure, Except.pure] at h
  repeat' (split at h)
  all_goals try (simp at h; done)
  all_goals (simp only [Except.ok.injEq, Prod.mk.injEq] at h; obtain ⟨_, _, hst⟩ := h; subst hst)
  all_goals grind [B.refl, B.trans]

theorem opArray_B (st st' : St) (args : List Sx) (v : Sx) (h : opArray rec st args = .ok (v, st')) : B st st' := by
  have hl := arrayBuild_B rec hr
  unfold opArray at h
  opb_tac h

theorem opSeta_B (st st' : St) (args : List Sx) (v : Sx) (h : opSeta rec st args = .ok (v, st')) : B st st' := by
  have hl := evalArrKey_B rec hr
  unfold opSeta at h
  opb_tac h

theorem opGeta_B (st st' : St) (args : List Sx) (v : Sx) (h : opGeta rec st args = .ok (v, st')) : B st st' := by
  have hl := evalArrKey_B rec hr
  unfold opGeta at h
  opb_tac h

theorem opDela_B (st st' : St) (args : List Sx) (v : Sx) (h : opDela rec st args = .ok (v, st')) : B st st' := by
  have hl := evalArrKey_B rec hr
  unfold opDela at h
  opb_tac h

theorem opUnload_B (st st' : St) (args : List Sx) (v : Sx) (h : opUnload rec st args = .ok (v, st')) : B st st' := by
  have hu := unload_stack
  unfold opUnload at h
  opb_tac h

omit hr in
theorem doStepNamed_B (st st' : St) (t : Sx) (k : Int) (e : List String)
    (h : doStepNamed st t k = .ok (st', e)) : B st st' := by
  have hs := step_stack
  unfold doStepNamed at h
  repeat' (split at h)
  all_goals try (simp at h; done)
  simp only [Except.ok.injEq, Prod.mk.injEq] at h
  obtain ⟨hst, _⟩ := h
  subst hst
  grind

omit hr in
theorem stepTids_B (k : Int) : ∀ (ts : List Sx) (st st' : St) (acc e : List String),
    stepTids k st ts acc = .ok (st', e) → B st st' := by
  have hd := doStepNamed_B
  intro ts
  induction ts with
  | nil =>
    intro st st' acc e h; unfold stepTids at h
    simp only [Except.ok.injEq, Prod.mk.injEq] at h; obtain ⟨hst, _⟩ := h; subst hst; exact B.refl _
  | cons a as ih =>
    intro st st' acc e h; unfold stepTids at h
    simp only [bind, Except.bind] at h
    repeat' (split at h)
    all_goals try (simp at h; done)
    grind [B.refl, B.trans]

theorem opStep_B (st st' : St) (args : List Sx) (v : Sx) (h : opStep rec st args = .ok (v, st')) : B st st' := by
  have hd := doStepNamed_B
  have hs := stepTids_B
  unfold opStep at h
  opb_tac h

theorem findLoop_B (c : Sx) (tid : String) : ∀ (k : Nat) (st st' : St) (acc found : List Int),
    findLoop rec c tid k st acc = .ok (found, st') → B st st' := by
  intro k
  induction k with
  | zero => intro st st' acc found h; unfold findLoop at h; simp at h
  | succ k ih => intro st st' acc found h; unfold findLoop at h; opb_tac h

theorem findTraces_B (n : Nat) (c : Sx) : ∀ (tids : List String) (st st' : St) (acc found : List Int),
    findTraces n rec c st tids acc = .ok (found, st') → B st st' := by
  have hl := findLoop_B rec hr
  intro tids
  induction tids with
  | nil => intro st st' acc found h; unfold findTraces at h; opb_tac h
  | cons a as ih => intro st st' acc found h; unfold findTraces at h; opb_tac h

theorem opFind_B (n : Nat) (st st' : St) (args : List Sx) (v : Sx) (h : opFind n rec st args = .ok (v, st')) : B st st' := by
  have hl := findTraces_B rec hr
  unfold opFind at h
  opb_tac h

theorem scanLoop_B {α : Type} (c : Sx) (onHit : St → α → Except Err (α × St))
    (ho : ∀ s a a' s', onHit s a = .ok (a', s') → B s s') : ∀ (k : Nat) (st st' : St) (acc res : α),
    scanLoop rec c onHit k st acc = .ok (res, st') → B st st' := by
  intro k
  induction k with
  | zero => intro st st' acc res h; unfold scanLoop at h; simp at h
  | succ k ih => intro st st' acc res h; unfold scanLoop at h; opb_tac h

omit hr in
theorem restorePrev_B (st st' : St) (prev : List (String × Int)) (h : restorePrev st prev = .ok st') : B st st' := by
  unfold restorePrev at h
  split at h
  · simp only [Except.ok.injEq] at h; subst h; exact B.refl _
  · simp at h

theorem opFindG_B (n : Nat) (st st' : St) (args : List Sx) (v : Sx) (h : opFindG n rec st args = .ok (v, st')) : B st st' := by
  have hp := restorePrev_B
  unfold opFindG at h
  simp only [bind, Except.bind, pure, Except.pure] at h
  repeat' (split at h)
  all_goals try (simp at h; done)
  simp only [Except.ok.injEq, Prod.mk.injEq] at h; obtain ⟨_, hst⟩ := h; subst hst
  rename_i hs _ _ _ _
  have hs' := scanLoop_B rec hr _ _ (fun s a a' s' hh => by
    repeat' (split at hh)
    all_goals try (simp at hh; done)
    all_goals (simp only [St.newArr, Except.ok.injEq, Prod.mk.injEq] at hh; obtain ⟨_, hst⟩ := hh; subst hst; exact B.refl _)) _ _ _ _ _ hs
  grind [B.refl, B.trans]

theorem wheneverBody_B (body : List Sx) (s s' : St) (a a' : Sx) (h : wheneverBody rec body s a = .ok (a', s')) : B s s' := by
  have hl := evalList_B rec hr
  unfold wheneverBody at h
  opb_tac h

theorem opWhenever_B (n : Nat) (st st' : St) (args : List Sx) (v : Sx) (h : opWhenever n rec st args = .ok (v, st')) : B st st' := by
  have hp := restorePrev_B
  have hs := fun c body => scanLoop_B rec hr c (wheneverBody rec body) (fun s a a' s' hh => wheneverBody_B rec hr body s s' a a' hh)
  unfold opWhenever at h
  opb_tac h

theorem opEval_B (n : Nat) (st st' : St) (args : List Sx) (v : Sx) (h : opEval n rec st args = .ok (v, st')) : B st st' := by
  have he := (expand_B rec hr (some 0) n).1
  unfold opEval at h
  opb_tac h

theorem opMacroexpand_B (n : Nat) (st st' : St) (args : List Sx) (v : Sx)
    (h : opMacroexpand n rec st args = .ok (v, st')) : B st st' := by
  have he := fun p => (expand_B rec hr p n).1
  unfold opMacroexpand at h
  opb_tac h

theorem opDefmacro_B (n : Nat) (st st' : St) (args : List Sx) (v : Sx)
    (h : opDefmacro n rec st args = .ok (v, st')) : B st st' := by
  have he := (expand_B rec hr Option.none n).2
  have hd := defineIn_B
  unfold opDefmacro at h
  opb_tac h

/-- `dispatch` with the two operators that exist to change the captured scope persistently switched off -/
def dispatchR (n : Nat) (rec : St → Sx → Res) (st : St) (o : Op) (args : List Sx) : Res :=
  match o with
  | .SETSCOPE | .UNSETSCOPE => .error (.unsupported "persistent change of the captured scope")
  | o => dispatch n rec st o args

theorem dispatchR_B (n : Nat) (st st' : St) (o : Op) (args : List Sx) (v : Sx)
    (h : dispatchR n rec st o args = .ok (v, st')) : B st st' := by
  cases o with
  | NOT => exact opNot_B rec hr  _ _ _ _ h
  | EQ => exact opEq_B rec hr false _ _ _ _ h
  | NEQ => exact opEq_B rec hr true _ _ _ _ h
  | LARGER => exact opCmp_B rec hr .gt _ _ _ _ h
  | SMALLER => exact opCmp_B rec hr .lt _ _ _ _ h
  | LARGER_EQUAL => exact opCmp_B rec hr .ge _ _ _ _ h
  | SMALLER_EQUAL => exact opCmp_B rec hr .le _ _ _ _ h
  | AND => exact opAnd_B rec hr  _ _ _ _ h
  | OR => exact opOr_B rec hr  _ _ _ _ h
  | LET => exact opLet_B rec hr  _ _ _ _ h
  | DEFINE => exact opDefine_B rec hr  _ _ _ _ h
  | SET => exact opSet_B rec hr  _ _ _ _ h
  | PRINT => exact opPrint_B rec hr  _ _ _ _ h
  | PRINTF => simp [dispatchR, dispatch] at h
  | IF => exact opIf_B rec hr  _ _ _ _ h
  | CASE => exact opCase_B rec hr  _ _ _ _ h
  | DO => exact opDo_B rec hr  _ _ _ _ h
  | WHILE => exact opWhile_B rec hr n _ _ _ _ h
  | ALIAS => exact opAlias_B rec hr  _ _ _ _ h
  | UNALIAS => exact opUnalias_B rec hr  _ _ _ _ h
  | QUOTE => exact opQuote_B rec hr  _ _ _ _ h
  | QUASIQUOTE => exact opQuasiquote_B rec hr  _ _ _ _ h
  | UNQUOTE => simp [dispatchR, dispatch] at h
  | EVAL => exact opEval_B rec hr n _ _ _ _ h
  | PARSE => simp [dispatchR, dispatch] at h
  | DEFMACRO => exact opDefmacro_B rec hr n _ _ _ _ h
  | MACROEXPAND => exact opMacroexpand_B rec hr n _ _ _ _ h
  | GENSYM => exact opGensym_B rec hr  _ _ _ h
  | FN => exact opFn_B rec hr  _ _ _ _ h
  | GET => exact opGet_B rec hr  _ _ _ _ h
  | IMPORT => simp [dispatchR, dispatch] at h
  | CALL => simp [dispatchR, dispatch] at h
  | TYPE => exact opType_B rec hr  _ _ _ _ h
  | REL_EVAL => exact opReval_B rec hr  _ _ _ _ h
  | SCOPED => exact opScoped_B rec hr  _ _ _ _ h
  | RESOLVE_SCOPE => exact opResolveScope_B rec hr  _ _ _ _ h
  | ALLSCOPES => exact opAllScopes_B rec hr  _ _ _ _ h
  | SETSCOPE => simp [dispatchR] at h
  | UNSETSCOPE => simp [dispatchR] at h
  | GROUPS => exact opGroups_B rec hr  _ _ _ _ h
  | IN_GROUP => exact opInGroup_B rec hr  _ _ _ _ h
  | IN_GROUPS => exact opInGroups_B rec hr  _ _ _ _ h
  | RESOLVE_GROUP => exact opResolveGroup_B rec hr  _ _ _ _ h
  | SLICE => exact opSlice_B rec hr  _ _ _ _ h
  | LOADED_TRACES => exact opLoadedTraces_B rec hr  _ _ _ _ h
  | EXIT => exact opExit_B rec hr  _ _ _ _ h
  | ADD => exact opAdd_B rec hr  _ _ _ _ h
  | SUB => exact opSub_B rec hr  _ _ _ _ h
  | MUL => exact opMul_B rec hr  _ _ _ _ h
  | DIV => exact opDiv_B rec hr  _ _ _ _ h
  | EXP => exact opExp_B rec hr  _ _ _ _ h
  | FLOOR => exact opRoundLike_B rec hr  _ _ _ _ h
  | CEIL => exact opRoundLike_B rec hr  _ _ _ _ h
  | ROUND => exact opRoundLike_B rec hr  _ _ _ _ h
  | MOD => exact opMod_B rec hr  _ _ _ _ h
  | BOR => exact opBitwise_B rec hr intLor (· || ·) _ _ _ _ h
  | BAND => exact opBitwise_B rec hr intLand (· && ·) _ _ _ _ h
  | BXOR => exact opBitwise_B rec hr intXor (fun a b => a != b) _ _ _ _ h
  | IS_DEFINED => exact opIsDefined_B rec hr  _ _ _ _ h
  | IS_ATOM => exact opAllPred_B rec hr isAtomVal _ _ _ _ h
  | IS_SYMBOL => exact opAllPred_B rec hr isSym _ _ _ _ h
  | IS_STRING => exact opAllPred_B rec hr isStr _ _ _ _ h
  | IS_INT => exact opAllPred_B rec hr isIntLike _ _ _ _ h
  | IS_LIST => exact opAllPred_B rec hr isList _ _ _ _ h
  | CONVERT_BINARY => exact opConvertBin_B rec hr  _ _ _ _ h
  | STRING_TO_INT => exact opStringToInt_B rec hr  _ _ _ _ h
  | BITS_TO_SINT => exact opBitsToSint_B rec hr  _ _ _ _ h
  | STRING_TO_SYMBOL => exact opStringToSymbol_B rec hr  _ _ _ _ h
  | SYMBOL_TO_STRING => exact opSymbolToString_B rec hr  _ _ _ _ h
  | INT_TO_STRING => exact opIntToString_B rec hr  _ _ _ _ h
  | LIST => exact opList_B rec hr  _ _ _ _ h
  | FIRST => exact opListAccess_B rec hr selFirst _ _ _ _ h
  | SECOND => exact opListAccess_B rec hr selSecond _ _ _ _ h
  | LAST => exact opListAccess_B rec hr selLast _ _ _ _ h
  | REST => exact opListAccess_B rec hr selRest _ _ _ _ h
  | IN => exact opIn_B rec hr  _ _ _ _ h
  | MAP => exact opMap_B rec hr  _ _ _ _ h
  | MAX => exact opMaxMin_B rec hr true _ _ _ _ h
  | MIN => exact opMaxMin_B rec hr false _ _ _ _ h
  | FOLD => exact opFold_B rec hr  _ _ _ _ h
  | LENGTH => exact opLength_B rec hr  _ _ _ _ h
  | AVERAGE => exact opAverage_B rec hr  _ _ _ _ h
  | ZIP => exact opZip_B rec hr  _ _ _ _ h
  | RANGE => exact opRange_B rec hr  _ _ _ _ h
  | ARRAY => exact opArray_B rec hr  _ _ _ _ h
  | SETA => exact opSeta_B rec hr  _ _ _ _ h
  | GETA => exact opGeta_B rec hr  _ _ _ _ h
  | DELA => exact opDela_B rec hr  _ _ _ _ h
  | MAPA => exact opMapa_B rec hr  _ _ _ _ h
  | LOAD => simp [dispatchR, dispatch] at h
  | UNLOAD => exact opUnload_B rec hr  _ _ _ _ h
  | STEP => exact opStep_B rec hr  _ _ _ _ h
  | REPL => simp [dispatchR, dispatch] at h
  | IS_SIGNAL => exact opIsSignal_B rec hr  _ _ _ _ h
  | REQUIRE => simp [dispatchR, dispatch] at h
  | EVAL_FILE => simp [dispatchR, dispatch] at h
  | FIND => exact opFind_B rec hr n _ _ _ _ h
  | FIND_G => exact opFindG_B rec hr n _ _ _ _ h
  | WHENEVER => exact opWhenever_B rec hr n _ _ _ _ h
  | FOLD_SIGNAL => simp [dispatchR, dispatch] at h
  | SIGNAL_WIDTH => exact opSignalWidth_B rec hr  _ _ _ _ h
  | SAMPLE_AT => exact opSampleAt_B rec hr  _ _ _ _ h
  | TRIM_TRACE => exact opTrimTrace_B rec hr  _ _ _ _ h
  | DEFSIG => exact opDefsig_B rec hr  _ _ _ _ h
  | NEWTRACE => simp [dispatchR, dispatch] at h
  | DUMPTRACE => simp [dispatchR, dispatch] at h

/-- one layer of the restricted evaluator: `evalStep` with `dispatchR` in the place of `dispatch` -/
def evalStepR (n : Nat) (rec : St → Sx → Res) (st : St) : Sx → Res
  | .list w (.op o :: tail) => dispatchR n rec st o tail
  | e => evalStep n rec st e

theorem evalStepR_B (n : Nat) (st st' : St) (e v : Sx) (h : evalStepR n rec st e = .ok (v, st')) : B st st' := by
  have hs := evalSym_B rec hr
  have hc := evalClosure_B rec hr
  have hd := dispatchR_B rec hr
  unfold evalStepR at h
  split at h
  · exact hd _ _ _ _ _ _ h
  · rename_i hne
    unfold evalStep at h
    repeat' (split at h)
    all_goals try (simp at h; done)
    all_goals try (exact absurd rfl (hne _ _ _))
    all_goals opb_tac h

end

/-- the restricted evaluator -/
def evalR : Nat → St → Sx → Res
  | 0, _, _ => .error .fuel
  | n + 1, st, e => evalStepR n (evalR n) st e

/-- **every evaluation that completes without executing `set-scope` / `unset-scope` — whatever else it runs:
`in-scope`, `in-group(s)`, `all-scopes`, relative evaluation, scans, calls, macro expansion, `eval` of computed code,
to any depth — leaves the captured scope, the captured group and the stack of saved positions exactly as they were** -/
theorem evalR_B : ∀ (n : Nat) (st : St) (e v : Sx) (st' : St), evalR n st e = .ok (v, st') → B st st' := by
  intro n
  induction n with
  | zero => intro st e v st' h; simp [evalR] at h
  | succ n ih => intro st e v st' h; exact evalStepR_B (evalR n) ih n st st' e v h

/-! ## the restricted evaluator is a restriction of the evaluator -/

theorem dispatchR_sub (n : Nat) (rec : St → Sx → Res) (st : St) (o : Op) (args : List Sx) (r : Sx × St)
    (h : dispatchR n rec st o args = .ok r) : dispatch n rec st o args = .ok r := by
  unfold dispatchR at h
  split at h
  · simp at h
  · simp at h
  · exact h

theorem evalStepR_sub (n : Nat) (rec : St → Sx → Res) (st : St) (e : Sx) (r : Sx × St)
    (h : evalStepR n rec st e = .ok r) : evalStep n rec st e = .ok r := by
  unfold evalStepR at h
  split at h
  · simp only [evalStep]; exact dispatchR_sub _ _ _ _ _ _ h
  · exact h

/-- whatever the restricted evaluator completes, the evaluator completes with the same value and state -/
theorem evalR_sub : ∀ (n : Nat) (st : St) (e : Sx) (r : Sx × St), evalR n st e = .ok r → eval n st e = .ok r := by
  intro n
  induction n with
  | zero => intro st e r h; simp [evalR] at h
  | succ n ih =>
    intro st e r h
    simp only [evalR] at h
    simp only [eval]
    exact Mono.evalStep_mono (evalR n) (eval n) ih n n (Nat.le_refl n) st e r (evalStepR_sub _ _ _ _ _ h)

/-- the pipeline over the restricted evaluator -/
def walEvalR (m : Mode) (n : Nat) (st : St) (e : Sx) : Res := do
  let (ex, st1) ← (if m.expand then expand (evalR n) (some 0) n st e else pure (e, st))
  let opt := if m.optimize then optimize ex else ex
  let res ← (if m.resolve then ofOpt (resolve st1.globalNames opt) (errA "resolve: symbol already defined") else pure opt)
  evalR n st1 res

theorem walEvalR_B (m : Mode) (n : Nat) (st st' : St) (e v : Sx) (h : walEvalR m n st e = .ok (v, st')) : B st st' := by
  have hr := evalR_B n
  have he := (expand_B (evalR n) hr (some 0) n).1
  unfold walEvalR at h
  opb_tac h

theorem walEvalR_sub (m : Mode) (n : Nat) (st : St) (e : Sx) (r : Sx × St) (h : walEvalR m n st e = .ok r) :
    walEval m n st e = .ok r := by
  have hm := evalR_sub n
  have hl := (Mono.expand_mono (evalR n) (eval n) hm (some 0) n n (Nat.le_refl n)).1
  unfold walEvalR at h
  unfold walEval
  simp only [bind, Except.bind, pure, Except.pure, ofOpt] at h ⊢
  repeat' (split at h)
  all_goals try (simp at h; done)
  all_goals (first | (simp_all; done) | grind)

end Wal.Bal
