import Wal.Props.C03_Global
import Wal.Props.C04_Global
/-!
# Position neutrality of every evaluation that does not execute `step` or `sample-at`

`idxs st` is the list of (trace id, index) pairs of the loaded traces. For the restricted evaluator `evalN` (`Tid.evalT`
— no `unload`, `set-scope`, `unset-scope` — without `step` and `sample-at`), started in a state whose trace ids
are distinct: **every evaluation that completes leaves every trace index exactly where it was** — whatever it nests:
relative evaluation, `find`, `whenever`, `find/g`, calls, scopes and groups, virtual signals, macro expansion, `eval` of computed
code. Same scheme as `Bal.lean` / `Tid.lean`; the three cases that move traces (`reval`, `whenever`, `find/g`) are the
theorems of `Props/C03_Global.lean` and `Props/C04_Global.lean`, which need of the sub-evaluation exactly what
`Tid.lean` and `Bal.lean` provide.
-/
namespace Wal.Neu
open Wal

def idxs (c : Container) : List (String × Int) := indicesOf c.traces

/-- the loaded traces have distinct ids -/
def Nd (c : Container) : Prop := ((idxs c).map Prod.fst).Nodup

@[grind =] theorem idxs_def (c : Container) : idxs c = indicesOf c.traces := rfl
theorem Nd_def (c : Container) : Nd c = ((idxs c).map Prod.fst).Nodup := rfl

theorem Nd_congr (a b : Container) (h : idxs b = idxs a) (hn : Nd a) : Nd b := by unfold Nd at hn ⊢; rw [h]; exact hn

theorem fst_idxs (st : St) : (idxs st.tc).map Prod.fst = st.tc.traces.map (·.tid) := by
  simp [idxs, indicesOf, Function.comp_def]

theorem Nd_iff (st : St) : Nd st.tc ↔ (st.tc.traces.map (·.tid)).Nodup := by
  unfold Nd; rw [fst_idxs]

/-- same positions, and the ids still distinct -/
def NN (c c' : Container) : Prop := idxs c' = idxs c ∧ Nd c'

@[grind =] theorem NN_def (c c' : Container) : NN c c' = (idxs c' = idxs c ∧ Nd c') := rfl

theorem NN.refl (c : Container) (h : Nd c) : NN c c := ⟨rfl, h⟩
theorem NN.trans {a b c : Container} (h1 : NN a b) (h2 : NN b c) : NN a c := ⟨h2.1.trans h1.1, h2.2⟩
theorem NN.of_eq {a b : Container} (h : idxs b = idxs a) (hn : Nd a) : NN a b := ⟨h, Nd_congr a b h hn⟩

theorem setVar_N (st : St) (j : Nat) (x : String) (v : Sx) : (st.setVar j x v).tc = st.tc := by
  unfold St.setVar; split <;> rfl

theorem defineIn_N (st st' : St) (j : Nat) (x : String) (v : Sx) (h : st.defineIn j x v = some st') : st'.tc = st.tc := by
  unfold St.defineIn at h
  split at h
  · split at h
    · simp at h
    · simp only [Option.some.injEq] at h; subst h; exact setVar_N _ _ _ _
  · simp at h

theorem writeFrom_N (st st' : St) (j : Nat) (x : String) (v : Sx) (h : st.writeFrom j x v = some st') : st'.tc = st.tc := by
  unfold St.writeFrom at h
  split at h
  · simp only [Option.some.injEq] at h; subst h; exact setVar_N _ _ _ _
  · simp at h

theorem writeGlobal_N (st st' : St) (x : String) (v : Sx) (h : st.writeGlobal x v = .ok st') : st'.tc = st.tc := by
  unfold St.writeGlobal ofOpt at h
  split at h
  · simp only [Except.ok.injEq] at h; subst h; rename_i a heq; exact writeFrom_N _ _ _ _ _ heq
  · simp at h

/-- an update of one trace that keeps its id and its index keeps all positions -/
theorem updTrace_N (st : St) (tid : String) (f : Trace → Trace) (hf : ∀ t, (f t).tid = t.tid ∧ (f t).index = t.index) :
    idxs (st.updTrace tid f).tc = idxs st.tc := by
  simp only [idxs, indicesOf, St.updTrace, List.map_map]
  apply List.map_congr_left
  intro t _
  simp only [Function.comp]
  split
  · rw [(hf t).1, (hf t).2]
  · rfl

/-- with distinct ids, replacing the trace found under `tid` by one with the same id and index keeps all positions -/
theorem map_found (tid : String) (t t' : Trace) (h1 : t'.tid = t.tid) (h2 : t'.index = t.index) :
    ∀ (L : List Trace), (L.map (·.tid)).Nodup → L.find? (fun x => x.tid == tid) = some t →
      indicesOf (L.map (fun x => if x.tid == tid then t' else x)) = indicesOf L := by
  intro L
  induction L with
  | nil => intro _ h; simp at h
  | cons x r ih =>
    intro hnd hf
    simp only [List.map_cons, List.nodup_cons] at hnd
    simp only [List.find?_cons] at hf
    split at hf
    · rename_i hx
      simp only [Option.some.injEq] at hf; subst hf
      have hx' : x.tid = tid := by simpa using hx
      have hr : r.map (fun y => if y.tid == tid then t' else y) = r := by
        conv => rhs; rw [← List.map_id r]
        apply List.map_congr_left
        intro y hy
        have : y.tid ≠ tid := by
          intro hc
          exact hnd.1 (by rw [hx', ← hc]; exact List.mem_map_of_mem (f := (·.tid)) hy)
        simp [this]
      simp only [indicesOf, List.map_cons, hx, if_true, hr, h1, h2]
    · rename_i hx
      have := ih hnd.2 hf
      simp only [indicesOf, List.map_cons] at this ⊢
      simp only [hx, this]
      simp

theorem updTrace_found_N (st : St) (tid : String) (t t' : Trace) (hf : st.tc.find? tid = some t) (hnd : Nd st.tc)
    (h1 : t'.tid = t.tid) (h2 : t'.index = t.index) : idxs (st.updTrace tid (fun _ => t')).tc = idxs st.tc := by
  have hn : (st.tc.traces.map (·.tid)).Nodup := by
    unfold Nd at hnd
    simpa [idxs, indicesOf, Function.comp_def] using hnd
  exact map_found tid t t' h1 h2 st.tc.traces hn hf

/-- closes an operator case -/
syntax "opn_tac" ident : tactic
set_option hygiene false in
macro_rules
  | `(tactic| opn_tac $h:ident) => `(tactic| (
      try simp only [bind, Except.bind, pure, Except.pure, St.setArr, St.newArr, St.pushFrame, ofOpt, containsOrErr, readCS, readCG, Container.storeIndices] at $h:ident
      repeat' (split at $h:ident)
      all_goals (first
        | (simp at $h:ident; done)
        | (simp only [Except.ok.injEq, Prod.mk.injEq] at $h:ident
           obtain ⟨_, hst⟩ := $h:ident
           subst hst
           grind)
        | grind)))

section
variable (rec : St → Sx → Res)
  (hr : ∀ st e v st', rec st e = .ok (v, st') → Nd st.tc → NN st.tc st'.tc)
include hr

theorem evalList_N : ∀ (as : List Sx) (st st' : St) (vs : List Sx),
    evalList rec st as = .ok (vs, st') → Nd st.tc → NN st.tc st'.tc := by
  intro as
  induction as with
  | nil => intro st st' vs h hnd; simp [evalList] at h; rw [← h.2]; exact NN.refl _ hnd
  | cons a as ih =>
    intro st st' vs h hnd
    simp only [evalList, Glob.bind_ok] at h
    obtain ⟨⟨v, st1⟩, h1, ⟨ws, st2⟩, h2, h3⟩ := h
    simp only [pure, Except.pure, Except.ok.injEq, Prod.mk.injEq] at h3
    rw [← h3.2]
    have e1 := hr _ _ _ _ h1 hnd
    exact e1.trans (ih _ _ _ h2 e1.2)

theorem readSignal_N (st st' : St) (name scope : String) (v : Sx) (h : readSignal rec st name scope = .ok (v, st'))
    (hnd : Nd st.tc) : NN st.tc st'.tc := by
  have hl := evalList_N rec hr
  unfold readSignal at h
  simp only [bind, Except.bind, pure, Except.pure] at h
  repeat' (split at h)
  all_goals try (simp at h; done)
  all_goals (simp only [Except.ok.injEq, Prod.mk.injEq] at h; obtain ⟨_, hst⟩ := h; subst hst)
  all_goals try exact NN.refl _ hnd
  have e1 := hl _ _ _ _ ‹evalList rec st _ = Except.ok _› hnd
  exact e1.trans (NN.of_eq (updTrace_N _ _ _ (fun _ => ⟨rfl, rfl⟩)) e1.2)

theorem andLoop_N : ∀ (as : List Sx) (st st' : St) (v : Sx), andLoop rec st as = .ok (v, st') → Nd st.tc → NN st.tc st'.tc := by
  intro as
  induction as with
  | nil => intro st st' v h hnd; unfold andLoop at h; opn_tac h
  | cons a as ih => intro st st' v h hnd; unfold andLoop at h; opn_tac h

theorem orLoop_N : ∀ (as : List Sx) (st st' : St) (v : Sx), orLoop rec st as = .ok (v, st') → Nd st.tc → NN st.tc st'.tc := by
  intro as
  induction as with
  | nil => intro st st' v h hnd; unfold orLoop at h; opn_tac h
  | cons a as ih => intro st st' v h hnd; unfold orLoop at h; opn_tac h

theorem letBind_N (fid : Nat) : ∀ (as : List Sx) (st st' : St), letBind rec fid st as = .ok st' → Nd st.tc → NN st.tc st'.tc := by
  have hd := defineIn_N
  intro as
  induction as with
  | nil => intro st st' h hnd; unfold letBind at h; simp only [Except.ok.injEq] at h; subst h; exact NN.refl _ hnd
  | cons a as ih =>
    intro st st' h hnd
    unfold letBind at h
    simp only [bind, Except.bind, pure, Except.pure] at h
    repeat' (split at h)
    all_goals (first | (simp at h; done) | grind)

theorem setLoop_N : ∀ (as : List Sx) (st st' : St) (l v : Sx), setLoop rec st as l = .ok (v, st') → Nd st.tc → NN st.tc st'.tc := by
  have hw := writeFrom_N
  intro as
  induction as with
  | nil => intro st st' l v h hnd; unfold setLoop at h; opn_tac h
  | cons a as ih => intro st st' l v h hnd; unfold setLoop at h; opn_tac h

theorem caseLoop_N (key : Sx) : ∀ (as : List Sx) (st st' : St) (d v : Sx), caseLoop rec key st as d = .ok (v, st') → Nd st.tc → NN st.tc st'.tc := by
  have hl := evalList_N rec hr
  intro as
  induction as with
  | nil => intro st st' d v h hnd; unfold caseLoop at h; opn_tac h
  | cons a as ih => intro st st' d v h hnd; unfold caseLoop at h; opn_tac h

theorem whileLoop_N (c : Sx) (body : List Sx) : ∀ (k : Nat) (st st' : St) (l v : Sx),
    whileLoop rec c body k st l = .ok (v, st') → Nd st.tc → NN st.tc st'.tc := by
  have hl := evalList_N rec hr
  intro k
  induction k with
  | zero => intro st st' l v h hnd; unfold whileLoop at h; simp at h
  | succ k ih => intro st st' l v h hnd; unfold whileLoop at h; opn_tac h

theorem evalSym_N (st st' : St) (name : String) (steps : Option Nat) (v : Sx)
    (h : evalSym rec st name steps = .ok (v, st')) (hnd : Nd st.tc) : NN st.tc st'.tc := by
  have hs := readSignal_N rec hr
  unfold evalSym at h
  opn_tac h

theorem bindParams_N (st st' : St) (params : Sx) (args : List Sx) (b : List (String × Sx))
    (h : bindParams rec st params args = .ok (b, st')) (hnd : Nd st.tc) : NN st.tc st'.tc := by
  have hl := evalList_N rec hr
  unfold bindParams at h
  opn_tac h

theorem evalClosure_N (st st' : St) (clo : Sx) (args : List Sx) (v : Sx)
    (h : evalClosure rec st clo args = .ok (v, st')) (hnd : Nd st.tc) : NN st.tc st'.tc := by
  have hb := bindParams_N rec hr
  unfold evalClosure at h
  opn_tac h

theorem opLet_N (st st' : St) (args : List Sx) (v : Sx) (h : opLet rec st args = .ok (v, st')) (hnd : Nd st.tc) : NN st.tc st'.tc := by
  have hb := letBind_N rec hr
  have hl := evalList_N rec hr
  unfold opLet at h
  opn_tac h

theorem qq_N : ∀ (n : Nat), (∀ (e : Sx) (st st' : St) (v : Sx), sizeOf e < n → qq rec st e = .ok (v, st') → Nd st.tc → NN st.tc st'.tc) ∧
    (∀ (es : List Sx) (st st' : St) (vs : List Sx), sizeOf es < n → qqList rec st es = .ok (vs, st') → Nd st.tc → NN st.tc st'.tc) := by
  intro n
  induction n with
  | zero => exact ⟨fun _ _ _ _ h => absurd h (Nat.not_lt_zero _), fun _ _ _ _ h => absurd h (Nat.not_lt_zero _)⟩
  | succ n ih =>
    obtain ⟨ih1, ih2⟩ := ih
    constructor
    · intro e st st' v hs h hnd
      unfold qq at h
      split at h
      · rename_i x xs
        have := ih2 (x :: xs)
        simp only [Sx.list.sizeOf_spec] at hs
        opn_tac h
      · opn_tac h
    · intro es st st' vs hs h hnd
      unfold qqList at h
      split at h
      · opn_tac h
      · rename_i c r
        have h1 := ih1 c
        have h2 := ih2 r
        simp only [List.cons.sizeOf_spec, Sx.unq.sizeOf_spec] at hs
        opn_tac h
      · rename_i c r
        have h1 := ih1 c
        have h2 := ih2 r
        simp only [List.cons.sizeOf_spec, Sx.unqs.sizeOf_spec] at hs
        opn_tac h
      · rename_i e r _ _
        have h1 := ih1 e
        have h2 := ih2 r
        simp only [List.cons.sizeOf_spec] at hs
        opn_tac h

theorem opQuasiquote_N (st st' : St) (args : List Sx) (v : Sx) (h : opQuasiquote rec st args = .ok (v, st')) (hnd : Nd st.tc) : NN st.tc st'.tc := by
  unfold opQuasiquote at h
  split at h
  · rename_i a
    exact (qq_N rec hr (sizeOf a + 1)).1 a st st' v (Nat.lt_succ_self _) h hnd
  · simp at h

theorem expand_N (parent : Option Nat) : ∀ (n : Nat),
    (∀ (st st' : St) (e v : Sx), expand rec parent n st e = .ok (v, st') → Nd st.tc → NN st.tc st'.tc) ∧
    (∀ (st st' : St) (es vs : List Sx), expandList rec parent n st es = .ok (vs, st') → Nd st.tc → NN st.tc st'.tc) := by
  intro n
  induction n with
  | zero =>
    constructor
    · intro st st' e v h hnd; unfold expand at h; simp at h
    · intro st st' es vs h hnd; unfold expandList at h; simp at h
  | succ n ih =>
    obtain ⟨ih1, ih2⟩ := ih
    constructor
    · intro st st' e v h hnd
      unfold expand at h
      opn_tac h
    · intro st st' es vs h hnd
      cases es with
      | nil => simp only [expandList, Except.ok.injEq, Prod.mk.injEq] at h; obtain ⟨_, hst⟩ := h; subst hst; exact NN.refl _ hnd
      | cons e r =>
        simp only [expandList] at h
        opn_tac h

theorem opNot_N  (st st' : St) (args : List Sx) (v : Sx)
    (h : opNot  rec st args = .ok (v, st')) (hnd : Nd st.tc) : NN st.tc st'.tc := by
  have hl := evalList_N rec hr
  unfold opNot at h
  opn_tac h

theorem opEq_N (neg : Bool) (st st' : St) (args : List Sx) (v : Sx)
    (h : opEq neg rec st args = .ok (v, st')) (hnd : Nd st.tc) : NN st.tc st'.tc := by
  have hl := evalList_N rec hr
  unfold opEq at h
  opn_tac h

theorem opCmp_N (op : CmpOp) (st st' : St) (args : List Sx) (v : Sx)
    (h : opCmp op rec st args = .ok (v, st')) (hnd : Nd st.tc) : NN st.tc st'.tc := by
  have hl := evalList_N rec hr
  unfold opCmp at h
  opn_tac h

theorem opPrint_N  (st st' : St) (args : List Sx) (v : Sx)
    (h : opPrint  rec st args = .ok (v, st')) (hnd : Nd st.tc) : NN st.tc st'.tc := by
  have hl := evalList_N rec hr
  unfold opPrint at h
  opn_tac h

theorem opIf_N  (st st' : St) (args : List Sx) (v : Sx)
    (h : opIf  rec st args = .ok (v, st')) (hnd : Nd st.tc) : NN st.tc st'.tc := by
  have hl := evalList_N rec hr
  unfold opIf at h
  opn_tac h

theorem opDo_N  (st st' : St) (args : List Sx) (v : Sx)
    (h : opDo  rec st args = .ok (v, st')) (hnd : Nd st.tc) : NN st.tc st'.tc := by
  have hl := evalList_N rec hr
  unfold opDo at h
  opn_tac h

theorem opAlias_N  (st st' : St) (args : List Sx) (v : Sx)
    (h : opAlias  rec st args = .ok (v, st')) (hnd : Nd st.tc) : NN st.tc st'.tc := by
  have hl := evalList_N rec hr
  unfold opAlias at h
  opn_tac h

theorem opGet_N  (st st' : St) (args : List Sx) (v : Sx)
    (h : opGet  rec st args = .ok (v, st')) (hnd : Nd st.tc) : NN st.tc st'.tc := by
  have hl := evalList_N rec hr
  unfold opGet at h
  opn_tac h

theorem opType_N  (st st' : St) (args : List Sx) (v : Sx)
    (h : opType  rec st args = .ok (v, st')) (hnd : Nd st.tc) : NN st.tc st'.tc := by
  have hl := evalList_N rec hr
  unfold opType at h
  opn_tac h

theorem opSlice_N  (st st' : St) (args : List Sx) (v : Sx)
    (h : opSlice  rec st args = .ok (v, st')) (hnd : Nd st.tc) : NN st.tc st'.tc := by
  have hl := evalList_N rec hr
  unfold opSlice at h
  opn_tac h

theorem opExit_N  (st st' : St) (args : List Sx) (v : Sx)
    (h : opExit  rec st args = .ok (v, st')) (hnd : Nd st.tc) : NN st.tc st'.tc := by
  have hl := evalList_N rec hr
  unfold opExit at h
  opn_tac h

theorem opAdd_N  (st st' : St) (args : List Sx) (v : Sx)
    (h : opAdd  rec st args = .ok (v, st')) (hnd : Nd st.tc) : NN st.tc st'.tc := by
  have hl := evalList_N rec hr
  unfold opAdd at h
  opn_tac h

theorem opSub_N  (st st' : St) (args : List Sx) (v : Sx)
    (h : opSub  rec st args = .ok (v, st')) (hnd : Nd st.tc) : NN st.tc st'.tc := by
  have hl := evalList_N rec hr
  unfold opSub at h
  opn_tac h

theorem opMul_N  (st st' : St) (args : List Sx) (v : Sx)
    (h : opMul  rec st args = .ok (v, st')) (hnd : Nd st.tc) : NN st.tc st'.tc := by
  have hl := evalList_N rec hr
  unfold opMul at h
  opn_tac h

theorem opDiv_N  (st st' : St) (args : List Sx) (v : Sx)
    (h : opDiv  rec st args = .ok (v, st')) (hnd : Nd st.tc) : NN st.tc st'.tc := by
  have hl := evalList_N rec hr
  unfold opDiv at h
  opn_tac h

theorem opExp_N  (st st' : St) (args : List Sx) (v : Sx)
    (h : opExp  rec st args = .ok (v, st')) (hnd : Nd st.tc) : NN st.tc st'.tc := by
  have hl := evalList_N rec hr
  unfold opExp at h
  opn_tac h

theorem opRoundLike_N  (st st' : St) (args : List Sx) (v : Sx)
    (h : opRoundLike  rec st args = .ok (v, st')) (hnd : Nd st.tc) : NN st.tc st'.tc := by
  have hl := evalList_N rec hr
  unfold opRoundLike at h
  opn_tac h

theorem opMod_N  (st st' : St) (args : List Sx) (v : Sx)
    (h : opMod  rec st args = .ok (v, st')) (hnd : Nd st.tc) : NN st.tc st'.tc := by
  have hl := evalList_N rec hr
  unfold opMod at h
  opn_tac h

theorem opBitwise_N (f : Int → Int → Int) (fb : Bool → Bool → Bool) (st st' : St) (args : List Sx) (v : Sx)
    (h : opBitwise f fb rec st args = .ok (v, st')) (hnd : Nd st.tc) : NN st.tc st'.tc := by
  have hl := evalList_N rec hr
  unfold opBitwise at h
  opn_tac h

theorem opIsDefined_N  (st st' : St) (args : List Sx) (v : Sx)
    (h : opIsDefined  rec st args = .ok (v, st')) (hnd : Nd st.tc) : NN st.tc st'.tc := by
  have hl := evalList_N rec hr
  unfold opIsDefined at h
  opn_tac h

theorem opAllPred_N (p : Sx → Bool) (st st' : St) (args : List Sx) (v : Sx)
    (h : opAllPred p rec st args = .ok (v, st')) (hnd : Nd st.tc) : NN st.tc st'.tc := by
  have hl := evalList_N rec hr
  unfold opAllPred at h
  opn_tac h

theorem opConvertBin_N  (st st' : St) (args : List Sx) (v : Sx)
    (h : opConvertBin  rec st args = .ok (v, st')) (hnd : Nd st.tc) : NN st.tc st'.tc := by
  have hl := evalList_N rec hr
  unfold opConvertBin at h
  opn_tac h

theorem opStringToInt_N  (st st' : St) (args : List Sx) (v : Sx)
    (h : opStringToInt  rec st args = .ok (v, st')) (hnd : Nd st.tc) : NN st.tc st'.tc := by
  have hl := evalList_N rec hr
  unfold opStringToInt at h
  opn_tac h

theorem opBitsToSint_N  (st st' : St) (args : List Sx) (v : Sx)
    (h : opBitsToSint  rec st args = .ok (v, st')) (hnd : Nd st.tc) : NN st.tc st'.tc := by
  have hl := evalList_N rec hr
  unfold opBitsToSint at h
  opn_tac h

theorem opSymbolToString_N  (st st' : St) (args : List Sx) (v : Sx)
    (h : opSymbolToString  rec st args = .ok (v, st')) (hnd : Nd st.tc) : NN st.tc st'.tc := by
  have hl := evalList_N rec hr
  unfold opSymbolToString at h
  opn_tac h

theorem opStringToSymbol_N  (st st' : St) (args : List Sx) (v : Sx)
    (h : opStringToSymbol  rec st args = .ok (v, st')) (hnd : Nd st.tc) : NN st.tc st'.tc := by
  have hl := evalList_N rec hr
  unfold opStringToSymbol at h
  opn_tac h

theorem opIntToString_N  (st st' : St) (args : List Sx) (v : Sx)
    (h : opIntToString  rec st args = .ok (v, st')) (hnd : Nd st.tc) : NN st.tc st'.tc := by
  have hl := evalList_N rec hr
  unfold opIntToString at h
  opn_tac h

theorem opList_N  (st st' : St) (args : List Sx) (v : Sx)
    (h : opList  rec st args = .ok (v, st')) (hnd : Nd st.tc) : NN st.tc st'.tc := by
  have hl := evalList_N rec hr
  unfold opList at h
  opn_tac h

theorem opListAccess_N (sel : Bool → List Sx → Except Err Sx) (st st' : St) (args : List Sx) (v : Sx)
    (h : opListAccess sel rec st args = .ok (v, st')) (hnd : Nd st.tc) : NN st.tc st'.tc := by
  have hl := evalList_N rec hr
  unfold opListAccess at h
  opn_tac h

theorem opIn_N  (st st' : St) (args : List Sx) (v : Sx)
    (h : opIn  rec st args = .ok (v, st')) (hnd : Nd st.tc) : NN st.tc st'.tc := by
  have hl := evalList_N rec hr
  unfold opIn at h
  opn_tac h

theorem opMaxMin_N (isMax : Bool) (st st' : St) (args : List Sx) (v : Sx)
    (h : opMaxMin isMax rec st args = .ok (v, st')) (hnd : Nd st.tc) : NN st.tc st'.tc := by
  have hl := evalList_N rec hr
  unfold opMaxMin at h
  opn_tac h

theorem opAverage_N  (st st' : St) (args : List Sx) (v : Sx)
    (h : opAverage  rec st args = .ok (v, st')) (hnd : Nd st.tc) : NN st.tc st'.tc := by
  have hl := evalList_N rec hr
  unfold opAverage at h
  opn_tac h

theorem opLength_N  (st st' : St) (args : List Sx) (v : Sx)
    (h : opLength  rec st args = .ok (v, st')) (hnd : Nd st.tc) : NN st.tc st'.tc := by
  have hl := evalList_N rec hr
  unfold opLength at h
  opn_tac h

theorem opZip_N  (st st' : St) (args : List Sx) (v : Sx)
    (h : opZip  rec st args = .ok (v, st')) (hnd : Nd st.tc) : NN st.tc st'.tc := by
  have hl := evalList_N rec hr
  unfold opZip at h
  opn_tac h

theorem opRange_N  (st st' : St) (args : List Sx) (v : Sx)
    (h : opRange  rec st args = .ok (v, st')) (hnd : Nd st.tc) : NN st.tc st'.tc := by
  have hl := evalList_N rec hr
  unfold opRange at h
  opn_tac h

theorem opIsSignal_N  (st st' : St) (args : List Sx) (v : Sx)
    (h : opIsSignal  rec st args = .ok (v, st')) (hnd : Nd st.tc) : NN st.tc st'.tc := by
  have hl := evalList_N rec hr
  unfold opIsSignal at h
  opn_tac h

theorem opSignalWidth_N  (st st' : St) (args : List Sx) (v : Sx)
    (h : opSignalWidth  rec st args = .ok (v, st')) (hnd : Nd st.tc) : NN st.tc st'.tc := by
  have hl := evalList_N rec hr
  unfold opSignalWidth at h
  opn_tac h

theorem opAnd_N (st st' : St) (args : List Sx) (v : Sx) (h : opAnd rec st args = .ok (v, st')) (hnd : Nd st.tc) : NN st.tc st'.tc := by
  have hl := andLoop_N rec hr
  unfold opAnd at h
  opn_tac h

theorem opOr_N (st st' : St) (args : List Sx) (v : Sx) (h : opOr rec st args = .ok (v, st')) (hnd : Nd st.tc) : NN st.tc st'.tc := by
  have hl := orLoop_N rec hr
  unfold opOr at h
  opn_tac h

theorem opSet_N (st st' : St) (args : List Sx) (v : Sx) (h : opSet rec st args = .ok (v, st')) (hnd : Nd st.tc) : NN st.tc st'.tc := by
  have hl := setLoop_N rec hr
  unfold opSet at h
  opn_tac h

theorem opDefine_N (st st' : St) (args : List Sx) (v : Sx) (h : opDefine rec st args = .ok (v, st')) (hnd : Nd st.tc) : NN st.tc st'.tc := by
  have hd := defineIn_N
  unfold opDefine at h
  opn_tac h

theorem opCase_N (st st' : St) (args : List Sx) (v : Sx) (h : opCase rec st args = .ok (v, st')) (hnd : Nd st.tc) : NN st.tc st'.tc := by
  have hl := caseLoop_N rec hr
  unfold opCase at h
  opn_tac h

theorem opWhile_N (n : Nat) (st st' : St) (args : List Sx) (v : Sx) (h : opWhile n rec st args = .ok (v, st')) (hnd : Nd st.tc) : NN st.tc st'.tc := by
  have hl := whileLoop_N rec hr
  unfold opWhile at h
  opn_tac h

theorem unaliasLoop_N : ∀ (as : List Sx) (st st' : St) (v : Sx), unaliasLoop st as = .ok (v, st') → Nd st.tc → NN st.tc st'.tc := by
  intro as
  induction as with
  | nil => intro st st' v h hnd; unfold unaliasLoop at h; opn_tac h
  | cons a as ih => intro st st' v h hnd; unfold unaliasLoop at h; opn_tac h

theorem opUnalias_N (st st' : St) (args : List Sx) (v : Sx) (h : opUnalias st args = .ok (v, st')) (hnd : Nd st.tc) : NN st.tc st'.tc := by
  have hl := unaliasLoop_N rec hr
  unfold opUnalias at h
  opn_tac h

theorem opQuote_N (st st' : St) (args : List Sx) (v : Sx) (h : opQuote st args = .ok (v, st')) (hnd : Nd st.tc) : NN st.tc st'.tc := by
  unfold opQuote at h
  opn_tac h

theorem opFn_N (st st' : St) (args : List Sx) (v : Sx) (h : opFn st args = .ok (v, st')) (hnd : Nd st.tc) : NN st.tc st'.tc := by
  unfold opFn at h
  opn_tac h

theorem opLoadedTraces_N (st st' : St) (args : List Sx) (v : Sx) (h : opLoadedTraces st args = .ok (v, st')) (hnd : Nd st.tc) : NN st.tc st'.tc := by
  unfold opLoadedTraces at h
  opn_tac h

theorem opGensym_N (st st' : St) (v : Sx) (h : opGensym st = .ok (v, st')) (hnd : Nd st.tc) : NN st.tc st'.tc := by
  unfold opGensym at h
  opn_tac h

theorem opReval_N (hT : ∀ st e v st', rec st e = .ok (v, st') → Tid.T st st')
    (hB : ∀ st e v st', rec st e = .ok (v, st') → Bal.B st st') (st st' : St) (args : List Sx) (v : Sx) (h : opReval rec st args = .ok (v, st')) (hnd : Nd st.tc) : NN st.tc st'.tc := by
  unfold opReval at h
  split at h
  · rename_i e k
    obtain ⟨kv, st1, h1, h2, _⟩ := Wal.C03.reval_neutral_of rec hT hB st st' e k v ((Nd_iff st).1 hnd) h
    have e1 := hr _ _ _ _ h1 hnd
    exact e1.trans (NN.of_eq h2 e1.2)
  · simp at h

theorem opWhenever_N (hT : ∀ st e v st', rec st e = .ok (v, st') → Tid.T st st') (n : Nat) (st st' : St) (args : List Sx) (v : Sx) (h : opWhenever n rec st args = .ok (v, st')) (hnd : Nd st.tc) : NN st.tc st'.tc :=
  NN.of_eq (Wal.C04.whenever_neutral_of rec hT n st st' args v ((Nd_iff st).1 hnd) h) hnd

theorem opFindG_N (hT : ∀ st e v st', rec st e = .ok (v, st') → Tid.T st st') (n : Nat) (st st' : St) (args : List Sx) (v : Sx) (h : opFindG n rec st args = .ok (v, st')) (hnd : Nd st.tc) : NN st.tc st'.tc :=
  NN.of_eq (Wal.C04.findG_neutral_of rec hT n st st' args v ((Nd_iff st).1 hnd) h) hnd

omit hr in
theorem opDefsig_N (st st' : St) (args : List Sx) (v : Sx) (h : opDefsig st args = .ok (v, st')) (hnd : Nd st.tc) : NN st.tc st'.tc := by
  unfold opDefsig at h
  simp only [bind, Except.bind, pure, Except.pure] at h
  repeat' (split at h)
  all_goals try (simp at h; done)
  all_goals (simp only [Except.ok.injEq, Prod.mk.injEq] at h; obtain ⟨_, hst⟩ := h; subst hst)
  all_goals exact NN.of_eq (updTrace_N _ _ _ (fun _ => ⟨rfl, rfl⟩)) hnd

theorem opTrimTrace_N (st st' : St) (args : List Sx) (v : Sx) (h : opTrimTrace rec st args = .ok (v, st')) (hnd : Nd st.tc) : NN st.tc st'.tc := by
  unfold opTrimTrace at h
  simp only [bind, Except.bind, pure, Except.pure] at h
  repeat' (split at h)
  all_goals try (simp at h; done)
  all_goals (simp only [Except.ok.injEq, Prod.mk.injEq] at h; obtain ⟨_, hst⟩ := h; subst hst)
  rename_i v1 h1 _ v2 h2 _ _ _ _ _ _ _ _ _ hf _
  have e1 := hr _ _ _ _ h1 hnd
  have e2 := hr _ _ _ _ h2 e1.2
  exact (e1.trans e2).trans (NN.of_eq (updTrace_found_N _ _ _ _ hf e2.2 rfl rfl) e2.2)

theorem allScopesLoop_N (e : Sx) : ∀ (ss : List String) (st st' : St) (acc vs : List Sx),
    allScopesLoop rec e st ss acc = .ok (vs, st') → Nd st.tc → NN st.tc st'.tc := by
  have hw := writeGlobal_N
  intro ss
  induction ss with
  | nil => intro st st' acc vs h hnd; unfold allScopesLoop at h; simp only [Except.ok.injEq, Prod.mk.injEq] at h; obtain ⟨_, hst⟩ := h; subst hst; exact NN.refl _ ‹_›
  | cons a as ih =>
    intro st st' acc vs h hnd; unfold allScopesLoop at h
    simp only [bind, Except.bind] at h
    repeat' (split at h)
    all_goals (first | (simp at h; done) | grind)


theorem opScoped_N (st st' : St) (args : List Sx) (v : Sx) (h : opScoped rec st args = .ok (v, st')) (hnd : Nd st.tc) : NN st.tc st'.tc := by
  have hw := writeGlobal_N
  unfold opScoped at h
  opn_tac h

theorem opAllScopes_N (st st' : St) (args : List Sx) (v : Sx) (h : opAllScopes rec st args = .ok (v, st')) (hnd : Nd st.tc) : NN st.tc st'.tc := by
  have hw := writeGlobal_N
  have hl := allScopesLoop_N rec hr
  unfold opAllScopes at h
  opn_tac h

theorem opResolveScope_N (st st' : St) (args : List Sx) (v : Sx) (h : opResolveScope rec st args = .ok (v, st')) (hnd : Nd st.tc) : NN st.tc st'.tc := by
  have hs := readSignal_N rec hr
  unfold opResolveScope at h
  opn_tac h

theorem opResolveGroup_N (st st' : St) (args : List Sx) (v : Sx) (h : opResolveGroup rec st args = .ok (v, st')) (hnd : Nd st.tc) : NN st.tc st'.tc := by
  have hs := readSignal_N rec hr
  unfold opResolveGroup at h
  opn_tac h

theorem groupArgs_N : ∀ (as : List Sx) (st st' : St) (ss : List String), groupArgs rec st as = .ok (ss, st') → Nd st.tc → NN st.tc st'.tc := by
  intro as
  induction as with
  | nil => intro st st' ss h hnd; unfold groupArgs at h; opn_tac h
  | cons a as ih => intro st st' ss h hnd; unfold groupArgs at h; opn_tac h

theorem opGroups_N (st st' : St) (args : List Sx) (v : Sx) (h : opGroups rec st args = .ok (v, st')) (hnd : Nd st.tc) : NN st.tc st'.tc := by
  have hl := groupArgs_N rec hr
  unfold opGroups at h
  opn_tac h

theorem opInGroup_N (st st' : St) (args : List Sx) (v : Sx) (h : opInGroup rec st args = .ok (v, st')) (hnd : Nd st.tc) : NN st.tc st'.tc := by
  have hw := writeGlobal_N
  have hl := evalList_N rec hr
  unfold opInGroup at h
  opn_tac h

theorem inGroupsLoop_N (body : List Sx) : ∀ (gs : List Sx) (st st' : St) (l v : Sx),
    inGroupsLoop rec body st gs l = .ok (v, st') → Nd st.tc → NN st.tc st'.tc := by
  have hg := opInGroup_N rec hr
  intro gs
  induction gs with
  | nil => intro st st' l v h hnd; unfold inGroupsLoop at h; opn_tac h
  | cons a as ih => intro st st' l v h hnd; unfold inGroupsLoop at h; opn_tac h

theorem opInGroups_N (st st' : St) (args : List Sx) (v : Sx) (h : opInGroups rec st args = .ok (v, st')) (hnd : Nd st.tc) : NN st.tc st'.tc := by
  have hl := inGroupsLoop_N rec hr
  unfold opInGroups at h
  opn_tac h

theorem mapLoop_N (call : St → Sx → Res) (hc : ∀ s x v s', call s x = .ok (v, s') → Nd s.tc → NN s.tc s'.tc) :
    ∀ (l : List Sx) (st st' : St) (vs : List Sx), mapLoop call st l = .ok (vs, st') → Nd st.tc → NN st.tc st'.tc := by
  intro l
  induction l with
  | nil => intro st st' vs h hnd; unfold mapLoop at h; opn_tac h
  | cons a as ih => intro st st' vs h hnd; unfold mapLoop at h; opn_tac h

theorem foldLoop_N (call : St → Sx → Sx → Res) (hc : ∀ s a x v s', call s a x = .ok (v, s') → Nd s.tc → NN s.tc s'.tc) :
    ∀ (l : List Sx) (st st' : St) (acc v : Sx), foldLoop call st acc l = .ok (v, st') → Nd st.tc → NN st.tc st'.tc := by
  intro l
  induction l with
  | nil => intro st st' acc v h hnd; unfold foldLoop at h; opn_tac h
  | cons a as ih => intro st st' acc v h hnd; unfold foldLoop at h; opn_tac h

theorem opMap_N (st st' : St) (args : List Sx) (v : Sx) (h : opMap rec st args = .ok (v, st')) (hnd : Nd st.tc) : NN st.tc st'.tc := by
  have hc := evalClosure_N rec hr
  have hl1 := fun o => mapLoop_N rec hr (fun s x => rec s (.list true [.op o, quoteOf x])) (fun s x v s' hh hn => hr _ _ _ _ hh hn)
  have hl2 := fun fv => mapLoop_N rec hr (fun s x => evalClosure rec s fv [.list false [.op .QUOTE, x]]) (fun s x v s' hh hn => hc _ _ _ _ _ hh hn)
  unfold opMap at h
  simp only [bind, Except.bind, pure, Except.pure] at h
  repeat' (split at h)
  all_goals try (simp at h; done)
  all_goals (simp only [Except.ok.injEq, Prod.mk.injEq] at h; obtain ⟨_, hst⟩ := h; subst hst)
  · have := hl1 _ _ _ _ _ ‹_›
    grind
  · have := hl2 _ _ _ _ _ ‹_›
    grind

theorem opFold_N (st st' : St) (args : List Sx) (v : Sx) (h : opFold rec st args = .ok (v, st')) (hnd : Nd st.tc) : NN st.tc st'.tc := by
  have hc := evalClosure_N rec hr
  have hl := evalList_N rec hr
  have hl1 := fun o => foldLoop_N rec hr (fun s acc x => rec s (.list true [.op o, quoteOf acc, quoteOf x])) (fun s a x v s' hh hn => hr _ _ _ _ hh hn)
  have hl2 := fun fv => foldLoop_N rec hr (fun s acc x => evalClosure rec s fv [quoteOf acc, quoteOf x]) (fun s a x v s' hh hn => hc _ _ _ _ _ hh hn)
  unfold opFold at h
  simp only [bind, Except.bind, pure, Except.pure] at h
  repeat' (split at h)
  all_goals try (simp at h; done)
  · have := hl1 _ _ _ _ _ _ h
    grind
  · have := hl2 _ _ _ _ _ _ h
    grind

theorem mapaCall_N (fv : Sx) (s s' : St) (kv v : Sx) (h : mapaCall rec fv s kv = .ok (v, s')) (hnd : Nd s.tc) : NN s.tc s'.tc := by
  have hc := evalClosure_N rec hr
  unfold mapaCall at h
  opn_tac h

theorem opMapa_N (st st' : St) (args : List Sx) (v : Sx) (h : opMapa rec st args = .ok (v, st')) (hnd : Nd st.tc) : NN st.tc st'.tc := by
  have hl := fun fv => mapLoop_N rec hr (mapaCall rec fv) (fun s x v s' hh hn => mapaCall_N rec hr fv s s' x v hh hn)
  unfold opMapa at h
  simp only [St.arr?] at h
  opn_tac h

theorem arrayBuild_N : ∀ (as : List Sx) (st st' : St) (acc kvs : List (String × Sx)),
    arrayBuild rec st as acc = .ok (kvs, st') → Nd st.tc → NN st.tc st'.tc := by
  intro as
  induction as with
  | nil => intro st st' acc kvs h hnd; unfold arrayBuild at h; opn_tac h
  | cons a as ih => intro st st' acc kvs h hnd; unfold arrayBuild at h; opn_tac h

theorem evalArrKey_N (st st' : St) (a k : Sx) (r : Nat) (ks : String)
    (h : evalArrKey rec st a k = .ok (r, ks, st')) (hnd : Nd st.tc) : NN st.tc st'.tc := by
  unfold evalArrKey at h
  simp only [bind, Except.bind, pure, Except.pure] at h
  repeat' (split at h)
  all_goals try (simp at h; done)
  all_goals (simp only [Except.ok.injEq, Prod.mk.injEq] at h; obtain ⟨_, _, hst⟩ := h; subst hst)
  all_goals grind

theorem opArray_N (st st' : St) (args : List Sx) (v : Sx) (h : opArray rec st args = .ok (v, st')) (hnd : Nd st.tc) : NN st.tc st'.tc := by
  have hl := arrayBuild_N rec hr
  unfold opArray at h
  opn_tac h

theorem opSeta_N (st st' : St) (args : List Sx) (v : Sx) (h : opSeta rec st args = .ok (v, st')) (hnd : Nd st.tc) : NN st.tc st'.tc := by
  have hl := evalArrKey_N rec hr
  unfold opSeta at h
  opn_tac h

theorem opGeta_N (st st' : St) (args : List Sx) (v : Sx) (h : opGeta rec st args = .ok (v, st')) (hnd : Nd st.tc) : NN st.tc st'.tc := by
  have hl := evalArrKey_N rec hr
  unfold opGeta at h
  opn_tac h

theorem opDela_N (st st' : St) (args : List Sx) (v : Sx) (h : opDela rec st args = .ok (v, st')) (hnd : Nd st.tc) : NN st.tc st'.tc := by
  have hl := evalArrKey_N rec hr
  unfold opDela at h
  opn_tac h

theorem opEval_N (n : Nat) (st st' : St) (args : List Sx) (v : Sx) (h : opEval n rec st args = .ok (v, st')) (hnd : Nd st.tc) : NN st.tc st'.tc := by
  have he := (expand_N rec hr (some 0) n).1
  unfold opEval at h
  opn_tac h

theorem opMacroexpand_N (n : Nat) (st st' : St) (args : List Sx) (v : Sx)
    (h : opMacroexpand n rec st args = .ok (v, st')) (hnd : Nd st.tc) : NN st.tc st'.tc := by
  have he := fun p => (expand_N rec hr p n).1
  unfold opMacroexpand at h
  opn_tac h

theorem opDefmacro_N (n : Nat) (st st' : St) (args : List Sx) (v : Sx)
    (h : opDefmacro n rec st args = .ok (v, st')) (hnd : Nd st.tc) : NN st.tc st'.tc := by
  have he := (expand_N rec hr Option.none n).2
  have hd := defineIn_N
  unfold opDefmacro at h
  opn_tac h



/-! ## `find`: the loop moves one trace; the epilogue puts it back -/

/-- the positions with the index of `tid` blanked out -/
def mask (tid : String) (l : List (String × Int)) : List (String × Int) :=
  l.map (fun p => if p.1 == tid then (p.1, (0 : Int)) else p)

def setAt (tid : String) (i : Int) (l : List (String × Int)) : List (String × Int) :=
  l.map (fun p => if p.1 == tid then (p.1, i) else p)

omit hr in
theorem setAt_mask (tid : String) (i : Int) (l : List (String × Int)) : setAt tid i (mask tid l) = setAt tid i l := by
  simp only [setAt, mask, List.map_map]
  apply List.map_congr_left
  intro p _
  simp only [Function.comp]
  split <;> simp_all

omit hr in
theorem mask_updTrace (st : St) (tid : String) (f : Trace → Trace) (hf : ∀ t, t.tid = tid → (f t).tid = t.tid) :
    mask tid (idxs (st.updTrace tid f).tc) = mask tid (idxs st.tc) := by
  simp only [mask, idxs, indicesOf, St.updTrace, List.map_map]
  apply List.map_congr_left
  intro t _
  simp only [Function.comp]
  by_cases ht : (t.tid == tid) = true
  · have ht' : t.tid = tid := by simpa using ht
    have := hf t ht'
    simp [ht, this]
  · simp [ht]

omit hr in
theorem idxs_updTrace_index (st : St) (tid : String) (i : Int) :
    idxs (st.updTrace tid (fun t => { t with index := i })).tc = setAt tid i (idxs st.tc) := by
  simp only [setAt, idxs, indicesOf, St.updTrace, List.map_map]
  apply List.map_congr_left
  intro t _
  simp only [Function.comp]
  split <;> rfl

omit hr in
theorem Nd_updTrace (st : St) (tid : String) (f : Trace → Trace) (hf : ∀ t, t.tid = tid → (f t).tid = t.tid)
    (hnd : Nd st.tc) : Nd (st.updTrace tid f).tc := by
  rw [Nd_iff] at hnd ⊢
  have := Tid.updTrace_tids st tid f hf
  simp only [Tid.tids] at this
  rw [this]; exact hnd

omit hr in
theorem setAt_cons (tid : String) (i : Int) (p : String × Int) (l : List (String × Int)) :
    setAt tid i (p :: l) = (if p.1 == tid then (p.1, i) else p) :: setAt tid i l := rfl

omit hr in
theorem indicesOf_cons (x : Trace) (r : List Trace) : indicesOf (x :: r) = (x.tid, x.index) :: indicesOf r := rfl

-- with distinct ids every entry for `tid` carries the index of the trace found under `tid`
omit hr in
theorem setAt_found (tid : String) (t : Trace) :
    ∀ (L : List Trace), (L.map (·.tid)).Nodup → L.find? (fun x => x.tid == tid) = some t →
      setAt tid t.index (indicesOf L) = indicesOf L := by
  intro L
  induction L with
  | nil => intro _ h; simp at h
  | cons x r ih =>
    intro hnd hf
    simp only [List.map_cons, List.nodup_cons] at hnd
    simp only [List.find?_cons] at hf
    split at hf
    · rename_i hx
      simp only [Option.some.injEq] at hf; subst hf
      have hx' : x.tid = tid := by simpa using hx
      have hr' : setAt tid x.index (indicesOf r) = indicesOf r := by
        simp only [setAt, indicesOf, List.map_map]
        conv => rhs; rw [← List.map_id (List.map (fun t => (t.tid, t.index)) r)]
        simp only [List.map_map]
        apply List.map_congr_left
        intro y hy
        have : y.tid ≠ tid := by
          intro hc
          exact hnd.1 (by rw [hx', ← hc]; exact List.mem_map_of_mem (f := (·.tid)) hy)
        simp [this]
      rw [indicesOf_cons, setAt_cons, hr']
      congr 1
      split <;> rfl
    · rename_i hx
      rw [indicesOf_cons, setAt_cons, ih hnd.2 hf]
      congr 1
      split
      · rename_i h; simp only at h; rw [h] at hx; exact absurd hx (by simp)
      · rfl

/-- what the loop of `find` on `tid` keeps: every position but that of `tid`, and the ids -/
def M (tid : String) (c c' : Container) : Prop := mask tid (idxs c') = mask tid (idxs c) ∧ Nd c'

theorem findLoop_M (c : Sx) (tid : String) : ∀ (k : Nat) (st st' : St) (acc found : List Int),
    findLoop rec c tid k st acc = .ok (found, st') → Nd st.tc → M tid st.tc st'.tc := by
  intro k
  induction k with
  | zero => intro st st' acc found h; unfold findLoop at h; simp at h
  | succ k ih =>
    intro st st' acc found h hnd
    unfold findLoop at h
    simp only [bind, Except.bind] at h
    repeat' (split at h)
    all_goals try (simp at h; done)
    all_goals first
      | (rename_i v1 h1 _ t hf _ _
         have e1 := hr _ _ _ _ h1 hnd
         have hid : ∀ u : Trace, u.tid = tid → ((fun _ => (t.step 1).fst) u).tid = u.tid := by
           intro u hu; simp only; rw [Tid.step_tid, Tid.find_tid _ _ _ hf, hu]
         have hn2 := Nd_updTrace v1.2 tid _ hid e1.2
         have e2 := ih _ _ _ _ h hn2
         refine ⟨?_, e2.2⟩
         rw [e2.1, mask_updTrace _ _ _ hid, e1.1])
      | (rename_i v1 h1 _ t hf _ _
         simp only [Except.ok.injEq, Prod.mk.injEq] at h; obtain ⟨_, hst⟩ := h; subst hst
         have e1 := hr _ _ _ _ h1 hnd
         exact ⟨by rw [e1.1], e1.2⟩)

theorem findTraces_N (n : Nat) (c : Sx) : ∀ (tids : List String) (st st' : St) (acc found : List Int),
    findTraces n rec c st tids acc = .ok (found, st') → Nd st.tc → NN st.tc st'.tc := by
  have hl := findLoop_M rec hr c
  intro tids
  induction tids with
  | nil =>
    intro st st' acc found h hnd; unfold findTraces at h
    simp only [Except.ok.injEq, Prod.mk.injEq] at h; obtain ⟨_, hst⟩ := h; subst hst; exact NN.refl _ hnd
  | cons a as ih =>
    intro st st' acc found h hnd
    unfold findTraces at h
    simp only [bind, Except.bind] at h
    repeat' (split at h)
    all_goals try (simp at h; done)
    rename_i start hs _ r1 h1
    have m1 := hl a n st r1.2 acc r1.1 h1 hnd
    -- the trace found under `a` has index `start`
    simp only [St.traceIdx, Option.map_eq_some_iff] at hs
    obtain ⟨t, hft, hti⟩ := hs
    have hidx : ∀ u : Trace, u.tid = a → ((fun u : Trace => { u with index := start }) u).tid = u.tid := fun _ _ => rfl
    have hn2 : Nd (r1.2.updTrace a (fun u => { u with index := start })).tc := Nd_updTrace _ _ _ hidx m1.2
    have hback : idxs (r1.2.updTrace a (fun u => { u with index := start })).tc = idxs st.tc := by
      rw [idxs_updTrace_index, ← setAt_mask, m1.1, setAt_mask, ← hti]
      exact setAt_found a t st.tc.traces ((Nd_iff st).1 hnd) hft
    have e2 := ih _ _ _ _ h hn2
    exact ⟨e2.1.trans hback, e2.2⟩

theorem opFind_N (n : Nat) (st st' : St) (args : List Sx) (v : Sx) (h : opFind n rec st args = .ok (v, st')) (hnd : Nd st.tc) :
    NN st.tc st'.tc := by
  have hl := findTraces_N rec hr n
  unfold opFind at h
  opn_tac h

end

/-! ## the restricted evaluator: `Tid.dispatchT` without `step` and `sample-at` -/

def dispatchN (n : Nat) (rec : St → Sx → Res) (st : St) (o : Op) (args : List Sx) : Res :=
  match o with
  | .STEP | .SAMPLE_AT => .error (.unsupported "an operation that moves the traces for good")
  | o => Tid.dispatchT n rec st o args

theorem dispatchN_subT (n : Nat) (rec : St → Sx → Res) (st : St) (o : Op) (args : List Sx) (r : Sx × St)
    (h : dispatchN n rec st o args = .ok r) : Tid.dispatchT n rec st o args = .ok r := by
  unfold dispatchN at h
  split at h
  · simp at h
  · simp at h
  · exact h

/-- one layer -/
def evalStepN (n : Nat) (rec : St → Sx → Res) (st : St) : Sx → Res
  | .list w (.op o :: tail) => dispatchN n rec st o tail
  | e => evalStep n rec st e

theorem evalStepN_subT (n : Nat) (rec : St → Sx → Res) (st : St) (e : Sx) (r : Sx × St)
    (h : evalStepN n rec st e = .ok r) : Tid.evalStepT n rec st e = .ok r := by
  unfold evalStepN at h
  split at h
  · simp only [Tid.evalStepT]; exact dispatchN_subT _ _ _ _ _ _ h
  · rename_i hne
    unfold Tid.evalStepT
    split
    · exact absurd rfl (hne _ _ _)
    · exact h

section
variable (rec : St → Sx → Res)
  (hr : ∀ st e v st', rec st e = .ok (v, st') → Nd st.tc → NN st.tc st'.tc)
  (hT : ∀ st e v st', rec st e = .ok (v, st') → Tid.T st st')
  (hB : ∀ st e v st', rec st e = .ok (v, st') → Bal.B st st')
include hr hT hB

theorem dispatchN_N (n : Nat) (st st' : St) (o : Op) (args : List Sx) (v : Sx)
    (h : dispatchN n rec st o args = .ok (v, st')) (hnd : Nd st.tc) : NN st.tc st'.tc := by
  cases o with
  | NOT => exact opNot_N rec hr  _ _ _ _ h hnd
  | EQ => exact opEq_N rec hr false _ _ _ _ h hnd
  | NEQ => exact opEq_N rec hr true _ _ _ _ h hnd
  | LARGER => exact opCmp_N rec hr .gt _ _ _ _ h hnd
  | SMALLER => exact opCmp_N rec hr .lt _ _ _ _ h hnd
  | LARGER_EQUAL => exact opCmp_N rec hr .ge _ _ _ _ h hnd
  | SMALLER_EQUAL => exact opCmp_N rec hr .le _ _ _ _ h hnd
  | AND => exact opAnd_N rec hr  _ _ _ _ h hnd
  | OR => exact opOr_N rec hr  _ _ _ _ h hnd
  | LET => exact opLet_N rec hr  _ _ _ _ h hnd
  | DEFINE => exact opDefine_N rec hr  _ _ _ _ h hnd
  | SET => exact opSet_N rec hr  _ _ _ _ h hnd
  | PRINT => exact opPrint_N rec hr  _ _ _ _ h hnd
  | PRINTF => simp [dispatchN, Tid.dispatchT, Bal.dispatchR, dispatch] at h
  | IF => exact opIf_N rec hr  _ _ _ _ h hnd
  | CASE => exact opCase_N rec hr  _ _ _ _ h hnd
  | DO => exact opDo_N rec hr  _ _ _ _ h hnd
  | WHILE => exact opWhile_N rec hr n _ _ _ _ h hnd
  | ALIAS => exact opAlias_N rec hr  _ _ _ _ h hnd
  | UNALIAS => exact opUnalias_N rec hr  _ _ _ _ h hnd
  | QUOTE => exact opQuote_N rec hr  _ _ _ _ h hnd
  | QUASIQUOTE => exact opQuasiquote_N rec hr  _ _ _ _ h hnd
  | UNQUOTE => simp [dispatchN, Tid.dispatchT, Bal.dispatchR, dispatch] at h
  | EVAL => exact opEval_N rec hr n _ _ _ _ h hnd
  | PARSE => simp [dispatchN, Tid.dispatchT, Bal.dispatchR, dispatch] at h
  | DEFMACRO => exact opDefmacro_N rec hr n _ _ _ _ h hnd
  | MACROEXPAND => exact opMacroexpand_N rec hr n _ _ _ _ h hnd
  | GENSYM => exact opGensym_N rec hr  _ _ _ h hnd
  | FN => exact opFn_N rec hr  _ _ _ _ h hnd
  | GET => exact opGet_N rec hr  _ _ _ _ h hnd
  | IMPORT => simp [dispatchN, Tid.dispatchT, Bal.dispatchR, dispatch] at h
  | CALL => simp [dispatchN, Tid.dispatchT, Bal.dispatchR, dispatch] at h
  | TYPE => exact opType_N rec hr  _ _ _ _ h hnd
  | REL_EVAL => exact opReval_N rec hr hT hB _ _ _ _ h hnd
  | SCOPED => exact opScoped_N rec hr  _ _ _ _ h hnd
  | RESOLVE_SCOPE => exact opResolveScope_N rec hr  _ _ _ _ h hnd
  | ALLSCOPES => exact opAllScopes_N rec hr  _ _ _ _ h hnd
  | SETSCOPE => simp [dispatchN, Tid.dispatchT, Bal.dispatchR] at h
  | UNSETSCOPE => simp [dispatchN, Tid.dispatchT, Bal.dispatchR] at h
  | GROUPS => exact opGroups_N rec hr  _ _ _ _ h hnd
  | IN_GROUP => exact opInGroup_N rec hr  _ _ _ _ h hnd
  | IN_GROUPS => exact opInGroups_N rec hr  _ _ _ _ h hnd
  | RESOLVE_GROUP => exact opResolveGroup_N rec hr  _ _ _ _ h hnd
  | SLICE => exact opSlice_N rec hr  _ _ _ _ h hnd
  | LOADED_TRACES => exact opLoadedTraces_N rec hr  _ _ _ _ h hnd
  | EXIT => exact opExit_N rec hr  _ _ _ _ h hnd
  | ADD => exact opAdd_N rec hr  _ _ _ _ h hnd
  | SUB => exact opSub_N rec hr  _ _ _ _ h hnd
  | MUL => exact opMul_N rec hr  _ _ _ _ h hnd
  | DIV => exact opDiv_N rec hr  _ _ _ _ h hnd
  | EXP => exact opExp_N rec hr  _ _ _ _ h hnd
  | FLOOR => exact opRoundLike_N rec hr  _ _ _ _ h hnd
  | CEIL => exact opRoundLike_N rec hr  _ _ _ _ h hnd
  | ROUND => exact opRoundLike_N rec hr  _ _ _ _ h hnd
  | MOD => exact opMod_N rec hr  _ _ _ _ h hnd
  | BOR => exact opBitwise_N rec hr intLor (· || ·) _ _ _ _ h hnd
  | BAND => exact opBitwise_N rec hr intLand (· && ·) _ _ _ _ h hnd
  | BXOR => exact opBitwise_N rec hr intXor (fun a b => a != b) _ _ _ _ h hnd
  | IS_DEFINED => exact opIsDefined_N rec hr  _ _ _ _ h hnd
  | IS_ATOM => exact opAllPred_N rec hr isAtomVal _ _ _ _ h hnd
  | IS_SYMBOL => exact opAllPred_N rec hr isSym _ _ _ _ h hnd
  | IS_STRING => exact opAllPred_N rec hr isStr _ _ _ _ h hnd
  | IS_INT => exact opAllPred_N rec hr isIntLike _ _ _ _ h hnd
  | IS_LIST => exact opAllPred_N rec hr isList _ _ _ _ h hnd
  | CONVERT_BINARY => exact opConvertBin_N rec hr  _ _ _ _ h hnd
  | STRING_TO_INT => exact opStringToInt_N rec hr  _ _ _ _ h hnd
  | BITS_TO_SINT => exact opBitsToSint_N rec hr  _ _ _ _ h hnd
  | STRING_TO_SYMBOL => exact opStringToSymbol_N rec hr  _ _ _ _ h hnd
  | SYMBOL_TO_STRING => exact opSymbolToString_N rec hr  _ _ _ _ h hnd
  | INT_TO_STRING => exact opIntToString_N rec hr  _ _ _ _ h hnd
  | LIST => exact opList_N rec hr  _ _ _ _ h hnd
  | FIRST => exact opListAccess_N rec hr selFirst _ _ _ _ h hnd
  | SECOND => exact opListAccess_N rec hr selSecond _ _ _ _ h hnd
  | LAST => exact opListAccess_N rec hr selLast _ _ _ _ h hnd
  | REST => exact opListAccess_N rec hr selRest _ _ _ _ h hnd
  | IN => exact opIn_N rec hr  _ _ _ _ h hnd
  | MAP => exact opMap_N rec hr  _ _ _ _ h hnd
  | MAX => exact opMaxMin_N rec hr true _ _ _ _ h hnd
  | MIN => exact opMaxMin_N rec hr false _ _ _ _ h hnd
  | FOLD => exact opFold_N rec hr  _ _ _ _ h hnd
  | LENGTH => exact opLength_N rec hr  _ _ _ _ h hnd
  | AVERAGE => exact opAverage_N rec hr  _ _ _ _ h hnd
  | ZIP => exact opZip_N rec hr  _ _ _ _ h hnd
  | RANGE => exact opRange_N rec hr  _ _ _ _ h hnd
  | ARRAY => exact opArray_N rec hr  _ _ _ _ h hnd
  | SETA => exact opSeta_N rec hr  _ _ _ _ h hnd
  | GETA => exact opGeta_N rec hr  _ _ _ _ h hnd
  | DELA => exact opDela_N rec hr  _ _ _ _ h hnd
  | MAPA => exact opMapa_N rec hr  _ _ _ _ h hnd
  | LOAD => simp [dispatchN, Tid.dispatchT, Bal.dispatchR, dispatch] at h
  | UNLOAD => simp [dispatchN, Tid.dispatchT, Bal.dispatchR] at h
  | STEP => simp [dispatchN, Tid.dispatchT, Bal.dispatchR] at h
  | REPL => simp [dispatchN, Tid.dispatchT, Bal.dispatchR, dispatch] at h
  | IS_SIGNAL => exact opIsSignal_N rec hr  _ _ _ _ h hnd
  | REQUIRE => simp [dispatchN, Tid.dispatchT, Bal.dispatchR, dispatch] at h
  | EVAL_FILE => simp [dispatchN, Tid.dispatchT, Bal.dispatchR, dispatch] at h
  | FIND => exact opFind_N rec hr n _ _ _ _ h hnd
  | FIND_G => exact opFindG_N rec hr hT n _ _ _ _ h hnd
  | WHENEVER => exact opWhenever_N rec hr hT n _ _ _ _ h hnd
  | FOLD_SIGNAL => simp [dispatchN, Tid.dispatchT, Bal.dispatchR, dispatch] at h
  | SIGNAL_WIDTH => exact opSignalWidth_N rec hr  _ _ _ _ h hnd
  | SAMPLE_AT => simp [dispatchN, Tid.dispatchT, Bal.dispatchR] at h
  | TRIM_TRACE => exact opTrimTrace_N rec hr  _ _ _ _ h hnd
  | DEFSIG => exact opDefsig_N _ _ _ _ h hnd
  | NEWTRACE => simp [dispatchN, Tid.dispatchT, Bal.dispatchR, dispatch] at h
  | DUMPTRACE => simp [dispatchN, Tid.dispatchT, Bal.dispatchR, dispatch] at h

theorem evalStepN_N (n : Nat) (st st' : St) (e v : Sx) (h : evalStepN n rec st e = .ok (v, st')) (hnd : Nd st.tc) :
    NN st.tc st'.tc := by
  have hs := evalSym_N rec hr
  have hc := evalClosure_N rec hr
  have hd := dispatchN_N rec hr hT hB
  clear hT hB
  unfold evalStepN at h
  split at h
  · exact hd _ _ _ _ _ _ h hnd
  · rename_i hne
    unfold evalStep at h
    repeat' (split at h)
    all_goals try (simp at h; done)
    all_goals try (exact absurd rfl (hne _ _ _))
    all_goals opn_tac h

end

/-- the restricted evaluator -/
def evalN : Nat → St → Sx → Res
  | 0, _, _ => .error .fuel
  | n + 1, st, e => evalStepN n (evalN n) st e

/-- ids kept, context balanced, positions kept — together, so that the induction on the fuel goes through -/
theorem evalN_all : ∀ (n : Nat) (st : St) (e v : Sx) (st' : St), evalN n st e = .ok (v, st') →
    Tid.T st st' ∧ Bal.B st st' ∧ (Nd st.tc → NN st.tc st'.tc) := by
  intro n
  induction n with
  | zero => intro st e v st' h; simp [evalN] at h
  | succ n ih =>
    intro st e v st' h
    have hT := fun st e v st' hh => (ih st e v st' hh).1
    have hB := fun st e v st' hh => (ih st e v st' hh).2.1
    have hN := fun st e v st' hh => (ih st e v st' hh).2.2
    have hsub := evalStepN_subT _ _ _ _ _ h
    exact ⟨Tid.evalStepT_T (evalN n) hT n st st' e v hsub,
      Bal.evalStepR_B (evalN n) hB n st st' e v (Tid.evalStepT_subR _ _ _ _ _ hsub),
      evalStepN_N (evalN n) hN hT hB n st st' e v h⟩

/-- **every evaluation that completes without executing `step`, `sample-at`, `unload`, `set-scope` or
`unset-scope` — whatever else it runs, to any depth — leaves every trace index exactly where it was** (loaded traces
with distinct ids) -/
theorem evalN_neutral (n : Nat) (st : St) (e v : Sx) (st' : St) (hnd : (st.tc.traces.map (·.tid)).Nodup)
    (h : evalN n st e = .ok (v, st')) : indicesOf st'.tc.traces = indicesOf st.tc.traces :=
  ((evalN_all n st e v st' h).2.2 ((Nd_iff st).2 hnd)).1

/-- whatever the restricted evaluator completes, the evaluator completes with the same value and state -/
theorem evalN_sub : ∀ (n : Nat) (st : St) (e : Sx) (r : Sx × St), evalN n st e = .ok r → eval n st e = .ok r := by
  intro n
  induction n with
  | zero => intro st e r h; simp [evalN] at h
  | succ n ih =>
    intro st e r h
    simp only [evalN] at h
    simp only [eval]
    exact Mono.evalStep_mono (evalN n) (eval n) ih n n (Nat.le_refl n) st e r
      (Bal.evalStepR_sub _ _ _ _ _ (Tid.evalStepT_subR _ _ _ _ _ (evalStepN_subT _ _ _ _ _ h)))

/-- the pipeline over the restricted evaluator -/
def walEvalN (m : Mode) (n : Nat) (st : St) (e : Sx) : Res := do
  let (ex, st1) ← (if m.expand then expand (evalN n) (some 0) n st e else pure (e, st))
  let opt := if m.optimize then optimize ex else ex
  let res ← (if m.resolve then ofOpt (resolve st1.globalNames opt) (errA "resolve: symbol already defined") else pure opt)
  evalN n st1 res

/-- **the whole pipeline — macro expansion, optimize, resolve, evaluation — is position-neutral** -/
theorem walEvalN_neutral (m : Mode) (n : Nat) (st st' : St) (e v : Sx) (hnd : (st.tc.traces.map (·.tid)).Nodup)
    (h : walEvalN m n st e = .ok (v, st')) : indicesOf st'.tc.traces = indicesOf st.tc.traces := by
  have hr : ∀ st e v st', evalN n st e = .ok (v, st') → Nd st.tc → NN st.tc st'.tc :=
    fun st e v st' hh => (evalN_all n st e v st' hh).2.2
  have he := (expand_N (evalN n) hr (some 0) n).1
  have hnd' := (Nd_iff st).2 hnd
  suffices NN st.tc st'.tc from this.1
  unfold walEvalN at h
  opn_tac h

end Wal.Neu
