import Wal.Lemmas.Res
/-!
# The set of loaded traces is kept by every evaluation that does not execute `unload`

`T st st'`: the list of trace ids of `st'` is that of `st`. Same scheme as `Bal.lean`: one lemma per operator for an
arbitrary sub-evaluator with the property, a restricted evaluator `evalT` (`unload`, `set-scope`, `unset-scope` switched
off) that is a restriction of `eval`, and the induction on the fuel. With `Bal.evalR_B` this discharges, for every body,
the two premises of `C03.reval_neutral` (same traces, same saved-position stack).
-/
namespace Wal.Tid
open Wal

def tids (st : St) : List String := st.tc.traces.map (·.tid)

def T (st st' : St) : Prop := tids st' = tids st

@[grind =] theorem tids_def (st : St) : tids st = st.tc.traces.map (·.tid) := rfl

@[grind =] theorem T_def (a b : St) : T a b = (tids b = tids a) := rfl

theorem T.refl (st : St) : T st st := rfl
theorem T.trans {a b c : St} (h1 : T a b) (h2 : T b c) : T a c := Eq.trans h2 h1

theorem setVar_T (st : St) (j : Nat) (x : String) (v : Sx) : T st (st.setVar j x v) := by
  unfold St.setVar; split <;> exact T.refl _

theorem defineIn_T (st st' : St) (j : Nat) (x : String) (v : Sx) (h : st.defineIn j x v = some st') : T st st' := by
  unfold St.defineIn at h
  split at h
  · split at h
    · simp at h
    · simp only [Option.some.injEq] at h; subst h; exact setVar_T _ _ _ _
  · simp at h

theorem writeFrom_T (st st' : St) (j : Nat) (x : String) (v : Sx) (h : st.writeFrom j x v = some st') : T st st' := by
  unfold St.writeFrom at h
  split at h
  · simp only [Option.some.injEq] at h; subst h; exact setVar_T _ _ _ _
  · simp at h

theorem writeGlobal_T (st st' : St) (x : String) (v : Sx) (h : st.writeGlobal x v = .ok st') : T st st' := by
  unfold St.writeGlobal ofOpt at h
  split at h
  · simp only [Except.ok.injEq] at h; subst h; rename_i a heq; exact writeFrom_T _ _ _ _ _ heq
  · simp at h

/-! ## trace-level facts: every operation on traces keeps the ids -/

theorem step_tid (t : Trace) (k : Int) : (t.step k).1.tid = t.tid := by
  unfold Trace.step; split <;> rfl

theorem stepAll_tids : ∀ (ts : List Trace) (k : Int), (stepAll ts k).1.map (·.tid) = ts.map (·.tid) := by
  intro ts
  induction ts with
  | nil => intro k; rfl
  | cons t ts ih => intro k; simp [stepAll, step_tid, ih]

theorem stepNamed_tids : ∀ (ts ts' : List Trace) (tid : String) (k : Int) (e : List String),
    stepNamed ts tid k = some (ts', e) → ts'.map (·.tid) = ts.map (·.tid) := by
  intro ts
  induction ts with
  | nil => intro ts' tid k e h; simp [stepNamed] at h
  | cons t ts ih =>
    intro ts' tid k e h
    unfold stepNamed at h
    split at h
    · simp only [Option.some.injEq, Prod.mk.injEq] at h; obtain ⟨h1, _⟩ := h; subst h1; simp [step_tid]
    · split at h
      · rename_i r e' hr
        simp only [Option.some.injEq, Prod.mk.injEq] at h; obtain ⟨h1, _⟩ := h; subst h1
        simp [ih _ _ _ _ hr]
      · simp at h

theorem step_tids (c c' : Container) (k : Int) (tid : Option String) (e : List String)
    (h : c.step k tid = some (c', e)) : c'.traces.map (·.tid) = c.traces.map (·.tid) := by
  have hall : ∀ c' e, (match stepAll c.traces k with | (ts, e) => some (({ c with traces := ts } : Container), e)) = some (c', e) →
      c'.traces.map (·.tid) = c.traces.map (·.tid) := by
    intro c' e hh
    have := stepAll_tids c.traces k
    cases hs : stepAll c.traces k with
    | mk ts en =>
      rw [hs] at hh this
      simp only [Option.some.injEq, Prod.mk.injEq] at hh
      obtain ⟨h1, _⟩ := hh; subst h1; exact this
  unfold Container.step at h
  split at h
  · split at h
    · split at h
      · rename_i ts e' hs
        simp only [Option.some.injEq, Prod.mk.injEq] at h; obtain ⟨h1, _⟩ := h; subst h1
        exact stepNamed_tids _ _ _ _ _ hs
      · simp at h
    · exact hall _ _ h
  · exact hall _ _ h

theorem setIndices_tids (ts : List Trace) (saved : List (String × Int)) :
    (setIndices ts saved).map (·.tid) = ts.map (·.tid) := by
  simp only [setIndices, List.map_map]
  apply List.map_congr_left
  intro t _
  simp only [Function.comp, setIdx]
  split <;> rfl

theorem restore_tids (c c' : Container) (h : c.restoreIndices = some c') :
    c'.traces.map (·.tid) = c.traces.map (·.tid) := by
  unfold Container.restoreIndices at h
  split at h
  · simp only [Option.some.injEq] at h; subst h; rfl
  · split at h
    · simp only [Option.some.injEq] at h; subst h; exact setIndices_tids _ _
    · simp at h

theorem updTrace_tids (st : St) (tid : String) (f : Trace → Trace) (hf : ∀ t, t.tid = tid → (f t).tid = t.tid) :
    tids (st.updTrace tid f) = tids st := by
  simp only [tids, St.updTrace, List.map_map]
  apply List.map_congr_left
  intro t _
  simp only [Function.comp]
  split
  · rename_i h; exact hf t (by simpa using h)
  · rfl

theorem find_tid (c : Container) (tid : String) (t : Trace) (h : c.find? tid = some t) : t.tid = tid := by
  unfold Container.find? at h
  have := List.find?_some h
  simpa using this

theorem updTrace_same (st : St) (tid : String) (f : Trace → Trace) (hf : ∀ t, (f t).tid = t.tid) :
    T st (st.updTrace tid f) := updTrace_tids st tid f (fun t _ => hf t)

theorem updTrace_const (st : St) (tid : String) (t' : Trace) (h : t'.tid = tid) :
    T st (st.updTrace tid (fun _ => t')) := updTrace_tids st tid _ (fun t ht => by simp [h, ht])

theorem updTrace_step (s : St) (tid : String) (t : Trace) (k : Int) (h : s.tc.find? tid = some t) :
    T s (s.updTrace tid fun _ => (t.step k).fst) :=
  updTrace_const _ _ _ (by rw [step_tid]; exact find_tid _ _ _ h)

theorem updTrace_index (s : St) (tid : String) (i : Int) : T s (s.updTrace tid fun t => { t with index := i }) :=
  updTrace_same _ _ _ (fun _ => rfl)

theorem setSamplingPoints_tid (t t' : Trace) (l : List Int) (h : t.setSamplingPoints l = some t') : t'.tid = t.tid := by
  unfold Trace.setSamplingPoints at h
  split at h
  · simp at h
  · simp only [Option.some.injEq] at h; subst h; rfl

theorem setMaxIndex_tid (t : Trace) (m : Int) : (t.setMaxIndex m).tid = t.tid := by
  unfold Trace.setMaxIndex; repeat' split
  all_goals rfl

theorem sampleAll_tids : ∀ (l : List Int) (ts ts' : List Trace), sampleAll l ts = some ts' →
    ts'.map (·.tid) = ts.map (·.tid) := by
  intro l ts
  induction ts with
  | nil => intro ts' h; simp [sampleAll] at h; subst h; rfl
  | cons t ts ih =>
    intro ts' h
    unfold sampleAll at h
    split at h
    · rename_i t' r' h1 h2
      simp only [Option.some.injEq] at h; subst h
      simp [setSamplingPoints_tid t t' l h1, ih r' h2]
    · simp at h

/-- closes an operator case -/
syntax "opt_tac" ident : tactic
set_option hygiene false in
macro_rules
  | `(tactic| opt_tac $h:ident) => `(tactic| (
      try simp only [bind, Except.bind, pure, Except.pure, St.setArr, St.newArr, St.pushFrame, ofOpt, containsOrErr, readCS, readCG, Container.storeIndices, tids] at $h:ident
      repeat' (split at $h:ident)
      all_goals (first
        | (simp at $h:ident; done)
        | (simp only [Except.ok.injEq, Prod.mk.injEq] at $h:ident
           obtain ⟨_, hst⟩ := $h:ident
           subst hst
           grind [T.refl, T.trans])
        | (grind [T.refl, T.trans]))))

section
variable (rec : St → Sx → Res) (hr : ∀ st e v st', rec st e = .ok (v, st') → T st st')
include hr

theorem evalList_T : ∀ (as : List Sx) (st st' : St) (vs : List Sx),
    evalList rec st as = .ok (vs, st') → T st st' := by
  intro as
  induction as with
  | nil => intro st st' vs h; simp [evalList] at h; rw [← h.2]; exact T.refl _
  | cons a as ih =>
    intro st st' vs h
    simp only [evalList, Glob.bind_ok] at h
    obtain ⟨⟨v, st1⟩, h1, ⟨ws, st2⟩, h2, h3⟩ := h
    simp only [pure, Except.pure, Except.ok.injEq, Prod.mk.injEq] at h3
    rw [← h3.2]
    exact (hr _ _ _ _ h1).trans (ih _ _ _ h2)


theorem andLoop_T : ∀ (as : List Sx) (st st' : St) (v : Sx), andLoop rec st as = .ok (v, st') → T st st' := by
  intro as
  induction as with
  | nil => intro st st' v h; unfold andLoop at h; opt_tac h
  | cons a as ih => intro st st' v h; unfold andLoop at h; opt_tac h

theorem orLoop_T : ∀ (as : List Sx) (st st' : St) (v : Sx), orLoop rec st as = .ok (v, st') → T st st' := by
  intro as
  induction as with
  | nil => intro st st' v h; unfold orLoop at h; opt_tac h
  | cons a as ih => intro st st' v h; unfold orLoop at h; opt_tac h

theorem letBind_T (fid : Nat) : ∀ (as : List Sx) (st st' : St), letBind rec fid st as = .ok st' → T st st' := by
  have hd := defineIn_T
  intro as
  induction as with
  | nil => intro st st' h; unfold letBind at h; simp only [Except.ok.injEq] at h; subst h; exact T.refl _
  | cons a as ih =>
    intro st st' h
    unfold letBind at h
    simp only [bind, Except.bind, pure, Except.pure] at h
    repeat' (split at h)
    all_goals (first | (simp at h; done) | grind [T.refl, T.trans])

theorem setLoop_T : ∀ (as : List Sx) (st st' : St) (l v : Sx), setLoop rec st as l = .ok (v, st') → T st st' := by
  have hw := writeFrom_T
  intro as
  induction as with
  | nil => intro st st' l v h; unfold setLoop at h; opt_tac h
  | cons a as ih => intro st st' l v h; unfold setLoop at h; opt_tac h

theorem caseLoop_T (key : Sx) : ∀ (as : List Sx) (st st' : St) (d v : Sx), caseLoop rec key st as d = .ok (v, st') → T st st' := by
  have hl := evalList_T rec hr
  intro as
  induction as with
  | nil => intro st st' d v h; unfold caseLoop at h; opt_tac h
  | cons a as ih => intro st st' d v h; unfold caseLoop at h; opt_tac h

theorem whileLoop_T (c : Sx) (body : List Sx) : ∀ (k : Nat) (st st' : St) (l v : Sx),
    whileLoop rec c body k st l = .ok (v, st') → T st st' := by
  have hl := evalList_T rec hr
  intro k
  induction k with
  | zero => intro st st' l v h; unfold whileLoop at h; simp at h
  | succ k ih => intro st st' l v h; unfold whileLoop at h; opt_tac h

theorem readSignal_T (st st' : St) (name scope : String) (v : Sx)
    (h : readSignal rec st name scope = .ok (v, st')) : T st st' := by
  have hl := evalList_T rec hr
  unfold readSignal at h
  simp only [bind, Except.bind, pure, Except.pure] at h
  repeat' (split at h)
  all_goals try (simp at h; done)
  all_goals (simp only [Except.ok.injEq, Prod.mk.injEq] at h; obtain ⟨_, hst⟩ := h; subst hst)
  all_goals try exact T.refl _
  exact (hl _ _ _ _ ‹evalList rec st _ = Except.ok _›).trans (updTrace_same _ _ _ (fun _ => rfl))

theorem evalSym_T (st st' : St) (name : String) (steps : Option Nat) (v : Sx)
    (h : evalSym rec st name steps = .ok (v, st')) : T st st' := by
  have hs := readSignal_T rec hr
  unfold evalSym at h
  opt_tac h

theorem bindParams_T (st st' : St) (params : Sx) (args : List Sx) (b : List (String × Sx))
    (h : bindParams rec st params args = .ok (b, st')) : T st st' := by
  have hl := evalList_T rec hr
  unfold bindParams at h
  opt_tac h

theorem evalClosure_T (st st' : St) (clo : Sx) (args : List Sx) (v : Sx)
    (h : evalClosure rec st clo args = .ok (v, st')) : T st st' := by
  have hb := bindParams_T rec hr
  unfold evalClosure at h
  opt_tac h

theorem opLet_T (st st' : St) (args : List Sx) (v : Sx) (h : opLet rec st args = .ok (v, st')) : T st st' := by
  have hb := letBind_T rec hr
  have hl := evalList_T rec hr
  unfold opLet at h
  opt_tac h

theorem qq_T : ∀ (n : Nat), (∀ (e : Sx) (st st' : St) (v : Sx), sizeOf e < n → qq rec st e = .ok (v, st') → T st st') ∧
    (∀ (es : List Sx) (st st' : St) (vs : List Sx), sizeOf es < n → qqList rec st es = .ok (vs, st') → T st st') := by
  intro n
  induction n with
  | zero => exact ⟨fun _ _ _ _ h => absurd h (Nat.not_lt_zero _), fun _ _ _ _ h => absurd h (Nat.not_lt_zero _)⟩
  | succ n ih =>
    obtain ⟨ih1, ih2⟩ := ih
    constructor
    · intro e st st' v hs h
      unfold qq at h
      split at h
      · rename_i x xs
        have := ih2 (x :: xs)
        simp only [Sx.list.sizeOf_spec] at hs
        opt_tac h
      · opt_tac h
    · intro es st st' vs hs h
      unfold qqList at h
      split at h
      · opt_tac h
      · rename_i c r
        have h1 := ih1 c
        have h2 := ih2 r
        simp only [List.cons.sizeOf_spec, Sx.unq.sizeOf_spec] at hs
        opt_tac h
      · rename_i c r
        have h1 := ih1 c
        have h2 := ih2 r
        simp only [List.cons.sizeOf_spec, Sx.unqs.sizeOf_spec] at hs
        opt_tac h
      · rename_i e r _ _
        have h1 := ih1 e
        have h2 := ih2 r
        simp only [List.cons.sizeOf_spec] at hs
        opt_tac h

theorem opQuasiquote_T (st st' : St) (args : List Sx) (v : Sx) (h : opQuasiquote rec st args = .ok (v, st')) : T st st' := by
  unfold opQuasiquote at h
  split at h
  · rename_i a
    exact (qq_T rec hr (sizeOf a + 1)).1 a st st' v (Nat.lt_succ_self _) h
  · simp at h

theorem expand_T (parent : Option Nat) : ∀ (n : Nat),
    (∀ (st st' : St) (e v : Sx), expand rec parent n st e = .ok (v, st') → T st st') ∧
    (∀ (st st' : St) (es vs : List Sx), expandList rec parent n st es = .ok (vs, st') → T st st') := by
  intro n
  induction n with
  | zero =>
    constructor
    · intro st st' e v h; unfold expand at h; simp at h
    · intro st st' es vs h; unfold expandList at h; simp at h
  | succ n ih =>
    obtain ⟨ih1, ih2⟩ := ih
    constructor
    · intro st st' e v h
      unfold expand at h
      opt_tac h
    · intro st st' es vs h
      cases es with
      | nil => simp only [expandList, Except.ok.injEq, Prod.mk.injEq] at h; obtain ⟨_, hst⟩ := h; subst hst; exact T.refl _
      | cons e r =>
        simp only [expandList] at h
        opt_tac h

theorem opNot_T  (st st' : St) (args : List Sx) (v : Sx)
    (h : opNot  rec st args = .ok (v, st')) : T st st' := by
  have hl := evalList_T rec hr
  unfold opNot at h
  opt_tac h

theorem opEq_T (neg : Bool) (st st' : St) (args : List Sx) (v : Sx)
    (h : opEq neg rec st args = .ok (v, st')) : T st st' := by
  have hl := evalList_T rec hr
  unfold opEq at h
  opt_tac h

theorem opCmp_T (op : CmpOp) (st st' : St) (args : List Sx) (v : Sx)
    (h : opCmp op rec st args = .ok (v, st')) : T st st' := by
  have hl := evalList_T rec hr
  unfold opCmp at h
  opt_tac h

theorem opPrint_T  (st st' : St) (args : List Sx) (v : Sx)
    (h : opPrint  rec st args = .ok (v, st')) : T st st' := by
  have hl := evalList_T rec hr
  unfold opPrint at h
  opt_tac h

theorem opIf_T  (st st' : St) (args : List Sx) (v : Sx)
    (h : opIf  rec st args = .ok (v, st')) : T st st' := by
  have hl := evalList_T rec hr
  unfold opIf at h
  opt_tac h

theorem opDo_T  (st st' : St) (args : List Sx) (v : Sx)
    (h : opDo  rec st args = .ok (v, st')) : T st st' := by
  have hl := evalList_T rec hr
  unfold opDo at h
  opt_tac h

theorem opAlias_T  (st st' : St) (args : List Sx) (v : Sx)
    (h : opAlias  rec st args = .ok (v, st')) : T st st' := by
  have hl := evalList_T rec hr
  unfold opAlias at h
  opt_tac h

theorem opGet_T  (st st' : St) (args : List Sx) (v : Sx)
    (h : opGet  rec st args = .ok (v, st')) : T st st' := by
  have hl := evalList_T rec hr
  unfold opGet at h
  opt_tac h

theorem opType_T  (st st' : St) (args : List Sx) (v : Sx)
    (h : opType  rec st args = .ok (v, st')) : T st st' := by
  have hl := evalList_T rec hr
  unfold opType at h
  opt_tac h

theorem opSlice_T  (st st' : St) (args : List Sx) (v : Sx)
    (h : opSlice  rec st args = .ok (v, st')) : T st st' := by
  have hl := evalList_T rec hr
  unfold opSlice at h
  opt_tac h

theorem opExit_T  (st st' : St) (args : List Sx) (v : Sx)
    (h : opExit  rec st args = .ok (v, st')) : T st st' := by
  have hl := evalList_T rec hr
  unfold opExit at h
  opt_tac h

theorem opAdd_T  (st st' : St) (args : List Sx) (v : Sx)
    (h : opAdd  rec st args = .ok (v, st')) : T st st' := by
  have hl := evalList_T rec hr
  unfold opAdd at h
  opt_tac h

theorem opSub_T  (st st' : St) (args : List Sx) (v : Sx)
    (h : opSub  rec st args = .ok (v, st')) : T st st' := by
  have hl := evalList_T rec hr
  unfold opSub at h
  opt_tac h

theorem opMul_T  (st st' : St) (args : List Sx) (v : Sx)
    (h : opMul  rec st args = .ok (v, st')) : T st st' := by
  have hl := evalList_T rec hr
  unfold opMul at h
  opt_tac h

theorem opDiv_T  (st st' : St) (args : List Sx) (v : Sx)
    (h : opDiv  rec st args = .ok (v, st')) : T st st' := by
  have hl := evalList_T rec hr
  unfold opDiv at h
  opt_tac h

theorem opExp_T  (st st' : St) (args : List Sx) (v : Sx)
    (h : opExp  rec st args = .ok (v, st')) : T st st' := by
  have hl := evalList_T rec hr
  unfold opExp at h
  opt_tac h

theorem opRoundLike_T  (st st' : St) (args : List Sx) (v : Sx)
    (h : opRoundLike  rec st args = .ok (v, st')) : T st st' := by
  have hl := evalList_T rec hr
  unfold opRoundLike at h
  opt_tac h

theorem opMod_T  (st st' : St) (args : List Sx) (v : Sx)
    (h : opMod  rec st args = .ok (v, st')) : T st st' := by
  have hl := evalList_T rec hr
  unfold opMod at h
  opt_tac h

theorem opBitwise_T (f : Int → Int → Int) (fb : Bool → Bool → Bool) (st st' : St) (args : List Sx) (v : Sx)
    (h : opBitwise f fb rec st args = .ok (v, st')) : T st st' := by
  have hl := evalList_T rec hr
  unfold opBitwise at h
  opt_tac h

theorem opIsDefined_T  (st st' : St) (args : List Sx) (v : Sx)
    (h : opIsDefined  rec st args = .ok (v, st')) : T st st' := by
  have hl := evalList_T rec hr
  unfold opIsDefined at h
  opt_tac h

theorem opAllPred_T (p : Sx → Bool) (st st' : St) (args : List Sx) (v : Sx)
    (h : opAllPred p rec st args = .ok (v, st')) : T st st' := by
  have hl := evalList_T rec hr
  unfold opAllPred at h
  opt_tac h

theorem opConvertBin_T  (st st' : St) (args : List Sx) (v : Sx)
    (h : opConvertBin  rec st args = .ok (v, st')) : T st st' := by
  have hl := evalList_T rec hr
  unfold opConvertBin at h
  opt_tac h

theorem opStringToInt_T  (st st' : St) (args : List Sx) (v : Sx)
    (h : opStringToInt  rec st args = .ok (v, st')) : T st st' := by
  have hl := evalList_T rec hr
  unfold opStringToInt at h
  opt_tac h

theorem opBitsToSint_T  (st st' : St) (args : List Sx) (v : Sx)
    (h : opBitsToSint  rec st args = .ok (v, st')) : T st st' := by
  have hl := evalList_T rec hr
  unfold opBitsToSint at h
  opt_tac h

theorem opSymbolToString_T  (st st' : St) (args : List Sx) (v : Sx)
    (h : opSymbolToString  rec st args = .ok (v, st')) : T st st' := by
  have hl := evalList_T rec hr
  unfold opSymbolToString at h
  opt_tac h

theorem opStringToSymbol_T  (st st' : St) (args : List Sx) (v : Sx)
    (h : opStringToSymbol  rec st args = .ok (v, st')) : T st st' := by
  have hl := evalList_T rec hr
  unfold opStringToSymbol at h
  opt_tac h

theorem opIntToString_T  (st st' : St) (args : List Sx) (v : Sx)
    (h : opIntToString  rec st args = .ok (v, st')) : T st st' := by
  have hl := evalList_T rec hr
  unfold opIntToString at h
  opt_tac h

theorem opList_T  (st st' : St) (args : List Sx) (v : Sx)
    (h : opList  rec st args = .ok (v, st')) : T st st' := by
  have hl := evalList_T rec hr
  unfold opList at h
  opt_tac h

theorem opListAccess_T (sel : Bool → List Sx → Except Err Sx) (st st' : St) (args : List Sx) (v : Sx)
    (h : opListAccess sel rec st args = .ok (v, st')) : T st st' := by
  have hl := evalList_T rec hr
  unfold opListAccess at h
  opt_tac h

theorem opIn_T  (st st' : St) (args : List Sx) (v : Sx)
    (h : opIn  rec st args = .ok (v, st')) : T st st' := by
  have hl := evalList_T rec hr
  unfold opIn at h
  opt_tac h

theorem opMaxMin_T (isMax : Bool) (st st' : St) (args : List Sx) (v : Sx)
    (h : opMaxMin isMax rec st args = .ok (v, st')) : T st st' := by
  have hl := evalList_T rec hr
  unfold opMaxMin at h
  opt_tac h

theorem opAverage_T  (st st' : St) (args : List Sx) (v : Sx)
    (h : opAverage  rec st args = .ok (v, st')) : T st st' := by
  have hl := evalList_T rec hr
  unfold opAverage at h
  opt_tac h

theorem opLength_T  (st st' : St) (args : List Sx) (v : Sx)
    (h : opLength  rec st args = .ok (v, st')) : T st st' := by
  have hl := evalList_T rec hr
  unfold opLength at h
  opt_tac h

theorem opZip_T  (st st' : St) (args : List Sx) (v : Sx)
    (h : opZip  rec st args = .ok (v, st')) : T st st' := by
  have hl := evalList_T rec hr
  unfold opZip at h
  opt_tac h

theorem opRange_T  (st st' : St) (args : List Sx) (v : Sx)
    (h : opRange  rec st args = .ok (v, st')) : T st st' := by
  have hl := evalList_T rec hr
  unfold opRange at h
  opt_tac h

theorem opIsSignal_T  (st st' : St) (args : List Sx) (v : Sx)
    (h : opIsSignal  rec st args = .ok (v, st')) : T st st' := by
  have hl := evalList_T rec hr
  unfold opIsSignal at h
  opt_tac h

theorem opSignalWidth_T  (st st' : St) (args : List Sx) (v : Sx)
    (h : opSignalWidth  rec st args = .ok (v, st')) : T st st' := by
  have hl := evalList_T rec hr
  unfold opSignalWidth at h
  opt_tac h

theorem opSampleAt_T  (st st' : St) (args : List Sx) (v : Sx)
    (h : opSampleAt  rec st args = .ok (v, st')) : T st st' := by
  have hl := evalList_T rec hr
  unfold opSampleAt at h
  simp only [bind, Except.bind, pure, Except.pure] at h
  repeat' (split at h)
  all_goals try (simp at h; done)
  all_goals (simp only [Except.ok.injEq, Prod.mk.injEq] at h; obtain ⟨_, hst⟩ := h; subst hst)
  · refine (hr _ _ _ _ ‹rec st _ = Except.ok _›).trans (updTrace_const _ _ _ ?_)
    rw [setSamplingPoints_tid _ _ _ ‹Trace.setSamplingPoints _ _ = some _›]
    exact find_tid _ _ _ ‹Container.find? _ _ = some _›
  · refine (hr _ _ _ _ ‹rec st _ = Except.ok _›).trans ?_
    exact sampleAll_tids _ _ _ ‹sampleAll _ _ = some _›

theorem opTrimTrace_T  (st st' : St) (args : List Sx) (v : Sx)
    (h : opTrimTrace  rec st args = .ok (v, st')) : T st st' := by
  have hl := evalList_T rec hr
  unfold opTrimTrace at h
  simp only [bind, Except.bind, pure, Except.pure] at h
  repeat' (split at h)
  all_goals try (simp at h; done)
  all_goals (simp only [Except.ok.injEq, Prod.mk.injEq] at h; obtain ⟨_, hst⟩ := h; subst hst)
  rename_i v1 h1 _ v2 h2 _ _ _ _ _ _ _ _ _ hf _
  refine ((hr _ _ _ _ h1).trans (hr _ _ _ _ h2)).trans (updTrace_const _ _ _ ?_)
  rw [setMaxIndex_tid]; exact find_tid _ _ _ hf

theorem opAnd_T (st st' : St) (args : List Sx) (v : Sx) (h : opAnd rec st args = .ok (v, st')) : T st st' := by
  have hl := andLoop_T rec hr
  unfold opAnd at h
  opt_tac h

theorem opOr_T (st st' : St) (args : List Sx) (v : Sx) (h : opOr rec st args = .ok (v, st')) : T st st' := by
  have hl := orLoop_T rec hr
  unfold opOr at h
  opt_tac h

theorem opSet_T (st st' : St) (args : List Sx) (v : Sx) (h : opSet rec st args = .ok (v, st')) : T st st' := by
  have hl := setLoop_T rec hr
  unfold opSet at h
  opt_tac h

theorem opDefine_T (st st' : St) (args : List Sx) (v : Sx) (h : opDefine rec st args = .ok (v, st')) : T st st' := by
  have hd := defineIn_T
  unfold opDefine at h
  opt_tac h

theorem opCase_T (st st' : St) (args : List Sx) (v : Sx) (h : opCase rec st args = .ok (v, st')) : T st st' := by
  have hl := caseLoop_T rec hr
  unfold opCase at h
  opt_tac h

theorem opWhile_T (n : Nat) (st st' : St) (args : List Sx) (v : Sx) (h : opWhile n rec st args = .ok (v, st')) : T st st' := by
  have hl := whileLoop_T rec hr
  unfold opWhile at h
  opt_tac h

theorem unaliasLoop_T : ∀ (as : List Sx) (st st' : St) (v : Sx), unaliasLoop st as = .ok (v, st') → T st st' := by
  intro as
  induction as with
  | nil => intro st st' v h; unfold unaliasLoop at h; opt_tac h
  | cons a as ih => intro st st' v h; unfold unaliasLoop at h; opt_tac h

theorem opUnalias_T (st st' : St) (args : List Sx) (v : Sx) (h : opUnalias st args = .ok (v, st')) : T st st' := by
  have hl := unaliasLoop_T rec hr
  unfold opUnalias at h
  opt_tac h

theorem opQuote_T (st st' : St) (args : List Sx) (v : Sx) (h : opQuote st args = .ok (v, st')) : T st st' := by
  unfold opQuote at h
  opt_tac h

theorem opFn_T (st st' : St) (args : List Sx) (v : Sx) (h : opFn st args = .ok (v, st')) : T st st' := by
  unfold opFn at h
  opt_tac h

theorem opLoadedTraces_T (st st' : St) (args : List Sx) (v : Sx) (h : opLoadedTraces st args = .ok (v, st')) : T st st' := by
  unfold opLoadedTraces at h
  opt_tac h

theorem opDefsig_T (st st' : St) (args : List Sx) (v : Sx) (h : opDefsig st args = .ok (v, st')) : T st st' := by
  unfold opDefsig at h
  simp only [bind, Except.bind, pure, Except.pure] at h
  repeat' (split at h)
  all_goals try (simp at h; done)
  all_goals (simp only [Except.ok.injEq, Prod.mk.injEq] at h; obtain ⟨_, hst⟩ := h; subst hst)
  all_goals exact updTrace_same _ _ _ (fun _ => rfl)

theorem opGensym_T (st st' : St) (v : Sx) (h : opGensym st = .ok (v, st')) : T st st' := by
  unfold opGensym at h
  opt_tac h

theorem opReval_T (st st' : St) (args : List Sx) (v : Sx) (h : opReval rec st args = .ok (v, st')) : T st st' := by
  have hs := restore_tids
  have hsa := stepAll_tids
  unfold opReval at h
  opt_tac h

theorem opScoped_T (st st' : St) (args : List Sx) (v : Sx) (h : opScoped rec st args = .ok (v, st')) : T st st' := by
  have hw := writeGlobal_T
  unfold opScoped at h
  opt_tac h

theorem allScopesLoop_T (e : Sx) : ∀ (ss : List String) (st st' : St) (acc vs : List Sx),
    allScopesLoop rec e st ss acc = .ok (vs, st') → tids st' = tids st := by
  have hw := writeGlobal_T
  intro ss
  induction ss with
  | nil => intro st st' acc vs h; unfold allScopesLoop at h; simp only [Except.ok.injEq, Prod.mk.injEq] at h; obtain ⟨_, hst⟩ := h; subst hst; rfl
  | cons a as ih =>
    intro st st' acc vs h; unfold allScopesLoop at h
    simp only [bind, Except.bind] at h
    repeat' (split at h)
    all_goals (first | (simp at h; done) | grind)

theorem opAllScopes_T (st st' : St) (args : List Sx) (v : Sx) (h : opAllScopes rec st args = .ok (v, st')) : T st st' := by
  have hw := writeGlobal_T
  have hl := allScopesLoop_T rec hr
  unfold opAllScopes at h
  opt_tac h

theorem opResolveScope_T (st st' : St) (args : List Sx) (v : Sx) (h : opResolveScope rec st args = .ok (v, st')) : T st st' := by
  have hs := readSignal_T rec hr
  unfold opResolveScope at h
  opt_tac h

theorem opResolveGroup_T (st st' : St) (args : List Sx) (v : Sx) (h : opResolveGroup rec st args = .ok (v, st')) : T st st' := by
  have hs := readSignal_T rec hr
  unfold opResolveGroup at h
  opt_tac h

theorem groupArgs_T : ∀ (as : List Sx) (st st' : St) (ss : List String), groupArgs rec st as = .ok (ss, st') → T st st' := by
  intro as
  induction as with
  | nil => intro st st' ss h; unfold groupArgs at h; opt_tac h
  | cons a as ih => intro st st' ss h; unfold groupArgs at h; opt_tac h

theorem opGroups_T (st st' : St) (args : List Sx) (v : Sx) (h : opGroups rec st args = .ok (v, st')) : T st st' := by
  have hl := groupArgs_T rec hr
  unfold opGroups at h
  opt_tac h

theorem opInGroup_T (st st' : St) (args : List Sx) (v : Sx) (h : opInGroup rec st args = .ok (v, st')) : T st st' := by
  have hw := writeGlobal_T
  have hl := evalList_T rec hr
  unfold opInGroup at h
  opt_tac h

theorem inGroupsLoop_T (body : List Sx) : ∀ (gs : List Sx) (st st' : St) (l v : Sx),
    inGroupsLoop rec body st gs l = .ok (v, st') → T st st' := by
  have hg := opInGroup_T rec hr
  intro gs
  induction gs with
  | nil => intro st st' l v h; unfold inGroupsLoop at h; opt_tac h
  | cons a as ih => intro st st' l v h; unfold inGroupsLoop at h; opt_tac h

theorem opInGroups_T (st st' : St) (args : List Sx) (v : Sx) (h : opInGroups rec st args = .ok (v, st')) : T st st' := by
  have hl := inGroupsLoop_T rec hr
  unfold opInGroups at h
  opt_tac h

omit hr in
theorem mapLoop_T (call : St → Sx → Res) (hc : ∀ s x v s', call s x = .ok (v, s') → T s s') :
    ∀ (l : List Sx) (st st' : St) (vs : List Sx), mapLoop call st l = .ok (vs, st') → T st st' := by
  intro l
  induction l with
  | nil => intro st st' vs h; unfold mapLoop at h; opt_tac h
  | cons a as ih => intro st st' vs h; unfold mapLoop at h; opt_tac h

omit hr in
theorem foldLoop_T (call : St → Sx → Sx → Res) (hc : ∀ s a x v s', call s a x = .ok (v, s') → T s s') :
    ∀ (l : List Sx) (st st' : St) (acc v : Sx), foldLoop call st acc l = .ok (v, st') → T st st' := by
  intro l
  induction l with
  | nil => intro st st' acc v h; unfold foldLoop at h; opt_tac h
  | cons a as ih => intro st st' acc v h; unfold foldLoop at h; opt_tac h

theorem opMap_T (st st' : St) (args : List Sx) (v : Sx) (h : opMap rec st args = .ok (v, st')) : T st st' := by
  have hc := evalClosure_T rec hr
  have hl1 := fun o => mapLoop_T (fun s x => rec s (.list true [.op o, quoteOf x])) (fun s x v s' hh => hr _ _ _ _ hh)
  have hl2 := fun fv => mapLoop_T (fun s x => evalClosure rec s fv [.list false [.op .QUOTE, x]]) (fun s x v s' hh => hc _ _ _ _ _ hh)
  unfold opMap at h
  simp only [bind, Except.bind, pure, Except.pure] at h
  repeat' (split at h)
  all_goals try (simp at h; done)
  all_goals (simp only [Except.ok.injEq, Prod.mk.injEq] at h; obtain ⟨_, hst⟩ := h; subst hst)
  · have := hl1 _ _ _ _ _ ‹_›
    grind [T.refl, T.trans]
  · have := hl2 _ _ _ _ _ ‹_›
    grind [T.refl, T.trans]

theorem opFold_T (st st' : St) (args : List Sx) (v : Sx) (h : opFold rec st args = .ok (v, st')) : T st st' := by
  have hc := evalClosure_T rec hr
  have hl := evalList_T rec hr
  have hl1 := fun o => foldLoop_T (fun s acc x => rec s (.list true [.op o, quoteOf acc, quoteOf x])) (fun s a x v s' hh => hr _ _ _ _ hh)
  have hl2 := fun fv => foldLoop_T (fun s acc x => evalClosure rec s fv [quoteOf acc, quoteOf x]) (fun s a x v s' hh => hc _ _ _ _ _ hh)
  unfold opFold at h
  simp only [bind, Except.bind, pure, Except.pure] at h
  repeat' (split at h)
  all_goals try (simp at h; done)
  · have := hl1 _ _ _ _ _ _ h
    grind [T.refl, T.trans]
  · have := hl2 _ _ _ _ _ _ h
    grind [T.refl, T.trans]

theorem mapaCall_T (fv : Sx) (s s' : St) (kv v : Sx) (h : mapaCall rec fv s kv = .ok (v, s')) : T s s' := by
  have hc := evalClosure_T rec hr
  unfold mapaCall at h
  opt_tac h

theorem opMapa_T (st st' : St) (args : List Sx) (v : Sx) (h : opMapa rec st args = .ok (v, st')) : T st st' := by
  have hl := fun fv => mapLoop_T (mapaCall rec fv) (fun s x v s' hh => mapaCall_T rec hr fv s s' x v hh)
  unfold opMapa at h
  simp only [St.arr?] at h
  opt_tac h

theorem arrayBuild_T : ∀ (as : List Sx) (st st' : St) (acc kvs : List (String × Sx)),
    arrayBuild rec st as acc = .ok (kvs, st') → T st st' := by
  intro as
  induction as with
  | nil => intro st st' acc kvs h; unfold arrayBuild at h; opt_tac h
  | cons a as ih => intro st st' acc kvs h; unfold arrayBuild at h; opt_tac h

theorem evalArrKey_T (st st' : St) (a k : Sx) (r : Nat) (ks : String)
    (h : evalArrKey rec st a k = .ok (r, ks, st')) : T st st' := by
  unfold evalArrKey at h
  simp only [bind, Except.bind, pure, Except.pure] at h
  repeat' (split at h)
  all_goals try (simp at h; done)
  all_goals (simp only [Except.ok.injEq, Prod.mk.injEq] at h; obtain ⟨_, _, hst⟩ := h; subst hst)
  all_goals grind [T.refl, T.trans]

theorem opArray_T (st st' : St) (args : List Sx) (v : Sx) (h : opArray rec st args = .ok (v, st')) : T st st' := by
  have hl := arrayBuild_T rec hr
  unfold opArray at h
  opt_tac h

theorem opSeta_T (st st' : St) (args : List Sx) (v : Sx) (h : opSeta rec st args = .ok (v, st')) : T st st' := by
  have hl := evalArrKey_T rec hr
  unfold opSeta at h
  opt_tac h

theorem opGeta_T (st st' : St) (args : List Sx) (v : Sx) (h : opGeta rec st args = .ok (v, st')) : T st st' := by
  have hl := evalArrKey_T rec hr
  unfold opGeta at h
  opt_tac h

theorem opDela_T (st st' : St) (args : List Sx) (v : Sx) (h : opDela rec st args = .ok (v, st')) : T st st' := by
  have hl := evalArrKey_T rec hr
  unfold opDela at h
  opt_tac h

omit hr in
theorem doStepNamed_T (st st' : St) (t : Sx) (k : Int) (e : List String)
    (h : doStepNamed st t k = .ok (st', e)) : T st st' := by
  have hs := step_tids
  unfold doStepNamed at h
  repeat' (split at h)
  all_goals try (simp at h; done)
  simp only [Except.ok.injEq, Prod.mk.injEq] at h
  obtain ⟨hst, _⟩ := h
  subst hst
  grind

omit hr in
theorem stepTids_T (k : Int) : ∀ (ts : List Sx) (st st' : St) (acc e : List String),
    stepTids k st ts acc = .ok (st', e) → T st st' := by
  have hd := doStepNamed_T
  intro ts
  induction ts with
  | nil =>
    intro st st' acc e h; unfold stepTids at h
    simp only [Except.ok.injEq, Prod.mk.injEq] at h; obtain ⟨hst, _⟩ := h; subst hst; exact T.refl _
  | cons a as ih =>
    intro st st' acc e h; unfold stepTids at h
    simp only [bind, Except.bind] at h
    repeat' (split at h)
    all_goals try (simp at h; done)
    grind [T.refl, T.trans]

theorem opStep_T (st st' : St) (args : List Sx) (v : Sx) (h : opStep rec st args = .ok (v, st')) : T st st' := by
  have hd := doStepNamed_T
  have hs := stepTids_T
  have hsa := stepAll_tids
  unfold opStep at h
  opt_tac h

theorem findLoop_T (c : Sx) (tid : String) : ∀ (k : Nat) (st st' : St) (acc found : List Int),
    findLoop rec c tid k st acc = .ok (found, st') → T st st' := by
  intro k
  induction k with
  | zero => intro st st' acc found h; unfold findLoop at h; simp at h
  | succ k ih =>
    intro st st' acc found h; unfold findLoop at h
    simp only [bind, Except.bind] at h
    repeat' (split at h)
    all_goals try (simp at h; done)
    all_goals first
      | exact ((hr _ _ _ _ ‹rec st c = Except.ok _›).trans (updTrace_step _ _ _ _ ‹_ = some _›)).trans (ih _ _ _ _ h)
      | (simp only [Except.ok.injEq, Prod.mk.injEq] at h; obtain ⟨_, hst⟩ := h; subst hst; exact hr _ _ _ _ ‹rec st c = Except.ok _›)

theorem findTraces_T (n : Nat) (c : Sx) : ∀ (tids : List String) (st st' : St) (acc found : List Int),
    findTraces n rec c st tids acc = .ok (found, st') → T st st' := by
  have hl := findLoop_T rec hr
  intro tids
  induction tids with
  | nil => intro st st' acc found h; unfold findTraces at h; opt_tac h
  | cons a as ih =>
    intro st st' acc found h; unfold findTraces at h
    simp only [bind, Except.bind] at h
    repeat' (split at h)
    all_goals try (simp at h; done)
    exact ((hl _ _ _ _ _ _ _ ‹findLoop rec c _ n st acc = Except.ok _›).trans (updTrace_index _ _ _)).trans (ih _ _ _ _ h)

theorem opFind_T (n : Nat) (st st' : St) (args : List Sx) (v : Sx) (h : opFind n rec st args = .ok (v, st')) : T st st' := by
  have hl := findTraces_T rec hr
  unfold opFind at h
  opt_tac h

theorem scanLoop_T {α : Type} (c : Sx) (onHit : St → α → Except Err (α × St))
    (ho : ∀ s a a' s', onHit s a = .ok (a', s') → T s s') : ∀ (k : Nat) (st st' : St) (acc res : α),
    scanLoop rec c onHit k st acc = .ok (res, st') → T st st' := by
  intro k
  induction k with
  | zero => intro st st' acc res h; unfold scanLoop at h; simp at h
  | succ k ih => intro st st' acc res h; unfold scanLoop at h; have hsa := stepAll_tids; opt_tac h

omit hr in
theorem restorePrev_T (st st' : St) (prev : List (String × Int)) (h : restorePrev st prev = .ok st') : T st st' := by
  unfold restorePrev at h
  split at h
  · simp only [Except.ok.injEq] at h; subst h; exact setIndices_tids _ _
  · simp at h

theorem opFindG_T (n : Nat) (st st' : St) (args : List Sx) (v : Sx) (h : opFindG n rec st args = .ok (v, st')) : T st st' := by
  have hp := restorePrev_T
  unfold opFindG at h
  simp only [bind, Except.bind, pure, Except.pure] at h
  repeat' (split at h)
  all_goals try (simp at h; done)
  simp only [Except.ok.injEq, Prod.mk.injEq] at h; obtain ⟨_, hst⟩ := h; subst hst
  rename_i hs _ _ _ _
  have hs' := scanLoop_T rec hr _ _ (fun s a a' s' hh => by
    repeat' (split at hh)
    all_goals try (simp at hh; done)
    all_goals (simp only [St.newArr, Except.ok.injEq, Prod.mk.injEq] at hh; obtain ⟨_, hst⟩ := hh; subst hst; exact T.refl _)) _ _ _ _ _ hs
  grind [T.refl, T.trans]

theorem wheneverBody_T (body : List Sx) (s s' : St) (a a' : Sx) (h : wheneverBody rec body s a = .ok (a', s')) : T s s' := by
  have hl := evalList_T rec hr
  unfold wheneverBody at h
  opt_tac h

theorem opWhenever_T (n : Nat) (st st' : St) (args : List Sx) (v : Sx) (h : opWhenever n rec st args = .ok (v, st')) : T st st' := by
  have hp := restorePrev_T
  have hs := fun c body => scanLoop_T rec hr c (wheneverBody rec body) (fun s a a' s' hh => wheneverBody_T rec hr body s s' a a' hh)
  unfold opWhenever at h
  opt_tac h

theorem opEval_T (n : Nat) (st st' : St) (args : List Sx) (v : Sx) (h : opEval n rec st args = .ok (v, st')) : T st st' := by
  have he := (expand_T rec hr (some 0) n).1
  unfold opEval at h
  opt_tac h

theorem opMacroexpand_T (n : Nat) (st st' : St) (args : List Sx) (v : Sx)
    (h : opMacroexpand n rec st args = .ok (v, st')) : T st st' := by
  have he := fun p => (expand_T rec hr p n).1
  unfold opMacroexpand at h
  opt_tac h

theorem opDefmacro_T (n : Nat) (st st' : St) (args : List Sx) (v : Sx)
    (h : opDefmacro n rec st args = .ok (v, st')) : T st st' := by
  have he := (expand_T rec hr Option.none n).2
  have hd := defineIn_T
  unfold opDefmacro at h
  opt_tac h


end

/-! ## the restricted evaluator: `Bal.dispatchR` (no `set-scope` / `unset-scope`) without `unload` -/

def dispatchT (n : Nat) (rec : St → Sx → Res) (st : St) (o : Op) (args : List Sx) : Res :=
  match o with
  | .UNLOAD => .error (.unsupported "unload inside an evaluation")
  | o => Bal.dispatchR n rec st o args

theorem dispatchT_subR (n : Nat) (rec : St → Sx → Res) (st : St) (o : Op) (args : List Sx) (r : Sx × St)
    (h : dispatchT n rec st o args = .ok r) : Bal.dispatchR n rec st o args = .ok r := by
  unfold dispatchT at h
  split at h
  · simp at h
  · exact h

/-- one layer -/
def evalStepT (n : Nat) (rec : St → Sx → Res) (st : St) : Sx → Res
  | .list w (.op o :: tail) => dispatchT n rec st o tail
  | e => evalStep n rec st e

theorem evalStepT_subR (n : Nat) (rec : St → Sx → Res) (st : St) (e : Sx) (r : Sx × St)
    (h : evalStepT n rec st e = .ok r) : Bal.evalStepR n rec st e = .ok r := by
  unfold evalStepT at h
  split at h
  · simp only [Bal.evalStepR]; exact dispatchT_subR _ _ _ _ _ _ h
  · rename_i hne
    unfold Bal.evalStepR
    split
    · exact absurd rfl (hne _ _ _)
    · exact h

section
variable (rec : St → Sx → Res) (hrT : ∀ st e v st', rec st e = .ok (v, st') → T st st')
include hrT

theorem dispatchT_T (n : Nat) (st st' : St) (o : Op) (args : List Sx) (v : Sx)
    (h : dispatchT n rec st o args = .ok (v, st')) : T st st' := by
  cases o with
  | NOT => exact opNot_T rec hrT  _ _ _ _ h
  | EQ => exact opEq_T rec hrT false _ _ _ _ h
  | NEQ => exact opEq_T rec hrT true _ _ _ _ h
  | LARGER => exact opCmp_T rec hrT .gt _ _ _ _ h
  | SMALLER => exact opCmp_T rec hrT .lt _ _ _ _ h
  | LARGER_EQUAL => exact opCmp_T rec hrT .ge _ _ _ _ h
  | SMALLER_EQUAL => exact opCmp_T rec hrT .le _ _ _ _ h
  | AND => exact opAnd_T rec hrT  _ _ _ _ h
  | OR => exact opOr_T rec hrT  _ _ _ _ h
  | LET => exact opLet_T rec hrT  _ _ _ _ h
  | DEFINE => exact opDefine_T rec hrT  _ _ _ _ h
  | SET => exact opSet_T rec hrT  _ _ _ _ h
  | PRINT => exact opPrint_T rec hrT  _ _ _ _ h
  | PRINTF => simp [dispatchT, Bal.dispatchR, dispatch] at h
  | IF => exact opIf_T rec hrT  _ _ _ _ h
  | CASE => exact opCase_T rec hrT  _ _ _ _ h
  | DO => exact opDo_T rec hrT  _ _ _ _ h
  | WHILE => exact opWhile_T rec hrT n _ _ _ _ h
  | ALIAS => exact opAlias_T rec hrT  _ _ _ _ h
  | UNALIAS => exact opUnalias_T rec hrT  _ _ _ _ h
  | QUOTE => exact opQuote_T rec hrT  _ _ _ _ h
  | QUASIQUOTE => exact opQuasiquote_T rec hrT  _ _ _ _ h
  | UNQUOTE => simp [dispatchT, Bal.dispatchR, dispatch] at h
  | EVAL => exact opEval_T rec hrT n _ _ _ _ h
  | PARSE => simp [dispatchT, Bal.dispatchR, dispatch] at h
  | DEFMACRO => exact opDefmacro_T rec hrT n _ _ _ _ h
  | MACROEXPAND => exact opMacroexpand_T rec hrT n _ _ _ _ h
  | GENSYM => exact opGensym_T rec hrT  _ _ _ h
  | FN => exact opFn_T rec hrT  _ _ _ _ h
  | GET => exact opGet_T rec hrT  _ _ _ _ h
  | IMPORT => simp [dispatchT, Bal.dispatchR, dispatch] at h
  | CALL => simp [dispatchT, Bal.dispatchR, dispatch] at h
  | TYPE => exact opType_T rec hrT  _ _ _ _ h
  | REL_EVAL => exact opReval_T rec hrT  _ _ _ _ h
  | SCOPED => exact opScoped_T rec hrT  _ _ _ _ h
  | RESOLVE_SCOPE => exact opResolveScope_T rec hrT  _ _ _ _ h
  | ALLSCOPES => exact opAllScopes_T rec hrT  _ _ _ _ h
  | SETSCOPE => simp [dispatchT, Bal.dispatchR] at h
  | UNSETSCOPE => simp [dispatchT, Bal.dispatchR] at h
  | GROUPS => exact opGroups_T rec hrT  _ _ _ _ h
  | IN_GROUP => exact opInGroup_T rec hrT  _ _ _ _ h
  | IN_GROUPS => exact opInGroups_T rec hrT  _ _ _ _ h
  | RESOLVE_GROUP => exact opResolveGroup_T rec hrT  _ _ _ _ h
  | SLICE => exact opSlice_T rec hrT  _ _ _ _ h
  | LOADED_TRACES => exact opLoadedTraces_T rec hrT  _ _ _ _ h
  | EXIT => exact opExit_T rec hrT  _ _ _ _ h
  | ADD => exact opAdd_T rec hrT  _ _ _ _ h
  | SUB => exact opSub_T rec hrT  _ _ _ _ h
  | MUL => exact opMul_T rec hrT  _ _ _ _ h
  | DIV => exact opDiv_T rec hrT  _ _ _ _ h
  | EXP => exact opExp_T rec hrT  _ _ _ _ h
  | FLOOR => exact opRoundLike_T rec hrT  _ _ _ _ h
  | CEIL => exact opRoundLike_T rec hrT  _ _ _ _ h
  | ROUND => exact opRoundLike_T rec hrT  _ _ _ _ h
  | MOD => exact opMod_T rec hrT  _ _ _ _ h
  | BOR => exact opBitwise_T rec hrT intLor (· || ·) _ _ _ _ h
  | BAND => exact opBitwise_T rec hrT intLand (· && ·) _ _ _ _ h
  | BXOR => exact opBitwise_T rec hrT intXor (fun a b => a != b) _ _ _ _ h
  | IS_DEFINED => exact opIsDefined_T rec hrT  _ _ _ _ h
  | IS_ATOM => exact opAllPred_T rec hrT isAtomVal _ _ _ _ h
  | IS_SYMBOL => exact opAllPred_T rec hrT isSym _ _ _ _ h
  | IS_STRING => exact opAllPred_T rec hrT isStr _ _ _ _ h
  | IS_INT => exact opAllPred_T rec hrT isIntLike _ _ _ _ h
  | IS_LIST => exact opAllPred_T rec hrT isList _ _ _ _ h
  | CONVERT_BINARY => exact opConvertBin_T rec hrT  _ _ _ _ h
  | STRING_TO_INT => exact opStringToInt_T rec hrT  _ _ _ _ h
  | BITS_TO_SINT => exact opBitsToSint_T rec hrT  _ _ _ _ h
  | STRING_TO_SYMBOL => exact opStringToSymbol_T rec hrT  _ _ _ _ h
  | SYMBOL_TO_STRING => exact opSymbolToString_T rec hrT  _ _ _ _ h
  | INT_TO_STRING => exact opIntToString_T rec hrT  _ _ _ _ h
  | LIST => exact opList_T rec hrT  _ _ _ _ h
  | FIRST => exact opListAccess_T rec hrT selFirst _ _ _ _ h
  | SECOND => exact opListAccess_T rec hrT selSecond _ _ _ _ h
  | LAST => exact opListAccess_T rec hrT selLast _ _ _ _ h
  | REST => exact opListAccess_T rec hrT selRest _ _ _ _ h
  | IN => exact opIn_T rec hrT  _ _ _ _ h
  | MAP => exact opMap_T rec hrT  _ _ _ _ h
  | MAX => exact opMaxMin_T rec hrT true _ _ _ _ h
  | MIN => exact opMaxMin_T rec hrT false _ _ _ _ h
  | FOLD => exact opFold_T rec hrT  _ _ _ _ h
  | LENGTH => exact opLength_T rec hrT  _ _ _ _ h
  | AVERAGE => exact opAverage_T rec hrT  _ _ _ _ h
  | ZIP => exact opZip_T rec hrT  _ _ _ _ h
  | RANGE => exact opRange_T rec hrT  _ _ _ _ h
  | ARRAY => exact opArray_T rec hrT  _ _ _ _ h
  | SETA => exact opSeta_T rec hrT  _ _ _ _ h
  | GETA => exact opGeta_T rec hrT  _ _ _ _ h
  | DELA => exact opDela_T rec hrT  _ _ _ _ h
  | MAPA => exact opMapa_T rec hrT  _ _ _ _ h
  | LOAD => simp [dispatchT, Bal.dispatchR, dispatch] at h
  | UNLOAD => simp [dispatchT, Bal.dispatchR] at h
  | STEP => exact opStep_T rec hrT  _ _ _ _ h
  | REPL => simp [dispatchT, Bal.dispatchR, dispatch] at h
  | IS_SIGNAL => exact opIsSignal_T rec hrT  _ _ _ _ h
  | REQUIRE => simp [dispatchT, Bal.dispatchR, dispatch] at h
  | EVAL_FILE => simp [dispatchT, Bal.dispatchR, dispatch] at h
  | FIND => exact opFind_T rec hrT n _ _ _ _ h
  | FIND_G => exact opFindG_T rec hrT n _ _ _ _ h
  | WHENEVER => exact opWhenever_T rec hrT n _ _ _ _ h
  | FOLD_SIGNAL => simp [dispatchT, Bal.dispatchR, dispatch] at h
  | SIGNAL_WIDTH => exact opSignalWidth_T rec hrT  _ _ _ _ h
  | SAMPLE_AT => exact opSampleAt_T rec hrT  _ _ _ _ h
  | TRIM_TRACE => exact opTrimTrace_T rec hrT  _ _ _ _ h
  | DEFSIG => exact opDefsig_T rec hrT  _ _ _ _ h
  | NEWTRACE => simp [dispatchT, Bal.dispatchR, dispatch] at h
  | DUMPTRACE => simp [dispatchT, Bal.dispatchR, dispatch] at h

theorem evalStepT_T (n : Nat) (st st' : St) (e v : Sx) (h : evalStepT n rec st e = .ok (v, st')) : T st st' := by
  have hs := evalSym_T rec hrT
  have hc := evalClosure_T rec hrT
  have hd := dispatchT_T rec hrT
  unfold evalStepT at h
  split at h
  · exact hd _ _ _ _ _ _ h
  · rename_i hne
    unfold evalStep at h
    repeat' (split at h)
    all_goals try (simp at h; done)
    all_goals try (exact absurd rfl (hne _ _ _))
    all_goals opt_tac h

end

/-- the restricted evaluator -/
def evalT : Nat → St → Sx → Res
  | 0, _, _ => .error .fuel
  | n + 1, st, e => evalStepT n (evalT n) st e

/-- **every evaluation that completes without executing `unload` (and `set-scope` / `unset-scope`) keeps the loaded
traces: the list of trace ids afterwards is the list before** -/
theorem evalT_T : ∀ (n : Nat) (st : St) (e v : Sx) (st' : St), evalT n st e = .ok (v, st') → T st st' := by
  intro n
  induction n with
  | zero => intro st e v st' h; simp [evalT] at h
  | succ n ih => intro st e v st' h; exact evalStepT_T (evalT n) ih n st st' e v h

/-- … and leaves the captured scope, the captured group and the stack of saved positions as they were -/
theorem evalT_B : ∀ (n : Nat) (st : St) (e v : Sx) (st' : St), evalT n st e = .ok (v, st') → Bal.B st st' := by
  intro n
  induction n with
  | zero => intro st e v st' h; simp [evalT] at h
  | succ n ih => intro st e v st' h; exact Bal.evalStepR_B (evalT n) ih n st st' e v (evalStepT_subR _ _ _ _ _ h)

/-- whatever the restricted evaluator completes, the evaluator completes with the same value and state -/
theorem evalT_sub : ∀ (n : Nat) (st : St) (e : Sx) (r : Sx × St), evalT n st e = .ok r → eval n st e = .ok r := by
  intro n
  induction n with
  | zero => intro st e r h; simp [evalT] at h
  | succ n ih =>
    intro st e r h
    simp only [evalT] at h
    simp only [eval]
    exact Mono.evalStep_mono (evalT n) (eval n) ih n n (Nat.le_refl n) st e r
      (Bal.evalStepR_sub _ _ _ _ _ (evalStepT_subR _ _ _ _ _ h))

/-- the pipeline over the restricted evaluator -/
def walEvalT (m : Mode) (n : Nat) (st : St) (e : Sx) : Res := do
  let (ex, st1) ← (if m.expand then expand (evalT n) (some 0) n st e else pure (e, st))
  let opt := if m.optimize then optimize ex else ex
  let res ← (if m.resolve then ofOpt (resolve st1.globalNames opt) (errA "resolve: symbol already defined") else pure opt)
  evalT n st1 res

/-- the whole pipeline keeps the loaded traces -/
theorem walEvalT_T (m : Mode) (n : Nat) (st st' : St) (e v : Sx) (h : walEvalT m n st e = .ok (v, st')) : T st st' := by
  have hr := evalT_T n
  have he := (expand_T (evalT n) hr (some 0) n).1
  unfold walEvalT at h
  opt_tac h

end Wal.Tid
