import Wal.Lemmas.Opt
import Wal.Lemmas.SxEq
import Wal.Props.C08
/-!
# The optimisation pass preserves every evaluation of the restricted evaluator `evalF`

`evalF` is `eval` with dynamic checks that exclude: `fn` / `defsig` / `defmacro` / `groups` / `array` forms whose
operands the pass would rewrite (their operands are stored or read as syntax), `reval` / `all-scopes` whose expression
operand is not an expression form after the pass, constant products with a non-integer factor (`1 * x = x` on
floats is IEEE, not provable here), and an operator obtained as a *value* in head position. Everything `evalF`
completes, `eval` completes with the same result (`evalF_sub`); `optimize_preserves`: it also completes, with the same
value and state and **the same fuel**, on the optimised expression.
-/
namespace Wal.Opt
open Wal

def fixedArgs (args : List Sx) : Bool := sxEqL (optList args) args

theorem fixedArgs_eq {args : List Sx} (h : fixedArgs args = true) : optList args = args := sxEqL_sound _ _ h

def isIntLit : Sx → Bool
  | .int _ => true
  | _ => false

def dispatchF (n : Nat) (rec : St → Sx → Res) (st : St) (o : Op) (args : List Sx) : Res :=
  if genericOp o then
    match o, args with
    | .REL_EVAL, e :: _ | .ALLSCOPES, e :: _ =>
      if revalArgOk (optimize e) then dispatch n rec st o args
      else .error (.unsupported "operand is not an expression form after the pass")
    | .MUL, _ =>
      if (optList args).all isNum && !(optList args).all isIntLit then
        .error (.unsupported "constant product with a float or boolean factor")
      else dispatch n rec st o args
    | _, _ => dispatch n rec st o args
  else
    match o with
    | .QUOTE | .QUASIQUOTE | .AND | .OR | .CASE | .GROUPS => dispatch n rec st o args
    | _ => if fixedArgs args then dispatch n rec st o args
           else .error (.unsupported "stored or syntactic operands that the pass rewrites")

theorem dispatchF_sub (n : Nat) (rec : St → Sx → Res) (st : St) (o : Op) (args : List Sx) (r : Sx × St)
    (h : dispatchF n rec st o args = .ok r) : dispatch n rec st o args = .ok r := by
  unfold dispatchF at h
  repeat' (split at h)
  all_goals first | exact h | (simp at h; done)

def isOpVal : Sx → Bool
  | .op _ => true
  | _ => false

def evalStepF (n : Nat) (rec : St → Sx → Res) (st : St) : Sx → Res
  | .list _ (.op o :: tail) => dispatchF n rec st o tail
  | .list w (.sym nm k :: tail) => do
      let (f, st1) ← rec st (.sym nm k)
      if isOpVal f then .error (.unsupported "operator obtained as a value in head position")
      else rec st1 (.list false (f :: tail))
  | .list w (.list w' xs :: tail) => do
      let (f, st1) ← rec st (.list w' xs)
      if isOpVal f then .error (.unsupported "operator obtained as a value in head position")
      else rec st1 (.list false (f :: tail))
  | e => evalStep n rec st e

theorem evalStepF_sub (n : Nat) (rec : St → Sx → Res) (st : St) (e : Sx) (r : Sx × St)
    (h : evalStepF n rec st e = .ok r) : evalStep n rec st e = .ok r := by
  unfold evalStepF at h
  split at h
  · simp only [evalStep]; exact dispatchF_sub _ _ _ _ _ _ h
  · simp only [evalStep, bind, Except.bind] at h ⊢
    repeat' (split at h)
    all_goals try (simp at h; done)
    all_goals simp_all
  · simp only [evalStep, bind, Except.bind] at h ⊢
    repeat' (split at h)
    all_goals try (simp at h; done)
    all_goals simp_all
  · exact h

def evalF : Nat → St → Sx → Res
  | 0, _, _ => .error .fuel
  | n + 1, st, e => evalStepF n (evalF n) st e

theorem evalF_sub : ∀ (n : Nat) (st : St) (e : Sx) (r : Sx × St), evalF n st e = .ok r → eval n st e = .ok r := by
  intro n
  induction n with
  | zero => intro st e r h; simp [evalF] at h
  | succ n ih =>
    intro st e r h
    simp only [evalF] at h
    simp only [eval]
    exact Mono.evalStep_mono (evalF n) (eval n) ih n n (Nat.le_refl n) st e r (evalStepF_sub _ _ _ _ _ h)

/-! ## shape of `optimize` on operator forms -/

def rewritten : Op → Bool
  | .IF | .DO | .ADD | .MUL | .AND | .OR | .CASE | .QUOTE | .QUASIQUOTE | .GROUPS => true
  | _ => false

theorem optimize_plain (o : Op) (ho : rewritten o = false) (w : Bool) (args : List Sx) :
    optimize (.list w (.op o :: args)) = if !w then .list w (.op o :: args) else .list true (.op o :: optList args) := by
  cases o <;> simp [rewritten] at ho <;> simp [optimize]

theorem eval_op_err (n : Nat) (st : St) (o : Op) (r : Sx × St) : eval n st (.op o) ≠ .ok r := by
  cases n <;> simp [eval, evalStep]

theorem eval_lit (n : Nat) (st : St) (c : Sx) (hc : isLit c = true) : eval (n + 1) st c = .ok (c, st) :=
  C08.evalStep_lit n (eval n) st c hc

theorem eval_list_op (n : Nat) (st : St) (w : Bool) (o : Op) (args : List Sx) :
    eval (n + 1) st (.list w (.op o :: args)) = dispatch n (eval n) st o args := by
  simp [eval, evalStep]

theorem evalF_lit (m : Nat) : C08.LitSelf (evalF (m + 1)) := by
  intro st c hc
  cases c <;> simp [isLit] at hc <;> rfl

theorem eval_litself (m : Nat) : C08.LitSelf (eval (m + 1)) := fun st c hc => eval_lit m st c hc

theorem eval_up (n : Nat) (st : St) (e : Sx) (r : Sx × St) (h : eval n st e = .ok r) : eval (n + 1) st e = .ok r :=
  Mono.eval_mono n st e r h

theorem same_case (n : Nat) (st : St) (w : Bool) (o : Op) (args : List Sx) (r : Sx × St)
    (h : dispatchF n (evalF n) st o args = .ok r) :
    eval (n + 1) st (.list w (.op o :: args)) = .ok r := by
  rw [eval_list_op]
  exact Mono.dispatch_mono (evalF n) (eval n) (evalF_sub n) n n (Nat.le_refl n) st o args r (dispatchF_sub _ _ _ _ _ _ h)

theorem fixed_case (n : Nat) (st : St) (w : Bool) (o : Op) (args : List Sx) (r : Sx × St)
    (hg : genericOp o = false) (hr : rewritten o = false)
    (h : dispatchF n (evalF n) st o args = .ok r) :
    eval (n + 1) st (optimize (.list w (.op o :: args))) = .ok r := by
  have hfix : optList args = args := by
    unfold dispatchF at h
    simp only [hg, Bool.false_eq_true, if_false] at h
    split at h
    · simp [rewritten] at hr
    · simp [rewritten] at hr
    · simp [rewritten] at hr
    · simp [rewritten] at hr
    · simp [rewritten] at hr
    · simp [rewritten] at hr
    · split at h
      · rename_i hf; exact fixedArgs_eq hf
      · simp at h
  rw [optimize_plain o hr, hfix]
  cases w <;> simp <;> exact same_case n st _ o args r h

theorem pySumFloat_lit : ∀ (l : List Sx) (f c : Float) (v : Sx), pySumFloat f c l = some v → isLit v = true := by
  intro l
  induction l with
  | nil => intro f c v h; simp [pySumFloat] at h; subst h; rfl
  | cons x r ih =>
    intro f c v h
    unfold pySumFloat at h
    split at h
    · exact ih _ _ _ h
    · split at h
      · exact ih _ _ _ h
      · simp at h

theorem pySumInt_lit : ∀ (l : List Sx) (acc : Int) (v : Sx), pySumInt acc l = some v → isLit v = true := by
  intro l
  induction l with
  | nil => intro acc v h; simp [pySumInt] at h; subst h; rfl
  | cons x r ih =>
    intro acc v h
    unfold pySumInt at h
    split at h
    · exact ih _ _ h
    · split at h
      · exact pySumFloat_lit _ _ _ _ h
      · simp at h

theorem pySum_lit (l : List Sx) (v : Sx) (h : pySum? l = some v) : isLit v = true := pySumInt_lit l 0 v h

theorem intLits_map : ∀ (l : List Sx), l.all isIntLit = true → ∃ is : List Int, l = is.map .int := by
  intro l
  induction l with
  | nil => intro _; exact ⟨[], rfl⟩
  | cons a r ih =>
    intro h
    simp only [List.all_cons, Bool.and_eq_true] at h
    obtain ⟨is, rfl⟩ := ih h.2
    cases a <;> simp [isIntLit] at h
    rename_i i
    exact ⟨i :: is, rfl⟩

theorem mulFold_int : ∀ (is : List Int) (x : Int), ∃ z, numFold? .mul (.int x) (is.map .int) = some (.int z) := by
  intro is
  induction is with
  | nil => intro x; exact ⟨x, rfl⟩
  | cons a r ih =>
    intro x
    obtain ⟨z, hz⟩ := ih (x * a)
    refine ⟨z, ?_⟩
    simpa [numFold?, numBin?, asInt?, NumOp.onInt] using hz

section
variable (n : Nat)
  (IH1 : ∀ st e r, evalF n st e = .ok r → eval n st (optimize e) = .ok r)
include IH1

theorem generic_case (st : St) (w : Bool) (o : Op) (args : List Sx) (r : Sx × St)
    (hg : genericOp o = true) (hr : rewritten o = false)
    (h : dispatchF n (evalF n) st o args = .ok r) :
    eval (n + 1) st (optimize (.list w (.op o :: args))) = .ok r := by
  rw [optimize_plain o hr]
  cases w with
  | false => simp only [Bool.not_false, if_true]; rw [eval_list_op]; exact Mono.dispatch_mono (evalF n) (eval n) (evalF_sub n) n n (Nat.le_refl n) st o args r (dispatchF_sub _ _ _ _ _ _ h)
  | true =>
    simp only [Bool.not_true, Bool.false_eq_true, if_false]
    rw [eval_list_op]
    have hrev : ∀ e rest, args = e :: rest → (o = .REL_EVAL ∨ o = .ALLSCOPES) → revalArgOk (optimize e) = true := by
      intro e rest he ho
      subst he
      unfold dispatchF at h
      simp only [hg, if_true] at h
      rcases ho with rfl | rfl <;> (simp only at h; split at h <;> first | assumption | (simp at h; done))
    exact dispatch_cong (evalF n) (eval n) (evalF_sub n) IH1 (eval_op_err n) n st o args r hg hrev (dispatchF_sub _ _ _ _ _ _ h)

theorem if_case (st : St) (args : List Sx) (r : Sx × St)
    (h : dispatchF n (evalF n) st .IF args = .ok r) :
    eval (n + 1) st (optimize (.list true (.op .IF :: args))) = .ok r := by
  have hc : opIf (eval n) st (optList args) = .ok r :=
    opIf_cong (evalF n) (eval n) (evalF_sub n) IH1 st args r (dispatchF_sub _ _ _ _ _ _ h)
  have hform : eval (n + 1) st (.list true (.op .IF :: optList args)) = .ok r := by
    rw [eval_list_op]; exact hc
  cases n with
  | zero =>
    exfalso
    unfold opIf at hc
    split at hc <;> simp [eval, bind, Except.bind] at hc
  | succ m =>
    have hl := eval_litself m
    simp only [optimize, Bool.not_true, Bool.false_eq_true, if_false]
    generalize optList args = args' at hc hform ⊢
    match args' with
    | [] => simpa using hform
    | [c] => simp only []; repeat' split
             all_goals first | exact hform | (simp [opIf] at hc)
    | [c, a] =>
      by_cases hcl : isLit c = true
      · by_cases ht : truthy c = true
        · simp only [hcl, ht, if_true]
          rw [C08.if_rule2 (eval (m + 1)) hl st c a hcl ht] at hc
          exact eval_up (m + 1) st a r hc
        · simp only [hcl, ht, if_true, Bool.false_eq_true, if_false]
          exact hform
      · simp only [hcl, Bool.false_eq_true, if_false]; exact hform
    | [c, a, b] =>
      by_cases hcl : isLit c = true
      · rw [C08.if_rule3 (eval (m + 1)) hl st c a b hcl] at hc
        by_cases ht : truthy c = true
        · simp only [hcl, ht, if_true] at hc ⊢; exact eval_up (m + 1) st a r hc
        · simp only [hcl, ht, if_true, Bool.false_eq_true, if_false] at hc ⊢; exact eval_up (m + 1) st b r hc
      · simp only [hcl, Bool.false_eq_true, if_false]; exact hform
    | c :: a :: b :: d :: rest => simp [opIf] at hc

theorem do_case (st : St) (args : List Sx) (r : Sx × St)
    (h : dispatchF n (evalF n) st .DO args = .ok r) :
    eval (n + 1) st (optimize (.list true (.op .DO :: args))) = .ok r := by
  have hc : opDo (eval n) st (optList args) = .ok r :=
    opDo_cong (evalF n) (eval n) (evalF_sub n) IH1 st args r (dispatchF_sub _ _ _ _ _ _ h)
  simp only [optimize, Bool.not_true, Bool.false_eq_true, if_false]
  generalize optList args = args' at hc ⊢
  match args' with
  | [a'] =>
    simp only
    rw [C08.do_rule] at hc
    exact eval_up n st a' r hc
  | [] => simp only; rw [eval_list_op]; exact hc
  | a :: b :: rest => simp only; rw [eval_list_op]; exact hc

theorem add_case (st : St) (args : List Sx) (r : Sx × St)
    (h : dispatchF n (evalF n) st .ADD args = .ok r) :
    eval (n + 1) st (optimize (.list true (.op .ADD :: args))) = .ok r := by
  have hc : opAdd (eval n) st (optList args) = .ok r :=
    opAdd_cong (evalF n) (eval n) (evalF_sub n) IH1 st args r (dispatchF_sub _ _ _ _ _ _ h)
  have hform : eval (n + 1) st (.list true (.op .ADD :: optList args)) = .ok r := by
    rw [eval_list_op]; exact hc
  simp only [optimize, Bool.not_true, Bool.false_eq_true, if_false]
  generalize optList args = args' at hc hform ⊢
  cases args' with
  | nil =>
    simp [opAdd, evalList, bind, Except.bind, pure, Except.pure, pySum?, pySumInt, isNum, isList, isStr] at hc
    simp [pySum?, pySumInt]
    rw [← hc]; exact eval_lit n st (.int 0) rfl
  | cons a0 rest0 =>
    cases n with
    | zero => exfalso; simp [opAdd, evalList, eval, bind, Except.bind] at hc
    | succ m =>
      have hl := eval_litself m
      generalize a0 :: rest0 = args' at hc hform ⊢
      by_cases hn : args'.all isNum = true
      · simp only [hn, if_true]
        cases hv : pySum? args' with
        | none => simp only; exact hform
        | some v =>
          simp only
          rw [C08.add_rule_num (eval (m + 1)) hl st args' v hn hv] at hc
          rw [← Except.ok.inj hc]
          exact eval_lit (m + 1) st v (pySum_lit args' v hv)
      · simp only [hn, Bool.false_eq_true, if_false]
        cases hs : allStrs? args' with
        | none => simp only; exact hform
        | some ss =>
          simp only
          have hargs := C08.strs_spec args' ss hs
          subst hargs
          cases ss with
          | nil => simp at hn
          | cons x xs =>
            rw [C08.add_rule_str (eval (m + 1)) hl st x xs] at hc
            rw [← Except.ok.inj hc]
            exact eval_lit (m + 1) st _ rfl

theorem mul_case (st : St) (args : List Sx) (r : Sx × St)
    (h : dispatchF n (evalF n) st .MUL args = .ok r) :
    eval (n + 1) st (optimize (.list true (.op .MUL :: args))) = .ok r := by
  have hc : opMul (eval n) st (optList args) = .ok r :=
    opMul_cong (evalF n) (eval n) (evalF_sub n) IH1 st args r (dispatchF_sub _ _ _ _ _ _ h)
  have hform : eval (n + 1) st (.list true (.op .MUL :: optList args)) = .ok r := by
    rw [eval_list_op]; exact hc
  have hints : (optList args).all isNum = true → (optList args).all isIntLit = true := by
    intro hn
    unfold dispatchF at h
    simp only [genericOp, if_true] at h
    split at h
    · simp at h
    · rename_i hcond
      simp only [hn, Bool.true_and, Bool.not_eq_true', Bool.not_eq_false] at hcond
      cases hq : (optList args).all isIntLit with
      | true => rfl
      | false => simp [hq] at hcond
  simp only [optimize, Bool.not_true, Bool.false_eq_true, if_false]
  generalize optList args = args' at hc hform hints ⊢
  by_cases hn : args'.all isNum = true
  · simp only [hn, if_true]
    obtain ⟨is, rfl⟩ := intLits_map args' (hints hn)
    match is with
    | [] => simp [opMul, evalList, bind, Except.bind, pure, Except.pure] at hc
    | [x] =>
      exfalso
      unfold opMul at hc
      simp only [bind, Except.bind] at hc
      split at hc
      · simp at hc
      · rename_i v hv
        cases n with
        | zero => simp [evalList, eval, bind, Except.bind] at hv
        | succ m =>
          have := C08.evalList_lits (eval (m + 1)) (eval_litself m) st ([x].map Sx.int) (by simp [isLit])
          rw [this] at hv
          simp at hv; subst hv
          simp [isNum] at hc
    | x :: y :: rest =>
      cases n with
      | zero => exfalso; simp [opMul, evalList, eval, bind, Except.bind] at hc
      | succ m =>
        obtain ⟨z, hz⟩ := mulFold_int (x :: y :: rest) 1
        simp only [hz]
        rw [C08.mul_rule_int_partial (eval (m + 1)) (eval_litself m) st x y rest (.int z) hz] at hc
        rw [← Except.ok.inj hc]
        exact eval_lit (m + 1) st (.int z) rfl
  · simp only [hn, Bool.false_eq_true, if_false]; exact hform

omit IH1 in
theorem and_case (st : St) (w : Bool) (args : List Sx) (r : Sx × St)
    (h : dispatchF n (evalF n) st .AND args = .ok r) :
    eval (n + 1) st (optimize (.list w (.op .AND :: args))) = .ok r := by
  have hd : opAnd (evalF n) st args = .ok r := dispatchF_sub _ _ _ _ _ _ h
  simp only [optimize]
  cases args with
  | nil => simp only; exact same_case n st w .AND [] r h
  | cons a rest =>
    simp only
    cases hf : andFold (a :: rest) with
    | none => simp only; exact same_case n st w .AND _ r h
    | some b =>
      simp only
      cases n with
      | zero => exfalso; simp [opAnd, andLoop, evalF, bind, Except.bind] at hd
      | succ m =>
        rw [C08.and_rule (evalF (m + 1)) (evalF_lit m) st a rest b hf] at hd
        rw [← Except.ok.inj hd]
        exact eval_lit (m + 1) st (.bool b) rfl

omit IH1 in
theorem or_case (st : St) (w : Bool) (args : List Sx) (r : Sx × St)
    (h : dispatchF n (evalF n) st .OR args = .ok r) :
    eval (n + 1) st (optimize (.list w (.op .OR :: args))) = .ok r := by
  have hd : opOr (evalF n) st args = .ok r := dispatchF_sub _ _ _ _ _ _ h
  simp only [optimize]
  cases args with
  | nil => simp only; exact same_case n st w .OR [] r h
  | cons a rest =>
    simp only
    cases hf : orFold (a :: rest) with
    | none => simp only; exact same_case n st w .OR _ r h
    | some b =>
      simp only
      cases n with
      | zero => exfalso; simp [opOr, orLoop, evalF, bind, Except.bind] at hd
      | succ m =>
        rw [C08.or_rule (evalF (m + 1)) (evalF_lit m) st a rest b hf] at hd
        rw [← Except.ok.inj hd]
        exact eval_lit (m + 1) st (.bool b) rfl

theorem case_case (st : St) (args : List Sx) (r : Sx × St)
    (h : dispatchF n (evalF n) st .CASE args = .ok r) :
    eval (n + 1) st (optimize (.list true (.op .CASE :: args))) = .ok r := by
  have hd : opCase (evalF n) st args = .ok r := dispatchF_sub _ _ _ _ _ _ h
  cases args with
  | nil => simp [opCase] at hd
  | cons kf clauses =>
    simp only [optimize, Bool.not_true, Bool.false_eq_true, if_false]
    rw [eval_list_op]
    exact opCase_cong (evalF n) (eval n) (evalF_sub n) IH1 st kf clauses r hd

/-- **(1) for operator forms** -/
theorem oplist_case (st : St) (w : Bool) (o : Op) (args : List Sx) (r : Sx × St)
    (h : dispatchF n (evalF n) st o args = .ok r) :
    eval (n + 1) st (optimize (.list w (.op o :: args))) = .ok r := by
  by_cases hr : rewritten o = true
  · cases w with
    | false =>
      cases o <;> simp [rewritten] at hr
      all_goals first
        | exact and_case n st false args r h
        | exact or_case n st false args r h
        | (simp [optimize]; exact same_case n st false _ args r h)
        | (cases args <;> simp [optimize] <;> exact same_case n st false _ _ r h)
    | true =>
      cases o <;> simp [rewritten] at hr
      all_goals first
        | exact and_case n st true args r h
        | exact or_case n st true args r h
        | exact if_case n IH1 st args r h
        | exact case_case n IH1 st args r h
        | exact do_case n IH1 st args r h
        | exact add_case n IH1 st args r h
        | exact mul_case n IH1 st args r h
        | (simp [optimize]; exact same_case n st true _ args r h)
  · have hr' : rewritten o = false := by cases hq : rewritten o <;> simp_all
    by_cases hg : genericOp o = true
    · exact generic_case n IH1 st w o args r hg hr' h
    · have hg' : genericOp o = false := by cases hq : genericOp o <;> simp_all
      exact fixed_case n st w o args r hg' hr' h

end

/-! ## the induction -/

/-- the two statements proved together by induction on the fuel -/
def Claim (n : Nat) : Prop :=
  (∀ st e r, evalF n st e = .ok r → eval n st (optimize e) = .ok r) ∧
  (∀ st f tail r, isOpVal f = false → evalF n st (.list false (f :: tail)) = .ok r →
      eval n st (.list false (f :: optList tail)) = .ok r)

theorem apply_step (n : Nat) (IH1 : ∀ st e r, evalF n st e = .ok r → eval n st (optimize e) = .ok r)
    (IH2 : ∀ st f tail r, isOpVal f = false → evalF n st (.list false (f :: tail)) = .ok r →
      eval n st (.list false (f :: optList tail)) = .ok r)
    (st : St) (w : Bool) (h h' : Sx) (args : List Sx) (r : Sx × St)
    (hh : ∀ st r, evalF n st h = .ok r → eval n st h' = .ok r)
    (hcomp : (∃ nm k, h = .sym nm k) ∨ (∃ w' xs, h = .list w' xs))
    (hF : evalStepF n (evalF n) st (.list w (h :: args)) = .ok r) :
    ∃ f st1, eval n st h' = .ok (f, st1) ∧ isOpVal f = false ∧ eval n st1 (.list false (f :: optList args)) = .ok r := by
  rcases hcomp with ⟨nm, k, rfl⟩ | ⟨w', xs, rfl⟩ <;>
  · simp only [evalStepF, bind, Except.bind] at hF
    split at hF
    · simp at hF
    · rename_i v hv
      obtain ⟨f, st1⟩ := v
      simp only at hF
      split at hF
      · simp at hF
      · rename_i hop
        have hop' : isOpVal f = false := by cases hq : isOpVal f <;> simp_all
        exact ⟨f, st1, hh _ _ hv, hop', IH2 _ _ _ _ hop' hF⟩

theorem eval_list_head (n : Nat) (st : St) (w : Bool) (h : Sx) (tail : List Sx)
    (hcomp : (∃ nm k, h = .sym nm k) ∨ (∃ w' xs, h = .list w' xs)) :
    eval (n + 1) st (.list w (h :: tail)) =
      (match eval n st h with
       | .error e => .error e
       | .ok (f, st1) => eval n st1 (.list false (f :: tail))) := by
  rcases hcomp with ⟨nm, k, rfl⟩ | ⟨w', xs, rfl⟩ <;>
  · simp only [eval, evalStep, bind, Except.bind]
    cases eval n st _ with
    | error e => rfl
    | ok p => obtain ⟨f, st1⟩ := p; rfl

theorem clo_apply_up (n : Nat) (st : St) (w : Bool) (a : Nat) (b c : Sx) (d : String) (args : List Sx) (r : Sx × St)
    (h : eval n st (.list false (.clo a b c d :: args)) = .ok r) :
    eval (n + 1) st (.list w (.clo a b c d :: args)) = .ok r := by
  cases n with
  | zero => simp [eval] at h
  | succ m =>
    simp only [eval, evalStep] at h ⊢
    exact Mono.evalClosure_mono (eval m) (eval (m + 1)) (Mono.eval_mono m) st _ args r h

theorem optimize_false_nonop (h : Sx) (args : List Sx) (hno : ∀ o, h ≠ .op o) :
    optimize (.list false (h :: args)) = .list false (h :: args) := by
  cases h <;> simp [optimize] <;> exact absurd rfl (hno _)

theorem optimize_true_nonop (h : Sx) (args : List Sx) (hno : ∀ o, h ≠ .op o) :
    optimize (.list true (h :: args)) = .list true (optimize h :: optList args) := by
  cases h <;> simp [optimize, optList] <;> exact absurd rfl (hno _)

theorem step1 (n : Nat) (hc : Claim n) (st : St) (e : Sx) (r : Sx × St)
    (hF : evalF (n + 1) st e = .ok r) : eval (n + 1) st (optimize e) = .ok r := by
  obtain ⟨IH1, IH2⟩ := hc
  have hsubF := evalF_sub (n + 1) st e r hF
  simp only [evalF] at hF
  by_cases hl : isList e = false
  · rw [C08.atom_untouched e hl]; exact hsubF
  · obtain ⟨w, xs, rfl⟩ : ∃ w xs, e = .list w xs := by
      cases e <;> simp [isList] at hl; exact ⟨_, _, rfl⟩
    cases xs with
    | nil =>
      have : optimize (.list w []) = .list w [] := by simp [optimize]
      rw [this]; exact hsubF
    | cons h args =>
      by_cases hop : ∃ o, h = .op o
      · obtain ⟨o, rfl⟩ := hop
        exact oplist_case n IH1 st w o args r (by simpa [evalStepF] using hF)
      · have hno : ∀ o, h ≠ .op o := fun o ho => hop ⟨o, ho⟩
        cases w with
        | false => rw [optimize_false_nonop h args hno]; exact hsubF
        | true =>
          rw [optimize_true_nonop h args hno]
          by_cases hcomp : (∃ nm k, h = .sym nm k) ∨ (∃ w' xs, h = .list w' xs)
          · obtain ⟨f, st1, h1, hopf, h2⟩ := apply_step n IH1 IH2 st true h (optimize h) args r
              (fun st r hh => IH1 _ _ _ hh) hcomp hF
            -- which constructor is the optimised head?
            cases hq : optimize h with
            | sym nm k =>
              rw [eval_list_head n st true _ _ (Or.inl ⟨nm, k, rfl⟩), ← hq, h1]; exact h2
            | list w' xs =>
              rw [eval_list_head n st true _ _ (Or.inr ⟨w', xs, rfl⟩), ← hq, h1]; exact h2
            | op o => rw [hq] at h1; exact absurd h1 (eval_op_err n st o _)
            | clo a b c d =>
              rw [hq] at h1
              cases n with
              | zero => simp [eval] at h1
              | succ m =>
                simp only [eval, evalStep, Except.ok.injEq, Prod.mk.injEq] at h1
                obtain ⟨rfl, rfl⟩ := h1
                exact clo_apply_up (m + 1) st true a b c d (optList args) r h2
            | int i =>
              exfalso; rw [hq] at h1
              cases n with
              | zero => simp [eval] at h1
              | succ m =>
                simp only [eval, evalStep, Except.ok.injEq, Prod.mk.injEq] at h1
                obtain ⟨rfl, rfl⟩ := h1
                cases m <;> simp [eval, evalStep] at h2
            | bool i =>
              exfalso; rw [hq] at h1
              cases n with
              | zero => simp [eval] at h1
              | succ m =>
                simp only [eval, evalStep, Except.ok.injEq, Prod.mk.injEq] at h1
                obtain ⟨rfl, rfl⟩ := h1
                cases m <;> simp [eval, evalStep] at h2
            | str i =>
              exfalso; rw [hq] at h1
              cases n with
              | zero => simp [eval] at h1
              | succ m =>
                simp only [eval, evalStep, Except.ok.injEq, Prod.mk.injEq] at h1
                obtain ⟨rfl, rfl⟩ := h1
                cases m <;> simp [eval, evalStep] at h2
            | flt i =>
              exfalso; rw [hq] at h1
              cases n with
              | zero => simp [eval] at h1
              | succ m =>
                simp only [eval, evalStep, Except.ok.injEq, Prod.mk.injEq] at h1
                obtain ⟨rfl, rfl⟩ := h1
                cases m <;> simp [eval, evalStep] at h2
            | none => exfalso; rw [hq] at h1; cases n <;> simp [eval, evalStep] at h1
            | unq x => exfalso; rw [hq] at h1; cases n <;> simp [eval, evalStep] at h1
            | unqs x => exfalso; rw [hq] at h1; cases n <;> simp [eval, evalStep] at h1
            | mac a b c => exfalso; rw [hq] at h1; cases n <;> simp [eval, evalStep] at h1
            | arr a => exfalso; rw [hq] at h1; cases n <;> simp [eval, evalStep] at h1
            | ty a => exfalso; rw [hq] at h1; cases n <;> simp [eval, evalStep] at h1
          · -- the head is a value already: only a closure can be applied
            cases h with
            | clo a b c d =>
              have hopt : optimize (.clo a b c d) = .clo a b c d := by simp [optimize]
              rw [hopt]
              simp only [evalStepF, evalStep] at hF
              simp only [eval, evalStep]
              exact evalClosure_cong (evalF n) (eval n) (evalF_sub n) IH1 st _ args r hF
            | sym nm k => exact absurd (Or.inl ⟨nm, k, rfl⟩) hcomp
            | list w' xs => exact absurd (Or.inr ⟨w', xs, rfl⟩) hcomp
            | op o => exact absurd rfl (hno o)
            | _ => simp [evalStepF, evalStep] at hF

theorem step2 (n : Nat) (hc : Claim n) (st : St) (f : Sx) (tail : List Sx) (r : Sx × St)
    (hopf : isOpVal f = false)
    (hF : evalF (n + 1) st (.list false (f :: tail)) = .ok r) :
    eval (n + 1) st (.list false (f :: optList tail)) = .ok r := by
  obtain ⟨IH1, IH2⟩ := hc
  simp only [evalF] at hF
  by_cases hcomp : (∃ nm k, f = .sym nm k) ∨ (∃ w' xs, f = .list w' xs)
  · obtain ⟨f2, st1, h1, _, h2⟩ := apply_step n IH1 IH2 st false f f tail r
      (fun st r hh => evalF_sub n _ _ _ hh) hcomp hF
    rw [eval_list_head n st false f _ hcomp, h1]; exact h2
  · cases f with
    | clo a b c d =>
      simp only [evalStepF, evalStep] at hF
      simp only [eval, evalStep]
      exact evalClosure_cong (evalF n) (eval n) (evalF_sub n) IH1 st _ tail r hF
    | sym nm k => exact absurd (Or.inl ⟨nm, k, rfl⟩) hcomp
    | list w' xs => exact absurd (Or.inr ⟨w', xs, rfl⟩) hcomp
    | op o => simp [isOpVal] at hopf
    | _ => simp [evalStepF, evalStep] at hF

theorem claim_all : ∀ (n : Nat), Claim n := by
  intro n
  induction n with
  | zero => exact ⟨fun st e r h => by simp [evalF] at h, fun st f tail r _ h => by simp [evalF] at h⟩
  | succ n ih => exact ⟨step1 n ih, step2 n ih⟩

/-- **the optimisation pass preserves every evaluation of the restricted evaluator**: same value, same state
(output, variables, trace positions), same fuel -/
theorem optimize_preserves (n : Nat) (st : St) (e : Sx) (r : Sx × St) (h : evalF n st e = .ok r) :
    eval n st e = .ok r ∧ eval n st (optimize e) = .ok r :=
  ⟨evalF_sub n st e r h, (claim_all n).1 st e r h⟩

/-- the evaluation the theorem speaks about, from a top-level form: macro expansion, then the restricted evaluator on
the expanded form (no optimisation, no static resolution) — used by the driver to report how many correspondence
cases fall under `optimize_preserves` -/
def walEvalF (n : Nat) (st : St) (e : Sx) : Res := do
  let (ex, st1) ← expand (eval n) (some 0) n st e
  evalF n st1 ex

end Wal.Opt
