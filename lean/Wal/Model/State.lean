import Wal.Model.Trace
import Wal.Model.Printer
import Wal.Model.Passes
/-!
# Interpreter state (`wal/eval.py::SEval`, `ast_defs.py::Environment`)

Frames and arrays live in heaps because the Python objects are shared and mutated in place.
-/
namespace Wal

structure Frame where
  vars : List (String × Sx) := []
  parent : Option Nat := Option.none
  deriving Repr, Inhabited

structure St where
  frames : Array Frame := #[{}]          -- frame 0 = global environment
  arrays : Array (List (String × Sx)) := #[]
  env : Nat := 0
  tc : Container := {}
  scope : String := ""
  group : String := ""
  aliases : List (String × String) := []
  gensym : Nat := 0
  out : List String := []                -- printed text, oldest first
  deriving Repr, Inhabited

abbrev Res := Except Err (Sx × St)
abbrev ResL := Except Err (List Sx × St)

def errA (m : String) : Err := .error m

/-! ## environments -/

def St.frame? (st : St) (i : Nat) : Option Frame := st.frames[i]?

/-- `Environment.is_defined(name)` from frame `i`: the frame that holds `name` -/
def St.findFrame (st : St) : Nat → Nat → String → Option Nat
  | 0, _, _ => Option.none
  | fuel + 1, i, x =>
    match st.frames[i]? with
    | Option.none => Option.none
    | some f => if assocHas f.vars x then some i else
      match f.parent with
      | some p => st.findFrame fuel p x
      | Option.none => Option.none

/-- chains are acyclic and shorter than the heap, so `frames.size + 1` steps suffice -/
def St.definedAt (st : St) (i : Nat) (x : String) : Option Nat := st.findFrame (st.frames.size + 1) i x

def St.readFrom (st : St) (i : Nat) (x : String) : Option Sx :=
  match st.definedAt i x with
  | some j => (st.frames[j]?).bind (fun f => f.vars.lookup x)
  | Option.none => Option.none

/-- `k` parents up from frame `i` -/
def St.hop (st : St) : Nat → Nat → Option Nat
  | i, 0 => some i
  | i, k + 1 => match st.frames[i]? with
    | some f => match f.parent with
      | some p => st.hop p k
      | Option.none => Option.none
    | Option.none => Option.none

def St.setVar (st : St) (j : Nat) (x : String) (v : Sx) : St :=
  match st.frames[j]? with
  | some f => { st with frames := st.frames.set! j { f with vars := assocSet f.vars x v } }
  | Option.none => st

/-- `Environment.define` in frame `j`; `none` = AssertionError (already defined) -/
def St.defineIn (st : St) (j : Nat) (x : String) (v : Sx) : Option St :=
  match st.frames[j]? with
  | some f => if assocHas f.vars x then Option.none else some (st.setVar j x v)
  | Option.none => Option.none

/-- `Environment.write` starting at frame `j`; `none` = AssertionError -/
def St.writeFrom (st : St) (j : Nat) (x : String) (v : Sx) : Option St :=
  match st.definedAt j x with
  | some k => some (st.setVar k x v)
  | Option.none => Option.none

def St.pushFrame (st : St) (parent : Option Nat) (vars : List (String × Sx)) : St × Nat :=
  ({ st with frames := st.frames.push { vars := vars, parent := parent } }, st.frames.size)

def St.readGlobalStr (st : St) (x : String) : Option String :=
  match st.readFrom 0 x with
  | some (.str s) => some s
  | _ => Option.none

/-! ## arrays -/

def St.arr? (st : St) (r : Nat) : Option (List (String × Sx)) := st.arrays[r]?

def St.newArr (st : St) (kvs : List (String × Sx)) : St × Nat :=
  ({ st with arrays := st.arrays.push kvs }, st.arrays.size)

def St.setArr (st : St) (r : Nat) (kvs : List (String × Sx)) : St :=
  { st with arrays := st.arrays.set! r kvs }

/-- truthiness with the heap at hand (an empty dict is falsy) -/
def St.truthy (st : St) : Sx → Bool
  | .arr r => match st.arr? r with
    | some kvs => !kvs.isEmpty
    | Option.none => true
  | v => Wal.truthy v

def St.walStr (st : St) (e : Sx) : Option String := Wal.walStr st.arr? e

/-- `to_str` of `array.py`: array keys / `in` on arrays -/
def keyStr? : Sx → Option String
  | .sym n _ => some n
  | .int i => some (showInt i)
  | .bool b => some (if b then "True" else "False")
  | .str s => some s
  | _ => Option.none

def typeName : Sx → String
  | .none => "NoneType" | .int _ => "int" | .bool _ => "bool" | .flt _ => "float" | .str _ => "str"
  | .sym _ _ => "wal.ast_defs.Symbol" | .op _ => "wal.ast_defs.Operator"
  | .list true _ => "wal.ast_defs.WList" | .list false _ => "list"
  | .unq _ => "wal.ast_defs.Unquote" | .unqs _ => "wal.ast_defs.UnquoteSplice"
  | .clo .. => "wal.ast_defs.Closure" | .mac .. => "wal.ast_defs.Macro" | .arr _ => "dict" | .ty _ => "type"

/-! ## traces inside the state -/

def St.updTrace (st : St) (tid : String) (f : Trace → Trace) : St :=
  { st with tc := { st.tc with traces := st.tc.traces.map (fun t => if t.tid == tid then f t else t) } }

end Wal
