import Wal.Model.State
/-!
# The evaluator (`wal/eval.py`, `wal/implementation/*.py`), open recursion + fuel

`evalStep n rec` is one layer of `SEval.eval`: every operator is its own definition
`opXxx rec st args`, written against an arbitrary evaluator `rec` of the sub-terms, so that
operator-level theorems hold for every `rec` and instantiate to `eval n`.
Any Python exception is an `Err.error`; what the model does not cover is `Err.unsupported`.
-/
namespace Wal

def evalList (rec : St → Sx → Res) : St → List Sx → ResL
  | st, [] => .ok ([], st)
  | st, e :: es => do
    let (v, st1) ← rec st e
    let (vs, st2) ← evalList rec st1 es
    pure (v :: vs, st2)

def lastOr (vs : List Sx) : Except Err Sx :=
  match vs.getLast? with
  | some v => .ok v
  | Option.none => .error (errA "IndexError: list index out of range")

def ofOpt {α} (o : Option α) (e : Err) : Except Err α :=
  match o with
  | some a => .ok a
  | Option.none => .error e

/-! ## symbols, signals, virtual signals -/

/-- read a signal through the container; virtual signals evaluate their body (cached by timestamp) -/
def readSignal (rec : St → Sx → Res) (st : St) (name : String) (scope : String) : Res :=
  match st.tc.route name with
  | .error m => .error (errA m)
  | .ok (t, sig) =>
    match t.signalValue st.tc.multi sig scope with
    | .val v => .ok (v, st)
    | .err m => .error (errA m)
    | .unsupported m => .error (.unsupported m)
    | .virt vname =>
      match t.virt.find? (fun v => v.name == vname), pyIdx? t.timestamps t.index with
      | some vs, some ts =>
        match vs.cache.lookup ts with
        | some v => .ok (v, st)
        | Option.none =>
          match vs.body with
          | .list _ body => do
            let (vals, st1) ← evalList rec st body
            let v ← lastOr vals
            pure (v, st1.updTrace t.tid (fun t' =>
              { t' with virt := t'.virt.map (fun w => if w.name == vname then { w with cache := (ts, v) :: w.cache } else w) }))
          | _ => .error (errA "virtual signal body")
      | _, _ => .error (errA "virtual signal: no timestamp")

def evalSym (rec : St → Sx → Res) (st : St) (name : String) (steps : Option Nat) : Res :=
  let aliased := (st.aliases.lookup name).getD name
  match steps with
  | some k =>
    match st.hop st.env k with
    | Option.none => .error (errA "AttributeError: no parent environment")
    | some j =>
      match st.readFrom j name with
      | some v => .ok (v, st)
      | Option.none => .error (errA "variable is undefined")
  | Option.none =>
    match st.tc.contains aliased with
    | Option.none => .error (errA "No trace with tid")
    | some true => readSignal rec st aliased st.scope
    | some false =>
      match st.readFrom st.env aliased with
      | some v => .ok (v, st)
      | Option.none => .error (errA "variable is undefined")

/-! ## closures -/

def bindParams (rec : St → Sx → Res) (st : St) (params : Sx) (args : List Sx) : Except Err (List (String × Sx) × St) :=
  match params with
  | .sym p _ => do
    let (vs, st1) ← evalList rec st args
    pure ([(p, .list false vs)], st1)
  | .list true ps =>
    if ps.length != args.length then .error (errA "number of passed arguments does not match expected number") else do
    let names ← ps.mapM (fun p => match p with
      | .sym n _ => .ok n
      | _ => .error (errA "AttributeError: parameter is not a symbol"))
    let (vs, st1) ← evalList rec st args
    if (dedup names).length != names.length then .error (errA "variable already defined") else
    pure (names.zip vs, st1)
  | _ => .error (errA "cannot evaluate closure")

def evalClosure (rec : St → Sx → Res) (st : St) (clo : Sx) (args : List Sx) : Res :=
  match clo with
  | .clo cenv params body _ => do
    let save := st.env
    let (binds, st1) ← bindParams rec st params args
    -- the captured environment is a live Python object; in the model it must be an allocated frame
    if cenv ≥ st1.frames.size then .error (.unsupported "closure environment outside the frame heap") else
    let (st2, fid) := st1.pushFrame (some cenv) binds
    let (v, st3) ← rec { st2 with env := fid } body
    pure (v, { st3 with env := save })
  | _ => .error (errA "not a closure")

/-! ## core.py -/

def opNot (rec : St → Sx → Res) (st : St) (args : List Sx) : Res := do
  let (vs, st1) ← evalList rec st args
  if vs.isEmpty then .error (errA "!: expects at least one argument") else
  if !vs.all isIntLike then .error (errA "!: arguments must be int") else
  pure (.bool (!vs.any truthy), st1)

/-- `all(e == evaluated[0] for e in evaluated)` -/
def allEqFirst (first : Sx) : List Sx → Except Err Bool
  | [] => .ok true
  | e :: r => match pyEq? e first with
    | some true => allEqFirst first r
    | some false => .ok false
    | Option.none => .error (.unsupported "== on closures/arrays/floats")

def opEq (neg : Bool) (rec : St → Sx → Res) (st : St) (args : List Sx) : Res := do
  let (vs, st1) ← evalList rec st args
  match vs with
  | first :: _ :: _ =>
    let b ← allEqFirst first vs
    pure (.bool (if neg then !b else b), st1)
  | _ => .error (errA "=: expects more than one argument")

def opCmp (op : CmpOp) (rec : St → Sx → Res) (st : St) (args : List Sx) : Res :=
  match args with
  | [_, _] => do
    let (vs, st1) ← evalList rec st args
    match vs with
    | [a, b] =>
      if !(isNum a && isNum b) then .error (errA "comparison: arguments must be numbers") else
      match numCmp? op a b with
      | some r => pure (.bool r, st1)
      | Option.none => .error (.unsupported "comparison of a wide int with a float")
    | _ => .error (errA "unreachable")
  | _ => .error (errA "comparison: expects two arguments")

def andLoop (rec : St → Sx → Res) : St → List Sx → Res
  | st, [] => .ok (.bool true, st)
  | st, a :: r => do
    let (v, st1) ← rec st a
    if !st1.truthy v then pure (.bool false, st1) else andLoop rec st1 r

def orLoop (rec : St → Sx → Res) : St → List Sx → Res
  | st, [] => .ok (.bool false, st)
  | st, a :: r => do
    let (v, st1) ← rec st a
    if st1.truthy v then pure (.bool true, st1) else orLoop rec st1 r

def opAnd (rec : St → Sx → Res) (st : St) (args : List Sx) : Res :=
  if args.isEmpty then .error (errA "&&: expects at least one argument") else andLoop rec st args

def opOr (rec : St → Sx → Res) (st : St) (args : List Sx) : Res :=
  if args.isEmpty then .error (errA "||: expects at least one argument") else orLoop rec st args

/-- the binding loop of `let`: each initialiser is evaluated with the new frame already current -/
def letBind (rec : St → Sx → Res) (fid : Nat) : St → List Sx → Except Err St
  | st, [] => .ok st
  | st, pair :: r =>
    match pair with
    | .list true [.sym n _, e] => do
      let (v, st1) ← rec st e
      match st1.defineIn fid n v with
      | some st2 => letBind rec fid st2 r
      | Option.none => .error (errA "variable already defined")
    | _ => .error (errA "let: expects a list of pairs as first argument")

def opLet (rec : St → Sx → Res) (st : St) (args : List Sx) : Res :=
  match args with
  | .list true pairs :: body => do
    let save := st.env
    let (st0, fid) := st.pushFrame (some save) []
    let st1 ← letBind rec fid { st0 with env := fid } pairs
    let (vs, st2) ← evalList rec st1 body
    let v ← lastOr vs
    pure (v, { st2 with env := save })
  | _ => .error (errA "let: expects a list of pairs as first argument")

def setLoop (rec : St → Sx → Res) : St → List Sx → Sx → Res
  | st, [], last => .ok (last, st)
  | st, a :: r, _ =>
    match a with
    | .list true [.sym n steps, e] => do
      let (v, st1) ← rec st e
      let start ← match steps with
        | some k => ofOpt (st1.hop st1.env k) (errA "AttributeError: no parent environment")
        | Option.none => pure st1.env
      match st1.writeFrom start n v with
      | some st2 => setLoop rec st2 r v
      | Option.none => .error (errA "Write to undefined symbol")
    | _ => .error (errA "set: arguments must be (key:symbol expr) tuples")

def opSet (rec : St → Sx → Res) (st : St) (args : List Sx) : Res :=
  if args.isEmpty then .error (errA "set: expects at least one (key:symbol expr) pair") else setLoop rec st args .none

def opDefine (rec : St → Sx → Res) (st : St) (args : List Sx) : Res :=
  match args with
  | [.sym n _, e] => do
    let (v, st1) ← rec st e
    match st1.defineIn st1.env n v with
    | some st2 => pure (v, st2)
    | Option.none => .error (errA "variable already defined")
  | _ => .error (errA "define: expects exactly two arguments (define key:symbol expr)")

def printPiece (st : St) (v : Sx) : Except Err String :=
  match v with
  | .str s => .ok s
  | _ => ofOpt (st.walStr v) (.unsupported "wal_str of this value")

def opPrint (rec : St → Sx → Res) (st : St) (args : List Sx) : Res := do
  let (vs, st1) ← evalList rec st args
  let parts ← vs.mapM (printPiece st1)
  pure (.none, { st1 with out := st1.out ++ [String.join parts ++ "\n"] })

def opIf (rec : St → Sx → Res) (st : St) (args : List Sx) : Res :=
  match args with
  | [c, a] => do
    let (cv, st1) ← rec st c
    if st1.truthy cv then rec st1 a else pure (.none, st1)
  | [c, a, b] => do
    let (cv, st1) ← rec st c
    if st1.truthy cv then rec st1 a else rec st1 b
  | _ => .error (errA "if: expects a condition, if-clause and optionally an else-clause")

def isDefaultSym : Sx → Bool
  | .sym n _ => n == "default"
  | _ => false

def caseLoop (rec : St → Sx → Res) (key : Sx) : St → List Sx → Sx → Res
  | st, [], dflt => .ok (dflt, st)
  | st, clause :: r, dflt =>
    match clause with
    | .list _ (k :: cons) =>
      match pyEq? key k with
      | Option.none => .error (.unsupported "case: == on closures/arrays/floats")
      | some true => do
        let (vs, st1) ← evalList rec st cons
        let v ← lastOr vs
        pure (v, st1)
      | some false =>
        if isDefaultSym k then do
          let (vs, st1) ← evalList rec st cons
          let v ← lastOr vs
          caseLoop rec key st1 r v
        else caseLoop rec key st r dflt
    | _ => .error (errA "case: malformed clause")

def opCase (rec : St → Sx → Res) (st : St) (args : List Sx) : Res :=
  match args with
  | [] => .error (errA "case: expects at least one case argument")
  | kf :: clauses => do
    let (key, st1) ← rec st kf
    let keys ← clauses.mapM (fun c => match c with
      | .list _ (k :: _) => ofOpt (pyStr? k) (.unsupported "case: str() of a compound key")
      | _ => .error (errA "case: malformed clause"))
    if (dedup keys).length != keys.length then .error (errA "case with duplicate key") else
    caseLoop rec key st1 clauses .none

def opDo (rec : St → Sx → Res) (st : St) (args : List Sx) : Res :=
  if args.isEmpty then .ok (.none, st) else do
    let (vs, st1) ← evalList rec st args
    let v ← lastOr vs
    pure (v, st1)

def whileLoop (rec : St → Sx → Res) (c : Sx) (body : List Sx) : Nat → St → Sx → Res
  | 0, _, _ => .error .fuel
  | k + 1, st, last => do
    let (cv, st1) ← rec st c
    if !st1.truthy cv then pure (last, st1) else do
      let (vs, st2) ← evalList rec st1 body
      let v ← lastOr vs
      whileLoop rec c body k st2 v

def opWhile (n : Nat) (rec : St → Sx → Res) (st : St) (args : List Sx) : Res :=
  match args with
  | c :: b :: bs => whileLoop rec c (b :: bs) n st .none
  | _ => .error (errA "while: expects exactly two arguments (while cond (body:expr))")

def opAlias (rec : St → Sx → Res) (st : St) (args : List Sx) : Res :=
  match args with
  | [.sym a _, e] => do
    let (v, st1) ← rec st e
    match v with
    | .str s => pure (.none, { st1 with aliases := assocSet st1.aliases a s })
    | .sym s _ => pure (.none, { st1 with aliases := assocSet st1.aliases a s })
    | _ => .error (errA "alias: second argument must evaluate to a string or a symbol")
  | _ => .error (errA "alias: expects two arguments")

def unaliasLoop : St → List Sx → Res
  | st, [] => .ok (.none, st)
  | st, a :: r =>
    match a with
    | .sym n _ =>
      if assocHas st.aliases n then unaliasLoop { st with aliases := assocDel st.aliases n } r
      else .error (errA "unalias: no alias known")
    | _ => .error (errA "unalias: argument must be a symbol")

def opUnalias (st : St) (args : List Sx) : Res :=
  if args.isEmpty then .error (errA "unalias: expects at least one argument") else unaliasLoop st args

def opQuote (st : St) (args : List Sx) : Res :=
  match args with
  | [a] => .ok (a, st)
  | _ => .error (errA "quote: expects exactly one argument")

mutual
/-- the `unquote` helper of `op_quasiquote` -/
def qq (rec : St → Sx → Res) (st : St) : Sx → Res
  | .list true (x :: xs) => do
    let (vs, st1) ← qqList rec st (x :: xs)
    pure (.list true vs, st1)
  | e => .ok (e, st)
def qqList (rec : St → Sx → Res) (st : St) : List Sx → ResL
  | [] => .ok ([], st)
  | .unq c :: r => do
    let (c', st1) ← qq rec st c
    let (v, st2) ← rec st1 c'
    let (vs, st3) ← qqList rec st2 r
    pure (v :: vs, st3)
  | .unqs c :: r => do
    let (c', st1) ← qq rec st c
    let (v, st2) ← rec st1 c'
    match v with
    | .list _ items => do
      let (vs, st3) ← qqList rec st2 r
      pure (items ++ vs, st3)
    | .str _ => .error (.unsupported "unquote-splice of a string")
    | _ => .error (errA "TypeError: unquote-splice of a non-list")
  | e :: r => do
    let (e', st1) ← qq rec st e
    let (vs, st2) ← qqList rec st1 r
    pure (e' :: vs, st2)
end

def opQuasiquote (rec : St → Sx → Res) (st : St) (args : List Sx) : Res :=
  match args with
  | [a] => qq rec st a
  | _ => .error (errA "quasiquote: expects exactly one argument")

/-! ## macro expansion (`passes.py::expand`) -/

def isQuoteHead : Sx → Bool
  | .op .QUOTE | .op .QUASIQUOTE => true
  | _ => false

mutual
/-- `expand(seval, exprs, parent)`; `n` bounds the re-expansion of macro results -/
def expand (rec : St → Sx → Res) (parent : Option Nat) : Nat → St → Sx → Res
  | 0, _, _ => .error .fuel
  | n + 1, st, e =>
    match e with
    | .list w (h :: tl) =>
      if isQuoteHead h then .ok (e, st) else
      let macro? : Option Sx := match h with
        | .sym name _ => match st.readFrom st.env name with
          | some (.mac mn ps body) => some (.mac mn ps body)
          | _ => Option.none
        | _ => Option.none
      match macro? with
      | some (.mac _ ps body) =>
        let binds : Except Err (List (String × Sx)) := match ps with
          | .sym p _ => .ok [(p, .list w tl)]
          | .list true pl =>
            if pl.length != tl.length then .error (errA "macro: number of passed arguments does not match expected number")
            else do
              let names ← pl.mapM (fun p => match p with
                | .sym n _ => .ok n
                | _ => .error (errA "AttributeError: macro parameter is not a symbol"))
              if (dedup names).length != names.length then .error (errA "variable already defined")
              else pure (names.zip tl)
          | _ => .error (errA "cannot evaluate macro")
        match binds with
        | .error er => .error er
        | .ok bs =>
          let save := st.env
          let (st1, fid) := st.pushFrame parent bs
          match rec { st1 with env := fid } body with
          | .error er => .error er
          | .ok (expanded, st2) =>
            -- the source position is attached to list and symbol results only; a literal result is the expansion as it is
            match expand rec parent n st2 expanded with
            | .error er => .error er
            | .ok (expanded', st3) =>
              -- the recursive call has expanded the result completely; it is returned as it is
              .ok (expanded', { st3 with env := save })
      | _ => do
        let (items', st1) ← expandList rec parent n st (h :: tl)
        pure (.list true items', st1)
    | .list _ [] => .ok (.list true [], st)
    | other => .ok (other, st)
def expandList (rec : St → Sx → Res) (parent : Option Nat) : Nat → St → List Sx → ResL
  | 0, _, _ => .error .fuel
  | _, st, [] => .ok ([], st)
  | n + 1, st, e :: r => do
    let (e', st1) ← expand rec parent n st e
    let (r', st2) ← expandList rec parent n st1 r
    pure (e' :: r', st2)
end

def St.globalNames (st : St) : List String :=
  match st.frames[0]? with
  | some f => f.vars.map (·.1)
  | Option.none => []

def opEval (n : Nat) (rec : St → Sx → Res) (st : St) (args : List Sx) : Res :=
  match args with
  | [a] => do
    let (v, st1) ← rec st a
    let (ex, st2) ← expand rec (some 0) n st1 v
    let opt := optimize ex
    match resolve [] opt with
    | some r => rec st2 r
    | Option.none => .error (errA "resolve: symbol already defined")
  | _ => .error (errA "eval: expects exactly one argument")

def opFn (st : St) (args : List Sx) : Res :=
  match args with
  | ps :: b :: bs =>
    let okParams := match ps with
      | .list _ pl => pl.all isSym
      | .sym _ _ => true
      | _ => false
    if !okParams then .error (errA "lambda: first argument must be a list of symbols or a single symbol") else
    let name := match b with
      | .sym n _ => n
      | .str s => s
      | _ => "lambda"
    .ok (.clo st.env ps (.list true (.op .DO :: b :: bs)) name, st)
  | _ => .error (errA "lambda: expects at least two arguments")

def opDefmacro (n : Nat) (rec : St → Sx → Res) (st : St) (args : List Sx) : Res :=
  match args with
  | .sym name _ :: ps :: b :: bs =>
    let okBody := match b with
      | .sym _ _ | .int _ | .bool _ | .str _ | .list true _ | .flt _ => true
      | _ => false
    if !okBody then .error (errA "defmacro: third argument must be a valid expression") else do
    let (body', st1) ← expandList rec Option.none n st (b :: bs)
    match st1.defineIn st1.env name (.mac name ps (.list true (.op .DO :: body'))) with
    | some st2 => pure (.none, st2)
    | Option.none => .error (errA "variable already defined")
  | _ => .error (errA "defmacro: expects at least three arguments")

def opMacroexpand (n : Nat) (rec : St → Sx → Res) (st : St) (args : List Sx) : Res :=
  match args with
  | [a] => do
    let (v, st1) ← rec st a
    let (ex, st2) ← expand rec (some st1.env) n st1 v
    pure (optimize ex, st2)
  | _ => .error (errA "macroexpand: expects exactly one argument")

def opGensym (st : St) : Res :=
  .ok (.sym ("$" ++ toString (st.gensym + 1)) (some 0), { st with gensym := st.gensym + 1 })

def opGet (rec : St → Sx → Res) (st : St) (args : List Sx) : Res :=
  match args with
  | [a] => do
    let (v, st1) ← rec st a
    match v with
    | .str s => rec st1 (.sym s Option.none)
    | .sym s k => rec st1 (.sym s k)
    | _ => pure (.none, st1)
  | _ => .error (errA "get: expects exactly one argument")

def opType (rec : St → Sx → Res) (st : St) (args : List Sx) : Res :=
  match args with
  | a :: _ => do
    let (v, st1) ← rec st a
    pure (.ty (typeName v), st1)
  | [] => .error (errA "IndexError")

def revalArgOk : Sx → Bool
  | .sym _ _ | .int _ | .bool _ | .str _ | .list _ _ | .flt _ => true
  | _ => false

def opReval (rec : St → Sx → Res) (st : St) (args : List Sx) : Res :=
  match args with
  | [e, k] =>
    if !revalArgOk e then .error (errA "reval: first argument must be a valid expression") else do
    let (kv, st1) ← rec st k
    match asInt? kv with
    | Option.none => .error (errA "reval: second argument must evaluate to int")
    | some off =>
      if st1.tc.traces.any (fun t => t.oob off) then pure (.bool false, st1) else do
      let c1 := st1.tc.storeIndices
      let c2 := { c1 with traces := (stepAll c1.traces off).1 }
      let (v, st2) ← rec { st1 with tc := c2 } e
      match st2.tc.restoreIndices with
      | some c3 => pure (v, { st2 with tc := c3 })
      | Option.none => .error (errA "KeyError: restore_indices")
  | _ => .error (errA "reval: expects two arguments (reval expr:expr offset:expr->int)")

def nameOf? : Sx → Option String
  | .str s => some s
  | .sym s _ => some s
  | _ => Option.none

/-- `seval.global_environment.write(name, value)` -/
def St.writeGlobal (st : St) (x : String) (v : Sx) : Except Err St :=
  ofOpt (st.writeFrom 0 x v) (errA "AssertionError: write to undefined global")

def opScoped (rec : St → Sx → Res) (st : St) (args : List Sx) : Res :=
  match args with
  | [s, e] => do
    let prev := st.scope
    let (sv, st1) ← rec st s
    match nameOf? sv with
    | Option.none => .error (errA "scoped: argument must be Symbol, string or must evaluate to one of them")
    | some name => do
      let st2 ← ({ st1 with scope := name }).writeGlobal "CS" (.str name)
      let (v, st3) ← rec st2 e
      let st4 ← ({ st3 with scope := prev }).writeGlobal "CS" (.str prev)
      pure (v, st4)
  | _ => .error (errA "scoped: exactly two arguments required (scoped scope:symbol expression)")

def allScopesLoop (rec : St → Sx → Res) (e : Sx) : St → List String → List Sx → ResL
  | st, [], acc => .ok (acc, st)
  | st, s :: r, acc => do
    let st1 ← ({ st with scope := s }).writeGlobal "CS" (.str s)
    let (v, st2) ← rec st1 e
    allScopesLoop rec e st2 r (acc ++ [v])

def opAllScopes (rec : St → Sx → Res) (st : St) (args : List Sx) : Res :=
  match args with
  | e :: _ =>
    -- any expression form: symbol, number, string, list (the same test as reval's)
    if !revalArgOk e then .error (errA "all-scopes: argument must be a valid expression") else do
    let prev := st.scope
    let (vs, st1) ← allScopesLoop rec e st st.tc.scopes []
    let st2 ← ({ st1 with scope := prev }).writeGlobal "CS" (.str prev)
    pure (.list false vs, st2)
  | [] => .error (errA "all-scopes: exactly one argument required")

def readCS (st : St) : Except Err String :=
  match st.readFrom 0 "CS" with
  | some (.str s) => .ok s
  | some _ => .error (.unsupported "CS is not a string")
  | Option.none => .error (errA "variable CS is undefined")

def readCG (st : St) : Except Err String :=
  match st.readFrom 0 "CG" with
  | some (.str s) => .ok s
  | some _ => .error (.unsupported "CG is not a string")
  | Option.none => .error (errA "variable CG is undefined")

def containsOrErr (st : St) (name : String) : Except Err Bool :=
  ofOpt (st.tc.contains name) (errA "No trace with tid")

def opResolveScope (rec : St → Sx → Res) (st : St) (args : List Sx) : Res :=
  match args with
  | [.sym n _] => do
    let n' := (st.aliases.lookup n).getD n
    let cs ← readCS st
    let name := if st.tc.scopes.contains cs then cs ++ "." ++ n' else cs ++ n'
    let ok ← containsOrErr st name
    if !ok then .error (errA "resolve-scope: No signal with that name") else readSignal rec st name ""
  | _ => .error (errA "resolve-scope: exactly one argument required (resolve-scope name:symbol)")

def opSetScope (st : St) (args : List Sx) : Res :=
  match args with
  | .sym n _ :: _ =>
    if !st.tc.scopes.contains n then .error (errA "set-scope: not a valid scope") else do
    let st1 ← ({ st with scope := n }).writeGlobal "CS" (.str n)
    pure (.none, st1)
  | _ => .error (errA "set-scope: argument must be Symbol")

def opUnsetScope (st : St) (args : List Sx) : Res :=
  if !args.isEmpty then .error (errA "unset-scope: expects no arguments") else do
  let st1 ← ({ st with scope := "" }).writeGlobal "CS" (.str "")
  pure (.none, st1)

def groupArgs (rec : St → Sx → Res) : St → List Sx → Except Err (List String × St)
  | st, [] => .ok ([], st)
  | st, a :: r => do
    let (s, st1) ← (match a with
      | .list true _ => do
        let (v, st1) ← rec st a
        match v with
        | .str s => pure (s, st1)
        | _ => .error (.unsupported "groups: argument evaluates to a non-string")
      | .sym n _ => pure (n, st)
      | .str s => pure (s, st)
      | _ => .error (errA "groups: arguments must be string, symbol, or must evaluate to these types") : Except Err (String × St))
    let (ss, st2) ← groupArgs rec st1 r
    pure (((st.aliases.lookup s).getD s) :: ss, st2)

/-- does `sig` match the candidate pattern of `op_groups`? returns the prefix -/
def groupCandidate (cs : String) (suffix : String) (sig : String) : Option String :=
  let s := sig.toList
  let suf := suffix.toList
  if !(suf.reverse.isPrefixOf s.reverse) then Option.none else
  let pre := s.take (s.length - suf.length)
  let preStr := if suf.isEmpty then "" else String.ofList pre        -- `pre[:-len(suffix)]` with an empty suffix
  if cs == "" then some preStr else
  let head := (cs ++ ".").toList
  if !(head.isPrefixOf pre) then Option.none else
  let mid := pre.drop head.length
  if mid.isEmpty || mid.any (fun c => c == '.' || c == '\\') then Option.none else some preStr

def insertSorted (x : String) : List String → List String
  | [] => [x]
  | y :: r => if x < y then x :: y :: r else if x == y then y :: r else y :: insertSorted x r

def sortDedup (xs : List String) : List String := xs.foldl (fun acc x => insertSorted x acc) []

def opGroups (rec : St → Sx → Res) (st : St) (args : List Sx) : Res :=
  if args.isEmpty then .error (errA "groups: expects at least one argument (groups post:str+)") else do
  let (ss, st1) ← groupArgs rec st args
  match ss with
  | [] => .error (errA "unreachable")
  | s0 :: posts => do
    let cs ← readCS st1
    if s0.toList.any (fun c => c == '\n') || cs.toList.any (fun c => c == '\n') then .error (.unsupported "newline in pattern") else
    let cands := st1.tc.signals.filterMap (groupCandidate cs s0)
    let keep ← cands.filterMapM (fun pre => do
      let oks ← posts.mapM (fun p => containsOrErr st1 (pre ++ p))
      pure (if oks.all id then some pre else Option.none))
    pure (.list false ((sortDedup keep).map .str), st1)

def rfindDot (s : String) : Option Nat :=
  let cs := s.toList
  match cs.reverse.findIdx? (· == '.') with
  | some i => some (cs.length - 1 - i)
  | Option.none => Option.none

def opInGroup (rec : St → Sx → Res) (st : St) (args : List Sx) : Res :=
  match args with
  | g :: b :: bs => do
    let prevG := st.group
    let prevS := st.scope
    let (gv, st1) ← rec st g
    match nameOf? gv with
    | Option.none => .error (errA "in-group: argument must be Symbol, string or must evaluate to one of them")
    | some name => do
      let st2 ← ({ st1 with group := name }).writeGlobal "CG" (.str name)
      let sc := match rfindDot name with
        | some i => String.ofList (name.toList.take (i + 1))
        | Option.none => prevS
      let st3 ← ({ st2 with scope := sc }).writeGlobal "CS" (.str sc)
      let (vs, st4) ← evalList rec st3 (b :: bs)
      let st5 ← ({ st4 with group := prevG, scope := prevS }).writeGlobal "CG" (.str prevG)
      let st6 ← st5.writeGlobal "CS" (.str prevS)
      let v ← lastOr vs
      pure (v, st6)
  | _ => .error (errA "in-group: exactly two arguments required (in-group group:symbol expression)")

def inGroupsLoop (rec : St → Sx → Res) (body : List Sx) : St → List Sx → Sx → Res
  | st, [], last => .ok (last, st)
  | st, g :: r, _ => do
    let (v, st1) ← opInGroup rec st (g :: body)
    inGroupsLoop rec body st1 r v

def opInGroups (rec : St → Sx → Res) (st : St) (args : List Sx) : Res :=
  match args with
  | g :: b :: bs => do
    let (gv, st1) ← rec st g
    match gv with
    | .list _ groups => inGroupsLoop rec (b :: bs) st1 groups .none
    | _ => .error (errA "in-groups: first argument must evaluate to list")
  | _ => .error (errA "in-groups: exactly two arguments required")

def opResolveGroup (rec : St → Sx → Res) (st : St) (args : List Sx) : Res :=
  match args with
  | [.sym n _] => do
    let n' := (st.aliases.lookup n).getD n
    let name := st.group ++ n'
    let ok ← containsOrErr st name
    if !ok then .error (errA "resolve-group: No signal with that name") else readSignal rec st name ""
  | _ => .error (errA "resolve-group (#): exactly one argument required (resolve-group name:symbol)")

def opSlice (rec : St → Sx → Res) (st : St) (args : List Sx) : Res :=
  if !(args.length == 2 || args.length == 3) then .error (errA "slice: two or three arguments required") else do
  let (vs, st1) ← evalList rec st args
  match vs with
  | [x, i] =>
    match asInt? x, x with
    | some xv, _ =>
      match asInt? i with
      | Option.none => .error (errA "slice: index must evaluate to int")
      | some iv => if iv < 0 then .error (errA "ValueError: negative shift count") else pure (.int (sliceBit xv iv.toNat), st1)
    | Option.none, .list _ items =>
      match asInt? i with
      | Option.none => .error (errA "slice: index must evaluate to int")
      | some iv => match pyIdx? items iv with
        | some v => pure (v, st1)
        | Option.none => .error (errA "IndexError: list index out of range")
    | Option.none, .str s =>
      match asInt? i with
      | Option.none => .error (errA "slice: index must evaluate to int")
      | some iv => match pyIdx? s.toList iv with
        | some c => pure (.str (String.singleton c), st1)
        | Option.none => .error (errA "IndexError: string index out of range")
    | _, _ => .error (errA "slice: first argument must evaluate to a number or a list")
  | [x, u, l] =>
    match asInt? x, x with
    | some xv, _ =>
      match asInt? u, asInt? l with
      | some uv, some lv =>
        if lv < 0 || uv - lv + 1 < 0 then .error (errA "ValueError: negative shift count")
        else pure (.int (sliceRange xv uv lv), st1)
      | _, _ => .error (errA "slice: indices must evaluate to int")
    | Option.none, .list w items =>
      match asInt? u, asInt? l with
      | some uv, some lv => pure (.list w (pySlice items uv lv), st1)
      | _, _ => .error (errA "slice: indices must evaluate to int")
    | Option.none, .str s =>
      match asInt? u, asInt? l with
      | some uv, some lv => pure (.str (String.ofList (pySlice s.toList uv lv)), st1)
      | _, _ => .error (errA "slice: indices must evaluate to int")
    | _, _ => .error (errA "slice: first argument must evaluate to a number or a list")
  | _ => .error (errA "unreachable")

def opLoadedTraces (st : St) (args : List Sx) : Res :=
  if !args.isEmpty then .error (errA "loaded-traces: Expects no arguments") else
  .ok (.list false (st.tc.traces.map (fun t => .str t.tid)), st)

def opExit (rec : St → Sx → Res) (st : St) (args : List Sx) : Res :=
  match args with
  | [] => .error (.exit 0)
  | [a] => do
    let (v, _) ← rec st a
    match asInt? v with
    | some c => .error (.exit c)
    | Option.none => .error (errA "exit: first argument must evaluate to int")
  | _ => .error (errA "exit: expects none or one argument")

/-! ## math.py, bitwise.py -/

def opAdd (rec : St → Sx → Res) (st : St) (args : List Sx) : Res := do
  let (vs, st1) ← evalList rec st args
  if vs.any isList then
    -- `res += item` with a WList item turns the accumulator into a WList (UserList.__radd__)
    let w := vs.any (fun v => match v with | .list true _ => true | _ => false)
    pure (.list w (vs.flatMap (fun v => match v with | .list _ items => items | x => [x])), st1)
  else if vs.any isStr then
    match vs.mapM pyStr? with
    | some ss => pure (.str (String.join ss), st1)
    | Option.none => .error (.unsupported "+: str() of a float or compound value")
  else if vs.all isNum then
    match pySum? vs with
    | some v => pure (v, st1)
    | Option.none => .error (.unsupported "+: wide int with float")
  else .error (errA "TypeError: unsupported operand type(s) for +")

def opSub (rec : St → Sx → Res) (st : St) (args : List Sx) : Res := do
  let (vs, st1) ← evalList rec st args
  if !vs.all isNum then .error (errA "-: arguments must be numbers") else
  match vs with
  | [] => .error (errA "TypeError: reduce() of empty iterable")
  | [x] => match numBin? .sub (.int 0) x with
    | some v =>
      -- `-x` of a float flips the sign bit (also for 0.0), `0 - x` does not
      (match x with
        | .flt b => pure (.flt (b ^^^ 0x8000000000000000), st1)
        | _ => pure (v, st1))
    | Option.none => .error (.unsupported "-")
  | x :: r => match numFold? .sub x r with
    | some v => pure (v, st1)
    | Option.none => .error (.unsupported "-: wide int with float")

def opMul (rec : St → Sx → Res) (st : St) (args : List Sx) : Res := do
  let (vs, st1) ← evalList rec st args
  if !vs.all isNum then .error (errA "*: arguments must be numbers") else
  match vs with
  | x :: y :: r => match numFold? .mul x (y :: r) with
    | some v => pure (v, st1)
    | Option.none => .error (.unsupported "*: wide int with float")
  | _ => .error (errA "*: expects more than one argument")

def opDiv (rec : St → Sx → Res) (st : St) (args : List Sx) : Res := do
  let (vs, st1) ← evalList rec st args
  if !vs.all isNum then .error (errA "/: arguments must be numbers") else
  match vs with
  | [a, b] =>
    let fa : Option Float := match a with | .flt x => some (Float.ofBits x) | _ => (asInt? a).bind toFloat?
    let fb : Option Float := match b with | .flt x => some (Float.ofBits x) | _ => (asInt? b).bind toFloat?
    match fa, fb with
    | some x, some y =>
      if y == 0.0 then .error (errA "div: division by zero") else pure (.flt (x / y).toBits, st1)
    | _, _ => .error (.unsupported "/: wide int")
  | _ => .error (errA "/: expects two arguments")

def opExp (rec : St → Sx → Res) (st : St) (args : List Sx) : Res := do
  let (vs, st1) ← evalList rec st args
  if !vs.all isNum then .error (errA "**: arguments must be numbers") else
  match vs with
  | [a, b] =>
    match asInt? a, asInt? b with
    | some x, some y => if y ≥ 0 then pure (.int (x ^ y.toNat), st1) else .error (.unsupported "**: negative exponent")
    | _, _ => .error (.unsupported "**: float operand")
  | _ => .error (errA "**: expects two arguments")

def opRoundLike (rec : St → Sx → Res) (st : St) (args : List Sx) : Res :=
  match args with
  | [a] => do
    let (v, st1) ← rec st a
    match v with
    | .int i => pure (.int i, st1)
    | .bool b => pure (.int (if b then 1 else 0), st1)
    | .flt _ => .error (.unsupported "floor/ceil/round of a float")
    | _ => .error (errA "floor/ceil/round: expects a number")
  | _ => .error (errA "floor/ceil/round: expects exactly one argument")

def opMod (rec : St → Sx → Res) (st : St) (args : List Sx) : Res :=
  match args with
  | [_, _] => do
    let (vs, st1) ← evalList rec st args
    if !vs.all isNum then .error (errA "mod: arguments must be numbers") else
    match vs with
    | [a, b] =>
      match asInt? a, asInt? b with
      | some x, some y => if y == 0 then .error (errA "ZeroDivisionError") else pure (.int (pyMod x y), st1)
      | _, _ => .error (.unsupported "mod: float operand")
    | _ => .error (errA "unreachable")
  | _ => .error (errA "mod: expects two arguments")

def opBitwise (f : Int → Int → Int) (fb : Bool → Bool → Bool) (rec : St → Sx → Res) (st : St) (args : List Sx) : Res := do
  let (vs, st1) ← evalList rec st args
  if !vs.all isIntLike then .error (errA "bitwise: arguments must be int") else
  match vs with
  | [] => .error (errA "TypeError: reduce() of empty iterable")
  | x :: r =>
    pure (r.foldl (fun acc y => match acc, y with
      | .bool a, .bool b => .bool (fb a b)
      | a, b => .int (f ((asInt? a).getD 0) ((asInt? b).getD 0))) x, st1)

/-! ## types.py -/

def opIsDefined (rec : St → Sx → Res) (st : St) (args : List Sx) : Res :=
  match args with
  | [a] => do
    let (v, st1) ← rec st a
    match v with
    | .sym n _ => pure (.bool (st1.definedAt st1.env n).isSome, st1)
    | _ => .error (errA "defined?: argument must evaluate to symbol")
  | _ => .error (errA "defined?: expects exactly one argument")

def opAllPred (p : Sx → Bool) (rec : St → Sx → Res) (st : St) (args : List Sx) : Res := do
  let (vs, st1) ← evalList rec st args
  pure (.bool (vs.all p), st1)

def isAtomVal : Sx → Bool
  | .op _ | .sym _ _ | .str _ | .int _ | .bool _ => true
  | _ => false

def opConvertBin (rec : St → Sx → Res) (st : St) (args : List Sx) : Res :=
  if !(args.length == 1 || args.length == 2) then .error (errA "convert/bin: expects at least one argument") else do
  let (vs, st1) ← evalList rec st args
  match vs with
  | v :: r =>
    let w : Sx := match r with | [w] => w | _ => .int 0
    match asInt? v, asInt? w with
    | some vi, some wi =>
      if wi < 0 then .error (errA "ValueError: invalid format specifier")
      else pure (.str (String.ofList (convertBin vi wi.toNat)), st1)
    | _, _ => .error (errA "convert/bin: arguments must evaluate to int")
  | [] => .error (errA "unreachable")

def opStringToInt (rec : St → Sx → Res) (st : St) (args : List Sx) : Res :=
  match args with
  | [a] => do
    let (v, st1) ← rec st a
    match v with
    | .str s => match pyIntParse 10 s with
      | .ok i => pure (.int i, st1)
      | .bad => .error (errA "ValueError: invalid literal for int()")
      | .unsupported => .error (.unsupported "int() corner")
    | _ => .error (errA "string->int: argument must evaluate to string")
  | [a, b] => do
    let (v, st1) ← rec st a
    match v with
    | .str s =>
      match b with
      | .int base =>
        if !(base == 2 || base == 8 || base == 10 || base == 16) then .error (errA "string->int: valid base values (2 8 10 16)") else
        match pyIntParse base.toNat s with
        | .ok i => pure (.int i, st1)
        | .bad => .error (errA "ValueError: invalid literal for int()")
        | .unsupported => .error (.unsupported "int() corner")
      | .bool _ => .error (errA "string->int: valid base values (2 8 10 16)")
      | _ => .error (errA "string->int: argument base must be integer")
    | _ => .error (errA "string->int: argument must evaluate to string")
  | _ => .error (errA "string->int: expects one or two arguments")

def opBitsToSint (rec : St → Sx → Res) (st : St) (args : List Sx) : Res :=
  match args with
  | [a] => do
    let (v, st1) ← rec st a
    match v with
    | .str s =>
      let cs := s.toList
      match cs with
      | [] => .error (errA "IndexError: string index out of range")
      | '1' :: _ =>
        if cs.all (fun c => c == '0' || c == '1') then pure (.int (bitsToSint cs), st1)
        else .error (.unsupported "bits->sint on non-binary text starting with 1")
      | _ =>
        if cs.all (fun c => c == '0' || c == '1') then pure (.int (bitsToSint cs), st1)
        else match pyIntParse 2 s with
          | .ok i => pure (.int i, st1)
          | .bad => .error (errA "ValueError: invalid literal for int()")
          | .unsupported => .error (.unsupported "int() corner")
    | _ => .error (errA "bits->sint: argument must evaluate to string")
  | _ => .error (errA "bits->sint: expects exactly one argument")

def opSymbolToString (rec : St → Sx → Res) (st : St) (args : List Sx) : Res :=
  match args with
  | [a] => do
    let (v, st1) ← rec st a
    match v with
    | .sym n _ => pure (.str n, st1)
    | _ => .error (errA "symbol->string: argument must evaluate to symbol")
  | _ => .error (errA "symbol->string: expects exactly one argument")

def opStringToSymbol (rec : St → Sx → Res) (st : St) (args : List Sx) : Res :=
  match args with
  | [a] => do
    let (v, st1) ← rec st a
    match v with
    | .str s => pure (.sym s Option.none, st1)
    | _ => .error (errA "string->symbol: argument must evaluate to string")
  | _ => .error (errA "string->symbol: expects exactly one argument")

def opIntToString (rec : St → Sx → Res) (st : St) (args : List Sx) : Res :=
  match args with
  | [a] => do
    let (v, st1) ← rec st a
    match v with
    | .int i => pure (.str (showInt i), st1)
    | .bool b => pure (.str (if b then "True" else "False"), st1)
    | _ => .error (errA "int->string: argument must evaluate to int")
  | _ => .error (errA "int->string: expects exactly one argument")

/-! ## list.py -/

def opList (rec : St → Sx → Res) (st : St) (args : List Sx) : Res := do
  let (vs, st1) ← evalList rec st args
  pure (.list true vs, st1)

def opListAccess (sel : Bool → List Sx → Except Err Sx) (rec : St → Sx → Res) (st : St) (args : List Sx) : Res :=
  match args with
  | [a] => do
    let (v, st1) ← rec st a
    match v with
    | .list w items => do
      let r ← sel w items
      pure (r, st1)
    | _ => .error (errA "list accessor: argument must be a list")
  | _ => .error (errA "list accessor: expects one argument")

def selFirst (_ : Bool) (xs : List Sx) : Except Err Sx :=
  match xs with
  | x :: _ => .ok x
  | [] => .error (errA "first: argument must have length > 0")

def selSecond (_ : Bool) (xs : List Sx) : Except Err Sx :=
  match xs with
  | _ :: y :: _ => .ok y
  | _ => .error (errA "second: argument must have length > 1")

def selLast (_ : Bool) (xs : List Sx) : Except Err Sx :=
  match xs.getLast? with
  | some x => .ok x
  | Option.none => .error (errA "last: argument must have length > 0")

def selRest (w : Bool) (xs : List Sx) : Except Err Sx :=
  match xs with
  | _ :: y :: r => .ok (.list w (y :: r))
  | _ => .ok (.list false [])

/-- Python `x in xs` -/
def pyIn? (x : Sx) : List Sx → Option Bool
  | [] => some false
  | y :: r => match pyEq? y x with
    | some true => some true
    | some false => pyIn? x r
    | Option.none => Option.none

def opIn (rec : St → Sx → Res) (st : St) (args : List Sx) : Res :=
  if args.length < 2 then .error (errA "in: expects at least 2 arguments (in value [list|array])") else do
  let (vs, st1) ← evalList rec st args
  let checks := vs.dropLast
  match vs.getLast? with
  | some (.list _ items) =>
    let r := checks.foldl (fun (acc : Option Bool) c => match acc with
      | some true => pyIn? c items
      | other => other) (some true)
    (match r with
      | some b => pure (.bool b, st1)
      | Option.none => .error (.unsupported "in: == on closures/arrays/floats"))
  | some (.arr ref) =>
    match checks.mapM keyStr?, st1.arr? ref with
    | some ks, some kvs => pure (.bool (assocHas kvs ("-".intercalate ks)), st1)
    | _, _ => .error (.unsupported "in: compound key")
  | _ => .error (errA "in: expects list or array as last argument")

def quoteOf (v : Sx) : Sx := .list true [.op .QUOTE, v]

def mapLoop (call : St → Sx → Res) : St → List Sx → ResL
  | st, [] => .ok ([], st)
  | st, x :: r => do
    let (v, st1) ← call st x
    let (vs, st2) ← mapLoop call st1 r
    pure (v :: vs, st2)

def opMap (rec : St → Sx → Res) (st : St) (args : List Sx) : Res :=
  match args with
  | [f, l] => do
    let (lv, st1) ← rec st l
    match lv with
    | .list _ items =>
      match f with
      | .op o => do
        let (vs, st2) ← mapLoop (fun s x => rec s (.list true [.op o, quoteOf x])) st1 items
        pure (.list false vs, st2)
      | _ => do
        let (fv, st2) ← rec st1 f
        match fv with
        | .clo .. => do
          let (vs, st3) ← mapLoop (fun s x => evalClosure rec s fv [.list false [.op .QUOTE, x]]) st2 items
          pure (.list false vs, st3)
        | _ => .error (errA "map: first argument must be a function")
    | _ => .error (errA "map: second argument must be a list")
  | _ => .error (errA "map: expects two arguments (map function list)")

def foldLoop (call : St → Sx → Sx → Res) : St → Sx → List Sx → Res
  | st, acc, [] => .ok (acc, st)
  | st, acc, x :: r => do
    let (acc', st1) ← call st acc x
    foldLoop call st1 acc' r

def opFold (rec : St → Sx → Res) (st : St) (args : List Sx) : Res :=
  match args with
  | [f, a, l] => do
    let (vs, st1) ← evalList rec st [a, l]
    match vs with
    | [acc, .list _ items] =>
      match f with
      | .op o => foldLoop (fun s acc x => rec s (.list true [.op o, quoteOf acc, quoteOf x])) st1 acc items
      | _ => do
        let (fv, st2) ← rec st1 f
        match fv with
        | .clo .. => foldLoop (fun s acc x => evalClosure rec s fv [quoteOf acc, quoteOf x]) st2 acc items
        | _ => .error (errA "fold: first argument must be a function")
    | _ => .error (errA "fold: last argument must be a list")
  | _ => .error (errA "fold: expects 3 arguments (fold f acc data:list)")

def opZip (rec : St → Sx → Res) (st : St) (args : List Sx) : Res :=
  match args with
  | [_, _] => do
    let (vs, st1) ← evalList rec st args
    match vs with
    | [.list _ xs, .list _ ys] => pure (.list false ((xs.zip ys).map (fun p => .list false [p.1, p.2])), st1)
    | [.str _, _] | [_, .str _] => .error (.unsupported "zip over a string")
    | [.arr _, _] | [_, .arr _] => .error (.unsupported "zip over an array")
    | _ => .error (errA "TypeError: zip argument is not iterable")
  | _ => .error (errA "zip: expects two arguments (zip list list)")

/-- first maximal / minimal element as Python's `max` / `min` pick it -/
def pickExt (gt : Int → Int → Bool) : List (Int × Sx) → Option Sx
  | [] => Option.none
  | (k, v) :: r => some (r.foldl (fun (best : Int × Sx) p => if gt p.1 best.1 then p else best) (k, v)).2

def pickExtStr (gt : String → String → Bool) : List String → Option Sx
  | [] => Option.none
  | s :: r => some (.str (r.foldl (fun best p => if gt p best then p else best) s))

def opMaxMin (isMax : Bool) (rec : St → Sx → Res) (st : St) (args : List Sx) : Res :=
  match args with
  | [a] => do
    let (v, st1) ← rec st a
    match v with
    | .list _ [] => .error (errA "ValueError: max()/min() arg is an empty sequence")
    | .list _ items =>
      match items.mapM (fun x => (asInt? x).map (fun i => (i, x))) with
      | some ks =>
        (match pickExt (if isMax then (fun a b => a > b) else (fun a b => a < b)) ks with
          | some r => pure (r, st1)
          | Option.none => .error (errA "unreachable"))
      | Option.none =>
        match allStrs? items with
        | some ss =>
          (match pickExtStr (if isMax then (fun a b => a > b) else (fun a b => a < b)) ss with
            | some r => pure (r, st1)
            | Option.none => .error (errA "unreachable"))
        | Option.none => .error (.unsupported "max/min of mixed or non-integer values")
    | _ => .error (errA "max/min: argument must be a list")
  | _ => .error (errA "max/min: expects one argument")

def opAverage (rec : St → Sx → Res) (st : St) (args : List Sx) : Res :=
  match args with
  | [a] => do
    let (v, st1) ← rec st a
    match v with
    | .list _ [] => .error (errA "ZeroDivisionError")
    | .list _ items =>
      if !items.all isIntLike then .error (.unsupported "average of non-integers") else
      match pySum? items with
      | some (.int s) =>
        (match toFloat? s, toFloat? items.length with
          | some x, some y => pure (.flt (x / y).toBits, st1)
          | _, _ => .error (.unsupported "average: wide int"))
      | _ => .error (.unsupported "average")
    | _ => .error (errA "average: argument must be a list")
  | _ => .error (errA "average: expects one argument")

def opLength (rec : St → Sx → Res) (st : St) (args : List Sx) : Res :=
  match args with
  | [a] => do
    let (v, st1) ← rec st a
    match v with
    | .list _ items => pure (.int items.length, st1)
    | .str s => pure (.int s.length, st1)
    | .arr r => (match st1.arr? r with
      | some kvs => pure (.int kvs.length, st1)
      | Option.none => .error (errA "dangling array"))
    | _ => .error (errA "length: argument must be a list")
  | _ => .error (errA "length: expects one argument")

/-- `list(range(start, stop, step))` -/
def pyRange (start stop step : Int) : List Int :=
  if step > 0 then
    if stop ≤ start then [] else
    (List.range ((stop - start + step - 1) / step).toNat).map (fun (i : Nat) => start + step * (i : Int))
  else
    if stop ≥ start then [] else
    (List.range ((start - stop + (-step) - 1) / (-step)).toNat).map (fun (i : Nat) => start + step * (i : Int))

def opRange (rec : St → Sx → Res) (st : St) (args : List Sx) : Res :=
  if !(args.length ≥ 1 && args.length ≤ 3) then .error (errA "range: expects one to three arguments") else do
  let (vs, st1) ← evalList rec st args
  match vs.mapM asInt? with
  | Option.none => .error (errA "range: all arguments must be ints")
  | some [a] => pure (.list false ((pyRange 0 a 1).map .int), st1)
  | some [a, b] => pure (.list false ((pyRange a b 1).map .int), st1)
  | some [a, b, c] =>
    if c == 0 then .error (errA "ValueError: range() arg 3 must not be zero")
    else pure (.list false ((pyRange a b c).map .int), st1)
  | _ => .error (errA "unreachable")

/-! ## array.py -/

def arrayBuild (rec : St → Sx → Res) : St → List Sx → List (String × Sx) → Except Err (List (String × Sx) × St)
  | st, [], acc => .ok (acc, st)
  | st, a :: r, acc =>
    match a with
    | .list _ [k, v] => do
      let (kv, st1) ← rec st k
      match kv with
      | .int _ | .bool _ | .str _ | .sym _ _ =>
        (match keyStr? kv with
          | some ks => do
            let (vv, st2) ← rec st1 v
            arrayBuild rec st2 r (assocSet acc ks vv)
          | Option.none => .error (errA "unreachable"))
      | _ => .error (errA "array: keys must be either int, str, or Symbol")
    | _ => .error (errA "array: arguments must be (key sexpr) tuples")

def opArray (rec : St → Sx → Res) (st : St) (args : List Sx) : Res := do
  let (kvs, st1) ← arrayBuild rec st args []
  let (st2, r) := st1.newArr kvs
  pure (.arr r, st2)

def evalArrKey (rec : St → Sx → Res) (st : St) (a k : Sx) : Except Err (Nat × String × St) := do
  let (av, st1) ← rec st a
  match av with
  | .arr r => do
    let (kv, st2) ← rec st1 k
    match kv with
    | .int _ | .bool _ | .str _ | .sym _ _ =>
      (match keyStr? kv with
        | some ks => pure (r, ks, st2)
        | Option.none => .error (errA "unreachable"))
    | _ => .error (errA "array: key must be either int, string or a symbol")
  | _ => .error (errA "array operation: must be applied on array")

def opSeta (rec : St → Sx → Res) (st : St) (args : List Sx) : Res :=
  match args with
  | [a, k, v] => do
    let (r, ks, st1) ← evalArrKey rec st a k
    let (vv, st2) ← rec st1 v
    match st2.arr? r with
    | some kvs => pure (.arr r, st2.setArr r (assocSet kvs ks vv))
    | Option.none => .error (errA "dangling array")
  | _ => .error (errA "seta: requires three arguments")

def opGeta (rec : St → Sx → Res) (st : St) (args : List Sx) : Res :=
  match args with
  | [a, k] => do
    let (r, ks, st1) ← evalArrKey rec st a k
    match (st1.arr? r).bind (fun kvs => kvs.lookup ks) with
    | some v => pure (v, st1)
    | Option.none => .error (errA "geta: key not found")
  | _ => .error (errA "geta: requires two arguments")

def opDela (rec : St → Sx → Res) (st : St) (args : List Sx) : Res :=
  match args with
  | [a, k] => do
    let (r, ks, st1) ← evalArrKey rec st a k
    match st1.arr? r with
    | some kvs =>
      if assocHas kvs ks then pure (.arr r, st1.setArr r (assocDel kvs ks)) else .error (errA "dela: key not found")
    | Option.none => .error (errA "dangling array")
  | _ => .error (errA "dela: requires two arguments")

/-- one call of `mapa`'s function: key and value are passed quoted -/
def mapaCall (rec : St → Sx → Res) (fv : Sx) (s : St) (kv : Sx) : Res :=
  match kv with
  | .list _ [k, v] => evalClosure rec s fv [.list false [.op .QUOTE, k], .list false [.op .QUOTE, v]]
  | _ => .error (errA "unreachable")

def opMapa (rec : St → Sx → Res) (st : St) (args : List Sx) : Res :=
  match args with
  | [f, a] => do
    let (fv, st1) ← rec st f
    match fv with
    | .clo .. => do
      let (av, st2) ← rec st1 a
      match av with
      | .arr r =>
        match st2.arr? r with
        | some kvs => do
          let (vs, st3) ← mapLoop (mapaCall rec fv) st2 (kvs.map (fun p => .list false [.str p.1, p.2]))
          pure (.list false vs, st3)
        | Option.none => .error (errA "dangling array")
      | _ => .error (errA "mapa: second argument must be an array")
    | _ => .error (errA "mapa: first argument must be a function")
  | _ => .error (errA "mapa: requires two arguments")

/-! ## implementation/wal.py -/

def opUnload (rec : St → Sx → Res) (st : St) (args : List Sx) : Res :=
  match args with
  | [a] => do
    let (v, st1) ← rec st a
    match nameOf? v with
    | some tid => pure (.none, { st1 with tc := st1.tc.unload tid })
    | Option.none => .error (errA "unload: argument must be str or symbol")
  | _ => .error (errA "unload: expects one argument (unload trace:symbol)")

def doStepNamed (st : St) (tidArg : Sx) (k : Int) : Except Err (St × List String) :=
  match nameOf? tidArg with
  | Option.none => .error (errA "step: arguments must be either str or symbol")
  | some tid =>
    match st.tc.step k (some tid) with
    | some (c, ended) => .ok ({ st with tc := c }, ended)
    | Option.none => .error (errA "No trace with tid")

def stepTids (k : Int) : St → List Sx → List String → Except Err (St × List String)
  | st, [], acc => .ok (st, acc)
  | st, t :: r, acc => do
    let (st1, e) ← doStepNamed st t k
    stepTids k st1 r (acc ++ e)

def opStep (rec : St → Sx → Res) (st : St) (args : List Sx) : Res :=
  if st.tc.traces.isEmpty then .error (errA "step: no traces loaded") else
  match args with
  | [] =>
    let (ts, ended) := stepAll st.tc.traces 1
    .ok (.bool ended.isEmpty, { st with tc := { st.tc with traces := ts } })
  | [a] => do
    let (v, st1) ← rec st a
    match asInt? v with
    | some k =>
      let (ts, ended) := stepAll st1.tc.traces k
      pure (.bool ended.isEmpty, { st1 with tc := { st1.tc with traces := ts } })
    | Option.none => do
      let (st2, ended) ← doStepNamed st1 a 1
      pure (.bool ended.isEmpty, st2)
  | _ => do
    match args.getLast? with
    | Option.none => .error (errA "unreachable")
    | some l => do
      let (v, st1) ← rec st l
      match asInt? v with
      | Option.none => .error (errA "step: last argument must be int")
      | some k => do
        let (st2, ended) ← stepTids k st1 args.dropLast []
        pure (.bool ended.isEmpty, st2)

def opIsSignal (rec : St → Sx → Res) (st : St) (args : List Sx) : Res :=
  match args with
  | [a] => do
    let (v, st1) ← rec st a
    match nameOf? v with
    | some n => do
      let b ← containsOrErr st1 n
      pure (.bool b, st1)
    | Option.none => .error (errA "signal?: expects a symbol or string")
  | _ => .error (errA "signal?: expects exactly one argument")

/-! ## special.py -/

def St.traceIdx (st : St) (tid : String) : Option Int := (st.tc.find? tid).map (·.index)

/-- the `while not ended` loop of `op_find` on the trace `tid` -/
def findLoop (rec : St → Sx → Res) (c : Sx) (tid : String) : Nat → St → List Int → Except Err (List Int × St)
  | 0, _, _ => .error .fuel
  | k + 1, st, acc => do
    let (v, st1) ← rec st c
    match st1.tc.find? tid with
    | Option.none => .error (.unsupported "find: trace unloaded inside the condition")
    | some t =>
      let acc' := if st1.truthy v then acc ++ [t.index] else acc
      let (t', ok) := t.step 1
      if ok then findLoop rec c tid k (st1.updTrace tid (fun _ => t')) acc'
      else .ok (acc', st1)

def findTraces (n : Nat) (rec : St → Sx → Res) (c : Sx) : St → List String → List Int → Except Err (List Int × St)
  | st, [], acc => .ok (acc, st)
  | st, tid :: r, acc =>
    match st.traceIdx tid with
    | Option.none => .error (.unsupported "find: trace set changed")
    | some start => do
      let (found, st1) ← findLoop rec c tid n st acc
      findTraces n rec c (st1.updTrace tid (fun t => { t with index := start })) r found

def insertSortedInt (x : Int) : List Int → List Int
  | [] => [x]
  | y :: r => if x < y then x :: y :: r else if x == y then y :: r else y :: insertSortedInt x r

def sortDedupInt (xs : List Int) : List Int := xs.foldl (fun acc x => insertSortedInt x acc) []

def opFind (n : Nat) (rec : St → Sx → Res) (st : St) (args : List Sx) : Res :=
  match args with
  | [c] => do
    let (found, st1) ← findTraces n rec c st (st.tc.traces.map (·.tid)) []
    pure (.list false ((sortDedupInt found).map .int), st1)
  | _ => .error (errA "find: expects exactly one argument (find condition)")

/-- shared loop of `find/g` and `whenever`: `onHit` runs at each index where the condition is truthy -/
def scanLoop (rec : St → Sx → Res) (c : Sx) (onHit : St → α → Except Err (α × St)) : Nat → St → α → Except Err (α × St)
  | 0, _, _ => .error .fuel
  | k + 1, st, acc => do
    let (v, st1) ← rec st c
    let (acc', st2) ← (if st1.truthy v then onHit st1 acc else pure (acc, st1))
    let (ts, ended) := stepAll st2.tc.traces 1
    let st3 := { st2 with tc := { st2.tc with traces := ts } }
    if ended.isEmpty then scanLoop rec c onHit k st3 acc' else .ok (acc', st3)

/-- epilogue of the scans: `trace.index = prev_indices[trace.tid]` for every loaded trace -/
def restorePrev (st : St) (prev : List (String × Int)) : Except Err St :=
  if st.tc.traces.all (fun t => (prev.lookup t.tid).isSome) then
    .ok { st with tc := { st.tc with traces := setIndices st.tc.traces prev } }
  else .error (errA "KeyError: prev_indices")

def opFindG (n : Nat) (rec : St → Sx → Res) (st : St) (args : List Sx) : Res :=
  match args with
  | [c] =>
    if st.tc.traces.isEmpty then .error (.unsupported "find/g without traces does not terminate") else do
    let prev := indicesOf st.tc.traces
    let (found, st1) ← scanLoop rec c (fun s (acc : List Sx) =>
      match indicesOf s.tc.traces with
      | [(_, i)] => .ok (acc ++ [.int i], s)
      | [] => .error (errA "IndexError")
      | idx =>
        let (s', r) := s.newArr (idx.map (fun p => (p.1, .int p.2)))
        .ok (acc ++ [.arr r], s')) n st []
    let st2 ← restorePrev st1 prev
    pure (.list false found, st2)
  | _ => .error (errA "find/g: expects exactly one argument (find condition)")

/-- the body of `whenever` at one hit: its forms in order, the value of the last -/
def wheneverBody (rec : St → Sx → Res) (body : List Sx) (s : St) (_ : Sx) : Except Err (Sx × St) := do
  let (vs, s') ← evalList rec s body
  let v ← lastOr vs
  pure (v, s')

def opWhenever (n : Nat) (rec : St → Sx → Res) (st : St) (args : List Sx) : Res :=
  match args with
  | c :: b :: bs =>
    if st.tc.traces.isEmpty then .error (.unsupported "whenever without traces does not terminate") else do
    let prev := indicesOf st.tc.traces
    let (res, st1) ← scanLoop rec c (wheneverBody rec (b :: bs)) n st .none
    let st2 ← restorePrev st1 prev
    pure (res, st2)
  | _ => .error (errA "whenever: expects exactly two arguments (whenever condition body)")

def opSignalWidth (rec : St → Sx → Res) (st : St) (args : List Sx) : Res :=
  match args with
  | [a] => do
    let (v, st1) ← rec st a
    match nameOf? v with
    | some n => do
      let ok ← containsOrErr st1 n
      if !ok then .error (errA "signal-width: no such signal") else
      match st1.tc.signalWidth n with
      | some w => pure (.int w, st1)
      | Option.none => .error (errA "KeyError: signal-width")
    | Option.none => .error (errA "signal-width: expects a string or symbol")
  | _ => .error (errA "signal-width: expects exactly one argument")

def sampleAll (l : List Int) : List Trace → Option (List Trace)
  | [] => some []
  | t :: r => match t.setSamplingPoints l, sampleAll l r with
    | some t', some r' => some (t' :: r')
    | _, _ => Option.none

def opSampleAt (rec : St → Sx → Res) (st : St) (args : List Sx) : Res :=
  if !(args.length == 1 || args.length == 2) then .error (errA "sample-at: expects one or two arguments") else
  match args with
  | a :: r => do
    let (v, st1) ← rec st a
    match v with
    | .list _ items =>
      match items.mapM asInt? with
      | Option.none => .error (errA "sample-at: argument must be a list of integers")
      | some l =>
        match r with
        | [.sym tid _] =>
          (match st1.tc.find? tid with
            | Option.none => .error (errA "KeyError: no such trace")
            | some t => match t.setSamplingPoints l with
              | some t' => pure (.none, st1.updTrace tid (fun _ => t'))
              | Option.none => .error (errA "IndexError: sample-at"))
        | [_] => .error (errA "sample-at: second argument must be a symbol")
        | _ =>
          (match sampleAll l st1.tc.traces with
            | some ts => pure (.none, { st1 with tc := { st1.tc with traces := ts } })
            | Option.none => .error (errA "IndexError: sample-at"))
    | _ => .error (errA "sample-at: first argument must be a list of integers")
  | [] => .error (errA "unreachable")

def opTrimTrace (rec : St → Sx → Res) (st : St) (args : List Sx) : Res :=
  match args with
  | [a, b] => do
    let (tv, st1) ← rec st a
    let (mv, st2) ← rec st1 b
    match tv, asInt? mv with
    | .sym tid _, some m =>
      (match st2.tc.find? tid with
        | some t =>
          let t' := t.setMaxIndex m
          pure (.int t'.maxIndex, st2.updTrace tid (fun _ => t'))
        | Option.none => .error (errA "KeyError: no such trace"))
    | .str _, some _ => .error (errA "AttributeError: 'str' object has no attribute 'name'")
    | _, _ => .error (errA "trim-trace: bad arguments")
  | _ => .error (errA "trim-trace: expects exactly two arguments")

/-! ## virtual.py -/

mutual
def defsigResolve (scope group : String) : Sx → Sx
  | .list true [.op .RESOLVE_SCOPE, .sym n _] => .sym (scope ++ n) Option.none
  | .list true [.op .RESOLVE_GROUP, .sym n _] => .sym (group ++ n) Option.none
  | .list true xs => .list true (defsigResolveList scope group xs)
  | e => e
def defsigResolveList (scope group : String) : List Sx → List Sx
  | [] => []
  | e :: r => defsigResolve scope group e :: defsigResolveList scope group r
end

def opDefsig (st : St) (args : List Sx) : Res :=
  match args with
  | .sym n _ :: b :: bs => do
    let cs ← readCS st
    let cg ← readCG st
    let scope := if cg != "" then "" else (if cs != "" then cs ++ "." else "")
    let name := scope ++ cg ++ n
    let body := .list true (defsigResolveList scope cg (b :: bs))
    if st.tc.nTraces == 1 then
      match st.tc.traces with
      | t :: _ =>
        let vs : VSig := { name := name, body := body, cache := [] }
        let virt' := if t.virt.any (fun v => v.name == name)
          then t.virt.map (fun v => if v.name == name then vs else v) else t.virt ++ [vs]
        pure (.none, st.updTrace t.tid (fun t' => { t' with virt := virt' }))
      | [] => .error (errA "IndexError: no trace")
    else .error (.unsupported "defsig with several traces")
  | _ => .error (errA "defsig: expects at least two arguments (defsig name body+)")

/-! ## one layer of `SEval.eval` -/

def dispatch (n : Nat) (rec : St → Sx → Res) (st : St) (o : Op) (args : List Sx) : Res :=
  match o with
  | .NOT => opNot rec st args
  | .EQ => opEq false rec st args
  | .NEQ => opEq true rec st args
  | .LARGER => opCmp .gt rec st args
  | .SMALLER => opCmp .lt rec st args
  | .LARGER_EQUAL => opCmp .ge rec st args
  | .SMALLER_EQUAL => opCmp .le rec st args
  | .AND => opAnd rec st args
  | .OR => opOr rec st args
  | .LET => opLet rec st args
  | .DEFINE => opDefine rec st args
  | .SET => opSet rec st args
  | .PRINT => opPrint rec st args
  | .PRINTF => .error (.unsupported "printf")
  | .IF => opIf rec st args
  | .CASE => opCase rec st args
  | .DO => opDo rec st args
  | .WHILE => opWhile n rec st args
  | .ALIAS => opAlias rec st args
  | .UNALIAS => opUnalias st args
  | .QUOTE => opQuote st args
  | .QUASIQUOTE => opQuasiquote rec st args
  | .UNQUOTE => .error (errA "unquote: not in quasiquote")
  | .EVAL => opEval n rec st args
  | .PARSE => .error (.unsupported "parse")
  | .DEFMACRO => opDefmacro n rec st args
  | .MACROEXPAND => opMacroexpand n rec st args
  | .GENSYM => opGensym st
  | .FN => opFn st args
  | .GET => opGet rec st args
  | .IMPORT => .error (.unsupported "import")
  | .CALL => .error (.unsupported "call")
  | .TYPE => opType rec st args
  | .REL_EVAL => opReval rec st args
  | .SCOPED => opScoped rec st args
  | .RESOLVE_SCOPE => opResolveScope rec st args
  | .ALLSCOPES => opAllScopes rec st args
  | .SETSCOPE => opSetScope st args
  | .UNSETSCOPE => opUnsetScope st args
  | .GROUPS => opGroups rec st args
  | .IN_GROUP => opInGroup rec st args
  | .IN_GROUPS => opInGroups rec st args
  | .RESOLVE_GROUP => opResolveGroup rec st args
  | .SLICE => opSlice rec st args
  | .LOADED_TRACES => opLoadedTraces st args
  | .EXIT => opExit rec st args
  | .ADD => opAdd rec st args
  | .SUB => opSub rec st args
  | .MUL => opMul rec st args
  | .DIV => opDiv rec st args
  | .EXP => opExp rec st args
  | .FLOOR | .CEIL | .ROUND => opRoundLike rec st args
  | .MOD => opMod rec st args
  | .BOR => opBitwise intLor (· || ·) rec st args
  | .BAND => opBitwise intLand (· && ·) rec st args
  | .BXOR => opBitwise intXor (fun a b => a != b) rec st args
  | .IS_DEFINED => opIsDefined rec st args
  | .IS_ATOM => opAllPred isAtomVal rec st args
  | .IS_SYMBOL => opAllPred isSym rec st args
  | .IS_STRING => opAllPred isStr rec st args
  | .IS_INT => opAllPred isIntLike rec st args
  | .IS_LIST => opAllPred isList rec st args
  | .CONVERT_BINARY => opConvertBin rec st args
  | .STRING_TO_INT => opStringToInt rec st args
  | .BITS_TO_SINT => opBitsToSint rec st args
  | .STRING_TO_SYMBOL => opStringToSymbol rec st args
  | .SYMBOL_TO_STRING => opSymbolToString rec st args
  | .INT_TO_STRING => opIntToString rec st args
  | .LIST => opList rec st args
  | .FIRST => opListAccess selFirst rec st args
  | .SECOND => opListAccess selSecond rec st args
  | .LAST => opListAccess selLast rec st args
  | .REST => opListAccess selRest rec st args
  | .IN => opIn rec st args
  | .MAP => opMap rec st args
  | .MAX => opMaxMin true rec st args
  | .MIN => opMaxMin false rec st args
  | .FOLD => opFold rec st args
  | .LENGTH => opLength rec st args
  | .AVERAGE => opAverage rec st args
  | .ZIP => opZip rec st args
  | .RANGE => opRange rec st args
  | .ARRAY => opArray rec st args
  | .SETA => opSeta rec st args
  | .GETA => opGeta rec st args
  | .DELA => opDela rec st args
  | .MAPA => opMapa rec st args
  | .LOAD => .error (.unsupported "load inside a program")
  | .UNLOAD => opUnload rec st args
  | .STEP => opStep rec st args
  | .REPL => .error (.unsupported "repl")
  | .IS_SIGNAL => opIsSignal rec st args
  | .REQUIRE => .error (.unsupported "require")
  | .EVAL_FILE => .error (.unsupported "eval-file")
  | .FIND => opFind n rec st args
  | .FIND_G => opFindG n rec st args
  | .WHENEVER => opWhenever n rec st args
  | .FOLD_SIGNAL => .error (.unsupported "fold/signal")
  | .SIGNAL_WIDTH => opSignalWidth rec st args
  | .SAMPLE_AT => opSampleAt rec st args
  | .TRIM_TRACE => opTrimTrace rec st args
  | .DEFSIG => opDefsig st args
  | .NEWTRACE => .error (.unsupported "new-trace")
  | .DUMPTRACE => .error (.unsupported "dump-trace")

def evalStep (n : Nat) (rec : St → Sx → Res) (st : St) : Sx → Res
  | .sym name steps => evalSym rec st name steps
  | .list _ [] => .error (errA "IndexError: list index out of range")
  | .list _ (head :: tail) =>
    match head with
    | .op o => dispatch n rec st o tail
    | .clo .. => evalClosure rec st head tail
    | .mac .. => .error (.unsupported "macro value in head position at run time")
    | .ty _ => .error (.unsupported "calling a Python type object")
    | .int _ | .bool _ | .str _ => .error (errA "not a valid function call")
    | .flt _ => .error (errA "RecursionError")
    | .none | .arr _ | .unq _ | .unqs _ => .error (errA "NotImplementedError")
    | .sym .. | .list .. => do
      let (f, st1) ← rec st head
      rec st1 (.list false (f :: tail))
  | .int i => .ok (.int i, st)
  | .bool b => .ok (.bool b, st)
  | .str s => .ok (.str s, st)
  | .flt b => .ok (.flt b, st)
  | .clo a b c d => .ok (.clo a b c d, st)
  | .none | .op _ | .unq _ | .unqs _ | .mac .. | .arr _ | .ty _ => .error (errA "NotImplementedError")

def eval : Nat → St → Sx → Res
  | 0, _, _ => .error .fuel
  | n + 1, st, e => evalStep n (eval n) st e

/-- `Wal.eval(sexpr)`: expand → optimize → resolve → eval, from the top-level context;
mode flags switch single passes off (for the C07/C08 twins) -/
structure Mode where
  expand : Bool := true
  optimize : Bool := true
  resolve : Bool := true
  deriving Repr, Inhabited

def walEval (m : Mode) (n : Nat) (st : St) (e : Sx) : Res := do
  let (ex, st1) ← (if m.expand then expand (eval n) (some 0) n st e else pure (e, st))
  let opt := if m.optimize then optimize ex else ex
  let res ← (if m.resolve then ofOpt (resolve st1.globalNames opt) (errA "resolve: symbol already defined") else pure opt)
  eval n st1 res

end Wal
