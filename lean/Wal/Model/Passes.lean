import Wal.Model.Arith
/-!
# The pure passes of `wal/passes.py`: `optimize` and `resolve`
(`expand` needs the evaluator and lives in `Eval.lean`.)
-/
namespace Wal

/-- `isinstance(x, (int, float, str))` (bool is an int) -/
def isLit : Sx → Bool
  | .int _ | .bool _ | .flt _ | .str _ => true
  | _ => false

def allStrs? : List Sx → Option (List String)
  | [] => some []
  | .str s :: r => (allStrs? r).map (s :: ·)
  | _ => Option.none

/-- leading-literal folding of `&&`: `some b` = the whole form folds to the boolean `b` -/
def andFold : List Sx → Option Bool
  | [] => some true
  | a :: r => if !isLit a then Option.none else if !truthy a then some false else andFold r

def orFold : List Sx → Option Bool
  | [] => some false
  | a :: r => if !isLit a then Option.none else if truthy a then some true else orFold r

mutual
/-- `optimize(expr)`; the `try … finally: return expr` of the code turns every exception into
"return what `expr` is bound to at that moment", mirrored case by case -/
def optimize : Sx → Sx
  | .list w (.op o :: args) =>
    match o with
    | .QUOTE | .QUASIQUOTE => .list w (.op o :: args)
    -- `groups` evaluates a list operand and takes a bare symbol as a name: its operands are left as written
    | .GROUPS => .list w (.op o :: args)
    | .IF =>
      if !w then .list w (.op o :: args) else       -- `expr.line_info` raises on a plain list
      let args' := optList args
      match args' with
      | c :: rest =>
        if isLit c then
          if truthy c then
            (match rest with | a :: _ => a | [] => .list true (.op .IF :: args'))
          else
            (match rest with | _ :: b :: _ => b | _ => .list true (.op .IF :: args'))
        else .list true (.op .IF :: args')
      | [] => .list true (.op .IF :: args')
    | .DO =>
      if !w then .list w (.op o :: args) else
      -- the code computes optimize(optimize a) for the single-body case. The second pass changes nothing unless the
      -- first one turned a *head position* into an operator (`((do if) 1 2 3)`, see Props/C16 `second_pass_witness`):
      -- such forms fail at run time (an operator is not a value), so the difference is outside every property
      match optList args with
      | [a'] => a'
      | args' => .list true (.op .DO :: args')
    | .ADD =>
      if !w then .list w (.op o :: args) else
      let args' := optList args
      if args'.all isNum then
        match pySum? args' with
        | some v => v
        | Option.none => .list true (.op .ADD :: args')   -- OverflowError swallowed by `finally`
      else match allStrs? args' with
        | some ss => .str (String.join ss)
        | Option.none => .list true (.op .ADD :: args')
    | .MUL =>
      if !w then .list w (.op o :: args) else
      let args' := optList args
      if args'.all isNum then
        match numFold? .mul (.int 1) args' with
        | some v => v
        | Option.none => .list true (.op .MUL :: args')
      else .list true (.op .MUL :: args')
    | .AND =>
      match args with
      | [] => .list w (.op o :: args)
      | _ => match andFold args with
        | some b => .bool b
        | Option.none => .list w (.op o :: args)
    | .OR =>
      match args with
      | [] => .list w (.op o :: args)
      | _ => match orFold args with
        | some b => .bool b
        | Option.none => .list w (.op o :: args)
    | .CASE =>
      -- the key of a clause is data (compared as it stands, never evaluated): only the key form and the consequents are code
      if !w then .list w (.op o :: args) else
      match args with
      | [] => .list true [.op .CASE]
      | kf :: clauses => .list true (.op .CASE :: optimize kf :: optClauses clauses)
    | _ => if !w then .list w (.op o :: args) else .list true (.op o :: optList args)
  | .list w (h :: args) =>
    -- head is not an operator: generic branch maps over *all* elements (the head too)
    if !w then .list w (h :: args) else .list true (optimize h :: optList args)
  | e => e
def optList : List Sx → List Sx
  | [] => []
  | e :: r => optimize e :: optList r
/-- the clauses of a `case`: the key stays as written, the consequents are optimised -/
def optClauses : List Sx → List Sx
  | [] => []
  | .list true (k :: body) :: r => .list true (k :: optList body) :: optClauses r
  | c :: r => c :: optClauses r
end

/-! ## resolve -/

/-- one static scope: name ↦ "the define has been passed" (`False` = only announced by `predefine`) -/
abbrev Scope := List (String × Bool)

/-- static scopes, innermost first; the `None` sentinel of the code is the end of the list -/
abbrev Scopes := List Scope

def scopeHas (s : Scope) (x : String) : Bool := s.any (fun p => p.1 == x)

/-- `scope.get(name)` is truthy -/
def scopeDefined (s : Scope) (x : String) : Bool := s.lookup x == some true

/-- the symbol case: the nearest scope that knows the name decides; resolved only if the name is defined there -/
def lookupSteps : Scopes → String → Nat → Option Nat
  | [], _, _ => Option.none
  | s :: rest, x, k =>
    if scopeHas s x then (if scopeDefined s x then some k else Option.none) else lookupSteps rest x (k + 1)

def symName? : Sx → Option String
  | .sym n _ => some n
  | _ => Option.none

def setDefault (s : Scope) (x : String) : Scope := if scopeHas s x then s else s ++ [(x, false)]

def announceTop (sc : Scopes) (x : String) : Scopes :=
  match sc with
  | [] => []
  | s :: r => setDefault s x :: r

def addToTop (sc : Scopes) (x : String) : Scopes :=
  match sc with
  | [] => []
  | s :: r => assocSet s x true :: r

mutual
/-- `predefine(env, body)`: announce the names of every define that is evaluated in the frame of this body — the
    statements themselves, what is nested in `do` blocks, and the operands of every other form; `fn`, `let`, quoted data
    and `defmacro` are skipped (own frame, or not evaluated) -/
def predefine (s : Scope) : List Sx → Scope
  | [] => s
  | e :: r => predefine (predefine1 s e) r
def predefine1 (s : Scope) : Sx → Scope
  | .list true (h :: x :: rest) =>
    match h with
    | .op .DEFINE =>
      (match x with
        | .sym n _ => predefine (setDefault s n) rest
        | _ => predefine s (x :: rest))      -- not a symbol: an ordinary operator form
    | .op .FN | .op .LET | .op .QUOTE | .op .QUASIQUOTE | .op .DEFMACRO => s
    | .op _ => predefine s (x :: rest)
    | _ => predefine s (h :: x :: rest)
  | _ => s
end

/-- names bound by a `let` binding list: `binding[0].name` for every binding -/
def letNames : List Sx → Option (List String)
  | [] => some []
  | .list _ (.sym n _ :: _) :: r => (letNames r).map (n :: ·)
  | _ => Option.none

/-- the initial-value expressions of a `let` binding list (`binding[1]`) -/
def letInits : List Sx → List Sx
  | [] => []
  | .list _ (_ :: v :: _) :: r => v :: letInits r
  | _ :: r => letInits r

def fnNames : Sx → Option (List String)
  | .list _ ps => ps.mapM symName?
  | .sym n _ => some [n]
  | _ => Option.none

def boundScope (names : List String) : Scope := (dedup names).map (fun n => (n, true))

mutual
/-- `resolve_vars`; the scope stack is threaded because `define` / `defmacro` extend the top scope.
`none` = the pass raises (AssertionError "already defined", or an AttributeError/IndexError on malformed forms) -/
def resolveGo (sc : Scopes) : Sx → Option (Sx × Scopes)
  | .list true (.op o :: args) =>
    match o with
    | .DEFINE =>
      match args with
      | .sym n st :: body :: _ =>
        match sc with
        | [] => Option.none
        | top :: _ =>
          if scopeDefined top n then Option.none else
          match resolveGo (announceTop sc n) body with
          | some (body', sc') => some (.list true [.op .DEFINE, .sym n st, body'], addToTop sc' n)
          | Option.none => Option.none
      | _ => Option.none
    | .LET =>
      match args with
      | .list bw bindings :: body =>
        match letNames bindings with
        | Option.none => Option.none
        | some names =>
          -- the initial values are evaluated inside the new frame as well: what they define lives there
          match resolveList (predefine (predefine (boundScope names) body) (letInits bindings) :: sc) body with
          | some (body', sc') => some (.list true (.op .LET :: .list bw bindings :: body'), sc'.drop 1)
          | Option.none => Option.none
      | _ => Option.none
    | .FN =>
      match args with
      | ps :: body =>
        match fnNames ps with
        | Option.none => Option.none
        | some names =>
          match resolveList (predefine (boundScope names) body :: sc) body with
          | some (body', sc') => some (.list true (.op .FN :: ps :: body'), sc'.drop 1)
          | Option.none => Option.none
      | [] => Option.none
    | .DEFMACRO =>
      match args with
      | .sym n _ :: _ => some (.list true (.op o :: args), addToTop sc n)
      | _ => Option.none
    | .QUOTE | .QUASIQUOTE | .ALIAS => some (.list true (.op o :: args), sc)
    | .CASE =>
      match args with
      | [] => some (.list true [.op .CASE], sc)
      | kf :: clauses =>
        match resolveGo sc kf with
        | Option.none => Option.none
        | some (kf', sc1) =>
          match resolveClauses sc1 clauses with
          | some (cl', sc') => some (.list true (.op .CASE :: kf' :: cl'), sc')
          | Option.none => Option.none
    | _ =>
      match resolveList sc args with
      | some (args', sc') => some (.list true (.op o :: args'), sc')
      | Option.none => Option.none
  | .list true (h :: args) =>
    match resolveGo sc h with
    | Option.none => Option.none
    | some (h', sc1) =>
      match resolveList sc1 args with
      | some (args', sc') => some (.list true (h' :: args'), sc')
      | Option.none => Option.none
  | .sym n st =>
    match lookupSteps sc n 0 with
    | some k => some (.sym n (some k), sc)
    | Option.none => some (.sym n st, sc)
  | e => some (e, sc)
def resolveList (sc : Scopes) : List Sx → Option (List Sx × Scopes)
  | [] => some ([], sc)
  | e :: r =>
    match resolveGo sc e with
    | Option.none => Option.none
    | some (e', sc1) =>
      match resolveList sc1 r with
      | some (r', sc2) => some (e' :: r', sc2)
      | Option.none => Option.none
/-- the clauses of `case`: the key of a clause is data (compared, never evaluated) and stays as written -/
def resolveClauses (sc : Scopes) : List Sx → Option (List Sx × Scopes)
  | [] => some ([], sc)
  | c :: r =>
    match c with
    | .list true (k :: cons) =>
      match resolveList sc cons with
      | Option.none => Option.none
      | some (cons', sc1) =>
        match resolveClauses sc1 r with
        | some (r', sc2) => some (.list true (k :: cons') :: r', sc2)
        | Option.none => Option.none
    | _ =>
      match resolveClauses sc r with
      | some (r', sc2) => some (c :: r', sc2)
      | Option.none => Option.none
end

/-- `resolve(expr, start=names)` -/
def resolve (start : List String) (e : Sx) : Option Sx :=
  (resolveGo [predefine (start.map (fun n => (n, true))) [e]] e).map (·.1)

end Wal
