import Wal.Model.Sx
import Wal.Gen.Ops
/-!
# WAWK expressions: the stratified operator grammar of `wawk/parser.py` on tokens

```
or_s : or_s "||" and_s | and_s          and_s : and_s "&&" comp | comp
comp : sum_s comp_op sum_s | sum_s      sum_s : sum_s ("+"|"-") mul | mul
mul  : mul ("*"|"/") neg | neg          neg   : "!" neg | atom          atom : … | "(" expr ")"
```

`pLevel n ℓ` is the recursive descent for level ℓ (1 = `or_s` … 5 = `mul`, 6 = `neg`/`atom`) with fuel `n`;
left recursion of the grammar is the loop `pLoop`. Atoms (symbols, numbers, strings, calls, lists, array accesses) are
opaque tokens carrying the form they transpile to. `pp` writes a tree with exactly the parentheses the grouping rules
make necessary. `PE.toSx` is `TreeToWal` on the operator rules.
-/
namespace Wal.Wawk
open Wal

inductive POp where
  | or | and | eq | neq | gt | lt | ge | le | add | sub | mul | div
  deriving Repr, DecidableEq

/-- the level (rule) an operator belongs to -/
def POp.lvl : POp → Nat
  | .or => 1 | .and => 2
  | .eq => 3 | .neq => 3 | .gt => 3 | .lt => 3 | .ge => 3 | .le => 3
  | .add => 4 | .sub => 4 | .mul => 5 | .div => 5

/-- `a_comp` maps `==` to `Op.EQ`, every other rule builds `Op(text)` -/
def POp.op : POp → Op
  | .or => .OR | .and => .AND | .eq => .EQ | .neq => .NEQ | .gt => .LARGER | .lt => .SMALLER
  | .ge => .LARGER_EQUAL | .le => .SMALLER_EQUAL | .add => .ADD | .sub => .SUB | .mul => .MUL | .div => .DIV

inductive PE where
  | atom (s : Sx)
  | neg (a : PE)
  | bin (o : POp) (a b : PE)

def PE.lvl : PE → Nat
  | .atom _ => 6
  | .neg _ => 6
  | .bin o _ _ => o.lvl

/-- `TreeToWal`: `a_neg`, `a_mul`, `a_sum_s`, `a_comp`, `a_and_s`, `a_or_s` -/
def PE.toSx : PE → Sx
  | .atom s => s
  | .neg a => .list false [.op .NOT, a.toSx]
  | .bin o a b => .list false [.op o.op, a.toSx, b.toSx]

inductive Tok where
  | atom (s : Sx)
  | op (o : POp)
  | bang
  | lp
  | rp

/-- the text of a tree in a position that accepts level ≥ ℓ: parentheses exactly where the tree's own level is lower;
    the right operand of a binary rule is one level up (left recursion = grouping left to right), comparisons take
    `sum_s` on both sides -/
def pp : Nat → PE → List Tok
  | _, .atom s => [.atom s]
  | _, .neg a => .bang :: pp 6 a
  | ℓ, .bin o a b =>
    let body := pp (if o.lvl == 3 then 4 else o.lvl) a ++ .op o :: pp (o.lvl + 1) b
    if o.lvl < ℓ then .lp :: body ++ [.rp] else body

mutual
def pLevel : Nat → Nat → List Tok → Option (PE × List Tok)
  | 0, _, _ => none
  | n + 1, ℓ, ts =>
    if 6 ≤ ℓ then pUnary n ts else
    match pLevel n (ℓ + 1) ts with
    | none => none
    | some (a, r) => if ℓ == 3 then pCmp n a r else pLoop n ℓ a r

def pUnary : Nat → List Tok → Option (PE × List Tok)
  | 0, _ => none
  | _ + 1, .atom s :: r => some (.atom s, r)
  | n + 1, .bang :: r =>
    match pUnary n r with
    | some (a, r') => some (.neg a, r')
    | none => none
  | n + 1, .lp :: r =>
    match pLevel n 1 r with
    | some (e, .rp :: r') => some (e, r')
    | _ => none
  | _ + 1, _ => none

/-- `comp : sum_s comp_op sum_s | sum_s` — at most one comparison (the rule is not recursive) -/
def pCmp : Nat → PE → List Tok → Option (PE × List Tok)
  | 0, _, _ => none
  | n + 1, a, .op o :: r =>
    if o.lvl == 3 then
      match pLevel n 4 r with
      | some (b, r') => some (.bin o a b, r')
      | none => none
    else some (a, .op o :: r)
  | _ + 1, a, ts => some (a, ts)

/-- the left-recursive rules: `x : x op y | y` — collect operands of the next level while the operator is of this level -/
def pLoop : Nat → Nat → PE → List Tok → Option (PE × List Tok)
  | 0, _, _, _ => none
  | n + 1, ℓ, a, .op o :: r =>
    if o.lvl == ℓ then
      match pLevel n (ℓ + 1) r with
      | some (b, r') => pLoop n ℓ (.bin o a b) r'
      | none => none
    else some (a, .op o :: r)
  | _ + 1, _, a, ts => some (a, ts)
end

/-- a whole expression: everything must be consumed (fuel: a few units per token) -/
def parseExpr (ts : List Tok) : Option PE :=
  match pLevel (16 * ts.length + 16) 1 ts with
  | some (e, []) => some e
  | _ => none

end Wal.Wawk
