import Wal.Model.Trace
/-!
# VCD reader (`wal/trace/vcd.py::TraceVcd.parse`) on the token list produced by `str.split()`
-/
namespace Wal

/-! ## name normalisation: the three `re.sub` passes as one-character-at-a-time scanners -/

/-- `re.sub(r'\o([0-9]+)\c', r'<\1>', ·)`: state = digits read since an opening bracket -/
def subIdxGo (o c : Char) : Option (List Char) → List Char → List Char
  | Option.none, [] => []
  | some ds, [] => o :: ds
  | Option.none, x :: rest =>
    if x == o then subIdxGo o c (some []) rest else x :: subIdxGo o c Option.none rest
  | some ds, x :: rest =>
    if x.isDigit then subIdxGo o c (some (ds ++ [x])) rest
    else if x == c && !ds.isEmpty then ('<' :: ds) ++ '>' :: subIdxGo o c Option.none rest
    else (o :: ds) ++ (if x == o then subIdxGo o c (some []) rest else x :: subIdxGo o c Option.none rest)

def subIdx (o c : Char) (s : List Char) : List Char := subIdxGo o c Option.none s

/-- `re.sub(r'\[[0-9]+:[0-9]+\]', '', ·)`: phase 1 = after `[`, phase 2 = after `:`;
`buf` = raw characters consumed by the attempt, `n` = digits in the current run -/
def dropRangeGo : (phase : Nat) → (buf : List Char) → (n : Nat) → List Char → List Char
  | 0, _, _, [] => []
  | _, buf, _, [] => buf
  | 0, _, _, x :: rest =>
    if x == '[' then dropRangeGo 1 ['['] 0 rest else x :: dropRangeGo 0 [] 0 rest
  | 1, buf, n, x :: rest =>
    if x.isDigit then dropRangeGo 1 (buf ++ [x]) (n + 1) rest
    else if x == ':' && n > 0 then dropRangeGo 2 (buf ++ [x]) 0 rest
    else buf ++ (if x == '[' then dropRangeGo 1 ['['] 0 rest else x :: dropRangeGo 0 [] 0 rest)
  | _, buf, n, x :: rest =>
    if x.isDigit then dropRangeGo 2 (buf ++ [x]) (n + 1) rest
    else if x == ']' && n > 0 then dropRangeGo 0 [] 0 rest
    else buf ++ (if x == '[' then dropRangeGo 1 ['['] 0 rest else x :: dropRangeGo 0 [] 0 rest)

def dropRange (s : List Char) : List Char := dropRangeGo 0 [] 0 s

def normScopeName (s : String) : String :=
  String.ofList (subIdx '(' ')' (subIdx '[' ']' s.toList))

def normVarName (s : String) : String :=
  String.ofList (subIdx '(' ')' (subIdx '[' ']' (dropRange s.toList)))

/-! ## header -/

structure VDecl where
  name : String
  id : String
  width : Int
  deriving Repr, Inhabited

structure VHeader where
  scopes : List String := []
  decls : List VDecl := []
  rest : List String := []
  deriving Repr, Inhabited

def allDigits (s : String) : Bool := !s.isEmpty && s.toList.all Char.isDigit

def decNat (cs : List Char) : Nat := cs.foldl (fun acc c => 10 * acc + (c.toNat - '0'.toNat)) 0

inductive VcdErr where
  | error (msg : String)        -- the code raises
  | unsupported (msg : String)  -- outside the model (Python `int()` leniency, the `$timescale` hang)
  deriving Repr, Inhabited

def joinDot (xs : List String) : String := ".".intercalate xs

/-- header walk; `skip` = inside `$comment/$version/$date … $end`; `stack` = open scopes (outermost first) -/
def headerWalk : (skip : Bool) → (stack : List String) → (acc : VHeader) → List String → Except VcdErr VHeader
  | _, _, _, [] => .error (.error "IndexError: header without $enddefinitions")
  | true, stack, acc, t :: rest =>
    if t == "$end" then headerWalk false stack acc rest else headerWalk true stack acc rest
  | false, stack, acc, t :: rest =>
    if t == "$scope" then
      match rest with
      | _ :: name :: _ :: rest' =>
        let stack' := stack ++ [normScopeName name]
        headerWalk false stack' { acc with scopes := acc.scopes ++ [joinDot stack'] } rest'
      | _ => .error (.error "IndexError: $scope")
    else if t == "$var" then
      match rest with
      | _kind :: width :: id :: name :: t5 :: rest' =>
        if !allDigits width then .error (.unsupported "width not a plain decimal") else
        let nm := normVarName name
        let full := if stack.isEmpty then nm else joinDot stack ++ "." ++ nm
        let acc' := { acc with decls := acc.decls ++ [{ name := full, id := id, width := decNat width.toList }] }
        if t5 == "$end" then headerWalk false stack acc' rest'
        else if t5.toList.head? == some '[' then
          match rest' with
          | _ :: rest'' => headerWalk false stack acc' rest''
          | [] => .error (.error "IndexError: $var")
        else .error (.error "VCD error")
      | _ => .error (.error "IndexError: $var")
    else if t == "$upscope" then
      match stack, rest with
      | [], _ => .error (.error "IndexError: pop from empty list")
      | _ :: _, _ :: rest' => headerWalk false stack.dropLast acc rest'
      | _ :: _, [] => .error (.error "IndexError: $upscope")
    else if t == "$enddefinitions" then
      match rest with
      | _ :: rest' => .ok { acc with rest := rest' }
      | [] => .ok { acc with rest := [] }
    else if t == "$timescale" then
      match rest with
      | a :: b :: c :: rest' =>
        if c == "$end" then headerWalk false stack acc rest'
        else if b == "$end" then headerWalk false stack acc (c :: rest')
        else .error (.unsupported "$timescale: the reader does not advance")
      | _ => .error (.error "IndexError: $timescale")
    else if skippedHeaderCommands.contains t then
      headerWalk true stack acc rest
    else headerWalk false stack acc rest

/-! ## dump section -/

inductive DItem where
  | time (t : Int)
  | change (id : String) (v : String)
  | skip
  deriving Repr, Inhabited

def valueChars : List Char := ['0', '1', 'x', 'z', 'X', 'Z']

/-- classify the dump tokens; `skip` = inside `$comment … $end` -/
def dumpItems : (skip : Bool) → List String → Except VcdErr (List DItem)
  | false, [] => .ok []
  | true, [] => .error (.error "IndexError: $comment without $end")
  | true, t :: rest => if t == "$end" then dumpItems false rest else dumpItems true rest
  | false, t :: rest =>
    match t.toList with
    | [] => dumpItems false rest
    | c :: cs =>
      if c == '#' then
        if !cs.isEmpty && cs.all Char.isDigit then
          (dumpItems false rest).map (DItem.time (decNat cs) :: ·)
        else .error (.unsupported "timestamp not a plain decimal")
      else if c == 'b' then
        match rest with
        | id :: rest' => (dumpItems false rest').map (DItem.change id (String.ofList cs) :: ·)
        | [] => .error (.error "IndexError: vector change without id")
      else if valueChars.contains c then
        (dumpItems false rest).map (DItem.change (String.ofList cs) (String.singleton c) :: ·)
      else if t == "$comment" then dumpItems true rest
      else (dumpItems false rest).map (DItem.skip :: ·)

/-- columns are kept newest-first -/
abbrev Col := List String
abbrev Cols := List (String × Col)

def Col.setLast (c : Col) (v : String) : Col :=
  match c with
  | [] => []
  | _ :: r => v :: r

def Col.copyLast (c : Col) : Col :=
  match c with
  | [] => []
  | v :: r => v :: v :: r

structure DumpSt where
  cols : Cols
  ts : List Int          -- oldest first
  deriving Repr, Inhabited

def stepItem (s : DumpSt) : DItem → DumpSt
  | .time t => { cols := s.cols.map (fun p => (p.1, p.2.copyLast)), ts := s.ts ++ [t] }
  | .change id v => { s with cols := s.cols.map (fun p => (p.1, if p.1 == id then p.2.setLast v else p.2)) }
  | .skip => s

def distinctIds (ds : List VDecl) : List String := dedup (ds.map (·.id))

def runDump (ids : List String) (items : List DItem) : DumpSt :=
  items.foldl stepItem { cols := ids.map (fun i => (i, ["x"])), ts := [] }

/-- final column for an id: oldest first, initial cell removed -/
def finalCol (c : Col) : List String := c.reverse.drop 1

/-! ## assembling the trace -/

/-- `name2id` / `signalinfo`: insertion-ordered dicts with overwrite -/
def name2id (ds : List VDecl) : List (String × String) := ds.foldl (fun m d => assocSet m d.name d.id) []
def id2width (ds : List VDecl) : List (String × Int) := ds.foldl (fun m d => assocSet m d.id d.width) []

def loadVcdTokens (tid file : String) (tokens : List String) : Except VcdErr Trace := do
  let h ← headerWalk false [] {} tokens
  let items ← dumpItems false h.rest
  let ids := distinctIds h.decls
  let ds := runDump ids items
  let n2i := name2id h.decls
  let i2w := id2width h.decls
  let raws := h.decls.map (·.name)
  let data ← raws.mapM (fun nm =>
    match n2i.lookup nm with
    | some id => match ds.cols.lookup id with
      | some c => .ok (nm, finalCol c)
      | Option.none => .error (.error "KeyError")
    | Option.none => .error (.error "KeyError"))
  let widths := raws.filterMap (fun nm => (n2i.lookup nm).bind (fun id => (i2w.lookup id).map (fun w => (nm, w))))
  -- id2name = {v: k for k, v in name2id.items()}: the last name registered for an id
  let id2name := n2i.foldl (fun m p => assocSet m p.2 p.1) ([] : List (String × String))
  let handles := ids.filterMap (fun i => id2name.lookup i)
  pure { tid := tid, file := file, kind := .vcd, index := 0, maxIndex := (ds.ts.length : Int) - 1,
         timestamps := ds.ts, allTimestamps := ds.ts, lookup := Option.none, rawsignals := raws,
         scopes := h.scopes, data := data, widths := widths, handles := handles, virt := [] }

end Wal
