import Wal.Model.Sx
/-!
# Integer and bit-vector arithmetic as the operators compute it
(`implementation/math.py`, `bitwise.py`, `types.py`, `core.py::op_slice`)

Python integers are unbounded two's-complement; `Int` bitwise operations are defined here because
core Lean has them on `Nat` only (the definitions coincide with Mathlib's `Int.land/lor/xor`,
proved in `Wal/Lemmas/Arith.lean`).
-/
namespace Wal

def natLdiff (m n : Nat) : Nat := Nat.bitwise (fun a b => a && !b) m n

def intLand : Int → Int → Int
  | .ofNat m, .ofNat n => .ofNat (m &&& n)
  | .ofNat m, .negSucc n => .ofNat (natLdiff m n)
  | .negSucc m, .ofNat n => .ofNat (natLdiff n m)
  | .negSucc m, .negSucc n => .negSucc (m ||| n)

def intLor : Int → Int → Int
  | .ofNat m, .ofNat n => .ofNat (m ||| n)
  | .ofNat m, .negSucc n => .negSucc (natLdiff n m)
  | .negSucc m, .ofNat n => .negSucc (natLdiff m n)
  | .negSucc m, .negSucc n => .negSucc (m &&& n)

def intXor : Int → Int → Int
  | .ofNat m, .ofNat n => .ofNat (m ^^^ n)
  | .ofNat m, .negSucc n => .negSucc (m ^^^ n)
  | .negSucc m, .ofNat n => .negSucc (m ^^^ n)
  | .negSucc m, .negSucc n => .ofNat (m ^^^ n)

/-- `(x & (1 << i)) >> i` for `i ≥ 0` -/
def sliceBit (x : Int) (i : Nat) : Int := (intLand x ((1 : Int) <<< i)) >>> i

/-- `(x & (((1 << (h-l+1)) - 1) << l)) >> l` for `l ≥ 0`, `h - l + 1 ≥ 0` -/
def sliceRange (x : Int) (h l : Int) : Int :=
  (intLand x ((((1 : Int) <<< (h - l + 1).toNat) - 1) <<< l.toNat)) >>> l.toNat

/-- Python floor modulo -/
def pyMod (a b : Int) : Int := Int.fmod a b

/-- binary digits of a natural number, most significant first (`"0"` for 0) -/
def binDigits (n : Nat) : List Char := Nat.toDigits 2 n

def padLeft (c : Char) (w : Nat) (s : List Char) : List Char := List.replicate (w - s.length) c ++ s

/-- `f'{value:0{width}b}'` for `width ≥ 0` (sign-aware zero padding) -/
def convertBin (v : Int) (w : Nat) : List Char :=
  if v ≥ 0 then padLeft '0' w (binDigits v.toNat)
  else '-' :: padLeft '0' (w - 1) (binDigits (-v).toNat)

def digitVal (c : Char) : Option Nat :=
  if '0' ≤ c ∧ c ≤ '9' then some (c.toNat - '0'.toNat)
  else if 'a' ≤ c ∧ c ≤ 'f' then some (c.toNat - 'a'.toNat + 10)
  else if 'A' ≤ c ∧ c ≤ 'F' then some (c.toNat - 'A'.toNat + 10)
  else Option.none

/-- digits of `s` in base `b`, all valid and at least one -/
def parseDigits (b : Nat) (cs : List Char) : Option Nat :=
  if cs.isEmpty then Option.none else
  cs.foldl (fun acc c => match acc, digitVal c with
    | some a, some d => if d < b then some (b * a + d) else Option.none
    | _, _ => Option.none) (some 0)

inductive IntParse where
  | ok (i : Int)
  | bad                -- Python raises ValueError
  | unsupported        -- outside the model (blanks, `_`, base prefixes, non-ASCII digits)
  deriving Repr, Inhabited

/-- `int(text, base)` for sign + plain digits; everything Python treats specially is `unsupported` -/
def pyIntParse (b : Nat) (s : String) : IntParse :=
  let cs := s.toList
  if cs.any (fun c => c == '_' || c == ' ' || c == '\t' || c == '\n' || c == '\r' || c == '\x0b' || c == '\x0c' || c.toNat > 126) then .unsupported
  else
    let (neg, ds) := match cs with
      | '-' :: r => (true, r)
      | '+' :: r => (false, r)
      | r => (false, r)
    -- base prefixes `0x`, `0b`, `0o` are accepted by Python when they match the base
    match ds with
    | '0' :: c :: _ =>
      if c == 'x' || c == 'X' || c == 'b' || c == 'B' || c == 'o' || c == 'O' then .unsupported
      else match parseDigits b ds with
        | some n => .ok (if neg then -(n : Int) else n)
        | Option.none => .bad
    | _ => match parseDigits b ds with
      | some n => .ok (if neg then -(n : Int) else n)
      | Option.none => .bad

/-- `bits->sint` on a text of `0`/`1` characters (first character `1` = negative) -/
def bitsToSint (cs : List Char) : Int :=
  match cs with
  | '1' :: _ => -((binVal' (cs.map (fun c => if c == '0' then '1' else '0')) : Int) + 1)
  | _ => binVal' cs
where
  binVal' (cs : List Char) : Nat := cs.foldl (fun acc c => 2 * acc + (if c == '1' then 1 else 0)) 0

end Wal

namespace Wal

/-! ## the numeric tower (int / bool / float) as far as it is modelled -/

def toFloat? (i : Int) : Option Float :=
  if i.natAbs < 9007199254740992 then some (Float.ofInt i) else Option.none

inductive NumOp where
  | add | sub | mul
  deriving Repr, DecidableEq

def NumOp.onInt : NumOp → Int → Int → Int
  | .add, a, b => a + b
  | .sub, a, b => a - b
  | .mul, a, b => a * b

def NumOp.onFloat : NumOp → Float → Float → Float
  | .add, a, b => a + b
  | .sub, a, b => a - b
  | .mul, a, b => a * b

/-- one binary arithmetic step as Python performs it; `none` = outside the model
(an int beyond 2^53 meeting a float) or not numbers at all -/
def numBin? (op : NumOp) (x y : Sx) : Option Sx :=
  match asInt? x, asInt? y with
  | some a, some b => some (.int (op.onInt a b))
  | _, _ =>
    let fx : Option Float := match x with
      | .flt b => some (Float.ofBits b)
      | _ => (asInt? x).bind toFloat?
    let fy : Option Float := match y with
      | .flt b => some (Float.ofBits b)
      | _ => (asInt? y).bind toFloat?
    match fx, fy with
    | some a, some b => some (.flt (op.onFloat a b).toBits)
    | _, _ => Option.none

/-- `functools.reduce(op, xs)` / `sum` / `math.prod` with a start value -/
def numFold? (op : NumOp) (start : Sx) (xs : List Sx) : Option Sx :=
  xs.foldl (fun acc x => acc.bind (fun a => numBin? op a x)) (some start)

/-- the float phase of CPython 3.12's `sum`: floats are accumulated with Neumaier's compensated summation (`c` is the
    running compensation, added once at the end when it is non-zero and finite), integers are added as doubles -/
def pySumFloat (f c : Float) : List Sx → Option Sx
  | [] => some (.flt (if c != 0 && c.isFinite then f + c else f).toBits)
  | x :: r =>
    match x with
    | .flt b =>
      let x := Float.ofBits b
      let t := f + x
      let c' := if f.abs >= x.abs then c + ((f - t) + x) else c + ((x - t) + f)
      pySumFloat t c' r
    | _ =>
      match (asInt? x).bind toFloat? with
      | some v => pySumFloat (f + v) c r
      | Option.none => Option.none

/-- the integer phase: exact while the items are ints/bools; the first float is added with an ordinary `+` -/
def pySumInt (acc : Int) : List Sx → Option Sx
  | [] => some (.int acc)
  | x :: r =>
    match asInt? x with
    | some a => pySumInt (acc + a) r
    | Option.none =>
      match numBin? .add (.int acc) x with
      | some (.flt b) => pySumFloat (Float.ofBits b) 0.0 r
      | _ => Option.none

/-- Python's builtin `sum(xs)` (start 0) on numbers, as CPython 3.12 computes it -/
def pySum? (xs : List Sx) : Option Sx := pySumInt 0 xs

inductive CmpOp where
  | lt | le | gt | ge
  deriving Repr, DecidableEq

def numCmp? (op : CmpOp) (x y : Sx) : Option Bool :=
  match asInt? x, asInt? y with
  | some a, some b => some (match op with | .lt => a < b | .le => a ≤ b | .gt => a > b | .ge => a ≥ b)
  | _, _ =>
    let fx : Option Float := match x with
      | .flt b => some (Float.ofBits b)
      | _ => (asInt? x).bind toFloat?
    let fy : Option Float := match y with
      | .flt b => some (Float.ofBits b)
      | _ => (asInt? y).bind toFloat?
    match fx, fy with
    | some a, some b => some (match op with | .lt => a < b | .le => a ≤ b | .gt => a > b | .ge => a ≥ b)
    | _, _ => Option.none

end Wal
