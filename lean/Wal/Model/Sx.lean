import Wal.Gen.Ops
/-!
# Values = code

`Sx` mirrors the Python objects the interpreter manipulates (`wal/ast_defs.py`):
`None`, `int`, `bool`, `float` (IEEE bits), `str`, `Symbol(name, steps)`, `Operator`,
`WList` / plain `list` (flag `w`), `Unquote`, `UnquoteSplice`, `Closure`, `Macro`,
`dict` (array, by heap reference) and Python `type` objects (result of `(type e)`).
-/
namespace Wal

inductive Sx where
  | none
  | int (i : Int)
  | bool (b : Bool)
  | flt (bits : UInt64)
  | str (s : String)
  | sym (name : String) (steps : Option Nat)
  | op (o : Op)
  | list (w : Bool) (xs : List Sx)
  | unq (e : Sx)
  | unqs (e : Sx)
  | clo (env : Nat) (params : Sx) (body : Sx) (name : String)
  | mac (name : String) (params : Sx) (body : Sx)
  | arr (ref : Nat)
  | ty (name : String)
  deriving Repr, Inhabited

inductive Err where
  | fuel
  | unsupported (what : String)
  | error (msg : String)
  | exit (code : Int)
  deriving Repr, Inhabited, DecidableEq

/-- Python truthiness (`if x:`) -/
def truthy : Sx → Bool
  | .none => false
  | .int i => i != 0
  | .bool b => b
  | .flt b => !(b == 0 || b == 0x8000000000000000)
  | .str s => s != ""
  | .list _ xs => !xs.isEmpty
  | _ => true          -- arrays are handled by the evaluator (needs the heap)

/-- `isinstance(x, int)` (bool is a subclass of int) -/
def asInt? : Sx → Option Int
  | .int i => some i
  | .bool b => some (if b then 1 else 0)
  | _ => Option.none

def isIntLike : Sx → Bool
  | .int _ | .bool _ => true
  | _ => false

def isNum : Sx → Bool
  | .int _ | .bool _ | .flt _ => true
  | _ => false

def isStr : Sx → Bool
  | .str _ => true
  | _ => false

def isList : Sx → Bool
  | .list _ _ => true
  | _ => false

def isSym : Sx → Bool
  | .sym _ _ => true
  | _ => false

def showInt (i : Int) : String := toString i

/-- Python `str(x)` for the cases the interpreter relies on (`+` on strings, array keys, `case` keys). -/
def pyStr? : Sx → Option String
  | .none => some "None"
  | .int i => some (showInt i)
  | .bool b => some (if b then "True" else "False")
  | .str s => some s
  | .sym n _ => some n
  | _ => Option.none

mutual
/-- Python `==` on interpreter values; `none` = outside the model (identity of closures, dict contents, floats). -/
def pyEq? : Sx → Sx → Option Bool
  | .none, .none => some true
  | .int a, .int b => some (a == b)
  | .int a, .bool b => some (a == (if b then 1 else 0))
  | .bool a, .int b => some ((if a then 1 else 0) == b)
  | .bool a, .bool b => some (a == b)
  | .flt _, _ => Option.none
  | _, .flt _ => Option.none
  | .str a, .str b => some (a == b)
  | .sym a sa, .sym b sb => some (a == b && sa == sb)
  | .op a, .op b => some (a == b)
  | .list _ xs, .list _ ys => if xs.length != ys.length then some false else pyEqList? xs ys
  | .unq a, .unq b => pyEq? a b
  | .unqs a, .unqs b => pyEq? a b
  | .ty a, .ty b => some (a == b)
  | .clo .., _ => Option.none
  | _, .clo .. => Option.none
  | .mac .., _ => Option.none
  | _, .mac .. => Option.none
  | .arr _, _ => Option.none
  | _, .arr _ => Option.none
  | _, _ => some false
def pyEqList? : List Sx → List Sx → Option Bool
  | [], [] => some true
  | x :: xs, y :: ys =>
    match pyEq? x y with
    | some true => pyEqList? xs ys
    | some false =>
      -- Python compares element-wise until the first difference; later elements are not compared
      some false
    | Option.none => Option.none
  | _, _ => some false
end

/-- Python list indexing `xs[i]` (negative indices wrap). -/
def pyIdx? {α} (xs : List α) (i : Int) : Option α :=
  if i < 0 then
    (if (xs.length : Int) + i < 0 then Option.none else xs[((xs.length : Int) + i).toNat]?)
  else xs[i.toNat]?

/-- Python slice `xs[a:b]` with integer bounds (negative wrap, clamping). -/
def pySlice {α} (xs : List α) (a b : Int) : List α :=
  let n : Int := xs.length
  let norm := fun (i : Int) => if i < 0 then max (n + i) 0 else min i n
  let lo := norm a
  let hi := norm b
  if hi ≤ lo then [] else (xs.drop lo.toNat).take (hi - lo).toNat

def assocSet {β} (l : List (String × β)) (k : String) (v : β) : List (String × β) :=
  match l with
  | [] => [(k, v)]
  | (k', v') :: r => if k' == k then (k, v) :: r else (k', v') :: assocSet r k v

def assocDel {β} (l : List (String × β)) (k : String) : List (String × β) :=
  l.filter (fun p => p.1 != k)

def assocHas {β} (l : List (String × β)) (k : String) : Bool :=
  l.any (fun p => p.1 == k)

/-- first occurrences, in order (`list(dict.fromkeys(xs))`) -/
def dedup {α} [BEq α] : List α → List α
  | [] => []
  | x :: xs => x :: (dedup xs).filter (· != x)

end Wal
