import Wal.Model.Vcd
/-!
# CSV reader (`wal/trace/csvtrace.py::TraceCsv.parse`) on the file text
-/
namespace Wal

def pyIsSpace (c : Char) : Bool :=
  c == ' ' || c == '\t' || c == '\n' || c == '\r' || c == '\x0b' || c == '\x0c'
    || c == '\x1c' || c == '\x1d' || c == '\x1e' || c == '\x1f'

/-- `str.strip()` on ASCII text -/
def pyStrip (cs : List Char) : List Char :=
  ((cs.dropWhile pyIsSpace).reverse.dropWhile pyIsSpace).reverse

/-- `str.split(sep)` for a one-character separator: always at least one field -/
def splitOnChar (sep : Char) : List Char → List (List Char)
  | [] => [[]]
  | c :: cs =>
    match splitOnChar sep cs with
    | [] => [[]]                -- unreachable
    | f :: fs => if c == sep then [] :: f :: fs else (c :: f) :: fs

def timeHeader : String := "Time [s]"

def normCsvName (s : String) : String :=
  String.ofList (subIdx '(' ')' (subIdx '[' ']' (dropRange (s.toList.map (fun c => if c == ' ' then '_' else c)))))

/-- replace the first occurrence of `o` by `n` -/
def replaceFirst (xs : List String) (o n : String) : List String :=
  match xs with
  | [] => []
  | x :: r => if x == o then n :: r else x :: replaceFirst r o n

/-- `^(\d+)\.?(\d+)?$` then `int(pre + post.ljust(9,'0'))` (ASCII digits) -/
def csvTime (cell : List Char) : Option Int :=
  let pre := cell.takeWhile Char.isDigit
  let r := cell.dropWhile Char.isDigit
  if pre.isEmpty then Option.none else
  let r' := match r with | '.' :: r' => r' | _ => r
  let post := r'.takeWhile Char.isDigit
  let tail := r'.dropWhile Char.isDigit
  -- `$` also matches before one trailing newline; cells never contain one (rows are split on it)
  if !tail.isEmpty then Option.none else
  let post' := if post.isEmpty then ['0'] else post
  let padded := post' ++ List.replicate (9 - post'.length) '0'
  some (decNat (pre ++ padded))

def appendCell (d : List (String × List String)) (k : String) (v : String) : Option (List (String × List String)) :=
  if assocHas d k then some (d.map (fun p => (p.1, if p.1 == k then p.2 ++ [v] else p.2))) else Option.none

/-- one data row: `for x in range(len(row)): if x != time_idx: data[header[x]].append(row[x])` -/
def csvRowGo (header : List String) (timeIdx : Nat) : Nat → List String → List (String × List String) →
    Option (List (String × List String))
  | _, [], d => some d
  | x, cell :: cells, d =>
    if x == timeIdx then csvRowGo header timeIdx (x + 1) cells d
    else match header[x]? with
      | Option.none => Option.none
      | some h => match appendCell d h cell with
        | Option.none => Option.none
        | some d' => csvRowGo header timeIdx (x + 1) cells d'

structure CsvSt where
  data : List (String × List String)
  ts : List Int
  deriving Repr, Inhabited

def csvRows (header : List String) (timeIdx : Nat) : List (List String) → CsvSt → Option CsvSt
  | [], s => some s
  | row :: rows, s =>
    match row[timeIdx]? with
    | Option.none => Option.none
    | some tc =>
      match csvTime tc.toList with
      | Option.none => Option.none
      | some t =>
        match csvRowGo header timeIdx 0 row s.data with
        | Option.none => Option.none
        | some d => csvRows header timeIdx rows { data := d, ts := s.ts ++ [t] }

def loadCsvText (tid file : String) (text : String) : Option Trace :=
  let lines := (splitOnChar '\n' (pyStrip text.toList)).map (fun l => (splitOnChar ',' l).map String.ofList)
  match lines with
  | [] => Option.none
  | header :: rows =>
    match header.findIdx? (· == timeHeader) with
    | Option.none => Option.none
    | some timeIdx =>
      let names := header.filter (· != timeHeader)
      let (header', raws, data) := names.foldl (fun (acc : List String × List String × List (String × List String)) orig =>
          let nm := normCsvName orig
          (replaceFirst acc.1 orig nm, acc.2.1 ++ [nm], assocSet acc.2.2 nm [])) (header, [], [])
      match csvRows header' timeIdx rows { data := data, ts := [] } with
      | Option.none => Option.none
      | some s =>
        some { tid := tid, file := file, kind := .csv, index := 0, maxIndex := (s.ts.length : Int) - 1,
               timestamps := s.ts, allTimestamps := s.ts, lookup := Option.none, rawsignals := raws,
               scopes := [], data := s.data, widths := raws.map (fun n => (n, 1)), handles := raws, virt := [] }

end Wal
