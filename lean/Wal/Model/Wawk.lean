import Wal.Model.Sx
import Wal.Gen.Ops
/-!
# WAWK: what `wawk/ast_defs.py` and the operator rules of `wawk/parser.py` build

* `E`, `transpile` — the binary expression fragment and `TreeToWal`'s `a_sum_s`/`a_mul`/`a_and_s`/`a_or_s`
  (operator head plus exactly two operands);
* `chainl`, `evalA` — the reference reading "group left to right" and the integer value of an arithmetic tree;
* `findVars` — `AST.find_variables` (assigned names in first-assignment order, `seta` targets become arrays);
* `emit` — `AST.__init__` (BEGIN / END sorting) and `AST.emit` (pre-definitions, `whenever` main loop).

The Earley parser itself (tokens → tree) is not modelled; its agreement with the reference reading is the
correspondence's and the oracle's business (harness/c20.py).
-/
namespace Wal.Wawk
open Wal

inductive BOp where
  | add | sub | mul | and | or
  deriving Repr, DecidableEq

def BOp.op : BOp → Op
  | .add => .ADD | .sub => .SUB | .mul => .MUL | .and => .AND | .or => .OR

/-- binding strength as the property states it: `*` over `+ -`, `&&` over `||` -/
def BOp.prec : BOp → Nat
  | .or => 1 | .and => 2 | .add => 4 | .sub => 4 | .mul => 5

inductive E where
  | atom (s : Sx)
  | bin (o : BOp) (a b : E)

/-- `a_sum_s`, `a_mul`, `a_and_s`, `a_or_s` of `TreeToWal`: `[Op(operator), left, right]` -/
def transpile : E → Sx
  | .atom s => s
  | .bin o a b => .list false [.op o.op, transpile a, transpile b]

/-- the reference reading of an operator chain `a o1 e1 o2 e2 …` at one precedence level: left to right -/
def chainl (a : E) (rest : List (BOp × E)) : E :=
  rest.foldl (fun acc p => .bin p.1 acc p.2) a

/-- integer value of an arithmetic tree over an assignment of the atoms (`&&`, `||` as 0/1 connectives) -/
def BOp.apply : BOp → Int → Int → Int
  | .add, x, y => x + y
  | .sub, x, y => x - y
  | .mul, x, y => x * y
  | .and, x, y => if x != 0 && y != 0 then 1 else 0
  | .or, x, y => if x != 0 || y != 0 then 1 else 0

def evalA (env : Sx → Int) : E → Int
  | .atom s => env s
  | .bin o a b => o.apply (evalA env a) (evalA env b)

/-! ## `AST.find_variables` -/

def isOp (o : Op) : Sx → Bool
  | .op o' => o'.value == o.value
  | _ => false

mutual
/-- `find_variables(expr, vars)`; `none` where Python raises (a binding whose head is not a symbol) or when the
    nesting depth exceeds the fuel (Python's recursion limit plays that role) -/
def findVars : Nat → List (String × Sx) → Sx → Option (List (String × Sx))
  | 0, _, _ => Option.none
  | n + 1, vars, .list _ xs =>
    match xs with
    | h :: t@(_ :: _) =>
      if isOp .SET h then do
        let v1 ← findBindings n vars t
        findVarsList n v1 xs                    -- the `else` belongs to the SETA test: a set form is walked as well
      else if isOp .SETA h then
        match t with
        | .sym name _ :: _ => findVars n (assocSet vars name (.list false [.op .ARRAY])) (xs.getLast?.getD .none)
        | _ => Option.none
      else findVarsList n vars xs
    | _ => findVarsList n vars xs
  | _ + 1, vars, _ => some vars

def findBindings : Nat → List (String × Sx) → List Sx → Option (List (String × Sx))
  | 0, _, _ => Option.none
  | _ + 1, vars, [] => some vars
  | n + 1, vars, b :: r =>
    match b with
    | .list _ (.sym name _ :: value :: _) => do
      let v1 ← findVars n (assocSet vars name (.int 0)) value
      findBindings n v1 r
    | _ => Option.none

def findVarsList : Nat → List (String × Sx) → List Sx → Option (List (String × Sx))
  | 0, _, _ => Option.none
  | _ + 1, vars, [] => some vars
  | n + 1, vars, x :: r => do
    let v1 ← findVars n vars x
    findVarsList n v1 r
end

/-! ## `AST.__init__` and `AST.emit` -/

structure Stmt where
  conds : List Sx
  action : Sx

def isSym (n : String) : Sx → Bool
  | .sym m Option.none => m == n
  | _ => false

def Stmt.isBegin (s : Stmt) : Bool := match s.conds with | [c] => isSym "BEGIN" c | _ => false
def Stmt.isEnd (s : Stmt) : Bool := match s.conds with | [c] => isSym "END" c | _ => false

def begins (p : List Stmt) : List Sx := (p.filter (·.isBegin)).map (·.action)
def ends (p : List Stmt) : List Sx := (p.filter (·.isEnd)).map (·.action)
def patterns (p : List Stmt) : List Stmt := p.filter (fun s => !s.isBegin && !s.isEnd)

/-- one pattern statement inside the main loop: `(when (&& c1 … cn) action)` -/
def whenForm (s : Stmt) : Sx :=
  .list false [.sym "when" Option.none, .list false (.op .AND :: s.conds), s.action]

def mainLoop (p : List Stmt) : Sx :=
  .list false (.op .WHENEVER :: .bool true :: (patterns p).map whenForm)

def defineForm (kv : String × Sx) : Sx := .list false [.op .DEFINE, .sym kv.1 Option.none, kv.2]

/-- depth bound of the variable walk (programs nest far less deeply; the real walk is bounded by Python's stack) -/
def fuel : Nat := 4000

/-- the forms `wawk` evaluates (and writes with `-o`), in order -/
def emit (p : List Stmt) : Option (List Sx) := do
  let v1 ← findVarsList fuel [] (begins p)
  let v2 ← findVarsList fuel v1 (ends p)
  let v3 ← findVars fuel v2 (mainLoop p)
  let first := Sx.list false (.op .DO :: (v3.map defineForm ++ begins p))
  pure (first :: (if (patterns p).isEmpty then [] else [mainLoop p]) ++ ends p)

end Wal.Wawk
