import Wal.Model.Sx
/-!
# Reader (`wal/reader.py`): a scannerless recursive descent over `List Char`

The Lark LALR tables and the contextual lexer are **not** translated; this is a hand-written recursive descent that
reproduces their behaviour on the language's alphabet (terminal order: symbol, string, BIN_INT/HEX_INT, float,
dec_int, escaped symbol, then operator strings by length; LALR shift preference for `[`/`@`). Agreement with the
real reader is established by the correspondence (C10/C11) only.

`sexpr := inter* strict ('@' strict)? inter*` · `strict := primary ('[' sexpr (':' sexpr)? ']')*`
`primary := atom | list | ' ` , ,@ sexpr | ~sym | #sym` · `list := open inter* close | open sexpr+ close`
-/
namespace Wal

inductive RErr where
  | parse                      -- the documented ParseError
  | unsupported (what : String)  -- outside the model (exotic string escapes, non-ASCII classes)
  deriving Repr, Inhabited, DecidableEq

abbrev RRes (α : Type) := Except RErr (α × List Char)

def wsChars : List Char := [' ', '\t', '\x0c', '\r', '\n']
def symStartChars : List Char := "abcdefghijklmnopqrstuvwxyzABCDEFGHIJKLMNOPQRSTUVWXYZ_.".toList
def symContChars : List Char :=
  "=$*/>:.-_?%§^!\\~+<>|,abcdefghijklmnopqrstuvwxyzABCDEFGHIJKLMNOPQRSTUVWXYZ0123456789".toList
def digitChars : List Char := ['0', '1', '2', '3', '4', '5', '6', '7', '8', '9']
def hexChars : List Char :=
  ['0', '1', '2', '3', '4', '5', '6', '7', '8', '9', 'a', 'b', 'c', 'd', 'e', 'f', 'A', 'B', 'C', 'D', 'E', 'F']

def isWs (c : Char) : Bool := wsChars.contains c
def isSymStart (c : Char) : Bool := symStartChars.contains c
def isSymCont (c : Char) : Bool := symContChars.contains c
def isDig (c : Char) : Bool := digitChars.contains c
def isHex (c : Char) : Bool := hexChars.contains c

/-- one `_INTER`: `ws* ; .*` (comment to the end of the line) or `ws+`; `none` if nothing is consumed -/
def inter1 (cs : List Char) : Option (List Char) :=
  let r := cs.dropWhile isWs
  match r with
  | ';' :: r' => some (r'.dropWhile (· != '\n'))
  | _ => if r.length < cs.length then some r else Option.none

def inters : Nat → List Char → List Char
  | 0, cs => cs
  | n + 1, cs => match inter1 cs with
    | some r => inters n r
    | Option.none => cs

def skipInters (cs : List Char) : List Char := inters (cs.length + 1) cs

def hexDigitVal (c : Char) : Nat :=
  if '0' ≤ c ∧ c ≤ '9' then c.toNat - 48 else if 'a' ≤ c ∧ c ≤ 'f' then c.toNat - 87 else c.toNat - 55

def natOfDigits (base : Nat) (cs : List Char) : Nat := cs.foldl (fun acc c => base * acc + hexDigitVal c) 0

/-- `base_symbol`: `[a-zA-Z_.][…]*` or `\\\S+` -/
def symbolOnly (cs : List Char) : Option (List Char × List Char) :=
  match cs with
  | c :: r =>
    if isSymStart c then some (c :: r.takeWhile isSymCont, r.dropWhile isSymCont)
    else if c == '\\' then
      let nm := r.takeWhile (fun x => !(isWs x || x == '\x0b' || x == '\x1c' || x == '\x1d' || x == '\x1e' || x == '\x1f' || x == '\u0085' || x == ' '))
      if nm.isEmpty then Option.none else some (c :: nm, r.drop nm.length)
    else Option.none
  | [] => Option.none

/-- body of an `ESCAPED_STRING` after the opening quote: up to the first quote preceded by an even number of
backslashes; `.` does not match a newline -/
def stringBody : List Char → List Char → Option (List Char × List Char)
  | [], _ => Option.none
  | '\n' :: _, _ => Option.none
  | '"' :: r, acc => some (acc.reverse, r)
  | '\\' :: c :: r, acc => if c == '\n' then Option.none else stringBody r (c :: '\\' :: acc)
  | c :: r, acc => stringBody r (c :: acc)

/-- `ast.literal_eval` on the literal's body, for the escapes the printer produces and the common ones -/
def unescape : List Char → Except RErr (List Char)
  | [] => .ok []
  | '\\' :: c :: r =>
    if c == '\\' || c == '"' || c == '\'' then (unescape r).map (c :: ·)
    else if c == 'n' then (unescape r).map ('\n' :: ·)
    else if c == 't' then (unescape r).map ('\t' :: ·)
    else if c == 'r' then (unescape r).map ('\r' :: ·)
    else if c == 'x' || c == 'u' || c == 'U' || c == 'N' || c == 'a' || c == 'b' || c == 'f' || c == 'v' || isDig c then
      .error (.unsupported "string escape")
    else (unescape r).map (fun t => '\\' :: c :: t)       -- unknown escapes keep the backslash
  | c :: r => if c.toNat > 127 then .error (.unsupported "non-ASCII character in a string literal") else (unescape r).map (c :: ·)

def ops2 : List (List Char) := ["**".toList, "&&".toList, "||".toList, "!=".toList, ">=".toList, "<=".toList]
def ops1 : List Char := ['+', '-', '*', '/', '=', '>', '<', '!']

def symToSx (name : List Char) : Sx :=
  let n := String.ofList name
  if n == "true" then .bool true else if n == "false" then .bool false
  else match Op.ofValue? n with
    | some o => .op o
    | Option.none => .sym n Option.none

/-- decimal text `[+-]?d+.d*` as a double: `float(text)` (mantissa · 10^-k, correctly rounded by `OfScientific`) -/
def floatOf (neg : Bool) (ip fp : List Char) : UInt64 :=
  let m := natOfDigits 10 (ip ++ fp)
  let f : Float := OfScientific.ofScientific m true fp.length
  (if neg then -f else f).toBits

/-- the number terminals at the head of `cs` (after symbols and strings have been excluded) -/
def number (cs : List Char) : Option (Sx × List Char) :=
  match cs with
  | '0' :: 'b' :: d :: r =>
    if d == '0' || d == '1' then
      let ds := (d :: r).takeWhile (fun x => x == '0' || x == '1')
      some (.int (natOfDigits 2 ds), (d :: r).drop ds.length)
    else decOrFloat cs
  | '0' :: 'x' :: d :: r =>
    if isHex d then
      let ds := (d :: r).takeWhile isHex
      some (.int (natOfDigits 16 ds), (d :: r).drop ds.length)
    else decOrFloat cs
  | _ => decOrFloat cs
where
  decOrFloat (cs : List Char) : Option (Sx × List Char) :=
    let (neg, signed, r0) : Bool × Bool × List Char := match cs with
      | '-' :: d :: r => if isDig d then (true, true, d :: r) else (false, false, cs)
      | '+' :: d :: r => if isDig d then (false, true, d :: r) else (false, false, cs)
      | _ => (false, false, cs)
    let ip := r0.takeWhile isDig
    if ip.isEmpty then Option.none else
    let r1 := r0.drop ip.length
    match r1 with
    | '.' :: r2 =>
      let fp := r2.takeWhile isDig
      some (.flt (floatOf neg ip fp), r2.drop fp.length)
    | _ =>
      let v : Int := natOfDigits 10 ip
      let _ := signed
      some (.int (if neg then -v else v), r1)

def closeOf (o : Char) : Char := if o == '(' then ')' else if o == '[' then ']' else '}'

mutual
def rSexpr : Nat → List Char → Except RErr (Sx × List Char)
  | 0, _ => .error (.unsupported "nesting too deep for the model's fuel")
  | n + 1, cs => do
    let cs1 := skipInters cs
    let (e, cs2) ← rStrict n cs1
    match cs2 with
    | '@' :: cs3 => do
      let (k, cs4) ← rStrict n cs3
      pure (.list true [.op .REL_EVAL, e, k], skipInters cs4)
    | _ => pure (e, skipInters cs2)
def rStrict : Nat → List Char → Except RErr (Sx × List Char)
  | 0, _ => .error (.unsupported "nesting too deep for the model's fuel")
  | n + 1, cs => do
    let (e, cs1) ← rPrimary n cs
    rSlices n e cs1
def rSlices : Nat → Sx → List Char → Except RErr (Sx × List Char)
  | 0, _, _ => .error (.unsupported "nesting too deep for the model's fuel")
  | n + 1, e, cs =>
    match cs with
    | '[' :: cs1 => do
      let (a, cs2) ← rSexpr n cs1
      match cs2 with
      | ':' :: cs3 => do
        let (b, cs4) ← rSexpr n cs3
        match cs4 with
        | ']' :: cs5 => rSlices n (.list true [.op .SLICE, e, a, b]) cs5
        | _ => .error .parse
      | ']' :: cs3 => rSlices n (.list true [.op .SLICE, e, a]) cs3
      | _ => .error .parse
    | _ => .ok (e, cs)
def rList (close : Char) : Nat → List Char → List Sx → Except RErr (Sx × List Char)
  | 0, _, _ => .error (.unsupported "nesting too deep for the model's fuel")
  | n + 1, cs, acc =>
    match cs with
    | [] => .error .parse
    | c :: r =>
      if c == close then .ok (.list true acc.reverse, r) else do
      let (e, cs1) ← rSexpr n cs
      if cs1.length ≥ cs.length then .error .parse else rList close n cs1 (e :: acc)
def rPrimary : Nat → List Char → Except RErr (Sx × List Char)
  | 0, _ => .error (.unsupported "nesting too deep for the model's fuel")
  | n + 1, cs =>
    match cs with
    | [] => .error .parse
    | c :: r =>
      if c == '(' || c == '[' || c == '{' then rList (closeOf c) n (skipInters r) []
      else if c == '\'' then do
        let (e, cs1) ← rSexpr n r
        pure (.list true [.op .QUOTE, e], cs1)
      else if c == '`' then do
        let (e, cs1) ← rSexpr n r
        pure (.list true [.op .QUASIQUOTE, e], cs1)
      else if c == ',' then
        match r with
        | '@' :: r' => do
          let (e, cs1) ← rSexpr n r'
          pure (.unqs e, cs1)
        | _ => do
          let (e, cs1) ← rSexpr n r
          pure (.unq e, cs1)
      else if c == '~' then
        match symbolOnly r with
        | some (nm, r') => .ok (.list true [.op .RESOLVE_SCOPE, .sym (String.ofList nm) Option.none], r')
        | Option.none => .error .parse
      else if c == '#' then
        match symbolOnly r with
        | some (nm, r') =>
          if nm == ['t'] then .ok (.bool true, r') else if nm == ['f'] then .ok (.bool false, r')
          else .ok (.list true [.op .RESOLVE_GROUP, .sym (String.ofList nm) Option.none], r')
        | Option.none => .error .parse
      else if isSymStart c || c == '\\' then
        match symbolOnly cs with
        | some (nm, r') => .ok (symToSx nm, r')
        | Option.none => .error .parse
      else if c == '"' then
        match stringBody r [] with
        | some (body, r') =>
          match unescape body with
          | .ok s => .ok (.str (String.ofList s), r')
          | .error e => .error e
        | Option.none => .error .parse
      else match number cs with
        | some (v, r') => .ok (v, r')
        | Option.none =>
          match ops2.find? (fun o => o.isPrefixOf cs) with
          | some o => .ok (.op ((Op.ofValue? (String.ofList o)).getD .ADD), cs.drop 2)
          | Option.none =>
            if ops1.contains c then .ok (.op ((Op.ofValue? (String.singleton c)).getD .ADD), r)
            else .error .parse
end

def longestDigitRun : List Char → Nat → Nat → Nat
  | [], cur, best => max cur best
  | c :: r, cur, best => if isDig c then longestDigitRun r (cur + 1) best else longestDigitRun r 0 (max cur best)

/-- `read_wal_sexpr`: one expression, the whole input -/
def readChars (cs : List Char) : Except RErr Sx :=
  if cs.any (fun c => c.toNat > 127 && c != '§') then .error (.unsupported "non-ASCII input") else
  -- CPython refuses int(text) beyond 4300 decimal digits (sys.int_max_str_digits): outside the model
  if longestDigitRun cs 0 0 > 4300 then .error (.unsupported "decimal numeral beyond CPython's conversion limit") else
  match rSexpr (6 * cs.length + 16) cs with
  | .ok (e, []) => .ok e
  | .ok (_, _ :: _) => .error .parse
  | .error e => .error e

def readStr (s : String) : Except RErr Sx := readChars s.toList

end Wal
