import Wal.Model.Eval
import Wal.Model.Csv
import Wal.Gen.StdEnv
/-!
# Wire format of the line protocol (driver side)

Tokens are separated by single blanks. Values:
`N` none · `T`/`F` bool · `i<dec>` int · `f<dec>` float bits · `s<hex>` string · `y<hex>` symbol ·
`Y<steps>:<hex>` resolved symbol · `o<hex>` operator (by value) · `(`…`)` WList · `[`…`]` list ·
`u` x unquote · `U` x unquote-splice · on output also `c` closure, `m` macro, `a(` key value … `)` array, `t<hex>` type.
Strings are hex of their UTF-8 bytes.
-/
namespace Wal.Wire
open Wal

def hexDigit (n : Nat) : Char := if n < 10 then Char.ofNat (48 + n) else Char.ofNat (87 + n)

def hexOfString (s : String) : String :=
  String.ofList (s.toUTF8.toList.flatMap (fun b => [hexDigit (b.toNat / 16), hexDigit (b.toNat % 16)]))

def hexVal (c : Char) : Option Nat :=
  if '0' ≤ c ∧ c ≤ '9' then some (c.toNat - 48)
  else if 'a' ≤ c ∧ c ≤ 'f' then some (c.toNat - 87)
  else Option.none

def bytesOfHex : List Char → Option (List UInt8)
  | [] => some []
  | a :: b :: r =>
    match hexVal a, hexVal b, bytesOfHex r with
    | some x, some y, some rest => some (UInt8.ofNat (16 * x + y) :: rest)
    | _, _, _ => Option.none
  | _ => Option.none

def stringOfHex (cs : List Char) : Option String :=
  match bytesOfHex cs with
  | some bs => String.fromUTF8? (ByteArray.mk bs.toArray)
  | Option.none => Option.none

def unhex (s : String) : Option String := stringOfHex s.toList

/-- parse one value from a token list -/
partial def parseSx : List String → Option (Sx × List String)
  | [] => Option.none
  | t :: rest =>
    if t == "(" then parseSeq true rest []
    else if t == "[" then parseSeq false rest []
    else if t == "N" then some (.none, rest)
    else if t == "T" then some (.bool true, rest)
    else if t == "F" then some (.bool false, rest)
    else if t == "u" then (parseSx rest).map (fun (e, r) => (.unq e, r))
    else if t == "U" then (parseSx rest).map (fun (e, r) => (.unqs e, r))
    else match t.toList with
      | 'i' :: cs => (String.ofList cs).toInt?.map (fun i => (.int i, rest))
      | 'f' :: cs => (String.ofList cs).toNat?.map (fun n => (.flt (UInt64.ofNat n), rest))
      | 's' :: cs => (stringOfHex cs).map (fun s => (.str s, rest))
      | 'y' :: cs => (stringOfHex cs).map (fun s => (.sym s Option.none, rest))
      | 'Y' :: cs =>
        let k := cs.takeWhile (· != ':')
        let h := (cs.dropWhile (· != ':')).drop 1
        match (String.ofList k).toNat?, stringOfHex h with
        | some n, some s => some (.sym s (some n), rest)
        | _, _ => Option.none
      | 'o' :: cs => ((stringOfHex cs).bind Op.ofValue?).map (fun o => (.op o, rest))
      | 't' :: cs => (stringOfHex cs).map (fun s => (.ty s, rest))
      | _ => Option.none
where
  parseSeq (w : Bool) : List String → List Sx → Option (Sx × List String)
    | [], _ => Option.none
    | t :: rest, acc =>
      if (w && t == ")") || (!w && t == "]") then some (.list w acc.reverse, rest)
      else match parseSx (t :: rest) with
        | some (e, r) => parseSeq w r (e :: acc)
        | Option.none => Option.none

partial def showSx (arrs : Nat → Option (List (String × Sx))) : Sx → String
  | .none => "N"
  | .bool b => if b then "T" else "F"
  | .int i => "i" ++ toString i
  | .flt b => "f" ++ toString b.toNat
  | .str s => "s" ++ hexOfString s
  | .sym n Option.none => "y" ++ hexOfString n
  | .sym n (some k) => "Y" ++ toString k ++ ":" ++ hexOfString n
  | .op o => "o" ++ hexOfString o.value
  | .list w xs =>
    (if w then "( " else "[ ") ++ String.join (xs.map (fun x => showSx arrs x ++ " ")) ++ (if w then ")" else "]")
  | .unq e => "u " ++ showSx arrs e
  | .unqs e => "U " ++ showSx arrs e
  | .clo .. => "c"
  | .mac .. => "m"
  | .arr r =>
    match arrs r with
    | some kvs => "a( " ++ String.join (kvs.map (fun kv => hexOfString kv.1 ++ " " ++ showSx arrs kv.2 ++ " ")) ++ ")"
    | Option.none => "a?"
  | .ty n => "t" ++ hexOfString n

/-- the interpreter state of a fresh `Wal()` -/
def initSt : St :=
  { frames := #[{ vars := Gen.stdEnv, parent := Option.none }], arrays := #[[]], gensym := Gen.stdGensym }

end Wal.Wire
