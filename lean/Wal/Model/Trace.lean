import Wal.Model.Sx
/-!
# Trace layer: `wal/trace/trace.py`, `container.py`, `vcd.py`, `csvtrace.py`

Mirrors the code that exists: indices are Python ints (`Int`), list accesses use Python
indexing, the container keeps the redundant counter `nTraces` next to the dict of traces,
`set_sampling_points` keeps a new→original index table next to the de-duplicated timestamps.
-/
namespace Wal

structure VSig where
  name : String
  body : Sx
  cache : List (Int × Sx)
  deriving Repr, Inhabited

inductive TraceKind where
  | vcd | csv
  deriving Repr, Inhabited, DecidableEq

structure Trace where
  tid : String
  file : String
  kind : TraceKind := .vcd
  index : Int := 0
  maxIndex : Int
  timestamps : List Int
  allTimestamps : List Int
  lookup : Option (List Int) := Option.none
  rawsignals : List String
  scopes : List String := []
  data : List (String × List String)
  widths : List (String × Int) := []
  handles : List String := []
  virt : List VSig := []
  deriving Repr, Inhabited

/-! ## navigation (`Trace.step`, `TraceContainer.step`) -/

/-- target index out of range? -/
def Trace.oob (t : Trace) (k : Int) : Bool :=
  t.index + k < 0 || t.index + k > t.maxIndex

/-- `Trace.step`: moves iff the target is in range; `false` = "ended" (the code returns the tid). -/
def Trace.step (t : Trace) (k : Int) : Trace × Bool :=
  if t.oob k then (t, false) else ({ t with index := t.index + k }, true)

/-- `TraceContainer.step(steps)` without tid: every trace steps on its own; result = list of ended tids
(a tid that is the empty string is falsy in Python and therefore not reported). -/
def stepAll : List Trace → Int → List Trace × List String
  | [], _ => ([], [])
  | t :: ts, k =>
    let (t', ok) := t.step k
    let (ts', ended) := stepAll ts k
    (t' :: ts', if !ok && t.tid != "" then t.tid :: ended else ended)

/-- `TraceContainer.step(steps, tid)` with a (truthy) tid -/
def stepNamed : List Trace → String → Int → Option (List Trace × List String)
  | [], _, _ => Option.none            -- assert tid in self.traces
  | t :: ts, tid, k =>
    if t.tid == tid then
      let (t', ok) := t.step k
      some (t' :: ts, if !ok && t.tid != "" then [t.tid] else [])
    else
      match stepNamed ts tid k with
      | some (ts', e) => some (t :: ts', e)
      | Option.none => Option.none

def indicesOf (ts : List Trace) : List (String × Int) := ts.map (fun t => (t.tid, t.index))

/-- `restore_indices` / the scan epilogues: `traces[tid].set(index)` for every saved pair -/
def setIdx (saved : List (String × Int)) (t : Trace) : Trace :=
  match saved.lookup t.tid with
  | some i => { t with index := i }
  | Option.none => t

def setIndices (ts : List Trace) (saved : List (String × Int)) : List Trace := ts.map (setIdx saved)

/-! ## signal access -/

def bitsAllBinary (cs : List Char) : Bool := !cs.isEmpty && cs.all (fun c => c == '0' || c == '1')

def binVal (cs : List Char) : Nat := cs.foldl (fun acc c => 2 * acc + (if c == '1' then 1 else 0)) 0

/-- `try: int(bits, 2) except ValueError: bits` on texts made of value characters -/
def bitsToVal (s : String) : Sx :=
  if bitsAllBinary s.toList then .int (binVal s.toList) else .str s

/-- characters for which Python's `int(text, 2)` has extra rules (sign, blanks, `_`, `0b` prefix) -/
def intParseSensitive (s : String) : Bool :=
  s.toList.any (fun c => c == '+' || c == '-' || c == '_' || c == 'b' || c == 'B' || c == ' ' || c == '\t'
    || c == '\n' || c == '\r' || c == '\x0b' || c == '\x0c' || c.toNat > 126)

def Trace.isVirtual (t : Trace) (name : String) : Bool := t.virt.any (fun v => v.name == name)

/-- `name in trace.signals` -/
def Trace.hasSignal (t : Trace) (name : String) : Bool :=
  specialSignals.contains name || t.rawsignals.contains name || t.isVirtual name

/-- `access_signal_data(name, index)` -/
def Trace.access (t : Trace) (name : String) (i : Int) : Option String :=
  match t.data.lookup name with
  | Option.none => Option.none
  | some col =>
    match t.lookup with
    | some (l :: ls) =>                 -- `if self.lookup:` (an empty table is falsy)
      if i < 0 then Option.none else    -- dict lookup: KeyError for keys that are not there
      match (l :: ls)[i.toNat]? with
      | some j => pyIdx? col j
      | Option.none => Option.none
    | _ => pyIdx? col i

inductive SigRes where
  | val (v : Sx)
  | virt (name : String)
  | err (msg : String)
  | unsupported (msg : String)
  deriving Repr, Inhabited

def strList (xs : List String) : Sx := .list false (xs.map .str)

def Trace.localSignals (t : Trace) (scope : String) : List String :=
  if scope == "" then t.rawsignals.filter (fun s => !s.toList.contains '.')
  else
    -- filter over the *set* `self.signals`; order is unspecified there, the harness sorts
    let pre := (scope ++ ".").toList
    (t.rawsignals ++ t.virt.map (·.name)).filter (fun s =>
      pre.isPrefixOf s.toList && !(s.toList.drop (scope.length + 1)).contains '.')

def Trace.localScopes (t : Trace) (scope : String) : List String :=
  let sc := if scope != "" then scope ++ "." else scope
  t.scopes.filter (fun s => sc.toList.isPrefixOf s.toList && !(s.toList.drop (sc.length + 1)).contains '.')

/-- `Trace.signal_value(name, 0, scope)`; `multi` = more than one trace in the container -/
def Trace.signalValue (t : Trace) (multi : Bool) (name : String) (scope : String) : SigRes :=
  let pre := fun (xs : List String) => if multi then xs.map (fun s => t.tid ++ "^" ++ s) else xs
  if 0 ≤ t.index && t.index ≤ t.maxIndex then
    if specialSignals.contains name then
      if name == "SIGNALS" then .val (strList (pre (t.rawsignals ++ t.virt.map (·.name))))
      else if name == "SIGNALS-NO-ALIAS" then .val (strList (pre t.handles))
      else if name == "VIRTUAL-SIGNALS" then .val (strList (pre (t.virt.map (·.name))))
      else if name == "LOCAL-SIGNALS" then .val (strList (t.localSignals scope))
      else if name == "INDEX" then .val (.int t.index)
      else if name == "MAX-INDEX" then .val (.int t.maxIndex)
      else if name == "TS" then
        match pyIdx? t.timestamps t.index with
        | some ts => .val (.int ts)
        | Option.none => .err "TS: index out of range"
      else if name == "TRACE-NAME" then .val (.str t.tid)
      else if name == "TRACE-FILE" then .val (.str t.file)
      else if name == "LOCAL-SCOPES" then .val (strList (t.localScopes scope))
      else if name == "SCOPES" then .val (strList t.scopes)
      else .val .none
    else if t.isVirtual name then .virt name
    else
      match t.access name t.index with
      | some bits => if intParseSensitive bits then .unsupported "int(bits,2) corner" else .val (bitsToVal bits)
      | Option.none => .err "no such signal data"
  else if t.index ≥ t.maxIndex then
    match t.access name t.maxIndex with
    | some bits => .val (.str bits)
    | Option.none => .err "no such signal data"
  else .err "negative timestamp"

def Trace.signalWidth (t : Trace) (name : String) : Option Int :=
  match t.kind with
  | .vcd => t.widths.lookup name
  | .csv => t.widths.lookup name

/-! ## container -/

structure Container where
  traces : List Trace := []
  nTraces : Int := 0
  idxStack : List (List (String × Int)) := []
  deriving Repr, Inhabited

def Container.find? (c : Container) (tid : String) : Option Trace := c.traces.find? (fun t => t.tid == tid)

def splitAtSep (name : String) : Option (String × String) :=
  let cs := name.toList
  if cs.contains scopeSeparator then
    some (String.ofList (cs.takeWhile (· != scopeSeparator)), String.ofList ((cs.dropWhile (· != scopeSeparator)).drop 1))
  else Option.none

/-- which trace and which local name does `name` address? mirrors the dispatch in `signal_value`,
`signal_width`: `.inl msg` is the raised error -/
def Container.route (c : Container) (name : String) : Except String (Trace × String) :=
  match splitAtSep name with
  | Option.none =>
    if c.nTraces == 1 then
      match c.traces with
      | t :: _ => .ok (t, name)
      | [] => .error "IndexError: no trace"
    else .error "No traces loaded"
  | some (tid, sig) =>
    match c.find? tid with
    | some t => .ok (t, sig)
    | Option.none => .error "No trace with tid"

def Container.multi (c : Container) : Bool := c.traces.length > 1

def Container.signalValue (c : Container) (name scope : String) : SigRes :=
  match c.route name with
  | .ok (t, sig) => t.signalValue c.multi sig scope
  | .error m => .err m

/-- `TraceContainer.contains`; `none` = raises -/
def Container.contains (c : Container) (name : String) : Option Bool :=
  match splitAtSep name with
  | Option.none =>
    if c.nTraces == 1 then
      match c.traces with
      | t :: _ => some (t.hasSignal name)
      | [] => Option.none
    else some false
  | some (tid, sig) =>
    match c.find? tid with
    | some t => some (t.hasSignal sig)
    | Option.none => Option.none

def Container.signalWidth (c : Container) (name : String) : Option Int :=
  match c.route name with
  | .ok (t, sig) => t.signalWidth sig
  | .error _ => Option.none

/-- `TraceContainer.scopes` (with the tid prefix when several traces are loaded) -/
def Container.scopes (c : Container) : List String :=
  if c.traces.length > 1 then c.traces.flatMap (fun t => t.scopes.map (fun s => t.tid ++ "^" ++ s))
  else c.traces.flatMap (·.scopes)

/-- `TraceContainer.signals` -/
def Container.signals (c : Container) : List String :=
  if c.traces.length == 1 then c.traces.flatMap (·.rawsignals)
  else c.traces.flatMap (fun t => t.rawsignals.map (fun s => t.tid ++ "^" ++ s))

inductive LoadOutcome where
  | ok (t : Trace)            -- reader succeeded
  | readerError               -- missing file / parse error: exception before the dict is touched
  | unsupportedExt            -- message printed, no exception
  deriving Repr, Inhabited

/-- `TraceContainer.load`: the reader runs first; `none` = exception (state unchanged by construction) -/
def Container.load (c : Container) (tid : String) (o : LoadOutcome) : Option Container :=
  if (c.find? tid).isSome then Option.none        -- assert tid not in self.traces
  else match o with
    | .ok t => some { c with traces := c.traces ++ [{ t with tid := tid }], nTraces := c.nTraces + 1 }
    | .readerError => Option.none
    | .unsupportedExt => some c

def Container.unload (c : Container) (tid : String) : Container :=
  if (c.find? tid).isSome then
    { c with traces := c.traces.filter (fun t => t.tid != tid), nTraces := c.nTraces - 1 }
  else c

/-- `TraceContainer.step(steps, tid)`; `if tid:` — an empty tid means "all" -/
def Container.step (c : Container) (k : Int) (tid : Option String) : Option (Container × List String) :=
  match tid with
  | some tid =>
    if tid != "" then
      match stepNamed c.traces tid k with
      | some (ts, e) => some ({ c with traces := ts }, e)
      | Option.none => Option.none
    else
      let (ts, e) := stepAll c.traces k
      some ({ c with traces := ts }, e)
  | Option.none =>
    let (ts, e) := stepAll c.traces k
    some ({ c with traces := ts }, e)

def Container.storeIndices (c : Container) : Container :=
  { c with idxStack := indicesOf c.traces :: c.idxStack }

/-- `restore_indices`; `none` = KeyError (a saved tid is no longer loaded) -/
def Container.restoreIndices (c : Container) : Option Container :=
  match c.idxStack with
  | [] => some c
  | saved :: rest =>
    if saved.all (fun p => (c.find? p.1).isSome) then
      some { c with traces := setIndices c.traces saved, idxStack := rest }
    else Option.none

/-! ## resampling and trimming -/

/-- `set_sampling_points(new_indices)` (vcd and csv readers); `none` = IndexError -/
def Trace.setSamplingPoints (t : Trace) (l : List Int) : Option Trace :=
  match l.mapM (fun i => pyIdx? t.allTimestamps i) with
  | Option.none => Option.none
  | some newTs =>
    let l' := dedup l
    let ts := dedup newTs
    some { t with lookup := some l', timestamps := ts, index := 0, maxIndex := (ts.length : Int) - 1,
                  virt := t.virt.map (fun v => { v with cache := [] }) }

def Trace.setMaxIndex (t : Trace) (m : Int) : Trace := { t with maxIndex := min m t.maxIndex }

end Wal
