import Wal.Model.Sx
/-!
# Printer: `wal/util.py::wal_str`

Works on `List Char`; `none` = outside the model (Python `repr` of floats, exotic objects).
`arrs` resolves array references (Python dicts) so that `{("k" v) …}` can be printed.
-/
namespace Wal

/-- string escaping of `wal_str` (backslash, quote, newline, tab, carriage return) -/
def escapeStr : List Char → List Char
  | [] => []
  | c :: cs =>
    (if c == '\\' then ['\\', '\\']
     else if c == '"' then ['\\', '"']
     else if c == '\n' then ['\\', 'n']
     else if c == '\t' then ['\\', 't']
     else if c == '\r' then ['\\', 'r']
     else [c]) ++ escapeStr cs

def joinSp : List (List Char) → List Char
  | [] => []
  | [x] => x
  | x :: y :: r => x ++ ' ' :: joinSp (y :: r)

def isRevalSym : Sx → Bool
  | .sym n Option.none => n == "reval"
  | _ => false

def intChars (i : Int) : List Char := (toString i).toList

/-- shape dispatch of `wal_str` on a list whose elements are already printed (`parts`) -/
def assembleList (xs : List Sx) (parts : List (List Char)) : Option (List Char) :=
  match xs, parts with
  | [.op .QUOTE, _], [_, t] => some ('\'' :: t)
  | [.op .QUASIQUOTE, _], [_, t] => some ('`' :: t)
  | _, _ =>
    let isReval := match xs with
      | [h, _, _] => isRevalSym h
      | _ => false
    if isReval then
      match xs, parts with
      | [_, _, b], [_, ta, _] => (pyStr? b).map (fun tb => ta ++ '@' :: tb.toList)
      | _, _ => Option.none
    else match xs with
      | .op .ARRAY :: _ => some ('{' :: joinSp parts ++ ['}'])
      | _ => some ('(' :: joinSp parts ++ [')'])

mutual
/-- `arrP` prints an array reference (a Python dict living in the heap) -/
def walChars (arrP : Nat → Option (List Char)) : Sx → Option (List Char)
  | .list _ xs =>
    match walCharsList arrP xs with
    | Option.none => Option.none
    | some parts => assembleList xs parts
  | .sym n _ => some (match n.toList with | '\\' :: r => '\\' :: r ++ [' '] | cs => cs)   -- an escaped identifier extends to the next blank
  | .mac n ps b =>
    match walChars arrP ps, walChars arrP b with
    | some tp, some tb => some ("Macro: ".toList ++ n.toList ++ "\nArgs: ".toList ++ tp ++ '\n' :: tb)
    | _, _ => Option.none
  | .clo _ ps b n =>
    match walChars arrP ps, walChars arrP b with
    | some tp, some tb => some ("Function: ".toList ++ n.toList ++ "\nArgs: ".toList ++ tp ++ '\n' :: tb)
    | _, _ => Option.none
  | .unq e => (walChars arrP e).map (',' :: ·)
  | .unqs e => (walChars arrP e).map (fun t => ',' :: '@' :: t)
  | .op o => some o.value.toList
  | .str s => some ('"' :: escapeStr s.toList ++ ['"'])
  | .bool b => some (if b then "true".toList else "false".toList)
  | .arr r => arrP r
  | .int i => some (intChars i)
  | .none => some "None".toList
  | .flt _ => Option.none
  | .ty n => some ("<class '".toList ++ n.toList ++ "'>".toList)
def walCharsList (arrP : Nat → Option (List Char)) : List Sx → Option (List (List Char))
  | [] => some []
  | x :: xs =>
    match walChars arrP x, walCharsList arrP xs with
    | some t, some ts => some (t :: ts)
    | _, _ => Option.none
end

/-- dict printing `{("k" v) …}`; nesting of arrays inside arrays is followed `fuel` levels deep -/
def arrPrinter (arrs : Nat → Option (List (String × Sx))) : Nat → Nat → Option (List Char)
  | 0, _ => Option.none
  | fuel + 1, r =>
    match arrs r with
    | Option.none => Option.none
    | some kvs =>
      (kvs.mapM (fun kv => (walChars (arrPrinter arrs fuel) kv.2).map
          (fun t => "(\"".toList ++ kv.1.toList ++ "\" ".toList ++ t ++ [')']))).map
        (fun parts => '{' :: joinSp parts ++ ['}'])

def walStr (arrs : Nat → Option (List (String × Sx))) (e : Sx) : Option String :=
  (walChars (arrPrinter arrs 4) e).map String.ofList

/-- printing of pure code (no arrays) -/
def walStrCode (e : Sx) : Option String := (walChars (fun _ => Option.none) e).map String.ofList

end Wal
