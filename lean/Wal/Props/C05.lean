import Wal.Model.Eval
/-!
# C05 — Scoped, grouped and aliased names denote the intended signal; context restored

Operator-level theorems about `opScoped`, `opInGroup`, `opAllScopes`, `opResolveScope`, `opResolveGroup`,
`groupCandidate` (`Wal/Model/Eval.lean`), against an arbitrary evaluator `rec` of the body.
-/
namespace Wal.C05
open Wal

/-! ## what a reference denotes -/

/-- **inside (in-scope S e) a scoped reference ~n denotes the signal S.n** (S a real scope, captured in CS);
a missing signal raises an error -/
theorem scoped_ref (rec : St → Sx → Res) (st : St) (n cs : String) (k : Option Nat)
    (hal : st.aliases.lookup n = Option.none) (hcs : st.readFrom 0 "CS" = some (.str cs))
    (hsc : st.tc.scopes.contains cs = true) :
    opResolveScope rec st [.sym n k] =
      (match st.tc.contains (cs ++ "." ++ n) with
       | Option.none => .error (errA "No trace with tid")
       | some false => .error (errA "resolve-scope: No signal with that name")
       | some true => readSignal rec st (cs ++ "." ++ n) "") := by
  simp only [opResolveScope, hal, Option.getD_none, readCS, hcs, bind, Except.bind, hsc, if_true, containsOrErr, ofOpt]
  cases st.tc.contains (cs ++ "." ++ n) with
  | none => rfl
  | some b => cases b <;> rfl

/-- **inside (in-group G e) a grouped reference #n denotes the signal named G immediately followed by n** -/
theorem grouped_ref (rec : St → Sx → Res) (st : St) (n : String) (k : Option Nat)
    (hal : st.aliases.lookup n = Option.none) :
    opResolveGroup rec st [.sym n k] =
      (match st.tc.contains (st.group ++ n) with
       | Option.none => .error (errA "No trace with tid")
       | some false => .error (errA "resolve-group: No signal with that name")
       | some true => readSignal rec st (st.group ++ n) "") := by
  simp only [opResolveGroup, hal, Option.getD_none, bind, Except.bind, containsOrErr, ofOpt]
  cases st.tc.contains (st.group ++ n) with
  | none => rfl
  | some b => cases b <;> rfl

/-- **re-aliasing takes effect for every later reference**: the alias is looked up at each evaluation (the program
text is not rewritten), so `~a` follows the current target -/
theorem scoped_ref_alias (rec : St → Sx → Res) (st : St) (a tgt cs : String) (k : Option Nat)
    (hal : st.aliases.lookup a = some tgt) (hcs : st.readFrom 0 "CS" = some (.str cs))
    (hsc : st.tc.scopes.contains cs = true) (hal2 : st.aliases.lookup tgt = Option.none) :
    opResolveScope rec st [.sym a k] = opResolveScope rec st [.sym tgt k] := by
  simp only [opResolveScope, hal, hal2, Option.getD_some, Option.getD_none]

/-- a plain aliased symbol reads the signal of its current target -/
theorem alias_read (rec : St → Sx → Res) (st : St) (a tgt : String) (hal : st.aliases.lookup a = some tgt)
    (hsig : st.tc.contains tgt = some true) : evalSym rec st a Option.none = readSignal rec st tgt st.scope := by
  simp [evalSym, hal, hsig]

/-- after `(alias a 'y)` the alias table maps `a` to `y` (and only `a` changed) -/
theorem alias_sets (rec : St → Sx → Res) (st st1 : St) (a y : String) (k k2 : Option Nat) (e : Sx)
    (he : rec st e = .ok (.sym y k2, st1)) :
    ∃ st2, opAlias rec st [.sym a k, e] = .ok (.none, st2) ∧ st2.aliases.lookup a = some y := by
  refine ⟨{ st1 with aliases := assocSet st1.aliases a y }, by simp [opAlias, he, bind, Except.bind, pure, Except.pure], ?_⟩
  show (assocSet st1.aliases a y).lookup a = some y
  induction st1.aliases with
  | nil => simp [assocSet, List.lookup]
  | cons p m ih =>
    obtain ⟨k', v'⟩ := p
    by_cases h : (k' == a) = true
    · simp [assocSet, h, List.lookup]
    · have h' : (k' == a) = false := by simpa using h
      have h2 : (a == k') = false := by
        simp only [beq_eq_false_iff_ne, ne_eq] at h' ⊢; exact fun e => h' e.symm
      simpa [assocSet, h', List.lookup, h2] using ih

/-! ## groups: suffixes are literal text -/

/-- without a captured scope, a signal is a candidate iff it ends with the suffix **as literal text**, and the
reported prefix is the rest -/
theorem candidate_literal (suffix sig pre : String) (hne : suffix ≠ "") :
    groupCandidate "" suffix sig = some pre ↔
      (suffix.toList.reverse.isPrefixOf sig.toList.reverse = true ∧
       pre = String.ofList (sig.toList.take (sig.toList.length - suffix.toList.length))) := by
  have hemp : suffix.toList.isEmpty = false := by
    cases h : suffix.toList with
    | nil => exact absurd (String.ext (by simpa using h)) hne
    | cons _ _ => rfl
  simp only [groupCandidate, hemp]
  by_cases hs : suffix.toList.reverse.isPrefixOf sig.toList.reverse = true
  · simp [hs, eq_comm]
  · simp [hs]

/-- kernel-evaluated instances: `.valid` does not match `a_valid`; a captured scope requires a direct, non-empty local part -/
example : groupCandidate "" ".valid" "top.a_valid" = Option.none ∧ groupCandidate "" ".valid" "top.a.valid" = some "top.a" ∧
    groupCandidate "top" "_valid" "top.x_valid" = some "top.x" ∧ groupCandidate "top" "_valid" "top.a.x_valid" = Option.none ∧
    groupCandidate "top" "_valid" "topx.x_valid" = Option.none ∧ groupCandidate "top.g<0>" "_v" "top.g<0>.a_v" = some "top.g<0>.a" := by
  decide

theorem sortDedup_sorted_nodup_instance : sortDedup ["b", "a", "b", "c", "a"] = ["a", "b", "c"] := by decide

/-! ## the context is restored -/

/-- writing a global variable changes the frame heap only -/
theorem writeGlobal_fields (st st' : St) (x : String) (v : Sx) (h : st.writeGlobal x v = .ok st') :
    st'.scope = st.scope ∧ st'.group = st.group ∧ st'.tc = st.tc ∧ st'.env = st.env ∧ st'.aliases = st.aliases ∧ st'.out = st.out := by
  simp only [St.writeGlobal, ofOpt, St.writeFrom] at h
  cases hd : st.definedAt 0 x with
  | none => simp [hd] at h
  | some j =>
    simp only [hd, Except.ok.injEq] at h
    subst h
    simp only [St.setVar]
    cases st.frames[j]? <;> exact ⟨rfl, rfl, rfl, rfl, rfl, rfl⟩

/-- **when in-scope finishes, the captured scope is again what it was before it started** — whatever the body did -/
theorem scoped_restores (rec : St → Sx → Res) (st st' : St) (s e v : Sx) (h : opScoped rec st [s, e] = .ok (v, st')) :
    st'.scope = st.scope := by
  simp only [opScoped, bind, Except.bind, pure, Except.pure] at h
  repeat' split at h
  all_goals first
    | (simp at h; done)
    | (simp only [Except.ok.injEq, Prod.mk.injEq] at h
       obtain ⟨_, rfl⟩ := h
       have hh := writeGlobal_fields _ _ _ _ ‹St.writeGlobal _ "CS" (Sx.str st.scope) = Except.ok _›
       exact hh.1)

/-- the value written to CS on exit is the scope captured before (`writeGlobal "CS" (str prev)` is the last action) -/
theorem scoped_body_sees_scope (rec : St → Sx → Res) (st st1 st2 : St) (s e : Sx) (name : String)
    (hs : rec st s = .ok (.str name, st1))
    (hw : ({ st1 with scope := name } : St).writeGlobal "CS" (.str name) = .ok st2) :
    opScoped rec st [s, e] =
      (match rec st2 e with
       | .error er => .error er
       | .ok (v, st3) => (match ({ st3 with scope := st.scope } : St).writeGlobal "CS" (.str st.scope) with
          | .error er => .error er
          | .ok st4 => .ok (v, st4))) ∧ st2.scope = name := by
  constructor
  · simp only [opScoped, hs, bind, Except.bind, nameOf?, hw, pure, Except.pure]
    cases rec st2 e with
    | error er => rfl
    | ok p =>
      obtain ⟨v, st3⟩ := p
      simp only
      cases ({ st3 with scope := st.scope } : St).writeGlobal "CS" (.str st.scope) <;> rfl
  · exact (writeGlobal_fields _ _ _ _ hw).1

/-- **all-scopes restores the captured scope** (the defect repaired in 08a0472) -/
theorem allscopes_restores (rec : St → Sx → Res) (st st' : St) (l : List Sx) (rest : List Sx) (v : Sx)
    (h : opAllScopes rec st (.list true l :: rest) = .ok (v, st')) : st'.scope = st.scope := by
  simp only [opAllScopes, bind, Except.bind, pure, Except.pure] at h
  repeat' split at h
  all_goals first
    | (simp at h; done)
    | (simp only [Except.ok.injEq, Prod.mk.injEq] at h
       obtain ⟨_, rfl⟩ := h
       have hh := writeGlobal_fields _ _ _ _ ‹St.writeGlobal _ "CS" (Sx.str st.scope) = Except.ok _›
       exact hh.1)

/-- **in-group restores the captured group and scope** -/
theorem ingroup_restores (rec : St → Sx → Res) (st st' : St) (g b : Sx) (bs : List Sx) (v : Sx)
    (h : opInGroup rec st (g :: b :: bs) = .ok (v, st')) : st'.scope = st.scope ∧ st'.group = st.group := by
  simp only [opInGroup, bind, Except.bind, pure, Except.pure] at h
  repeat' split at h
  all_goals first
    | (simp at h; done)
    | (simp only [Except.ok.injEq, Prod.mk.injEq] at h
       obtain ⟨_, rfl⟩ := h
       have h2 := writeGlobal_fields _ _ _ _ ‹St.writeGlobal _ "CS" (Sx.str st.scope) = Except.ok _›
       have h1 := writeGlobal_fields _ _ _ _ ‹St.writeGlobal _ "CG" (Sx.str st.group) = Except.ok _›
       exact ⟨by rw [h2.1, h1.1], by rw [h2.2.1, h1.2.1]⟩)

end Wal.C05
