import Wal.Model.Wawk
import Wal.Model.WawkParse
import Wal.Model.Printer
import Wal.Model.Eval
/-!
# C20 — WAWK transpiles with AWK meaning; `wawk -o` output is the executed program

What is proved here is about the model of `wawk/ast_defs.py` (`Wawk.emit`, `Wawk.findVars`), of the operator
constructors of `TreeToWal` (`Wawk.transpile`) and of the evaluator's `&&` (`andLoop`):

* `emit_shape` — the emitted program is: one `do` holding the pre-definitions followed by the BEGIN actions in
  source order, then (only if there are pattern statements) one `whenever true` loop, then the END actions in
  source order — nothing else, in that order;
* `main_loop_in_source_order`, `main_loop_length` — the loop body has one `(when (&& c1 … cn) action)` per pattern
  statement, the k-th for the k-th statement; `pattern_order` — pattern statements keep their relative order;
* `and_runs_iff_all` — for conditions that evaluate without error or side effect, `(&& c1 … cn)` is true exactly
  when every condition is truthy (so, with C15's `when` expansion and C04's `whenever` law, the action runs
  exactly at the indices where all conditions hold);
* `pattern_runs_iff_all` — the same through the `if` the statement expands to: the action is evaluated iff all
  conditions are truthy, otherwise nothing happens;
* `chainl_value`, `chainl_snoc` — the reference reading "left to right": the value of `a o1 e1 … on en` is the left
  fold of the operators over the operand values;
* `transpile_bin`, `transpile_chain_head` — an operator node transpiles to the operator applied to exactly two
  operands, the whole left part being the first (no re-association, no n-ary flattening).

* `parse_pp`, `parse_pp_at` — **grouping**: on the token-level model of the stratified operator grammar
  (`Wal/Model/WawkParse.lean`: `or_s > and_s > comp > sum_s > mul > neg > atom`, left-recursive rules as loops) every
  expression tree `e`, written with parentheses exactly where the stated rules (left to right; `* /` over `+ -`;
  `&&` over `||`; comparisons below arithmetic; `!` tightest) would otherwise read the text differently, parses back to
  `e` for every sufficiently large fuel — by induction over `e`, all sizes and nestings; the instances at the end show
  `6 - i + 3 * 3` = `(6 - i) + (3 * 3)` and `a || b && c` = `a || (b && c)`.

**Partial**: Lark's Earley engine itself is not modelled; that `parse_wawk` agrees with the token-level model
(`parseExpr`) is the correspondence's business (generated operator expressions through both, harness/c20.py). The
second sentence of the property (the `-o` text reads back as the executed program) is C11's round-trip theorem
applied to the emitted forms, and is exercised on every generated program.
-/
namespace Wal.C20
open Wal Wal.Wawk

/-! ## shape of the emitted program -/

theorem emit_shape (p : List Stmt) (forms : List Sx) (h : emit p = some forms) :
    ∃ defs : List (String × Sx),
      forms = Sx.list false (.op .DO :: (defs.map defineForm ++ begins p))
              :: (if (patterns p).isEmpty then [] else [mainLoop p]) ++ ends p := by
  unfold emit at h
  simp only [Option.bind_eq_bind, Option.pure_def, Option.bind_eq_some_iff, Option.some.injEq] at h
  obtain ⟨v1, _, v2, _, v3, _, rfl⟩ := h
  exact ⟨v3, rfl⟩

/-- BEGIN actions come first and the END actions last: the first form is the only one holding BEGIN actions, and
    the forms after the (optional) loop are exactly the END actions -/
theorem emit_begin_first_end_last (p : List Stmt) (forms : List Sx) (h : emit p = some forms) :
    ∃ first rest, forms = first :: rest ∧ rest = (if (patterns p).isEmpty then [] else [mainLoop p]) ++ ends p := by
  obtain ⟨defs, rfl⟩ := emit_shape p forms h
  exact ⟨_, _, rfl, rfl⟩

/-- a program without pattern statements has no loop at all (the emitted text is BEGIN then END) -/
theorem emit_no_patterns (p : List Stmt) (forms : List Sx) (h : emit p = some forms) (hp : patterns p = []) :
    ∃ first, forms = first :: ends p := by
  obtain ⟨defs, rfl⟩ := emit_shape p forms h
  simp [hp]

theorem main_loop_length (p : List Stmt) :
    mainLoop p = .list false (.op .WHENEVER :: .bool true :: (patterns p).map whenForm) ∧
    ((patterns p).map whenForm).length = (patterns p).length := by
  simp [mainLoop]

/-- the k-th `when` of the loop is built from the k-th pattern statement -/
theorem main_loop_in_source_order (p : List Stmt) (k : Nat) (hk : k < (patterns p).length) :
    ((patterns p).map whenForm)[k]'(by simpa using hk) =
      .list false [.sym "when" Option.none, .list false (.op .AND :: (patterns p)[k].conds), (patterns p)[k].action] := by
  simp [whenForm]

/-- pattern statements keep their relative source order (sorting BEGIN / END out is a filter) -/
theorem pattern_order (p : List Stmt) : (patterns p).Sublist p := by
  unfold patterns; exact List.filter_sublist

theorem begin_order (p : List Stmt) : ((p.filter (·.isBegin)).Sublist p) ∧ begins p = (p.filter (·.isBegin)).map (·.action) :=
  ⟨List.filter_sublist, rfl⟩

/-! ## `(&& c1 … cn)` holds exactly when every condition is truthy -/

/-- conditions evaluate neutrally: each yields a value and leaves the state as it was -/
def Neutral (rec : St → Sx → Res) (st : St) (cs : List Sx) (val : Sx → Sx) : Prop :=
  ∀ c ∈ cs, rec st c = .ok (val c, st)

theorem and_runs_iff_all (rec : St → Sx → Res) (st : St) (cs : List Sx) (val : Sx → Sx)
    (h : Neutral rec st cs val) :
    andLoop rec st cs = .ok (.bool (cs.all (fun c => st.truthy (val c))), st) := by
  induction cs with
  | nil => rfl
  | cons c r ih =>
    have hc := h c (List.mem_cons_self)
    have hr : Neutral rec st r val := fun c' hc' => h c' (List.mem_cons_of_mem _ hc')
    simp only [andLoop, hc, bind, Except.bind, List.all_cons]
    by_cases ht : st.truthy (val c) = true
    · simp [ht, ih hr]
    · simp only [Bool.not_eq_true] at ht
      simp [ht, pure, Except.pure]

theorem opAnd_runs_iff_all (rec : St → Sx → Res) (st : St) (cs : List Sx) (val : Sx → Sx)
    (h : Neutral rec st cs val) (hne : cs ≠ []) :
    opAnd rec st cs = .ok (.bool (cs.all (fun c => st.truthy (val c))), st) := by
  unfold opAnd
  cases cs with
  | nil => exact absurd rfl hne
  | cons c r => simpa using and_runs_iff_all rec st (c :: r) val h

/-- **a pattern statement runs its action exactly where all its conditions hold**: `(when (&& c1 … cn) action)` expands
    to `(if (&& c1 … cn) (do action))` (the expansion equation is C15, kernel-checked over the regenerated library); for an
    evaluator that dispatches `&&` to its operator and conditions that evaluate neutrally, that `if` evaluates the action
    iff every condition is truthy and otherwise does nothing (value none, state untouched) -/
theorem pattern_runs_iff_all (rec : St → Sx → Res) (st : St) (cs : List Sx) (val : Sx → Sx) (action : Sx)
    (h : Neutral rec st cs val) (hne : cs ≠ [])
    (hd : rec st (.list false (.op .AND :: cs)) = opAnd rec st cs) :
    opIf rec st [.list false (.op .AND :: cs), action] =
      if cs.all (fun c => st.truthy (val c)) then rec st action else .ok (.none, st) := by
  have hb : ∀ b : Bool, st.truthy (.bool b) = b := fun b => by cases b <;> rfl
  simp only [opIf, hd, opAnd_runs_iff_all rec st cs val h hne, bind, Except.bind, hb]
  by_cases ht : cs.all (fun c => st.truthy (val c)) = true
  · simp [ht]
  · simp only [Bool.not_eq_true] at ht
    simp [ht, pure, Except.pure]

/-! ## grouping: the reference reading and what `TreeToWal` builds from it -/

theorem chainl_snoc (a : E) (rest : List (BOp × E)) (o : BOp) (e : E) :
    chainl a (rest ++ [(o, e)]) = .bin o (chainl a rest) e := by
  simp [chainl, List.foldl_append]

/-- **left to right**: the value of `a o1 e1 … on en` is the left fold over the operand values -/
theorem chainl_value (env : Sx → Int) (a : E) (rest : List (BOp × E)) :
    evalA env (chainl a rest) = rest.foldl (fun acc p => p.1.apply acc (evalA env p.2)) (evalA env a) := by
  induction rest generalizing a with
  | nil => rfl
  | cons p r ih =>
    simp only [chainl, List.foldl_cons] at ih ⊢
    rw [ih]
    rfl

theorem transpile_bin (o : BOp) (a b : E) :
    transpile (.bin o a b) = .list false [.op o.op, transpile a, transpile b] := rfl

/-- the last operator of a chain is the head of the transpiled form and everything before it is its first operand -/
theorem transpile_chain_head (a : E) (rest : List (BOp × E)) (o : BOp) (e : E) :
    transpile (chainl a (rest ++ [(o, e)])) = .list false [.op o.op, transpile (chainl a rest), transpile e] := by
  rw [chainl_snoc]; rfl

/-! ## non-vacuity and instances -/

def sA (n : String) : Sx := .sym n Option.none
def progEx : List Stmt :=
  [ { conds := [sA "BEGIN"], action := .list false [.op .DO, .list false [.op .SET, .list false [sA "x", .int 2]]] },
    { conds := [sA "top.clk", .list false [.op .LARGER, sA "top.cnt", .int 1]],
      action := .list false [.op .DO, .list false [.op .SETA, sA "arr", .list false [.op .ADD, .str "k"], sA "x"]] },
    { conds := [sA "END"], action := .list false [.op .DO, .list false [.op .PRINT, sA "x"]] } ]

example : (emit progEx).map (·.length) = some 3 := by decide +kernel
example : (emit progEx).map (fun f => f.map (fun e => (walStrCode e).getD "?")) = some
    ["(do (define x 0) (define arr {array}) (do (set (x 2))))",
     "(whenever true (when (&& top.clk (> top.cnt 1)) (do (seta arr (+ \"k\") x))))",
     "(do (print x))"] := by decide +kernel
example : (emit [progEx[0], progEx[2]]).map (·.length) = some 2 := by decide +kernel

/-- `6 - i + 3 * 3` in the reference reading is `(6 - i) + (3 * 3)` — value 15 - i, not 6 - (i + 9) -/
example : evalA (fun s => match s with | .int k => k | _ => 4)
    (chainl (.atom (.int 6)) [(.sub, .atom (sA "i")), (.add, .bin .mul (.atom (.int 3)) (.atom (.int 3)))]) = 11 := by
  decide +kernel

/-! ## grouping: the stratified operator grammar on tokens -/

/-- the next token does not continue an operator chain of level ≥ ℓ -/
def stops (ℓ : Nat) : List Tok → Bool
  | .op o :: _ => o.lvl < ℓ
  | _ => true

theorem stops_mono {ℓ k : Nat} {ts : List Tok} (h : stops ℓ ts = true) (hk : ℓ ≤ k) : stops k ts = true := by
  cases ts with
  | nil => rfl
  | cons t r =>
    cases t <;> simp_all [stops]
    omega

theorem lvl_pos (o : POp) : 1 ≤ o.lvl ∧ o.lvl ≤ 5 := by cases o <;> simp [POp.lvl]

theorem loop_stop (m ℓ : Nat) (a : PE) (ts : List Tok) (h : stops ℓ ts = true) :
    pLoop (m + 1) ℓ a ts = some (a, ts) := by
  cases ts with
  | nil => simp [pLoop]
  | cons t r =>
    cases t <;> simp_all [pLoop, stops]
    omega

theorem cmp_stop (m : Nat) (a : PE) (ts : List Tok) (h : stops 3 ts = true) :
    pCmp (m + 1) a ts = some (a, ts) := by
  cases ts with
  | nil => simp [pCmp]
  | cons t r =>
    cases t <;> simp_all [pCmp, stops]
    omega

theorem pLevel_succ (n ℓ : Nat) (ts : List Tok) :
    pLevel (n + 1) ℓ ts = if 6 ≤ ℓ then pUnary n ts else
      match pLevel n (ℓ + 1) ts with
      | none => none
      | some (a, r) => if ℓ == 3 then pCmp n a r else pLoop n ℓ a r := by
  simp only [pLevel]
  split
  · rfl
  · cases pLevel n (ℓ + 1) ts <;> rfl

theorem pLoop_op (n ℓ : Nat) (a : PE) (o : POp) (r : List Tok) :
    pLoop (n + 1) ℓ a (.op o :: r) = if o.lvl == ℓ then
      (match pLevel n (ℓ + 1) r with
        | some (b, r') => pLoop n ℓ (.bin o a b) r'
        | none => none)
      else some (a, .op o :: r) := by
  simp only [pLoop]
  split
  · cases pLevel n (ℓ + 1) r <;> rfl
  · rfl

theorem pCmp_op (n : Nat) (a : PE) (o : POp) (r : List Tok) :
    pCmp (n + 1) a (.op o :: r) = if o.lvl == 3 then
      (match pLevel n 4 r with
        | some (b, r') => some (.bin o a b, r')
        | none => none)
      else some (a, .op o :: r) := by
  simp only [pCmp]
  split
  · cases pLevel n 4 r <;> rfl
  · rfl

/-- "for every sufficiently large fuel" -/
def Ev (f : Nat → Prop) : Prop := ∃ n0, ∀ n, n0 ≤ n → f n

/-- descend one level: a level-(ℓ+1) parse whose continuation does not continue level ℓ is the level-ℓ parse -/
theorem descend (ℓ : Nat) (hℓ : ℓ < 6) (ts rest : List Tok) (e : PE) (hs : stops ℓ rest = true)
    (h : Ev fun n => pLevel n (ℓ + 1) ts = some (e, rest)) : Ev fun n => pLevel n ℓ ts = some (e, rest) := by
  obtain ⟨m0, h⟩ := h
  refine ⟨m0 + 2, fun n hn => ?_⟩
  obtain ⟨m, rfl⟩ : ∃ m, n = m + 2 := ⟨n - 2, by omega⟩
  have h1 : pLevel (m + 1) (ℓ + 1) ts = some (e, rest) := h (m + 1) (by omega)
  have : ¬ 6 ≤ ℓ := by omega
  rw [pLevel_succ, if_neg this, h1]
  by_cases h3 : ℓ = 3
  · subst h3; simp [cmp_stop m e rest hs]
  · have : (ℓ == 3) = false := by simp [h3]
    simp [this, loop_stop m ℓ e rest hs]

/-- descend several levels -/
theorem descend_to (k ℓ : Nat) (hk : ℓ + k ≤ 6) (ts rest : List Tok) (e : PE) (hs : stops ℓ rest = true)
    (h : Ev fun n => pLevel n (ℓ + k) ts = some (e, rest)) : Ev fun n => pLevel n ℓ ts = some (e, rest) := by
  induction k with
  | zero => simpa using h
  | succ k ih =>
    apply ih (by omega)
    apply descend (ℓ + k) (by omega) ts rest e (stops_mono hs (by omega))
    simpa [Nat.add_assoc] using h

theorem descend_from6 (ℓ : Nat) (h6 : ℓ ≤ 6) (ts rest : List Tok) (e : PE) (hs : stops ℓ rest = true)
    (h : Ev fun n => pLevel n 6 ts = some (e, rest)) : Ev fun n => pLevel n ℓ ts = some (e, rest) := by
  obtain ⟨k, hk⟩ : ∃ k, ℓ + k = 6 := ⟨6 - ℓ, by omega⟩
  apply descend_to k ℓ (by omega) ts rest e hs
  rw [hk]; exact h

theorem unary_of_level6 (ts : List Tok) (r : Option (PE × List Tok))
    (h : Ev fun n => pLevel n 6 ts = r) : Ev fun n => pUnary n ts = r := by
  obtain ⟨m0, h⟩ := h
  refine ⟨m0, fun n hn => ?_⟩
  have : pLevel (n + 1) 6 ts = r := h (n + 1) (by omega)
  rw [pLevel_succ] at this
  simpa using this

theorem level6_of_unary (ts : List Tok) (r : Option (PE × List Tok))
    (h : Ev fun n => pUnary n ts = r) : Ev fun n => pLevel n 6 ts = r := by
  obtain ⟨m0, h⟩ := h
  refine ⟨m0 + 1, fun n hn => ?_⟩
  obtain ⟨m, rfl⟩ : ∃ m, n = m + 1 := ⟨n - 1, by omega⟩
  have : pUnary m ts = r := h m (by omega)
  rw [pLevel_succ]
  simpa using this

/-- the text of a tree whose level is not ℓ is the same one level up -/
theorem pp_succ (ℓ : Nat) (e : PE) (h : e.lvl ≠ ℓ) : pp ℓ e = pp (ℓ + 1) e := by
  cases e with
  | atom s => rfl
  | neg a => rfl
  | bin o a b =>
    simp only [PE.lvl] at h
    simp only [pp]
    by_cases h1 : o.lvl < ℓ
    · have : o.lvl < ℓ + 1 := by omega
      simp [h1, this]
    · have : ¬ o.lvl < ℓ + 1 := by omega
      simp [h1, this]

/-- what is proved about each tree: `ParsesBack` the text parses back at every level; `LoopCont` parsing the text at a chain level
    and continuing the loop equals continuing the loop with the tree as the accumulated left operand -/
def ParsesBack (e : PE) : Prop :=
  ∀ ℓ rest, 1 ≤ ℓ → ℓ ≤ 6 → stops ℓ rest = true → Ev fun n => pLevel n ℓ (pp ℓ e ++ rest) = some (e, rest)

def LoopCont (e : PE) : Prop :=
  ∀ q tail res, 1 ≤ q → q ≤ 5 → q ≠ 3 → stops (q + 1) tail = true →
    (Ev fun n => pLoop n q e tail = some res) → Ev fun n => pLevel n q (pp q e ++ tail) = some res

/-- a tree that is not a chain link of level q: parse it one level up, then the loop continues with it -/
theorem loopCont_of_parsesBack_nonchain (e : PE) (hP : ParsesBack e) (q : Nat) (tail : List Tok) (res : PE × List Tok)
    (hq1 : 1 ≤ q) (hq5 : q ≤ 5) (hq3 : q ≠ 3) (hne : e.lvl ≠ q) (hs : stops (q + 1) tail = true)
    (h : Ev fun n => pLoop n q e tail = some res) : Ev fun n => pLevel n q (pp q e ++ tail) = some res := by
  obtain ⟨m0, h0⟩ := hP (q + 1) tail (by omega) (by omega) hs
  obtain ⟨m1, h1⟩ := h
  refine ⟨m0 + m1 + 1, fun n hn => ?_⟩
  obtain ⟨m, rfl⟩ : ∃ m, n = m + 1 := ⟨n - 1, by omega⟩
  have a1 : pLevel m (q + 1) (pp (q + 1) e ++ tail) = some (e, tail) := h0 m (by omega)
  have a2 : pLoop m q e tail = some res := h1 m (by omega)
  have : ¬ 6 ≤ q := by omega
  have h3 : (q == 3) = false := by simp [hq3]
  rw [pp_succ q e hne, pLevel_succ, if_neg this, a1]
  simp [h3, a2]

theorem parsesBack_atom (s : Sx) : ParsesBack (.atom s) := by
  intro ℓ rest h1 h6 hs
  have base : Ev fun n => pLevel n 6 (pp ℓ (.atom s) ++ rest) = some (.atom s, rest) := by
    apply level6_of_unary
    exact ⟨1, fun n hn => by obtain ⟨m, rfl⟩ : ∃ m, n = m + 1 := ⟨n - 1, by omega⟩; simp [pp, pUnary]⟩
  exact descend_from6 ℓ h6 _ rest _ hs base

theorem parsesBack_neg (a : PE) (ha : ParsesBack a) : ParsesBack (.neg a) := by
  intro ℓ rest h1 h6 hs
  have base : Ev fun n => pLevel n 6 (pp ℓ (.neg a) ++ rest) = some (.neg a, rest) := by
    apply level6_of_unary
    obtain ⟨m0, h0⟩ := unary_of_level6 _ _ (ha 6 rest (by omega) (by omega) (stops_mono hs h6))
    refine ⟨m0 + 1, fun n hn => ?_⟩
    obtain ⟨m, rfl⟩ : ∃ m, n = m + 1 := ⟨n - 1, by omega⟩
    have : pUnary m (pp 6 a ++ rest) = some (a, rest) := h0 m (by omega)
    simp [pp, pUnary, this]
  exact descend_from6 ℓ h6 _ rest _ hs base

/-- the parenthesised text, from the unparenthesised parse at level 1 -/
theorem paren_case (e : PE) (body : List Tok) (ℓ : Nat) (rest : List Tok) (h6 : ℓ ≤ 6) (hs : stops ℓ rest = true)
    (h : Ev fun n => pLevel n 1 (body ++ .rp :: rest) = some (e, .rp :: rest)) :
    Ev fun n => pLevel n ℓ ((.lp :: body ++ [.rp]) ++ rest) = some (e, rest) := by
  have base : Ev fun n => pLevel n 6 ((.lp :: body ++ [.rp]) ++ rest) = some (e, rest) := by
    apply level6_of_unary
    obtain ⟨m0, h0⟩ := h
    refine ⟨m0 + 1, fun n hn => ?_⟩
    obtain ⟨m, rfl⟩ : ∃ m, n = m + 1 := ⟨n - 1, by omega⟩
    have : pLevel m 1 (body ++ .rp :: rest) = some (e, .rp :: rest) := h0 m (by omega)
    simp only [List.cons_append, List.append_assoc, List.singleton_append, pUnary]
    simp [this]
  exact descend_from6 ℓ h6 _ rest _ hs base

theorem loopCont_atom (s : Sx) : LoopCont (.atom s) := by
  intro q tail res h1 h5 h3 hs h
  exact loopCont_of_parsesBack_nonchain _ (parsesBack_atom s) q tail res h1 h5 h3 (by simp [PE.lvl]; omega) hs h

theorem loopCont_neg (a : PE) (ha : ParsesBack a) : LoopCont (.neg a) := by
  intro q tail res h1 h5 h3 hs h
  exact loopCont_of_parsesBack_nonchain _ (parsesBack_neg a ha) q tail res h1 h5 h3 (by simp [PE.lvl]; omega) hs h

theorem pp_bin_noparen (ℓ : Nat) (o : POp) (a b : PE) (h : ¬ o.lvl < ℓ) :
    pp ℓ (.bin o a b) = pp (if o.lvl == 3 then 4 else o.lvl) a ++ .op o :: pp (o.lvl + 1) b := by
  simp [pp, h]

theorem pp_bin_paren (ℓ : Nat) (o : POp) (a b : PE) (h : o.lvl < ℓ) :
    pp ℓ (.bin o a b) = .lp :: (pp (if o.lvl == 3 then 4 else o.lvl) a ++ .op o :: pp (o.lvl + 1) b) ++ [.rp] := by
  simp [pp, h]

theorem loopCont_bin (o : POp) (a b : PE) (hP : ParsesBack (.bin o a b)) (hb : ParsesBack b) (ha : LoopCont a) : LoopCont (.bin o a b) := by
  intro q tail res h1 h5 h3 hs h
  by_cases hc : o.lvl = q
  · -- a link of the chain of level q
    have hnp : ¬ o.lvl < q := by omega
    have h3' : (o.lvl == 3) = false := by simp [hc, h3]
    rw [pp_bin_noparen q o a b hnp, h3', hc]
    simp only [Bool.false_eq_true, if_false, List.append_assoc, List.cons_append]
    apply ha q (.op o :: (pp (q + 1) b ++ tail)) res h1 h5 h3
    · simp [stops, hc]
    · obtain ⟨m0, h0⟩ := hb (q + 1) tail (by omega) (by omega) hs
      obtain ⟨m1, h1'⟩ := h
      refine ⟨m0 + m1 + 1, fun n hn => ?_⟩
      obtain ⟨m, rfl⟩ : ∃ m, n = m + 1 := ⟨n - 1, by omega⟩
      have a1 : pLevel m (q + 1) (pp (q + 1) b ++ tail) = some (b, tail) := h0 m (by omega)
      have a2 : pLoop m q (.bin o a b) tail = some res := h1' m (by omega)
      rw [pLoop_op]
      simp [hc, a1, a2]
  · exact loopCont_of_parsesBack_nonchain _ hP q tail res h1 h5 h3 (by simpa [PE.lvl] using hc) hs h

/-- the unparenthesised text of a binary node parses back at its own level -/
theorem bin_at_level (o : POp) (a b : PE) (ha : ParsesBack a) (hb : ParsesBack b) (hEa : LoopCont a) (rest : List Tok)
    (hs : stops o.lvl rest = true) :
    Ev fun n => pLevel n o.lvl ((pp (if o.lvl == 3 then 4 else o.lvl) a ++ .op o :: pp (o.lvl + 1) b) ++ rest)
      = some (.bin o a b, rest) := by
  have ⟨hl1, hl5⟩ := lvl_pos o
  by_cases h3 : o.lvl = 3
  · -- comparison: sum_s comp_op sum_s
    simp only [h3, beq_self_eq_true, if_true, List.append_assoc, List.cons_append]
    rw [h3] at hs
    obtain ⟨m0, h0⟩ := ha 4 (.op o :: (pp 4 b ++ rest)) (by omega) (by omega) (by simp [stops, h3])
    obtain ⟨m1, h1⟩ := hb 4 rest (by omega) (by omega) (stops_mono hs (by omega))
    refine ⟨m0 + m1 + 2, fun n hn => ?_⟩
    obtain ⟨m, rfl⟩ : ∃ m, n = m + 2 := ⟨n - 2, by omega⟩
    have a1 : pLevel (m + 1) 4 (pp 4 a ++ .op o :: (pp 4 b ++ rest)) = some (a, .op o :: (pp 4 b ++ rest)) := h0 (m + 1) (by omega)
    have a2 : pLevel m 4 (pp 4 b ++ rest) = some (b, rest) := h1 m (by omega)
    rw [pLevel_succ]
    simp only [show ¬ 6 ≤ 3 by omega, if_false, a1, beq_self_eq_true, if_true]
    rw [pCmp_op]
    simp [h3, a2]
  · have h3' : (o.lvl == 3) = false := by simp [h3]
    simp only [h3', Bool.false_eq_true, if_false, List.append_assoc, List.cons_append]
    apply hEa o.lvl (.op o :: (pp (o.lvl + 1) b ++ rest)) (.bin o a b, rest) hl1 hl5 h3
    · simp [stops]
    · obtain ⟨m0, h0⟩ := hb (o.lvl + 1) rest (by omega) (by omega) (stops_mono hs (by omega))
      refine ⟨m0 + 2, fun n hn => ?_⟩
      obtain ⟨m, rfl⟩ : ∃ m, n = m + 2 := ⟨n - 2, by omega⟩
      have a1 : pLevel (m + 1) (o.lvl + 1) (pp (o.lvl + 1) b ++ rest) = some (b, rest) := h0 (m + 1) (by omega)
      rw [pLoop_op]
      simp [a1, loop_stop m o.lvl _ rest hs]

theorem parsesBack_bin (o : POp) (a b : PE) (ha : ParsesBack a) (hb : ParsesBack b) (hEa : LoopCont a) : ParsesBack (.bin o a b) := by
  have ⟨hl1, hl5⟩ := lvl_pos o
  -- without parentheses, at every level up to the operator's own
  have N : ∀ ℓ rest, 1 ≤ ℓ → ℓ ≤ o.lvl → stops ℓ rest = true →
      Ev fun n => pLevel n ℓ ((pp (if o.lvl == 3 then 4 else o.lvl) a ++ .op o :: pp (o.lvl + 1) b) ++ rest) = some (.bin o a b, rest) := by
    intro ℓ rest h1 hle hs
    obtain ⟨k, hk⟩ : ∃ k, ℓ + k = o.lvl := ⟨o.lvl - ℓ, by omega⟩
    apply descend_to k ℓ (by omega) _ rest _ hs
    rw [hk]
    exact bin_at_level o a b ha hb hEa rest (stops_mono hs hle)
  intro ℓ rest h1 h6 hs
  by_cases hp : o.lvl < ℓ
  · rw [pp_bin_paren ℓ o a b hp]
    apply paren_case _ _ ℓ rest h6 hs
    exact N 1 (.rp :: rest) (by omega) hl1 rfl
  · rw [pp_bin_noparen ℓ o a b hp]
    exact N ℓ rest h1 (by omega) hs

theorem parsesBack_and_loopCont (e : PE) : ParsesBack e ∧ LoopCont e := by
  induction e with
  | atom s => exact ⟨parsesBack_atom s, loopCont_atom s⟩
  | neg a ih => exact ⟨parsesBack_neg a ih.1, loopCont_neg a ih.1⟩
  | bin o a b iha ihb =>
    have hP := parsesBack_bin o a b iha.1 ihb.1 iha.2
    exact ⟨hP, loopCont_bin o a b hP ihb.1 iha.2⟩

/-- **the grammar reads every text with the stated grouping**: the text of `e` with exactly the necessary
    parentheses parses back to `e` and nothing is left over -/
theorem parse_pp (e : PE) : Ev fun n => pLevel n 1 (pp 1 e) = some (e, []) := by
  have := (parsesBack_and_loopCont e).1 1 [] (by omega) (by omega) rfl
  simpa using this

/-- in any operand position and before any continuation that does not extend the chain -/
theorem parse_pp_at (e : PE) (ℓ : Nat) (rest : List Tok) (h1 : 1 ≤ ℓ) (h6 : ℓ ≤ 6) (hs : stops ℓ rest = true) :
    Ev fun n => pLevel n ℓ (pp ℓ e ++ rest) = some (e, rest) :=
  (parsesBack_and_loopCont e).1 ℓ rest h1 h6 hs


/-! instances through the whole-expression entry point used by the correspondence (`parseExpr`, concrete fuel) -/

def tA (n : String) : Tok := .atom (.sym n Option.none)
def tI (i : Int) : Tok := .atom (.int i)
def shown (ts : List Tok) : Option String := (parseExpr ts).bind (fun e => walStrCode e.toSx)

example : shown [tI 6, .op .sub, tA "i", .op .add, tI 3, .op .mul, tI 3] = some "(+ (- 6 i) (* 3 3))" := by decide +kernel
example : shown [tA "a", .op .or, tA "b", .op .and, tA "c"] = some "(|| a (&& b c))" := by decide +kernel
example : shown [tA "a", .op .sub, .lp, tA "b", .op .sub, tA "c", .rp] = some "(- a (- b c))" := by decide +kernel
example : shown [.bang, tA "a", .op .and, tA "x", .op .add, tI 1, .op .lt, tA "y", .op .mul, tI 2] = some "(&& (! a) (< (+ x 1) (* y 2)))" := by
  decide +kernel
example : shown [tA "a", .op .lt, tA "b", .op .lt, tA "c"] = Option.none ∧ shown [tA "a", .op .add] = Option.none ∧
    shown [.lp, tA "a"] = Option.none ∧ shown [tA "a", tA "b"] = Option.none := by decide +kernel

end Wal.C20
