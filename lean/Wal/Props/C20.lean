import Wal.Model.Wawk
import Wal.Model.Eval
/-!
# C20 — WAWK transpiles with AWK meaning; `wawk -o` output is the executed program

What is proved here is about the model of `wawk/ast_defs.py` (`Wawk.emit`, `Wawk.findVars`), of the operator
constructors of `TreeToWal` (`Wawk.transpile`) and of the evaluator's `&&` (`andLoop`):

* `emit_shape` — the emitted program is: one `do` holding the pre-definitions followed by the BEGIN actions in
  source order, then (only if there are pattern statements) one `whenever true` loop, then the END actions in
  source order — nothing else, in that order;
* `main_loop_in_source_order`, `main_loop_length` — the loop body has one `(when (&& c1 … cn) action)` per pattern
  statement, the k-th for the k-th statement; `pattern_order` — pattern statements keep their relative order;
* `and_runs_iff_all` — for conditions that evaluate without error or side effect, `(&& c1 … cn)` is true exactly
  when every condition is truthy (so, with C15's `when` expansion and C04's `whenever` law, the action runs
  exactly at the indices where all conditions hold);
* `chainl_value`, `chainl_snoc` — the reference reading "left to right": the value of `a o1 e1 … on en` is the left
  fold of the operators over the operand values;
* `transpile_bin`, `transpile_chain_head` — an operator node transpiles to the operator applied to exactly two
  operands, the whole left part being the first (no re-association, no n-ary flattening).

**Partial**: the Earley parser (text → tree) is not modelled in Lean, so "the parser produces the reference reading"
is decided by the oracle and the correspondence (generated programs, reference evaluation), not by a theorem; the
second sentence of the property (the `-o` text reads back as the executed program) is C11's round-trip theorem
applied to the emitted forms, and is exercised on every generated program.
-/
namespace Wal.C20
open Wal Wal.Wawk

/-! ## shape of the emitted program -/

theorem emit_shape (p : List Stmt) (forms : List Sx) (h : emit p = some forms) :
    ∃ defs : List (String × Sx),
      forms = Sx.list false (.op .DO :: (defs.map defineForm ++ begins p))
              :: (if (patterns p).isEmpty then [] else [mainLoop p]) ++ ends p := by
  unfold emit at h
  simp only [Option.bind_eq_bind, Option.pure_def, Option.bind_eq_some_iff, Option.some.injEq] at h
  obtain ⟨v1, _, v2, _, v3, _, rfl⟩ := h
  exact ⟨v3, rfl⟩

/-- BEGIN actions come first and the END actions last: the first form is the only one holding BEGIN actions, and
    the forms after the (optional) loop are exactly the END actions -/
theorem emit_begin_first_end_last (p : List Stmt) (forms : List Sx) (h : emit p = some forms) :
    ∃ first rest, forms = first :: rest ∧ rest = (if (patterns p).isEmpty then [] else [mainLoop p]) ++ ends p := by
  obtain ⟨defs, rfl⟩ := emit_shape p forms h
  exact ⟨_, _, rfl, rfl⟩

/-- a program without pattern statements has no loop at all (the emitted text is BEGIN then END) -/
theorem emit_no_patterns (p : List Stmt) (forms : List Sx) (h : emit p = some forms) (hp : patterns p = []) :
    ∃ first, forms = first :: ends p := by
  obtain ⟨defs, rfl⟩ := emit_shape p forms h
  simp [hp]

theorem main_loop_length (p : List Stmt) :
    mainLoop p = .list false (.op .WHENEVER :: .bool true :: (patterns p).map whenForm) ∧
    ((patterns p).map whenForm).length = (patterns p).length := by
  simp [mainLoop]

/-- the k-th `when` of the loop is built from the k-th pattern statement -/
theorem main_loop_in_source_order (p : List Stmt) (k : Nat) (hk : k < (patterns p).length) :
    ((patterns p).map whenForm)[k]'(by simpa using hk) =
      .list false [.sym "when" Option.none, .list false (.op .AND :: (patterns p)[k].conds), (patterns p)[k].action] := by
  simp [whenForm]

/-- pattern statements keep their relative source order (sorting BEGIN / END out is a filter) -/
theorem pattern_order (p : List Stmt) : (patterns p).Sublist p := by
  unfold patterns; exact List.filter_sublist

theorem begin_order (p : List Stmt) : ((p.filter (·.isBegin)).Sublist p) ∧ begins p = (p.filter (·.isBegin)).map (·.action) :=
  ⟨List.filter_sublist, rfl⟩

/-! ## `(&& c1 … cn)` holds exactly when every condition is truthy -/

/-- conditions evaluate neutrally: each yields a value and leaves the state as it was -/
def Neutral (rec : St → Sx → Res) (st : St) (cs : List Sx) (val : Sx → Sx) : Prop :=
  ∀ c ∈ cs, rec st c = .ok (val c, st)

theorem and_runs_iff_all (rec : St → Sx → Res) (st : St) (cs : List Sx) (val : Sx → Sx)
    (h : Neutral rec st cs val) :
    andLoop rec st cs = .ok (.bool (cs.all (fun c => st.truthy (val c))), st) := by
  induction cs with
  | nil => rfl
  | cons c r ih =>
    have hc := h c (List.mem_cons_self)
    have hr : Neutral rec st r val := fun c' hc' => h c' (List.mem_cons_of_mem _ hc')
    simp only [andLoop, hc, bind, Except.bind, List.all_cons]
    by_cases ht : st.truthy (val c) = true
    · simp [ht, ih hr]
    · simp only [Bool.not_eq_true] at ht
      simp [ht, pure, Except.pure]

theorem opAnd_runs_iff_all (rec : St → Sx → Res) (st : St) (cs : List Sx) (val : Sx → Sx)
    (h : Neutral rec st cs val) (hne : cs ≠ []) :
    opAnd rec st cs = .ok (.bool (cs.all (fun c => st.truthy (val c))), st) := by
  unfold opAnd
  cases cs with
  | nil => exact absurd rfl hne
  | cons c r => simpa using and_runs_iff_all rec st (c :: r) val h

/-! ## grouping: the reference reading and what `TreeToWal` builds from it -/

theorem chainl_snoc (a : E) (rest : List (BOp × E)) (o : BOp) (e : E) :
    chainl a (rest ++ [(o, e)]) = .bin o (chainl a rest) e := by
  simp [chainl, List.foldl_append]

/-- **left to right**: the value of `a o1 e1 … on en` is the left fold over the operand values -/
theorem chainl_value (env : Sx → Int) (a : E) (rest : List (BOp × E)) :
    evalA env (chainl a rest) = rest.foldl (fun acc p => p.1.apply acc (evalA env p.2)) (evalA env a) := by
  induction rest generalizing a with
  | nil => rfl
  | cons p r ih =>
    simp only [chainl, List.foldl_cons] at ih ⊢
    rw [ih]
    rfl

theorem transpile_bin (o : BOp) (a b : E) :
    transpile (.bin o a b) = .list false [.op o.op, transpile a, transpile b] := rfl

/-- the last operator of a chain is the head of the transpiled form and everything before it is its first operand -/
theorem transpile_chain_head (a : E) (rest : List (BOp × E)) (o : BOp) (e : E) :
    transpile (chainl a (rest ++ [(o, e)])) = .list false [.op o.op, transpile (chainl a rest), transpile e] := by
  rw [chainl_snoc]; rfl

/-! ## non-vacuity and instances -/

def sA (n : String) : Sx := .sym n Option.none
def progEx : List Stmt :=
  [ { conds := [sA "BEGIN"], action := .list false [.op .DO, .list false [.op .SET, .list false [sA "x", .int 2]]] },
    { conds := [sA "top.clk", .list false [.op .LARGER, sA "top.cnt", .int 1]],
      action := .list false [.op .DO, .list false [.op .SETA, sA "arr", .list false [.op .ADD, .str "k"], sA "x"]] },
    { conds := [sA "END"], action := .list false [.op .DO, .list false [.op .PRINT, sA "x"]] } ]

example : (emit progEx).map (·.length) = some 3 := by decide +kernel
example : (emit progEx).map (fun f => f.map (fun e => (walStrCode e).getD "?")) = some
    ["(do (define x 0) (define arr {array}) (do (set (x 2))))",
     "(whenever true (when (&& top.clk (> top.cnt 1)) (do (seta arr (+ \"k\") x))))",
     "(do (print x))"] := by decide +kernel
example : (emit [progEx[0], progEx[2]]).map (·.length) = some 2 := by decide +kernel

/-- `6 - i + 3 * 3` in the reference reading is `(6 - i) + (3 * 3)` — value 15 - i, not 6 - (i + 9) -/
example : evalA (fun s => match s with | .int k => k | _ => 4)
    (chainl (.atom (.int 6)) [(.sub, .atom (sA "i")), (.add, .bin .mul (.atom (.int 3)) (.atom (.int 3)))]) = 11 := by
  decide +kernel

end Wal.C20
