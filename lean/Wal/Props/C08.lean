import Wal.Model.Eval
/-!
# C08 — The optimisation pass never changes observable behaviour

*Rule soundness*, one theorem per rewrite of `optimize` (`Wal/Model/Passes.lean`), each against an **arbitrary**
evaluator `rec` of the sub-terms that evaluates literals to themselves (`LitSelf`, which `evalStep` does:
`evalStep_lit`). The right-hand side yields the same value **of the same type** and the same state — hence the same
printed output, assignments and trace movement — and every operand the left-hand side evaluates is still evaluated
(the folded operands are literals: nothing to evaluate).

The global statement (`optimize_preserves`: every program that completes without the pass completes with it, equal
result) needs the congruence cases for all operators and the closure-body relation; it is established by the
correspondence (with / without the pass on the implementation and on the model) and stated here for the
top-level rewrite step only (`…_partial`).
-/
namespace Wal.C08
open Wal

/-- `rec` evaluates literals to themselves and leaves the state alone -/
def LitSelf (rec : St → Sx → Res) : Prop := ∀ st c, isLit c = true → rec st c = .ok (c, st)

/-- one layer of the model evaluator has this property, for every sub-evaluator -/
theorem evalStep_lit (n : Nat) (rec : St → Sx → Res) : LitSelf (evalStep n rec) := by
  intro st c hc
  cases c <;> simp [isLit] at hc <;> rfl

theorem lit_truthy (st : St) (c : Sx) (h : isLit c = true) : st.truthy c = truthy c := by
  cases c <;> simp [isLit] at h <;> rfl

/-! ## `&&` / `||`: folding over the leading run of literals -/

/-- `(&& l₁ … lₖ e …)` with literal `lᵢ`: the fold decides exactly like the evaluation, for every evaluator -/
theorem and_fold (rec : St → Sx → Res) (hl : LitSelf rec) (st : St) :
    ∀ (args : List Sx) (b : Bool), andFold args = some b → andLoop rec st args = .ok (.bool b, st) := by
  intro args
  induction args with
  | nil => intro b h; simp [andFold] at h; subst h; rfl
  | cons a r ih =>
    intro b h
    simp only [andFold] at h
    by_cases ha : isLit a = true
    · simp only [ha, Bool.not_true, Bool.false_eq_true, if_false] at h
      simp only [andLoop, hl st a ha, bind, Except.bind, lit_truthy st a ha]
      by_cases ht : truthy a = true
      · simp only [ht, Bool.not_true, Bool.false_eq_true, if_false] at h ⊢
        exact ih b h
      · simp only [ht, Bool.not_false, if_true] at h ⊢
        injection h with h; subst h; rfl
    · simp [ha] at h

theorem or_fold (rec : St → Sx → Res) (hl : LitSelf rec) (st : St) :
    ∀ (args : List Sx) (b : Bool), orFold args = some b → orLoop rec st args = .ok (.bool b, st) := by
  intro args
  induction args with
  | nil => intro b h; simp [orFold] at h; subst h; rfl
  | cons a r ih =>
    intro b h
    simp only [orFold] at h
    by_cases ha : isLit a = true
    · simp only [ha, Bool.not_true, Bool.false_eq_true, if_false] at h
      simp only [orLoop, hl st a ha, bind, Except.bind, lit_truthy st a ha]
      by_cases ht : truthy a = true
      · simp only [ht, if_true] at h ⊢
        injection h with h; subst h; rfl
      · simp only [ht, Bool.false_eq_true, if_false] at h ⊢
        exact ih b h
    · simp [ha] at h

/-- the `&&` rewrite is sound: same boolean, same state, whatever follows the literals is not evaluated by either side -/
theorem and_rule (rec : St → Sx → Res) (hl : LitSelf rec) (st : St) (a : Sx) (args : List Sx) (b : Bool)
    (h : andFold (a :: args) = some b) : opAnd rec st (a :: args) = .ok (.bool b, st) := by
  simp only [opAnd, List.isEmpty_cons, Bool.false_eq_true, if_false]
  exact and_fold rec hl st (a :: args) b h

theorem or_rule (rec : St → Sx → Res) (hl : LitSelf rec) (st : St) (a : Sx) (args : List Sx) (b : Bool)
    (h : orFold (a :: args) = some b) : opOr rec st (a :: args) = .ok (.bool b, st) := by
  simp only [opOr, List.isEmpty_cons, Bool.false_eq_true, if_false]
  exact or_fold rec hl st (a :: args) b h

/-! ## `if` on a literal condition, `(do e)` -/

/-- `(if lit a b)` ⇒ the selected branch: evaluating the form *is* evaluating that branch -/
theorem if_rule3 (rec : St → Sx → Res) (hl : LitSelf rec) (st : St) (c a b : Sx) (hc : isLit c = true) :
    opIf rec st [c, a, b] = rec st (if truthy c then a else b) := by
  simp only [opIf, hl st c hc, bind, Except.bind, lit_truthy st c hc]
  split <;> rfl

/-- `(if lit a)` with a truthy literal ⇒ `a` (the falsy case is not rewritten: `expr[3]` does not exist) -/
theorem if_rule2 (rec : St → Sx → Res) (hl : LitSelf rec) (st : St) (c a : Sx) (hc : isLit c = true) (ht : truthy c = true) :
    opIf rec st [c, a] = rec st a := by
  simp [opIf, hl st c hc, bind, Except.bind, lit_truthy st c hc, ht]

/-- `(do e)` ⇒ `e`: same value, same state, same error -/
theorem do_rule (rec : St → Sx → Res) (st : St) (e : Sx) : opDo rec st [e] = rec st e := by
  simp only [opDo, List.isEmpty_cons, Bool.false_eq_true, if_false, evalList, bind, Except.bind]
  cases rec st e with
  | error er => rfl
  | ok p => obtain ⟨v, st1⟩ := p; rfl

/-! ## `+` and `*` on literals -/

theorem evalList_lits (rec : St → Sx → Res) (hl : LitSelf rec) (st : St) :
    ∀ (args : List Sx), args.all isLit = true → evalList rec st args = .ok (args, st) := by
  intro args
  induction args with
  | nil => intro _; rfl
  | cons a r ih =>
    intro h
    simp only [List.all_cons, Bool.and_eq_true] at h
    simp [evalList, hl st a h.1, ih h.2, bind, Except.bind, pure, Except.pure]

theorem num_is_lit (xs : List Sx) (h : xs.all isNum = true) : xs.all isLit = true := by
  rw [List.all_eq_true] at h ⊢
  intro x hx
  have := h x hx
  cases x <;> simp [isNum] at this <;> rfl

theorem num_not_list (xs : List Sx) (h : xs.all isNum = true) : xs.any isList = false ∧ xs.any isStr = false := by
  constructor <;> rw [List.any_eq_false] <;> intro x hx <;> have := (List.all_eq_true.1 h) x hx <;>
    cases x <;> simp [isNum] at this <;> simp [isList, isStr]

/-- `(+ n₁ … nₖ)` on numeric literals ⇒ their sum (`sum` starts from the integer 0): same value and type -/
theorem add_rule_num (rec : St → Sx → Res) (hl : LitSelf rec) (st : St) (args : List Sx) (v : Sx)
    (hn : args.all isNum = true) (hv : pySum? args = some v) :
    opAdd rec st args = .ok (v, st) := by
  obtain ⟨h1, h2⟩ := num_not_list args hn
  simp [opAdd, evalList_lits rec hl st args (num_is_lit args hn), bind, Except.bind, h1, h2, hn, hv, pure, Except.pure]

theorem strs_spec : ∀ (args : List Sx) (ss : List String), allStrs? args = some ss → args = ss.map .str := by
  intro args
  induction args with
  | nil => intro ss h; simp [allStrs?] at h; subst h; rfl
  | cons a r ih =>
    intro ss h
    cases a <;> simp [allStrs?] at h
    obtain ⟨ss', h1, rfl⟩ := h
    simp [ih ss' h1]

/-- `(+ "s₁" … "sₖ")` (k ≥ 1) ⇒ the concatenation -/
theorem add_rule_str (rec : St → Sx → Res) (hl : LitSelf rec) (st : St) (s : String) (ss : List String) :
    opAdd rec st ((s :: ss).map .str) = .ok (.str (String.join (s :: ss)), st) := by
  have hlit : ((s :: ss).map Sx.str).all isLit = true := by simp [isLit]
  have h1 : ((s :: ss).map Sx.str).any isList = false := by simp [isList]
  have h2 : ((s :: ss).map Sx.str).any isStr = true := by simp [isStr]
  have h3 : ((s :: ss).map Sx.str).mapM pyStr? = some (s :: ss) := by
    have : ∀ l : List String, (l.map Sx.str).mapM pyStr? = some l := by
      intro l; induction l with
      | nil => rfl
      | cons a r ih => simp [List.mapM_cons, pyStr?, ih]
    exact this (s :: ss)
  simp only [opAdd, evalList_lits rec hl st _ hlit, bind, Except.bind, h1, h2, h3, pure, Except.pure]
  simp

/-- on integers `math.prod` (start 1) and `reduce(*)` (no start) agree: `(* n₁ n₂ …)` ⇒ the product -/
theorem mul_start_int (x : Int) (r : List Int) :
    numFold? .mul (.int 1) ((x :: r).map .int) = numFold? .mul (.int x) (r.map .int) := by
  simp [numFold?, numBin?, asInt?, NumOp.onInt]

theorem mul_rule_int_partial (rec : St → Sx → Res) (hl : LitSelf rec) (st : St) (x y : Int) (r : List Int) (v : Sx)
    (hv : numFold? .mul (.int 1) ((x :: y :: r).map .int) = some v) :
    opMul rec st ((x :: y :: r).map .int) = .ok (v, st) := by
  have hlit : ((x :: y :: r).map Sx.int).all isLit = true := by simp [isLit]
  have hnum : ((x :: y :: r).map Sx.int).all isNum = true := by simp [isNum]
  rw [mul_start_int] at hv
  simp only [opMul, evalList_lits rec hl st _ hlit, bind, Except.bind, hnum]
  simp only [List.map_cons] at hv ⊢
  simp [hv, pure, Except.pure]

/-! ## the rewrite step at the top of a form (what `optimize` does after its operands are optimised) -/

/-- `optimize` leaves `quote` / `quasiquote` forms alone: quoted data is never rewritten -/
theorem quote_untouched (w : Bool) (args : List Sx) :
    optimize (.list w (.op .QUOTE :: args)) = .list w (.op .QUOTE :: args) ∧
    optimize (.list w (.op .QUASIQUOTE :: args)) = .list w (.op .QUASIQUOTE :: args) := by
  constructor <;> simp [optimize]

/-- **the key of a case clause is data: the pass leaves it exactly as written** (it is compared with the value of
the key form as it stands and never evaluated; only the key form and the consequents are optimised) -/
theorem case_key_untouched (kf k : Sx) (body rest : List Sx) :
    optimize (.list true (.op .CASE :: kf :: .list true (k :: body) :: rest)) =
      .list true (.op .CASE :: optimize kf :: .list true (k :: optList body) :: optClauses rest) := by
  simp [optimize, optClauses]

/-- **the operands of `groups` are left as written** (a list operand is evaluated, a bare symbol is a name: rewriting
`(do s)` to `s` would turn the one into the other — the second defect found by this check and repaired) -/
theorem groups_untouched (w : Bool) (args : List Sx) :
    optimize (.list w (.op .GROUPS :: args)) = .list w (.op .GROUPS :: args) := by
  simp [optimize]

/-- the repaired case: the clause key `(+ 1 2)` stays a list, so the number 3 does not match it -/
example : optimize (.list true [.op .CASE, .int 3, .list true [.list true [.op .ADD, .int 1, .int 2], .str "yes"],
      .list true [.sym "default" Option.none, .list true [.op .ADD, .int 1, .int 2]]]) =
    .list true [.op .CASE, .int 3, .list true [.list true [.op .ADD, .int 1, .int 2], .str "yes"],
      .list true [.sym "default" Option.none, .int 3]] := by rfl

/-- atoms are never rewritten -/
theorem atom_untouched (e : Sx) (h : isList e = false) : optimize e = e := by
  cases e <;> simp [isList] at h <;> simp [optimize]

/-- the `&&` rewrite as `optimize` applies it (operands of `&&`/`||` are not visited): the optimised form evaluates
to exactly what the original form evaluates to, in one layer of the evaluator over any literal-respecting `rec` -/
theorem optimize_and_partial (n : Nat) (rec : St → Sx → Res) (hl : LitSelf rec) (st : St) (a : Sx) (args : List Sx) (b : Bool)
    (h : andFold (a :: args) = some b) :
    evalStep n rec st (optimize (.list true (.op .AND :: a :: args))) = evalStep n rec st (.list true (.op .AND :: a :: args)) := by
  have ho : optimize (.list true (.op .AND :: a :: args)) = .bool b := by simp [optimize, h]
  rw [ho]
  show _ = dispatch n rec st .AND (a :: args)
  simp only [dispatch, and_rule rec hl st a args b h]
  rfl

theorem optimize_or_partial (n : Nat) (rec : St → Sx → Res) (hl : LitSelf rec) (st : St) (a : Sx) (args : List Sx) (b : Bool)
    (h : orFold (a :: args) = some b) :
    evalStep n rec st (optimize (.list true (.op .OR :: a :: args))) = evalStep n rec st (.list true (.op .OR :: a :: args)) := by
  have ho : optimize (.list true (.op .OR :: a :: args)) = .bool b := by simp [optimize, h]
  rw [ho]
  show _ = dispatch n rec st .OR (a :: args)
  simp only [dispatch, or_rule rec hl st a args b h]
  rfl

/-! ## non-vacuity: the shapes that used to be folded wrongly are now left alone or folded right -/

example : optimize (.list true [.op .AND, .list true [.op .PRINT, .int 1], .int 0]) =
    .list true [.op .AND, .list true [.op .PRINT, .int 1], .int 0] := by simp [optimize, andFold, isLit]
example : optimize (.list true [.op .OR, .int 0, .str ""]) = .bool false := by simp [optimize, orFold, isLit, truthy]
example : optimize (.list true [.op .AND, .sym "x" Option.none]) = .list true [.op .AND, .sym "x" Option.none] := by
  simp [optimize, andFold, isLit]
example : andFold [.int 1, .str "a", .bool true] = some true ∧ orFold [.int 0, .str "", .int 2, .sym "x" Option.none] = some true := by
  simp [andFold, orFold, isLit, truthy]

end Wal.C08
