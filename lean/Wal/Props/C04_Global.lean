import Wal.Lemmas.Tid
import Wal.Props.C04
/-!
# C04, globally — `whenever` and `find/g` are position-neutral for every condition and body

`C04.scan_restores` assumes that the loop keeps the loaded traces. `Lemmas/Tid.lean` proves that for every evaluation
the restricted evaluator `Tid.evalT` completes (`eval` without `unload`, `set-scope`, `unset-scope`). Hence, for every
condition and every body — whatever they nest — **after `whenever` / `find/g` completes, every trace index is what it
was before**.
-/
namespace Wal.C04
open Wal

section
variable (rec : St → Sx → Res) (hT : ∀ st e v st', rec st e = .ok (v, st') → Tid.T st st')
include hT

theorem whenever_neutral_of (n : Nat) (st st' : St) (args : List Sx) (v : Sx)
    (hnd : (st.tc.traces.map (·.tid)).Nodup)
    (h : opWhenever n rec st args = .ok (v, st')) : indicesOf st'.tc.traces = indicesOf st.tc.traces := by
  unfold opWhenever at h
  simp only [bind, Except.bind, pure, Except.pure] at h
  repeat' (split at h)
  all_goals try (simp at h; done)
  rename_i body _ _ r1 hs _ st2 hp
  simp only [Except.ok.injEq, Prod.mk.injEq] at h
  obtain ⟨_, hst⟩ := h; subst hst
  have ht : Tid.T st r1.2 := Tid.scanLoop_T rec hT _ _
    (fun s a a' s' hh => Tid.wheneverBody_T rec hT _ s s' a a' hh) _ _ _ _ _ hs
  unfold restorePrev at hp
  split at hp
  · simp only [Except.ok.injEq] at hp; subst hp
    exact C03.restore_exact _ _ hnd ht
  · simp at hp

theorem findG_neutral_of (n : Nat) (st st' : St) (args : List Sx) (v : Sx)
    (hnd : (st.tc.traces.map (·.tid)).Nodup)
    (h : opFindG n rec st args = .ok (v, st')) : indicesOf st'.tc.traces = indicesOf st.tc.traces := by
  unfold opFindG at h
  simp only [bind, Except.bind, pure, Except.pure] at h
  repeat' (split at h)
  all_goals try (simp at h; done)
  rename_i _ _ r1 hs _ st2 hp
  simp only [Except.ok.injEq, Prod.mk.injEq] at h
  obtain ⟨_, hst⟩ := h; subst hst
  have ht : Tid.T st r1.2 := Tid.scanLoop_T rec hT _ _ (fun s a a' s' hh => by
    repeat' (split at hh)
    all_goals try (simp at hh; done)
    all_goals (simp only [St.newArr, Except.ok.injEq, Prod.mk.injEq] at hh; obtain ⟨_, hst⟩ := hh; subst hst; exact Tid.T.refl _)) _ _ _ _ _ hs
  unfold restorePrev at hp
  split at hp
  · simp only [Except.ok.injEq] at hp; subst hp
    exact C03.restore_exact _ _ hnd ht
  · simp at hp

end

/-- **`(whenever c body…)` is position-neutral for every condition and body** (restricted evaluator, any fuel) -/
theorem whenever_position_neutral (n : Nat) (st st' : St) (args : List Sx) (v : Sx)
    (hnd : (st.tc.traces.map (·.tid)).Nodup)
    (h : Tid.evalT (n + 1) st (.list true (.op .WHENEVER :: args)) = .ok (v, st')) :
    indicesOf st'.tc.traces = indicesOf st.tc.traces := by
  have h' : opWhenever n (Tid.evalT n) st args = .ok (v, st') := by
    simpa [Tid.evalT, Tid.evalStepT, Tid.dispatchT, Bal.dispatchR, dispatch] using h
  exact whenever_neutral_of (Tid.evalT n) (Tid.evalT_T n) n st st' args v hnd h'

/-- **`(find/g c)` is position-neutral for every condition** (restricted evaluator, any fuel) -/
theorem findG_position_neutral (n : Nat) (st st' : St) (args : List Sx) (v : Sx)
    (hnd : (st.tc.traces.map (·.tid)).Nodup)
    (h : Tid.evalT (n + 1) st (.list true (.op .FIND_G :: args)) = .ok (v, st')) :
    indicesOf st'.tc.traces = indicesOf st.tc.traces := by
  have h' : opFindG n (Tid.evalT n) st args = .ok (v, st') := by
    simpa [Tid.evalT, Tid.evalStepT, Tid.dispatchT, Bal.dispatchR, dispatch] using h
  exact findG_neutral_of (Tid.evalT n) (Tid.evalT_T n) n st st' args v hnd h'

/-- the hypotheses are satisfiable: on the one-trace state of `C03.lean`, started at index 1, a `whenever` whose
body nests a relative evaluation visits the indices where `a@1` is non-zero and comes back to index 1 -/
example : ((Tid.evalT 9 { C03.st0 with tc := { C03.st0.tc with traces := [{ C03.tr with index := 1 }] } }
      (.list true [.op .WHENEVER, .list true [.op .REL_EVAL, .sym "a" Option.none, .int 1],
        .list true [.op .REL_EVAL, .sym "a" Option.none, .int (-1)]])).toOption.map
      (fun r => (match r.1 with | .int i => i | _ => -1, indicesOf r.2.tc.traces, r.2.tc.idxStack.length)) = some (1, [("t", 1)], 0))
    ∧ (C03.st0.tc.traces.map (·.tid)).Nodup := by decide

end Wal.C04
