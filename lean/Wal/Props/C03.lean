import Wal.Model.Eval
/-!
# C03 — Relative evaluation `e@k` is exact and position-neutral

Theorems about `opReval` (`Wal/Model/Eval.lean`, model of `op_rel_eval`) against an **arbitrary**
evaluator `rec` of the sub-terms — hence for every expression `e`, every trace set and every state.
-/
namespace Wal.C03
open Wal

/-- every loaded trace can move by `off` -/
def AllIn (st : St) (off : Int) : Prop := st.tc.traces.any (fun t => t.oob off) = false

/-- the state in which `e` is evaluated: indices saved on the stack, every trace moved by `off` -/
def shifted (st : St) (off : Int) : St :=
  { st with tc := { st.tc.storeIndices with traces := (stepAll st.tc.storeIndices.traces off).1 } }

/-- **out of range ⇒ `#f` without evaluating `e`**: the result does not mention `rec … e` at all, and the state is the one
after evaluating the offset -/
theorem reval_out_of_range (rec : St → Sx → Res) (st st1 : St) (e k : Sx) (off : Int)
    (hk : rec st k = .ok (.int off, st1)) (he : revalArgOk e = true) (hout : ¬ AllIn st1 off) :
    opReval rec st [e, k] = .ok (.bool false, st1) := by
  have : st1.tc.traces.any (fun t => t.oob off) = true := by
    unfold AllIn at hout; simpa using hout
  simp [opReval, he, hk, bind, Except.bind, asInt?, this, pure, Except.pure]

/-- **in range ⇒ exactly what `e` yields with every trace positioned `off` further**, followed by the restore -/
theorem reval_in_range (rec : St → Sx → Res) (st st1 : St) (e k : Sx) (off : Int)
    (hk : rec st k = .ok (.int off, st1)) (he : revalArgOk e = true) (hin : AllIn st1 off) :
    opReval rec st [e, k] =
      (match rec (shifted st1 off) e with
       | .ok (v, st2) => (match st2.tc.restoreIndices with
          | some c3 => .ok (v, { st2 with tc := c3 })
          | Option.none => .error (errA "KeyError: restore_indices"))
       | .error er => .error er) := by
  unfold AllIn at hin
  simp only [opReval, he, hk, bind, Except.bind, asInt?, hin, pure, Except.pure, shifted]
  simp only [Bool.not_true, Bool.false_eq_true, if_false]
  cases rec { st1 with tc := { st1.tc.storeIndices with traces := (stepAll st1.tc.storeIndices.traces off).1 } } e with
  | error er => rfl
  | ok p => obtain ⟨v, st2⟩ := p; rfl

/-! ## position neutrality -/

theorem setIdx_tid (saved : List (String × Int)) (t : Trace) : (setIdx saved t).tid = t.tid := by
  unfold setIdx; cases saved.lookup t.tid <;> rfl

theorem setIdx_index (saved : List (String × Int)) (t : Trace) (i : Int) (h : saved.lookup t.tid = some i) :
    (setIdx saved t).index = i := by
  unfold setIdx; rw [h]

theorem setIndices_tids (ts : List Trace) (saved : List (String × Int)) :
    (setIndices ts saved).map (·.tid) = ts.map (·.tid) := by
  simp only [setIndices, List.map_map]
  apply List.map_congr_left
  intro t _
  exact setIdx_tid saved t

theorem lookup_indicesOf (ts0 : List Trace) (t0 : Trace) (h : t0 ∈ ts0) (hnd : (ts0.map (·.tid)).Nodup) :
    (indicesOf ts0).lookup t0.tid = some t0.index := by
  induction ts0 with
  | nil => simp at h
  | cons a ts0 ih =>
    simp only [List.map_cons, List.nodup_cons] at hnd
    rcases List.mem_cons.1 h with e | h
    · subst e; simp [indicesOf, List.lookup]
    · have hne : (t0.tid == a.tid) = false := by
        simp only [beq_eq_false_iff_ne, ne_eq]
        intro e
        exact hnd.1 (e ▸ List.mem_map_of_mem (f := (·.tid)) h)
      have := ih h hnd.2
      simpa [indicesOf, List.lookup, hne] using this

theorem indices_setIndices (ts : List Trace) (saved : List (String × Int))
    (h : ∀ t ∈ ts, (saved.lookup t.tid).isSome = true) :
    indicesOf (setIndices ts saved) = (ts.map (·.tid)).map (fun id => (id, (saved.lookup id).getD 0)) := by
  simp only [indicesOf, setIndices, List.map_map]
  apply List.map_congr_left
  intro t ht
  have := h t ht
  cases hl : saved.lookup t.tid with
  | none => simp [hl] at this
  | some i => simp [Function.comp, setIdx_tid, setIdx_index saved t i hl, hl]

theorem indices_self (ts0 : List Trace) (hnd : (ts0.map (·.tid)).Nodup) :
    (ts0.map (·.tid)).map (fun id => (id, ((indicesOf ts0).lookup id).getD 0)) = indicesOf ts0 := by
  simp only [List.map_map, indicesOf]
  apply List.map_congr_left
  intro t ht
  have := lookup_indicesOf ts0 t ht hnd
  simp only [indicesOf] at this
  simp [Function.comp, this]

/-- restoring the saved pairs gives every trace its saved index back, whatever happened to the indices in between -/
theorem restore_exact (ts ts0 : List Trace) (hnd : (ts0.map (·.tid)).Nodup)
    (hsame : ts.map (·.tid) = ts0.map (·.tid)) :
    indicesOf (setIndices ts (indicesOf ts0)) = indicesOf ts0 := by
  have hfound : ∀ t ∈ ts, ((indicesOf ts0).lookup t.tid).isSome = true := by
    intro t ht
    have : t.tid ∈ ts0.map (·.tid) := by rw [← hsame]; exact List.mem_map_of_mem (f := (·.tid)) ht
    obtain ⟨u, hu, hut⟩ := List.mem_map.1 this
    have := lookup_indicesOf ts0 u hu hnd
    rw [hut] at this
    simp [this]
  rw [indices_setIndices ts _ hfound, hsame]
  exact indices_self ts0 hnd

/-- **every trace index afterwards equals its value before** — for every `e` whose evaluation keeps the set of
loaded traces and leaves the saved-position stack as it found it (what every construct does, C17) -/
theorem reval_neutral (rec : St → Sx → Res) (st st1 st2 : St) (e k v : Sx) (off : Int)
    (hk : rec st k = .ok (.int off, st1)) (he : revalArgOk e = true) (hin : AllIn st1 off)
    (hev : rec (shifted st1 off) e = .ok (v, st2))
    (hnd : (st1.tc.traces.map (·.tid)).Nodup)
    (htids : st2.tc.traces.map (·.tid) = st1.tc.traces.map (·.tid))
    (hstack : st2.tc.idxStack = (shifted st1 off).tc.idxStack) :
    ∃ st3, opReval rec st [e, k] = .ok (v, st3) ∧
      indicesOf st3.tc.traces = indicesOf st1.tc.traces ∧ st3.tc.idxStack = st1.tc.idxStack := by
  rw [reval_in_range rec st st1 e k off hk he hin, hev]
  have hs : st2.tc.idxStack = indicesOf st1.tc.traces :: st1.tc.idxStack := by
    rw [hstack]; rfl
  have hall : (indicesOf st1.tc.traces).all (fun p => (st2.tc.find? p.1).isSome) = true := by
    rw [List.all_eq_true]
    intro p hp
    simp only [indicesOf, List.mem_map] at hp
    obtain ⟨t, ht, rfl⟩ := hp
    have : t.tid ∈ st2.tc.traces.map (·.tid) := by rw [htids]; exact List.mem_map_of_mem (f := (·.tid)) ht
    obtain ⟨u, hu, hut⟩ := List.mem_map.1 this
    simp only [Container.find?]
    rw [List.find?_isSome]
    exact ⟨u, hu, by simpa using hut⟩
  simp only [Container.restoreIndices, hs, hall, if_true]
  refine ⟨_, rfl, ?_, rfl⟩
  exact restore_exact st2.tc.traces st1.tc.traces hnd htids

/-! ## composition -/

theorem stepAll_in (ts : List Trace) (k : Int) (h : ts.any (fun t => t.oob k) = false) :
    (stepAll ts k).1 = ts.map (fun t => { t with index := t.index + k }) := by
  induction ts with
  | nil => rfl
  | cons t ts ih =>
    simp only [List.any_cons, Bool.or_eq_false_iff] at h
    simp [stepAll, Trace.step, h.1, ih h.2]

/-- moving by `k` and then by `j` is moving by `j + k` when the intermediate and the final positions are in range:
**(e@j)@k reads `e` where e@(j+k) reads it** -/
theorem shift_compose (ts : List Trace) (j k : Int)
    (hk : ts.any (fun t => t.oob k) = false)
    (hj : ((stepAll ts k).1).any (fun t => t.oob j) = false) :
    (stepAll (stepAll ts k).1 j).1 = (stepAll ts (j + k)).1 ∧ ts.any (fun t => t.oob (j + k)) = false := by
  rw [stepAll_in ts k hk] at hj ⊢
  have hjk : ts.any (fun t => t.oob (j + k)) = false := by
    rw [List.any_eq_false] at hj hk ⊢
    intro t ht
    have h1 := hj { t with index := t.index + k } (List.mem_map.2 ⟨t, ht, rfl⟩)
    simp only [Trace.oob, Bool.or_eq_true, decide_eq_true_eq, not_or] at h1 ⊢
    constructor <;> omega
  refine ⟨?_, hjk⟩
  rw [stepAll_in _ j hj, stepAll_in ts (j + k) hjk, List.map_map]
  apply List.map_congr_left
  intro t _
  simp only [Function.comp]
  congr 1
  omega

/-! ## non-vacuity -/

def tr : Trace :=
  { tid := "t", file := "f", maxIndex := 3, timestamps := [0, 5, 10, 15], allTimestamps := [0, 5, 10, 15],
    rawsignals := ["a"], data := [("a", ["0", "1", "10", "11"])] }

def st0 : St := { tc := { traces := [tr], nTraces := 1 } }

/-- `a@2` at index 0 reads index 2 and comes back; `a@4` is `#f` -/
example : (eval 5 st0 (.list true [.op .REL_EVAL, .sym "a" Option.none, .int 2])).toOption.map (fun r => (match r.1 with | .int i => i | _ => -1, indicesOf r.2.tc.traces, r.2.tc.idxStack.length)) =
    some (2, [("t", 0)], 0) := by decide

example : (eval 5 st0 (.list true [.op .REL_EVAL, .sym "a" Option.none, .int 4])).toOption.map (fun r => (match r.1 with | .bool b => b | _ => true)) =
    some false := by decide

end Wal.C03
