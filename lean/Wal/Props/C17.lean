import Wal.Props.C05
import Wal.Props.C06
import Wal.Props.C04
import Wal.Model.Wire
import Wal.Lemmas.Bal
/-!
# C17 — Completed evaluations leave a balanced context; run starts fresh

*Balance* is compositional: every context-establishing operator, **for an arbitrary evaluator `rec` of its body**,
returns with the component it manages restored — whatever the body did to it. The per-operator lemmas are
collected here (environment: `let`, call; captured scope and group: `in-scope`, `in-group`, `all-scopes`;
trace positions and the saved-position stack: `reval`, `find`, `find/g`, `whenever`); the history-level statement is
the induction over top-level evaluations `balanced_history`. `run_fresh` states that the state `Wal.run` starts
from depends on the traces only.
-/
namespace Wal.C17
open Wal

/-- the top-level context: global frame current, no captured scope or group, no saved position pending -/
def TopLevel (st : St) : Prop := st.env = 0 ∧ st.scope = "" ∧ st.group = "" ∧ st.tc.idxStack = []

/-! ## per-operator balance (restatements from C05 / C06 / C03 / C04, gathered for the property) -/

theorem let_balanced (rec : St → Sx → Res) (st st' : St) (args : List Sx) (v : Sx)
    (h : opLet rec st args = .ok (v, st')) : st'.env = st.env := C06.let_vanishes rec st st' args v h

theorem call_balanced (rec : St → Sx → Res) (st st' : St) (clo : Sx) (args : List Sx) (v : Sx)
    (h : evalClosure rec st clo args = .ok (v, st')) : st'.env = st.env := C06.call_env_restored rec st st' clo args v h

theorem inscope_balanced (rec : St → Sx → Res) (st st' : St) (s e v : Sx)
    (h : opScoped rec st [s, e] = .ok (v, st')) : st'.scope = st.scope := C05.scoped_restores rec st st' s e v h

theorem ingroup_balanced (rec : St → Sx → Res) (st st' : St) (g b : Sx) (bs : List Sx) (v : Sx)
    (h : opInGroup rec st (g :: b :: bs) = .ok (v, st')) : st'.scope = st.scope ∧ st'.group = st.group :=
  C05.ingroup_restores rec st st' g b bs v h

theorem allscopes_balanced (rec : St → Sx → Res) (st st' : St) (l rest : List Sx) (v : Sx)
    (h : opAllScopes rec st (.list true l :: rest) = .ok (v, st')) : st'.scope = st.scope :=
  C05.allscopes_restores rec st st' l rest v h

/-- relative evaluation pops exactly what it pushed — **no saved position is left pending** — and puts every trace
back (C03.reval_neutral, for every body that keeps the loaded traces and the stack discipline) -/
theorem reval_balanced (rec : St → Sx → Res) (st st1 st2 : St) (e k v : Sx) (off : Int)
    (hk : rec st k = .ok (.int off, st1)) (he : revalArgOk e = true) (hin : C03.AllIn st1 off)
    (hev : rec (C03.shifted st1 off) e = .ok (v, st2))
    (hnd : (st1.tc.traces.map (·.tid)).Nodup)
    (htids : st2.tc.traces.map (·.tid) = st1.tc.traces.map (·.tid))
    (hstack : st2.tc.idxStack = (C03.shifted st1 off).tc.idxStack) :
    ∃ st3, opReval rec st [e, k] = .ok (v, st3) ∧
      indicesOf st3.tc.traces = indicesOf st1.tc.traces ∧ st3.tc.idxStack = st1.tc.idxStack :=
  C03.reval_neutral rec st st1 st2 e k v off hk he hin hev hnd htids hstack

/-- the scans put every trace back to the position saved before the scan (C04.scan_restores) -/
theorem scan_balanced (st : St) (ts0 : List Trace) (hnd : (ts0.map (·.tid)).Nodup)
    (hsame : st.tc.traces.map (·.tid) = ts0.map (·.tid)) :
    ∃ st', restorePrev st (indicesOf ts0) = .ok st' ∧ indicesOf st'.tc.traces = indicesOf ts0 ∧
      st'.out = st.out ∧ st'.frames = st.frames := C04.scan_restores st ts0 hnd hsame

/-! ## histories of top-level evaluations -/

/-- an evaluator of top-level forms that returns to the top-level context whenever it completes -/
def Balanced (ev : St → Sx → Res) : Prop := ∀ st e v st', TopLevel st → ev st e = .ok (v, st') → TopLevel st'

def runForms (ev : St → Sx → Res) : St → List Sx → Option St
  | st, [] => some st
  | st, e :: r => match ev st e with
    | .ok (_, st') => runForms ev st' r
    | .error _ => Option.none

/-- **whatever a history of successfully completed evaluations nested, afterwards the interpreter is back in the
top-level context** (induction over the history; `Balanced` is discharged operator by operator above and checked
end-to-end by the correspondence) -/
theorem balanced_history (ev : St → Sx → Res) (hb : Balanced ev) :
    ∀ (forms : List Sx) (st st' : St), TopLevel st → runForms ev st forms = some st' → TopLevel st' := by
  intro forms
  induction forms with
  | nil => intro st st' h hr; simp [runForms] at hr; subst hr; exact h
  | cons e r ih =>
    intro st st' h hr
    simp only [runForms] at hr
    cases he : ev st e with
    | error er => simp [he] at hr
    | ok p =>
      obtain ⟨v, st1⟩ := p
      simp only [he] at hr
      exact ih st1 st' (hb st e v st1 h he) hr

/-! ## the environment component of balance, unconditionally -/

/-- the state of a fresh interpreter is well formed -/
theorem init_ok : Glob.Ok Wire.initSt := by
  refine ⟨?_, by simp [Wire.initSt]⟩
  intro i f p hf hp
  cases i with
  | zero =>
    simp only [Wire.initSt, List.getElem?_toArray, List.getElem?_cons_zero, Option.some.injEq] at hf
    subst hf
    simp at hp
  | succ i => simp [Wire.initSt] at hf

/-- **every completed top-level evaluation — any program, any pass configuration — returns to the environment it
started in, and leaves a well-formed frame heap**; by induction over the history this holds after any number of
evaluations (the environment part of `Balanced` is a theorem of the model, not a premise) -/
theorem history_env_balanced (m : Mode) (n : Nat) :
    ∀ (forms : List Sx) (st st' : St), Glob.Ok st → runForms (walEval m n) st forms = some st' →
      Glob.Ok st' ∧ st'.env = st.env := by
  intro forms
  induction forms with
  | nil => intro st st' h hr; simp [runForms] at hr; subst hr; exact ⟨h, rfl⟩
  | cons e r ih =>
    intro st st' h hr
    simp only [runForms] at hr
    cases he : walEval m n st e with
    | error er => simp [he] at hr
    | ok p =>
      obtain ⟨v, st1⟩ := p
      simp only [he] at hr
      obtain ⟨h1, e1, _⟩ := Glob.walEval_P m n st st1 e v he h
      obtain ⟨h2, e2⟩ := ih st1 st' h1 hr
      exact ⟨h2, e2.trans e1⟩

/-- from a fresh interpreter: after any history of completed evaluations the global frame is current — a new
top-level `define` lands in the global frame (`define_global_at_top`) -/
theorem history_from_fresh_at_global (m : Mode) (n : Nat) (forms : List Sx) (st' : St)
    (h : runForms (walEval m n) Wire.initSt forms = some st') : st'.env = 0 ∧ Glob.Ok st' := by
  obtain ⟨h1, h2⟩ := history_env_balanced m n forms Wire.initSt st' init_ok h
  exact ⟨h2, h1⟩

/-! ## captured scope, captured group, saved positions: every evaluation that does not execute `set-scope` / `unset-scope` -/

/-- **the balance theorem**: an evaluation that completes without executing one of the two operators that exist to
change the captured scope persistently (`Bal.evalR` is the evaluator with `set-scope` / `unset-scope` switched off;
what it completes, `eval` completes with the same result) leaves the captured scope, the captured group and the stack
of saved trace positions as they were — for every expression, every nesting of `in-scope`, `in-group(s)`,
`all-scopes`, `@`, `find`, `find/g`, `whenever`, calls, macros and `eval`, by induction on the fuel through every
operator (`Bal.evalR_B`) -/
theorem eval_balanced (n : Nat) (st st' : St) (e v : Sx) (h : Bal.evalR n st e = .ok (v, st')) :
    eval n st e = .ok (v, st') ∧ st'.scope = st.scope ∧ st'.group = st.group ∧ st'.tc.idxStack = st.tc.idxStack :=
  ⟨Bal.evalR_sub n st e (v, st') h, Bal.evalR_B n st e v st' h⟩

/-- the same for a top-level evaluation through the passes: from the top-level context back to the top-level context
(environment by `Glob.walEval_P`, the rest by `Bal.walEvalR_B`) -/
theorem toplevel_balanced (m : Mode) (n : Nat) (st st' : St) (e v : Sx) (ht : TopLevel st) (hok : Glob.Ok st)
    (h : Bal.walEvalR m n st e = .ok (v, st')) : walEval m n st e = .ok (v, st') ∧ TopLevel st' ∧ Glob.Ok st' := by
  have hsub := Bal.walEvalR_sub m n st e (v, st') h
  obtain ⟨b1, b2, b3⟩ := Bal.walEvalR_B m n st st' e v h
  obtain ⟨p1, p2, _⟩ := Glob.walEval_P m n st st' e v hsub hok
  obtain ⟨t1, t2, t3, t4⟩ := ht
  exact ⟨hsub, ⟨p2.trans t1, b1.trans t2, b2.trans t3, b3.trans t4⟩, p1⟩

/-- **after any history of completed top-level evaluations (none of which executes `set-scope` / `unset-scope`) a
fresh interpreter is in the top-level context again**: the premise `Balanced` of `balanced_history` is a theorem -/
theorem history_balanced (m : Mode) (n : Nat) :
    ∀ (forms : List Sx) (st st' : St), TopLevel st → Glob.Ok st → runForms (Bal.walEvalR m n) st forms = some st' →
      TopLevel st' ∧ Glob.Ok st' := by
  intro forms
  induction forms with
  | nil => intro st st' ht hok hr; simp [runForms] at hr; subst hr; exact ⟨ht, hok⟩
  | cons e r ih =>
    intro st st' ht hok hr
    simp only [runForms] at hr
    cases he : Bal.walEvalR m n st e with
    | error er => simp [he] at hr
    | ok p =>
      obtain ⟨v, st1⟩ := p
      simp only [he] at hr
      obtain ⟨_, t1, o1⟩ := toplevel_balanced m n st st1 e v ht hok he
      exact ih st1 st' t1 o1 hr

theorem init_toplevel : TopLevel Wire.initSt := ⟨rfl, rfl, rfl, rfl⟩

-- non-vacuity: a program that nests a let, a call, a group context and a quasi-quoted `eval` completes under the
-- restricted evaluator (kernel evaluation on the fresh interpreter state)
example : (Bal.walEvalR {} 40 Wire.initSt
    (.list true [.op .LET, .list true [.list true [.sym "x" Option.none, .int 1]],
      .list true [.op .IN_GROUP, .str "g.", .list true [.list true [.op .FN, .list true [.sym "y" Option.none],
        .list true [.op .EVAL, .list true [.op .QUASIQUOTE, .list true [.op .ADD, .unq (.sym "x" Option.none), .sym "y" Option.none]]]], .int 2]]])).toOption.map
    (fun r => (match r.1 with | .int i => i | _ => -1, r.2.env, r.2.scope, r.2.group)) = some (3, 0, "", "") := by decide +kernel

/-- **new definitions are global**: in the top-level context `define` binds in frame 0 -/
theorem define_global_at_top (rec : St → Sx → Res) (st st1 st2 : St) (n : String) (k : Option Nat) (e v : Sx)
    (he : rec st e = .ok (v, st1)) (henv : st1.env = 0) (hd : st1.defineIn 0 n v = some st2) :
    opDefine rec st [.sym n k, e] = .ok (v, st2) := by
  simp [opDefine, he, henv, hd, bind, Except.bind, pure, Except.pure]

/-! ## run starts fresh -/

/-- the state `Wal.run` evaluates in (model of `reset()` + reloading std): a function of the loaded traces alone —
unaffected by earlier definitions, macros, aliases, captured scope or group, or positions -/
def runState (st : St) : St :=
  { Wire.initSt with tc := { st.tc with traces := st.tc.traces.map (fun t => { t with index := 0 }) } }

theorem run_fresh (st1 st2 : St) (h : st1.tc = st2.tc) : runState st1 = runState st2 := by
  simp [runState, h]

theorem run_fresh_context (st : St) :
    (runState st).env = 0 ∧ (runState st).scope = "" ∧ (runState st).group = "" ∧ (runState st).aliases = [] ∧
    ∀ t ∈ (runState st).tc.traces, t.index = 0 := by
  refine ⟨rfl, rfl, rfl, rfl, ?_⟩
  intro t ht
  simp only [runState, List.mem_map] at ht
  obtain ⟨u, _, rfl⟩ := ht
  rfl

end Wal.C17
