import Wal.Model.Eval
/-!
# C12 — Multiple traces: isolated, addressable by id, loaded set stays consistent

The container keeps a dict of traces *and* a redundant counter `nTraces` on which the
qualified/unqualified dispatch is decided (`TraceContainer.signal_value`, `contains`, `signal_width`).
The theorems: the counter always equals the number of loaded traces (over every history of
load / failing load / unload / step), failing loads change nothing, qualified access reads the
addressed trace only, and operations on one trace leave every other trace untouched.
-/
namespace Wal.C12
open Wal

/-- operations on the loaded set, as the API performs them -/
inductive COp where
  | load (tid : String) (o : LoadOutcome)     -- successful reader, reader error, unsupported extension
  | unload (tid : String)
  | step (k : Int) (tid : Option String)
  deriving Repr

def COp.apply (c : Container) : COp → Container
  | .load tid o => (c.load tid o).getD c          -- an exception leaves the container as it was
  | .unload tid => c.unload tid
  | .step k tid => match c.step k tid with
    | some (c', _) => c'
    | Option.none => c

def run (c : Container) (ops : List COp) : Container := ops.foldl COp.apply c

/-- consistency of the redundant counter and uniqueness of ids -/
def Inv (c : Container) : Prop := c.nTraces = c.traces.length ∧ (c.traces.map (·.tid)).Nodup

theorem find_none_iff (c : Container) (tid : String) :
    (c.find? tid).isSome = false ↔ tid ∉ c.traces.map (·.tid) := by
  unfold Container.find?
  induction c.traces with
  | nil => simp
  | cons t ts ih =>
    simp only [List.find?_cons, List.map_cons, List.mem_cons, not_or]
    by_cases h : (t.tid == tid) = true
    · simp [h]; intro hne; exact absurd (by simpa using h) (Ne.symm hne)
    · have hne : ¬ tid = t.tid := fun e => h (by simp [e])
      simp [h, ih, hne]

/-- a failing load — reader error (missing file, malformed file), unsupported extension, duplicate id —
leaves the container exactly as it was -/
theorem failed_load_noop (c : Container) (tid : String) (o : LoadOutcome)
    (h : (∃ t, o = .ok t) → (c.find? tid).isSome = true) : COp.apply c (.load tid o) = c := by
  unfold COp.apply Container.load
  by_cases hd : (c.find? tid).isSome = true
  · simp [hd]
  · cases o with
    | ok t => exact absurd (h ⟨t, rfl⟩) hd
    | readerError => simp [hd]
    | unsupportedExt => simp [hd]

theorem stepAll_tids (ts : List Trace) (k : Int) : (stepAll ts k).1.map (·.tid) = ts.map (·.tid) := by
  induction ts with
  | nil => rfl
  | cons t ts ih =>
    simp only [stepAll, List.map_cons, ih]
    unfold Trace.step; split <;> simp

theorem stepNamed_tids (ts : List Trace) (tid : String) (k : Int) (ts' : List Trace) (e : List String)
    (h : stepNamed ts tid k = some (ts', e)) : ts'.map (·.tid) = ts.map (·.tid) := by
  induction ts generalizing ts' e with
  | nil => simp [stepNamed] at h
  | cons t ts ih =>
    unfold stepNamed at h
    by_cases ht : (t.tid == tid) = true
    · simp only [ht, if_true] at h
      injection h with h; injection h with h1 h2; subst h1
      simp only [List.map_cons]; unfold Trace.step; split <;> simp
    · simp only [ht] at h
      cases hrec : stepNamed ts tid k with
      | none => simp [hrec] at h
      | some p =>
        obtain ⟨ts1, e1⟩ := p
        simp only [hrec] at h
        injection h with h; injection h with h1 h2; subst h1
        simp [ih ts1 e1 hrec]

theorem step_tids (c c' : Container) (k : Int) (tid : Option String) (e : List String)
    (h : c.step k tid = some (c', e)) : c'.traces.map (·.tid) = c.traces.map (·.tid) ∧ c'.nTraces = c.nTraces := by
  unfold Container.step at h
  cases tid with
  | none =>
    simp only at h
    injection h with h; injection h with h1 h2; subst h1
    exact ⟨stepAll_tids _ _, rfl⟩
  | some t =>
    simp only at h
    by_cases ht : (t != "") = true
    · simp only [ht, if_true] at h
      cases hs : stepNamed c.traces t k with
      | none => simp [hs] at h
      | some p =>
        obtain ⟨ts, e1⟩ := p
        simp only [hs] at h
        injection h with h; injection h with h1 h2; subst h1
        exact ⟨stepNamed_tids _ _ _ _ _ hs, rfl⟩
    · simp only [ht] at h
      injection h with h; injection h with h1 h2; subst h1
      exact ⟨stepAll_tids _ _, rfl⟩

theorem apply_inv (c : Container) (op : COp) (h : Inv c) : Inv (op.apply c) := by
  obtain ⟨hn, hnd⟩ := h
  cases op with
  | load tid o =>
    unfold COp.apply Container.load
    by_cases hd : (c.find? tid).isSome = true
    · simp [hd]; exact ⟨hn, hnd⟩
    · have hnot : tid ∉ c.traces.map (·.tid) := (find_none_iff c tid).1 (by simpa using hd)
      cases o with
      | ok t =>
        simp only [hd, Bool.false_eq_true, if_false, Option.getD_some]
        refine ⟨by simp [hn], ?_⟩
        simp only [List.map_append, List.map_cons, List.map_nil]
        rw [List.nodup_append]
        refine ⟨hnd, by simp, ?_⟩
        intro a ha b hb
        simp at hb; subst hb
        intro e; subst e; exact hnot ha
      | readerError => simp [hd]; exact ⟨hn, hnd⟩
      | unsupportedExt => simp [hd]; exact ⟨hn, hnd⟩
  | unload tid =>
    unfold COp.apply Container.unload
    by_cases hd : (c.find? tid).isSome = true
    · simp only [hd, if_true]
      have hmem : tid ∈ c.traces.map (·.tid) := Decidable.byContradiction (fun hc => by
        have := (find_none_iff c tid).2 hc
        simp [this] at hd)
      constructor
      · -- exactly one trace carries the id, because ids are unique
        show c.nTraces - 1 = ((c.traces.filter (fun t => t.tid != tid)).length : Int)
        rw [hn]
        have key : ∀ (ts : List Trace), (ts.map (·.tid)).Nodup → tid ∈ ts.map (·.tid) →
            (ts.filter (fun t => t.tid != tid)).length + 1 = ts.length := by
          intro ts
          induction ts with
          | nil => intro _ hm; simp at hm
          | cons t ts ih =>
            intro hnd hm
            simp only [List.map_cons, List.nodup_cons] at hnd
            by_cases ht : t.tid = tid
            · have hnotin : tid ∉ ts.map (·.tid) := ht ▸ hnd.1
              have hall : ts.filter (fun t => t.tid != tid) = ts := by
                apply List.filter_eq_self.2
                intro a ha
                have : a.tid ≠ tid := fun e => hnotin (e ▸ List.mem_map_of_mem (f := (·.tid)) ha)
                simpa using this
              simp [List.filter_cons, ht, hall]
            · have hm' : tid ∈ ts.map (·.tid) := by
                simp only [List.map_cons, List.mem_cons] at hm
                rcases hm with e | hm
                · exact absurd e.symm ht
                · exact hm
              have := ih hnd.2 hm'
              simp [List.filter_cons, ht]; omega
        have := key c.traces hnd hmem
        omega
      · show ((c.traces.filter (fun t => t.tid != tid)).map (·.tid)).Nodup
        exact (List.Nodup.sublist (List.Sublist.map _ List.filter_sublist) hnd)
    · simp [hd]; exact ⟨hn, hnd⟩
  | step k tid =>
    simp only [COp.apply]
    cases hs : c.step k tid with
    | none => exact ⟨hn, hnd⟩
    | some p =>
      obtain ⟨c', e⟩ := p
      obtain ⟨h1, h2⟩ := step_tids c c' k tid e hs
      have hl : c'.traces.length = c.traces.length := by
        have := congrArg List.length h1; simpa using this
      exact ⟨by show c'.nTraces = (c'.traces.length : Int); rw [h2, hn, hl], by show (c'.traces.map (·.tid)).Nodup; rw [h1]; exact hnd⟩

/-- **the reported set of loaded traces always equals the usable traces**: after any history of
loads, failing loads, unloads and steps the counter the dispatch relies on is the number of loaded traces -/
theorem count_consistent (ops : List COp) : Inv (run {} ops) := by
  have gen : ∀ (c : Container), Inv c → Inv (run c ops) := by
    induction ops with
    | nil => intro c h; exact h
    | cons op ops ih => intro c h; exact ih (op.apply c) (apply_inv c op h)
  exact gen {} ⟨rfl, by simp⟩

/-- with exactly one trace left, unqualified names address it (whatever happened before) -/
theorem unqualified_after_unload (c : Container) (t : Trace) (h : Inv c) (h1 : c.traces = [t]) (name : String)
    (hsep : splitAtSep name = Option.none) : c.route name = .ok (t, name) := by
  obtain ⟨hn, _⟩ := h
  have : c.nTraces = 1 := by rw [hn, h1]; rfl
  simp [Container.route, hsep, this, h1]

/-- `tid^name` reads trace `tid`, whichever other traces are loaded -/
theorem qualified_routes (c : Container) (t : Trace) (tid sig : String) (name : String)
    (hsep : splitAtSep name = some (tid, sig)) (hf : c.find? tid = some t) : c.route name = .ok (t, sig) := by
  simp [Container.route, hsep, hf]

/-- … and what it yields depends on that trace alone: the same as when only `t` is loaded at the same index
(the list-valued specials `SIGNALS…` carry the `tid^` prefix iff several traces are loaded, hence `multi`) -/
theorem qualified_eq_single (c : Container) (t : Trace) (tid sig name scope : String)
    (hsep : splitAtSep name = some (tid, sig)) (hf : c.find? tid = some t) :
    c.signalValue name scope = t.signalValue c.multi sig scope ∧
    c.signalWidth name = t.signalWidth sig := by
  simp [Container.signalValue, Container.signalWidth, qualified_routes c t tid sig name hsep hf]

theorem single_unqualified (t : Trace) (name scope : String) (hsep : splitAtSep name = Option.none) :
    let c : Container := { traces := [t], nTraces := 1 }
    c.signalValue name scope = t.signalValue false name scope := by
  simp [Container.signalValue, Container.route, hsep, Container.multi]

theorem filter_find (ts : List Trace) (tid other : String) (hne : other ≠ tid) :
    (ts.filter (fun t => t.tid != tid)).find? (fun t => t.tid == other) = ts.find? (fun t => t.tid == other) := by
  induction ts with
  | nil => rfl
  | cons t ts ih =>
    by_cases ht : t.tid = tid
    · subst ht
      have : (t.tid == other) = false := by
        simp only [beq_eq_false_iff_ne, ne_eq]; intro e; exact hne e.symm
      simp [List.find?_cons, this, ih]
    · simp only [List.filter_cons, bne_iff_ne, ne_eq, ht, not_false_eq_true, if_true, List.find?_cons, ih, decide_true]

/-- **isolation**: unloading a trace does not change any other loaded trace -/
theorem unload_isolation (c : Container) (tid other : String) (hne : other ≠ tid) :
    (c.unload tid).find? other = c.find? other := by
  unfold Container.unload
  by_cases hd : (c.find? tid).isSome = true
  · rw [if_pos hd]
    exact filter_find c.traces tid other hne
  · rw [if_neg hd]

/-- loading a trace does not change any trace loaded before -/
theorem load_isolation (c c' : Container) (tid other : String) (o : LoadOutcome) (t : Trace)
    (h : c.load tid o = some c') (hf : c.find? other = some t) : c'.find? other = some t := by
  unfold Container.load at h
  by_cases hd : (c.find? tid).isSome = true
  · simp [hd] at h
  · simp only [hd, Bool.false_eq_true, if_false] at h
    cases o with
    | ok tn =>
      simp only [Option.some.injEq] at h; subst h
      simp only [Container.find?] at hf ⊢
      rw [List.find?_append, hf]; rfl
    | readerError => simp at h
    | unsupportedExt => simp only [Option.some.injEq] at h; subst h; exact hf

/-! ## non-vacuity: a history with a rejected load and an unload keeps the counter right -/

def tr (tid : String) : Trace :=
  { tid := tid, file := "f", maxIndex := 1, timestamps := [0, 5], allTimestamps := [0, 5], rawsignals := ["a"],
    data := [("a", ["0", "1"])] }

example : (run {} [.load "a" (.ok (tr "a")), .load "b" (.ok (tr "b")), .load "q" .unsupportedExt, .load "a" (.ok (tr "a")),
                   .unload "a"]).nTraces = 1 := by decide

end Wal.C12
