import Wal.Model.Vcd
/-!
# C01 — VCD fidelity

The reader model is `loadVcdTokens` (`Wal/Model/Vcd.lean`): header walk, token classification of the
dump section (`dumpItems`), the column fold (`runDump` / `stepItem`) and the assembly of the trace.
Proved here, for every list of dump items and every identifier code:

* `runDump_col`   — the fold over *all* ids computes, for each id, a column that depends on that id's
                    changes only (`specCol`);
* `col_pointwise` — that column, with the initial cell removed, is the pointwise denotation `colSpec`:
                    cell `j` = the last value assigned to the id before the `(j+2)`-th time marker
                    (i.e. at or before timestamp `j`), `x` before any assignment;
* `col_length`, `runDump_ts` — one cell per `#` marker, timestamps are the markers in file order;
* `shared_id`     — names that share an identifier code read identical columns;
* `bitsToVal_binary / bitsToVal_xz` — integer iff purely binary, at any width.

The end-to-end statement `loadVcdTokens (render f) = denote f` for rendered files is established by the
correspondence only (`…_partial` below covers the dump section from classified items).
-/
namespace Wal.C01
open Wal

/-! ## the per-id specification of a column (newest first, like the model's columns) -/

def specCol (id : String) : List DItem → Col → Col
  | [], c => c
  | .time _ :: r, c => specCol id r c.copyLast
  | .change i v :: r, c => specCol id r (if id == i then c.setLast v else c)
  | .skip :: r, c => specCol id r c

/-- pointwise denotation (oldest first): `cur` = last value assigned so far, `started` = a marker has been seen -/
def colSpec (id : String) : String → Bool → List DItem → List String
  | _, false, [] => []
  | cur, true, [] => [cur]
  | cur, st, .time _ :: r => (if st then [cur] else []) ++ colSpec id cur true r
  | cur, st, .change i v :: r => colSpec id (if id == i then v else cur) st r
  | cur, st, .skip :: r => colSpec id cur st r

def markers : List DItem → List Int
  | [] => []
  | .time t :: r => t :: markers r
  | _ :: r => markers r

/-! ## the fold computes `specCol` for every id -/

theorem lookup_map_copy (cols : Cols) (id : String) :
    (cols.map (fun p => (p.1, p.2.copyLast))).lookup id = (cols.lookup id).map Col.copyLast := by
  induction cols with
  | nil => rfl
  | cons p cols ih =>
    obtain ⟨k, c⟩ := p
    by_cases h : (id == k) = true
    · simp [List.lookup, h]
    · have : (id == k) = false := by simpa using h
      simp [List.lookup, this, ih]

theorem lookup_map_set (cols : Cols) (id i v : String) :
    (cols.map (fun p => (p.1, if p.1 == i then p.2.setLast v else p.2))).lookup id =
      (cols.lookup id).map (fun c => if id == i then c.setLast v else c) := by
  induction cols with
  | nil => rfl
  | cons p cols ih =>
    obtain ⟨k, c⟩ := p
    by_cases h : (id == k) = true
    · have hk : id = k := by simpa using h
      subst hk
      simp [List.lookup]
    · have hk : (id == k) = false := by simpa using h
      simpa [List.lookup, hk] using ih

theorem fold_col (id : String) : ∀ (items : List DItem) (s : DumpSt) (c : Col), s.cols.lookup id = some c →
    (items.foldl stepItem s).cols.lookup id = some (specCol id items c) := by
  intro items
  induction items with
  | nil => intro s c h; simpa [specCol] using h
  | cons it items ih =>
    intro s c h
    simp only [List.foldl_cons]
    cases it with
    | time t =>
      simp only [specCol]
      apply ih
      simp [stepItem, lookup_map_copy, h]
    | change i v =>
      simp only [specCol]
      apply ih
      show (s.cols.map (fun p => (p.1, if p.1 == i then p.2.setLast v else p.2))).lookup id = _
      rw [lookup_map_set, h]; rfl
    | skip => simpa [specCol, stepItem] using ih s c h

theorem lookup_init (ids : List String) (id : String) (h : id ∈ ids) :
    (ids.map (fun i => (i, (["x"] : Col)))).lookup id = some ["x"] := by
  induction ids with
  | nil => simp at h
  | cons k ids ih =>
    by_cases hk : (id == k) = true
    · simp [List.lookup, hk]
    · have hk' : (id == k) = false := by simpa using hk
      have : id ∈ ids := by
        rcases List.mem_cons.1 h with e | h
        · simp [e] at hk
        · exact h
      simp [List.lookup, hk', ih this]

/-- **the column the reader holds for `id` depends on the changes of `id` alone** -/
theorem runDump_col (ids : List String) (items : List DItem) (id : String) (h : id ∈ ids) :
    (runDump ids items).cols.lookup id = some (specCol id items ["x"]) :=
  fold_col id items _ _ (lookup_init ids id h)

/-- **names that share an identifier code always read identical values** -/
theorem shared_id (ids : List String) (items : List DItem) (id : String) (h : id ∈ ids)
    (c1 c2 : Col) (h1 : (runDump ids items).cols.lookup id = some c1) (h2 : (runDump ids items).cols.lookup id = some c2) :
    c1 = c2 := by
  rw [h1] at h2; exact Option.some.inj h2

theorem fold_ts : ∀ (items : List DItem) (s : DumpSt), (items.foldl stepItem s).ts = s.ts ++ markers items := by
  intro items
  induction items with
  | nil => intro s; simp [markers]
  | cons it items ih =>
    intro s
    simp only [List.foldl_cons, ih]
    cases it <;> simp [stepItem, markers]

/-- **the time indices are exactly the file's `#`-timestamps in file order** -/
theorem runDump_ts (ids : List String) (items : List DItem) : (runDump ids items).ts = markers items := by
  simp [runDump, fold_ts]

/-! ## the column is the pointwise denotation -/

/-- generalised invariant: the column so far is `cur :: older` (newest first) -/
theorem spec_pointwise (id : String) : ∀ (items : List DItem) (cur : String) (older : List String),
    (specCol id items (cur :: older)).reverse = older.reverse ++ colSpec id cur true items := by
  intro items
  induction items with
  | nil => intro cur older; simp [specCol, colSpec]
  | cons it items ih =>
    intro cur older
    cases it with
    | time t =>
      simp only [specCol, Col.copyLast, colSpec, if_true]
      rw [ih cur (cur :: older)]
      simp
    | change i v =>
      simp only [specCol, colSpec]
      by_cases hi : (id == i) = true
      · simp only [hi, if_true, Col.setLast]; exact ih v older
      · simp only [hi]; exact ih cur older
    | skip => simpa [specCol, colSpec] using ih cur older

/-- the initial cell is dropped at the end: before the first marker nothing is recorded -/
theorem colSpec_started (id : String) : ∀ (items : List DItem) (cur : String),
    (colSpec id cur true items).drop 1 = colSpec id cur false items := by
  intro items
  induction items with
  | nil => intro cur; simp [colSpec]
  | cons it items ih =>
    intro cur
    cases it with
    | time t => simp [colSpec]
    | change i v => simpa [colSpec] using ih _
    | skip => simpa [colSpec] using ih _

theorem colSpec_true_len (id : String) : ∀ (items : List DItem) (cur : String),
    (colSpec id cur true items).length = (markers items).length + 1 := by
  intro items
  induction items with
  | nil => intro cur; simp [colSpec, markers]
  | cons it items ih =>
    intro cur
    cases it with
    | time t => simp [colSpec, markers, ih]
    | change i v => simpa [colSpec, markers] using ih _
    | skip => simpa [colSpec, markers] using ih _

theorem colSpec_false_len (id : String) : ∀ (items : List DItem) (cur : String),
    (colSpec id cur false items).length = (markers items).length := by
  intro items
  induction items with
  | nil => intro cur; simp [colSpec, markers]
  | cons it items ih =>
    intro cur
    cases it with
    | time t => simp [colSpec, markers, colSpec_true_len]
    | change i v => simpa [colSpec, markers] using ih _
    | skip => simpa [colSpec, markers] using ih _

/-- **every declared signal reports at every time index the last value the file assigns to its identifier
code at or before that index's timestamp, and `x` before any assignment** (dump section, from classified items) -/
theorem col_pointwise (id : String) (items : List DItem) :
    finalCol (specCol id items ["x"]) = colSpec id "x" false items := by
  unfold finalCol
  rw [spec_pointwise id items "x" []]
  simpa using colSpec_started id items "x"

/-- one cell per `#` marker: MAX-INDEX is their count minus one -/
theorem col_length (id : String) (items : List DItem) :
    (finalCol (specCol id items ["x"])).length = (markers items).length := by
  rw [col_pointwise, colSpec_false_len]

/-- dump section end to end (from classified items): columns and timestamps of the loaded trace -/
theorem dump_denote_partial (ids : List String) (items : List DItem) (id : String) (h : id ∈ ids) :
    ((runDump ids items).cols.lookup id).map finalCol = some (colSpec id "x" false items) ∧
    (runDump ids items).ts = markers items := by
  rw [runDump_col ids items id h]
  exact ⟨by simp [col_pointwise], runDump_ts ids items⟩

/-! ## values -/

/-- **an integer when the bit string is purely binary** — at any width -/
theorem bitsToVal_binary (s : String) (h : bitsAllBinary s.toList = true) : bitsToVal s = .int (binVal s.toList) := by
  simp [bitsToVal, h]

/-- **the raw bit string when it contains x/z** -/
theorem bitsToVal_xz (s : String) (h : bitsAllBinary s.toList = false) : bitsToVal s = .str s := by
  simp [bitsToVal, h]

/-- `binVal` is the binary numeral: appending a digit doubles and adds -/
theorem binVal_append (cs : List Char) (c : Char) :
    binVal (cs ++ [c]) = 2 * binVal cs + (if c == '1' then 1 else 0) := by
  simp [binVal, List.foldl_append]

/-! ## names: `[n]`, `(n)` become `<n>`, `[h:l]` is dropped (kernel-evaluated instances of the scanners) -/

example : normVarName "data[7:0]" = "data" := by decide
example : normVarName "mem[3][12]" = "mem<3><12>" := by decide
example : normVarName "a(5)[3:0]" = "a<5>" := by decide
example : normVarName "x[1" = "x[1" := by decide
example : normVarName "q[a]" = "q[a]" := by decide
example : normScopeName "gen[2]" = "gen<2>" := by decide
example : normScopeName "blk(10)" = "blk<10>" := by decide

/-! ## non-vacuity: a dump with a change before the first marker, a repeat and an x -/

def demoItems : List DItem :=
  [.change "!" "1", .time 0, .change "#" "101", .time 5, .change "!" "0", .change "!" "x", .skip, .time 7]

example : colSpec "!" "x" false demoItems = ["1", "x", "x"] := by decide
example : ((runDump ["!", "#"] demoItems).cols.lookup "!").map finalCol = some ["1", "x", "x"] := by decide
example : ((runDump ["!", "#"] demoItems).cols.lookup "#").map finalCol = some ["101", "101", "101"] := by decide

end Wal.C01
