import Wal.Lemmas.Res
import Wal.Model.Wire
/-!
# C07 — the global statement, access by access

Two evaluators run the **same annotated program** (so the closures they store are literally equal and no value
relation is needed): `Res.evalD` ignores every `steps` annotation — each name is looked up along the chain from the
current environment — and `Res.evalC` follows the annotations but checks, at the moment an annotated read or
assignment executes, the premises of the cell-identity lemmas (`C07.resolved_read_eq_dynamic`,
`resolved_write_eq_dynamic`): heap well formed, environment allocated, the `k` frames hopped over do not bind the name;
for a read also: the name is neither an alias nor a signal. `evalC` is a restriction of `eval` (`checked_is_evaluation`).
`resolved_run_eq_dynamic_run`: whatever `evalC` completes, `evalD` completes with the same value and state.
What is *not* proved is that the annotations `resolve` computes always pass the check (the run-time scope agreement of
§6-C07); the driver counts, for every correspondence case, whether they do (`theorem_coverage` in the evidence).
-/
namespace Wal.C07
open Wal

/-- **static resolution never changes behaviour** (access-checked form): result, printed output, every variable and
every trace position of the resolved run equal those of the run in which every name is looked up dynamically -/
theorem resolved_run_eq_dynamic_run (n : Nat) (st : St) (e : Sx) (v : Sx) (st' : St)
    (h : Res.evalC n st e = .ok (v, st')) :
    eval n st e = .ok (v, st') ∧ Res.evalD n st e = .ok (v, st') :=
  ⟨Res.evalC_sub n st e (v, st') h, Res.resolved_eq_dynamic n st e (v, st') h⟩

/-- the checked evaluator is a restriction of the evaluator -/
theorem checked_is_evaluation (n : Nat) (st : St) (e : Sx) (r : Sx × St) (h : Res.evalC n st e = .ok r) :
    eval n st e = .ok r := Res.evalC_sub n st e r h

/-- one layer: for any pair of sub-evaluators where the second completes wherever the first does, the checked layer over
the first is matched by the dynamic layer over the second — reads by `resolved_read_eq_dynamic`, assignments by
`resolved_write_eq_dynamic`, every other operator by monotonicity -/
theorem checked_layer_eq_dynamic_layer (n : Nat) (rec rec' : St → Sx → Res)
    (hm : ∀ st e r, rec st e = .ok r → rec' st e = .ok r) (st : St) (e : Sx) (r : Sx × St)
    (h : Res.evalStepC n rec st e = .ok r) : Res.evalStepD n rec' st e = .ok r :=
  Res.evalStepC_dyn n rec rec' hm st e r h

private def progG : Sx :=
  -- (define a 1) is done first; then: (let ([p 2]) (let ([q 3]) ((fn [] (set [a (+ a p q)]) a))))
  .list true [.op .LET, .list true [.list true [.sym "p" Option.none, .int 2]],
    .list true [.op .LET, .list true [.list true [.sym "q" Option.none, .int 3]],
      .list true [.list true [.op .FN, .list true [],
        .list true [.op .SET, .list true [.sym "a" Option.none, .list true [.op .ADD, .sym "a" Option.none, .sym "p" Option.none, .sym "q" Option.none]]],
        .sym "a" Option.none]]]]

private def runG (f : Nat → St → Sx → Res) : Option Int :=
  match walEval {} 30 Wire.initSt (.list true [.op .DEFINE, .sym "a" Option.none, .int 1]) with
  | .ok (_, st1) =>
    (match resolve st1.globalNames progG with
     | some p' => (f 40 st1 p').toOption.map (fun r => match r.1 with | .int i => i | _ => -1)
     | Option.none => Option.none)
  | .error _ => Option.none

-- non-vacuity: a resolved program with reads and an assignment three frames below the binding passes every check
example : runG Res.evalC = some 6 ∧ runG Res.evalD = some 6 := by decide +kernel

end Wal.C07
