import Wal.Lemmas.Neu
import Wal.Props.C17
/-!
# C17, globally — what a completed evaluation cannot leave behind

"Only explicit persistent operations (top-level define/set, step, set-scope, alias, sample-at) have lasting effect":
for the restricted evaluator `Neu.evalN` (`eval` without `step`, `sample-at`, `unload`, `set-scope`, `unset-scope`;
`Neu.evalN_sub`: a restriction of `eval`) every completed evaluation of every expression — whatever it nests —
returns with the same loaded traces, **every trace at the index it had**, the captured scope and group as before
and no saved position pending. Together with `C17.eval_balanced` (environment) this is the trace half of the balance
statement; what remains lasting is what the property lists: variables, aliases, virtual signals, printed text.
-/
namespace Wal.C17
open Wal

/-- **no lasting effect on the traces or the captured context** -/
theorem completed_evaluation_leaves_traces_and_context (n : Nat) (st st' : St) (e v : Sx)
    (hnd : (st.tc.traces.map (·.tid)).Nodup) (h : Neu.evalN n st e = .ok (v, st')) :
    st'.tc.traces.map (·.tid) = st.tc.traces.map (·.tid) ∧
    indicesOf st'.tc.traces = indicesOf st.tc.traces ∧
    st'.scope = st.scope ∧ st'.group = st.group ∧ st'.tc.idxStack = st.tc.idxStack := by
  have hall := Neu.evalN_all n st e v st' h
  exact ⟨hall.1, Neu.evalN_neutral n st e v st' hnd h, hall.2.1.1, hall.2.1.2.1, hall.2.1.2.2⟩

/-- the same for a whole history of top-level evaluations: positions, scope, group and the saved-position stack after
any number of completed evaluations are those of the start -/
theorem history_leaves_traces_and_context (n : Nat) : ∀ (es : List Sx) (st st' : St),
    (st.tc.traces.map (·.tid)).Nodup →
    es.foldlM (fun s e => (Neu.evalN n s e).map Prod.snd) st = .ok st' →
    indicesOf st'.tc.traces = indicesOf st.tc.traces ∧ st'.scope = st.scope ∧ st'.group = st.group ∧
      st'.tc.idxStack = st.tc.idxStack := by
  intro es
  induction es with
  | nil => intro st st' _ h; simp only [List.foldlM, pure, Except.pure, Except.ok.injEq] at h; subst h; exact ⟨rfl, rfl, rfl, rfl⟩
  | cons e es ih =>
    intro st st' hnd h
    simp only [List.foldlM, bind, Except.bind] at h
    split at h
    · simp at h
    · rename_i s1 hs
      cases hr : Neu.evalN n st e with
      | error err => rw [hr] at hs; simp [Except.map] at hs
      | ok r =>
        rw [hr] at hs
        simp only [Except.map, Except.ok.injEq] at hs
        subst hs
        obtain ⟨ht, hi, h1, h2, h3⟩ := completed_evaluation_leaves_traces_and_context n st r.2 e r.1 hnd hr
        have hnd1 : (r.2.tc.traces.map (·.tid)).Nodup := by rw [ht]; exact hnd
        obtain ⟨i2, s2, g2, k2⟩ := ih r.2 st' hnd1 h
        exact ⟨i2.trans hi, s2.trans h1, g2.trans h2, k2.trans h3⟩

/-- the hypotheses are satisfiable: a history of two evaluations (a scan whose body nests a relative evaluation, then a
`find`) on the one-trace state of `C03.lean` is completed by the restricted evaluator -/
example : ([.list true [.op .WHENEVER, .list true [.op .REL_EVAL, .sym "a" Option.none, .int 1],
              .list true [.op .REL_EVAL, .sym "a" Option.none, .int (-1)]],
            .list true [.op .FIND, .sym "a" Option.none]].foldlM
          (fun s e => (Neu.evalN 9 s e).map Prod.snd) C03.st0).toOption.map (fun s => (indicesOf s.tc.traces, s.tc.idxStack.length))
      = some ([("t", 0)], 0) ∧ (C03.st0.tc.traces.map (·.tid)).Nodup := by decide

end Wal.C17
