import Wal.Model.Wire
import Wal.Lemmas.Mono
/-!
# C16 — API, source file, -c and compiled .wo runs agree; passes are idempotent

The four execution paths differ in *how often* the front-end passes run over a form (`wal file.wal` runs
expand → optimize → resolve in `main` and again inside `Wal.eval`; `walc` stores `optimize (expand e)` and the `.wo`
run applies the whole pipeline again). Proved here about the model's passes:

* `resolve_recomputes` — the annotation of a symbol depends on the scope stack only, not on an annotation it already
  carries: resolving an already resolved symbol gives the same annotation (the ingredient of resolve ∘ resolve = resolve);
* `resolve_quote_fixed`, `optimize_quote_fixed`, `expand_quote_fixed`, `expand_atom_fixed`, `optimize_atom_fixed` —
  quoted data and atoms are fixed points of every pass;
* `optimize_lit_result_fixed` — whatever a folding rule produces (a literal) is a fixed point of the pass;
* `pipeline_def` — `Wal.eval` in the model is exactly expand → optimize → resolve → eval;
* kernel-evaluated instances of pass idempotence on library code (the expansion of `cond`, `for`, `timeframe`), and
  `second_pass_witness`: the one shape on which a second `optimize` is *not* the identity (a head position that
  optimises into an operator) — such a form is not a valid call, every path fails on it alike.

Process start-up, `argparse`, `pickle` and exit codes are runtime behaviour: exercised by the correspondence
(subprocess runs of all four paths), not modelled.
-/
namespace Wal.C16
open Wal

theorem resolve_recomputes (sc : Scopes) (x : String) (a b : Option Nat) (k : Nat) (h : lookupSteps sc x 0 = some k) :
    resolveGo sc (.sym x a) = resolveGo sc (.sym x b) := by
  simp [resolveGo, h]

/-- resolving the *output* of the pass on a symbol changes nothing -/
theorem resolve_symbol_idem (sc : Scopes) (x : String) (a : Option Nat) :
    ∀ r sc', resolveGo sc (.sym x a) = some (r, sc') → resolveGo sc' r = some (r, sc') := by
  intro r sc' h
  simp only [resolveGo] at h
  cases hl : lookupSteps sc x 0 with
  | none => simp only [hl, Option.some.injEq, Prod.mk.injEq] at h; obtain ⟨rfl, rfl⟩ := h; simp [resolveGo, hl]
  | some k => simp only [hl, Option.some.injEq, Prod.mk.injEq] at h; obtain ⟨rfl, rfl⟩ := h; simp [resolveGo, hl]

theorem resolve_quote_fixed (sc : Scopes) (args : List Sx) :
    resolveGo sc (.list true (.op .QUOTE :: args)) = some (.list true (.op .QUOTE :: args), sc) ∧
    resolveGo sc (.list true (.op .QUASIQUOTE :: args)) = some (.list true (.op .QUASIQUOTE :: args), sc) := by
  constructor <;> simp [resolveGo]

theorem optimize_quote_fixed (w : Bool) (args : List Sx) :
    optimize (.list w (.op .QUOTE :: args)) = .list w (.op .QUOTE :: args) := by simp [optimize]

theorem optimize_atom_fixed (e : Sx) (h : isList e = false) : optimize e = e := by
  cases e <;> simp [isList] at h <;> simp [optimize]

/-- the results of the folding rules are literals, and literals are fixed points: a fold is never folded again -/
theorem optimize_lit_result_fixed (e : Sx) (h : isLit e = true) : optimize e = e := by
  cases e <;> simp [isLit] at h <;> simp [optimize]

theorem expand_quote_fixed (rec : St → Sx → Res) (parent : Option Nat) (n : Nat) (st : St) (w : Bool) (args : List Sx) :
    expand rec parent (n + 1) st (.list w (.op .QUOTE :: args)) = .ok (.list w (.op .QUOTE :: args), st) := by
  simp [expand, isQuoteHead]

theorem expand_atom_fixed (rec : St → Sx → Res) (parent : Option Nat) (n : Nat) (st : St) (e : Sx) (h : isList e = false) :
    expand rec parent (n + 1) st e = .ok (e, st) := by
  cases e <;> simp [isList] at h <;> simp [expand]

/-- `Wal.eval` in the model: expand, then optimize, then resolve against the global names, then evaluate -/
theorem pipeline_def (n : Nat) (st st1 : St) (e ex r : Sx)
    (he : expand (eval n) (some 0) n st e = .ok (ex, st1))
    (hr : resolve st1.globalNames (optimize ex) = some r) :
    walEval {} n st e = eval n st1 r := by
  simp [walEval, he, hr, bind, Except.bind, ofOpt, pure, Except.pure]

/-! ## idempotence on library code (kernel-evaluated against the regenerated std.wal) -/

def st0 : St := { Wire.initSt with gensym := 0 }
def s (n : String) : Sx := .sym n Option.none

/-- front end applied once / twice to a form, printed -/
def once (e : Sx) : Option String :=
  match expand (eval 80) (some 0) 80 st0 e with
  | .ok (x, st1) => (resolve st1.globalNames (optimize x)).bind walStrCode
  | .error _ => Option.none

def twice (e : Sx) : Option String :=
  match expand (eval 80) (some 0) 80 st0 e with
  | .ok (x, st1) =>
    match resolve st1.globalNames (optimize x) with
    | some r =>
      (match expand (eval 80) (some 0) 80 st1 r with
       | .ok (x2, st2) => (resolve st2.globalNames (optimize x2)).bind walStrCode
       | .error _ => Option.none)
    | Option.none => Option.none
  | .error _ => Option.none

theorem twice_eq_once_for : twice (.list true [s "for", .list true [s "e", s "xs"], .list true [s "print", s "e"]]) =
    once (.list true [s "for", .list true [s "e", s "xs"], .list true [s "print", s "e"]]) := by decide +kernel

theorem twice_eq_once_cond : twice (.list true [s "cond", .list true [s "c", .int 1], .list true [s "else", .int 2]]) =
    once (.list true [s "cond", .list true [s "c", .int 1], .list true [s "else", .int 2]]) := by decide +kernel

theorem twice_eq_once_let : twice (.list true [.op .LET, .list true [.list true [s "a", .int 1]],
      .list true [.op .FN, .list true [s "b"], .list true [.op .ADD, s "a", s "b", .int 1, .int 2]]]) =
    once (.list true [.op .LET, .list true [.list true [s "a", .int 1]],
      .list true [.op .FN, .list true [s "b"], .list true [.op .ADD, s "a", s "b", .int 1, .int 2]]]) := by decide +kernel

/-- **the outcome of a run through the passes does not depend on the fuel of the model**: two completed runs of the
same form in the same state, whichever passes are switched on, with any two amounts of fuel, yield the same value and
the same state — so the paths can be compared by their results, the bound the driver runs with is not observable -/
theorem pipeline_fuel_irrelevant (m : Mode) (n n' : Nat) (st : St) (e : Sx) (r r' : Sx × St)
    (h : walEval m n st e = .ok r) (h' : walEval m n' st e = .ok r') : r = r' := by
  have h1 := Mono.walEval_mono m n (max n n') (Nat.le_max_left _ _) st e r h
  have h2 := Mono.walEval_mono m n' (max n n') (Nat.le_max_right _ _) st e r' h'
  rw [h1] at h2
  exact Except.ok.inj h2

/-- the shape on which a second optimisation is not the identity: a head position that optimises into an operator -/
theorem second_pass_witness :
    walStrCode (optimize (.list true [.list true [.op .DO, .op .IF], .int 1, .int 2, .int 3])) = some "(if 1 2 3)" ∧
    walStrCode (optimize (optimize (.list true [.list true [.op .DO, .op .IF], .int 1, .int 2, .int 3]))) = some "2" := by
  decide +kernel

end Wal.C16
