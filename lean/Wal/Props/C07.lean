import Wal.Lemmas.Global
/-!
# C07 — Static variable resolution never changes program behaviour

The resolved access paths of the model (`evalSym … (some k)`, `setLoop` with an annotated key) hop `k` frames and
then look the name up along the chain, exactly like the code after the repair. Proved here, on the **real frame
heap of the model** (frames with parent pointers, any number of names per frame):

* `find_hop / read_hop / write_hop` — hopping over frames that do not bind `x` is invisible to the dynamic walk;
* `resolved_read_eq_dynamic`, `resolved_write_eq_dynamic` — an annotation `(x,k)` whose `k` skipped frames do not
  bind `x` denotes the same cell as dynamic lookup, for reads and for assignments;
* `lookupSteps_sound` — the annotation the pass computes names the **nearest** static scope that knows the name,
  and only if the name is already defined there (a name merely announced by a later `define` stays dynamic);
* `resolve_refuses_only_upfront` — the pass either returns an expression or refuses (`none`); it has no other effect;
* `resolve_symbol_only_annotates` — a symbol is returned with the same name: the pass only adds annotations.

The global statement (every accepted program behaves the same with and without the pass) needs the run-time
invariant "static scope stack = parent chain" through every operator; it is established by the twin-interpreter
differential (resolved vs dynamic, on the implementation and on the model).
-/
namespace Wal.C07
open Wal

/-- frames are allocated after their parents: the parent id is smaller (chains are finite and acyclic) -/
abbrev HeapOK (st : St) : Prop := Glob.HeapOK st

/-- with a well-formed heap the fuel of the walk is irrelevant once it exceeds the frame id -/
theorem findFrame_fuel (st : St) (h : HeapOK st) (x : String) :
    ∀ (i fuel fuel' : Nat), i < fuel → i < fuel' → st.findFrame fuel i x = st.findFrame fuel' i x := by
  intro i
  induction i using Nat.strongRecOn with
  | ind i ih =>
    intro fuel fuel' h1 h2
    obtain ⟨f1, rfl⟩ : ∃ k, fuel = k + 1 := ⟨fuel - 1, by omega⟩
    obtain ⟨f2, rfl⟩ : ∃ k, fuel' = k + 1 := ⟨fuel' - 1, by omega⟩
    simp only [St.findFrame]
    cases hf : st.frames[i]? with
    | none => rfl
    | some f =>
      simp only
      split
      · rfl
      · cases hp : f.parent with
        | none => rfl
        | some p =>
          have hlt : p < i := h i f p hf hp
          exact ih p hlt f1 f2 (by omega) (by omega)

/-- one hop over a frame that does not bind `x` does not change where the walk ends -/
theorem find_skip (st : St) (h : HeapOK st) (x : String) (i p : Nat) (f : Frame)
    (hf : st.frames[i]? = some f) (hn : assocHas f.vars x = false) (hp : f.parent = some p) (hi : i < st.frames.size) :
    st.definedAt i x = st.definedAt p x := by
  have hlt : p < i := h i f p hf hp
  unfold St.definedAt
  rw [St.findFrame]
  simp only [hf, hn, hp, Bool.false_eq_true, if_false]
  exact findFrame_fuel st h x p _ _ (by omega) (by omega)

/-- the frames skipped by `k` hops from `i` do not bind `x` -/
def SkipsFree (st : St) (x : String) : Nat → Nat → Prop
  | _, 0 => True
  | i, k + 1 => ∃ f p, st.frames[i]? = some f ∧ assocHas f.vars x = false ∧ f.parent = some p ∧ SkipsFree st x p k

/-- **hopping `k` frames that do not bind `x` is invisible to the dynamic walk** -/
theorem find_hop (st : St) (h : HeapOK st) (x : String) :
    ∀ (k i j : Nat), i < st.frames.size → st.hop i k = some j → SkipsFree st x i k → st.definedAt i x = st.definedAt j x := by
  intro k
  induction k with
  | zero => intro i j _ hh _; simp [St.hop] at hh; subst hh; rfl
  | succ k ih =>
    intro i j hi hh hs
    obtain ⟨f, p, hf, hn, hp, hrest⟩ := hs
    simp only [St.hop, hf, hp] at hh
    have hlt : p < i := h i f p hf hp
    rw [find_skip st h x i p f hf hn hp hi]
    exact ih p j (by omega) hh hrest

theorem read_hop (st : St) (h : HeapOK st) (x : String) (k i j : Nat) (hi : i < st.frames.size)
    (hh : st.hop i k = some j) (hs : SkipsFree st x i k) : st.readFrom i x = st.readFrom j x := by
  simp only [St.readFrom, find_hop st h x k i j hi hh hs]

theorem write_hop (st : St) (h : HeapOK st) (x : String) (v : Sx) (k i j : Nat) (hi : i < st.frames.size)
    (hh : st.hop i k = some j) (hs : SkipsFree st x i k) : st.writeFrom i x v = st.writeFrom j x v := by
  simp only [St.writeFrom, find_hop st h x k i j hi hh hs]

/-- **a resolved read denotes the same cell as the dynamic lookup** (names disjoint from signals and aliases) -/
theorem resolved_read_eq_dynamic (rec : St → Sx → Res) (st : St) (h : HeapOK st) (x : String) (k j : Nat)
    (henv : st.env < st.frames.size)
    (hal : st.aliases.lookup x = Option.none) (hsig : st.tc.contains x = some false)
    (hh : st.hop st.env k = some j) (hs : SkipsFree st x st.env k) :
    evalSym rec st x (some k) = evalSym rec st x Option.none := by
  simp only [evalSym, hal, Option.getD_none, hsig, hh, read_hop st h x k st.env j henv hh hs]

/-- **a resolved assignment updates the same cell as the dynamic one** -/
theorem resolved_write_eq_dynamic (rec : St → Sx → Res) (st st1 : St) (h : HeapOK st1) (x : String) (e v : Sx) (k j : Nat)
    (he : rec st e = .ok (v, st1)) (henv : st1.env < st1.frames.size)
    (hh : st1.hop st1.env k = some j) (hs : SkipsFree st1 x st1.env k) :
    setLoop rec st [.list true [.sym x (some k), e]] .none = setLoop rec st [.list true [.sym x Option.none, e]] .none := by
  simp only [setLoop, he, bind, Except.bind, hh, ofOpt, pure, Except.pure,
    write_hop st1 h x v k st1.env j henv hh hs]

/-! ## the heap invariant holds in every reachable state -/

/-- **well-formedness of the frame heap is an invariant of evaluation**, for every expression and every fuel — by
induction on the fuel through every operator of the model (`Glob.eval_P`). The hypotheses `HeapOK st` and
`st.env < st.frames.size` of the lemmas above are therefore facts about every state an evaluation can reach from a
well-formed one (the fresh interpreter state is well formed: `C17.init_ok`), not assumptions -/
theorem heap_ok_invariant (n : Nat) (st st' : St) (e v : Sx) (hok : Glob.Ok st)
    (h : eval n st e = .ok (v, st')) :
    HeapOK st' ∧ st'.env < st'.frames.size ∧ st'.env = st.env ∧ st.frames.size ≤ st'.frames.size := by
  obtain ⟨⟨h1, h2⟩, h3, h4⟩ := Glob.eval_P n st e v st' h hok
  exact ⟨h1, h2, h3, h4⟩

/-- the same through the whole pipeline (expand → optimize → resolve → eval), whichever passes are switched on -/
theorem heap_ok_pipeline (m : Mode) (n : Nat) (st st' : St) (e v : Sx) (hok : Glob.Ok st)
    (h : walEval m n st e = .ok (v, st')) : Glob.Ok st' ∧ st'.env = st.env :=
  let r := Glob.walEval_P m n st st' e v h hok
  ⟨r.1, r.2.1⟩

/-- **in every state reached by an evaluation, a resolved read denotes the same cell as the dynamic lookup** whenever
the `k` skipped frames do not bind the name — `resolved_read_eq_dynamic` with its heap premises discharged -/
theorem resolved_read_eq_dynamic_reachable (rec : St → Sx → Res) (n : Nat) (st0 st : St) (e0 v0 : Sx)
    (hok : Glob.Ok st0) (hreach : eval n st0 e0 = .ok (v0, st)) (x : String) (k j : Nat)
    (hal : st.aliases.lookup x = Option.none) (hsig : st.tc.contains x = some false)
    (hh : st.hop st.env k = some j) (hs : SkipsFree st x st.env k) :
    evalSym rec st x (some k) = evalSym rec st x Option.none := by
  obtain ⟨h1, h2, _, _⟩ := heap_ok_invariant n st0 st e0 v0 hok hreach
  exact resolved_read_eq_dynamic rec st h1 x k j h2 hal hsig hh hs

/-! ## what the pass computes -/

/-- **the annotation names the nearest static scope that knows the name — and only if it is defined there** -/
theorem lookupSteps_sound : ∀ (sc : Scopes) (x : String) (k0 k : Nat), lookupSteps sc x k0 = some k →
    ∃ (i : Nat) (s : Scope), k = k0 + i ∧ sc[i]? = some s ∧ scopeDefined s x = true ∧
      ∀ j (hj : j < i), ∃ t, sc[j]? = some t ∧ scopeHas t x = false := by
  intro sc
  induction sc with
  | nil => intro x k0 k h; simp [lookupSteps] at h
  | cons s rest ih =>
    intro x k0 k h
    simp only [lookupSteps] at h
    by_cases hh : scopeHas s x = true
    · simp only [hh, if_true] at h
      by_cases hd : scopeDefined s x = true
      · simp only [hd, if_true, Option.some.injEq] at h
        exact ⟨0, s, by omega, rfl, hd, by intro j hj; omega⟩
      · simp [hd] at h
    · simp only [hh] at h
      obtain ⟨i, t, hk, hi, hdef, hbefore⟩ := ih x (k0 + 1) k h
      refine ⟨i + 1, t, by omega, by simpa using hi, hdef, ?_⟩
      intro j hj
      cases j with
      | zero => exact ⟨s, rfl, by simpa using hh⟩
      | succ j =>
        obtain ⟨u, hu, hux⟩ := hbefore j (by omega)
        exact ⟨u, by simpa using hu, hux⟩

/-- a name that a scope merely *announces* (a later straight-line define) is never resolved to or past that scope -/
theorem announced_stays_dynamic (s : Scope) (rest : Scopes) (x : String) (k0 : Nat)
    (hh : scopeHas s x = true) (hd : scopeDefined s x = false) : lookupSteps (s :: rest) x k0 = Option.none := by
  simp [lookupSteps, hh, hd]

/-- **the pass only annotates**: a symbol comes back with the same name, and the scope stack is unchanged -/
theorem resolve_symbol_only_annotates (sc : Scopes) (x : String) (st : Option Nat) :
    ∃ st', resolveGo sc (.sym x st) = some (.sym x st', sc) := by
  simp only [resolveGo]
  cases lookupSteps sc x 0 with
  | none => exact ⟨st, rfl⟩
  | some k => exact ⟨some k, rfl⟩

/-- **resolution may only refuse a program up front**: the pass is a pure function from the scope stack and the
expression to either an expression or a refusal; quoted data is returned untouched -/
theorem resolve_refuses_only_upfront (start : List String) (e : Sx) :
    resolve start e = Option.none ∨ ∃ e', resolve start e = some e' := by
  cases h : resolve start e with
  | none => exact Or.inl rfl
  | some e' => exact Or.inr ⟨e', rfl⟩

theorem quote_untouched (sc : Scopes) (args : List Sx) :
    resolveGo sc (.list true (.op .QUOTE :: args)) = some (.list true (.op .QUOTE :: args), sc) := by
  simp [resolveGo]

/-- a second define of a name that the scope has already *defined* is refused -/
theorem double_define_refused (top : Scope) (rest : Scopes) (n : String) (k : Option Nat) (body : Sx)
    (h : scopeDefined top n = true) :
    resolveGo (top :: rest) (.list true [.op .DEFINE, .sym n k, body]) = Option.none := by
  simp [resolveGo, h]

/-- **the key of a `case` clause is data**: resolution hands it on exactly as written (a key that is the name of a
    variable in scope is not turned into a resolved symbol, which symbol equality would tell apart from `'k`) -/
theorem case_key_untouched (sc : Scopes) (k : Sx) (cons r out : List Sx) (sc' : Scopes)
    (h : resolveClauses sc (.list true (k :: cons) :: r) = some (out, sc')) :
    ∃ cons' r', out = .list true (k :: cons') :: r' := by
  simp only [resolveClauses] at h
  repeat' split at h
  all_goals first
    | (simp at h; done)
    | (simp only [Option.some.injEq, Prod.mk.injEq] at h
       obtain ⟨rfl, _⟩ := h
       exact ⟨_, _, rfl⟩)

/-- `(let ([k 1]) (case 'k (k 10) (default 20)))`: 10 with and without resolution -/
def caseProg : Sx :=
  .list true [.op .LET, .list true [.list true [.sym "k" Option.none, .int 1]],
    .list true [.op .CASE, .list true [.op .QUOTE, .sym "k" Option.none],
      .list true [.sym "k" Option.none, .int 10], .list true [.sym "default" Option.none, .int 20]]]
example : ((resolve [] caseProg).bind (fun p => (eval 14 {} p).toOption)).map (fun r => match r.1 with | .int i => i | _ => -1) = some 10 := by
  decide +kernel
example : ((eval 14 {} caseProg).toOption).map (fun r => match r.1 with | .int i => i | _ => -1) = some 10 := by decide +kernel

/-! ## every define that can execute in a frame is announced in its static scope

`predefine` (the repaired helper of `resolve`) walks the statements of a body and the operands of every form that is
evaluated in the same frame. `reaches_announced` states this for **all** programs: whatever the nesting, a
`(define n …)` that evaluation of `e` can execute in the current frame (`Reaches n e`) makes `n` known to the static
scope, and `reachable_define_stays_dynamic` draws the consequence for resolution: such a name is never annotated —
neither with this scope nor with one further out — before a define of it has been passed. -/

theorem scopeHas_append (s t : Scope) (n : String) : scopeHas (s ++ t) n = (scopeHas s n || scopeHas t n) := by
  simp [scopeHas, List.any_append]

theorem setDefault_mono (s : Scope) (m n : String) (h : scopeHas s n = true) : scopeHas (setDefault s m) n = true := by
  unfold setDefault
  split
  · exact h
  · simp [scopeHas_append, h]

theorem setDefault_self (s : Scope) (n : String) : scopeHas (setDefault s n) n = true := by
  unfold setDefault
  split
  · assumption
  · simp [scopeHas_append, scopeHas]

/-- announcing never forgets a name -/
theorem predefine_mono :
    (∀ (s : Scope) (l : List Sx) (n : String), scopeHas s n = true → scopeHas (predefine s l) n = true) ∧
    (∀ (s : Scope) (e : Sx) (n : String), scopeHas s n = true → scopeHas (predefine1 s e) n = true) := by
  apply predefine.mutual_induct
    (motive_1 := fun s l => ∀ n, scopeHas s n = true → scopeHas (predefine s l) n = true)
    (motive_2 := fun s e => ∀ n, scopeHas s n = true → scopeHas (predefine1 s e) n = true)
  all_goals intros
  all_goals simp_all [predefine, predefine1, setDefault_mono]
/-- operators whose operands are not evaluated in the current frame (own frame, or not evaluated at all) -/
def skipsFrame : Op → Bool
  | .FN | .LET | .QUOTE | .QUASIQUOTE | .DEFMACRO => true
  | _ => false

/-- `Reaches n e`: evaluating `e` in a frame can execute a `(define n …)` in that very frame — the define is `e` itself,
    or sits (at any depth) among the operands of forms evaluated in the frame; `fn`, `let`, quoted data and `defmacro`
    are not entered -/
inductive Reaches (n : String) : Sx → Prop
  | here (st : Option Nat) (rest : List Sx) : Reaches n (.list true (.op .DEFINE :: .sym n st :: rest))
  | inDefine (x : Sx) (rest : List Sx) (e : Sx) : e ∈ rest → Reaches n e → Reaches n (.list true (.op .DEFINE :: x :: rest))
  | inOp (o : Op) (x : Sx) (rest : List Sx) (e : Sx) : o ≠ .DEFINE → skipsFrame o = false → e ∈ x :: rest → Reaches n e →
      Reaches n (.list true (.op o :: x :: rest))
  | inCall (h x : Sx) (rest : List Sx) (e : Sx) : (∀ o, h ≠ .op o) → e ∈ h :: x :: rest → Reaches n e →
      Reaches n (.list true (h :: x :: rest))

theorem predefine_mem (n : String) (l : List Sx) (e : Sx) (he : e ∈ l)
    (h : ∀ s, scopeHas (predefine1 s e) n = true) : ∀ s, scopeHas (predefine s l) n = true := by
  induction l with
  | nil => cases he
  | cons a r ih =>
    intro s
    simp only [predefine]
    rcases List.mem_cons.1 he with rfl | hr
    · exact predefine_mono.1 _ r n (h s)
    · exact ih hr _

/-- **every define that can execute in the frame is announced in its static scope** -/
theorem reaches_announced (n : String) (e : Sx) (hr : Reaches n e) : ∀ s, scopeHas (predefine1 s e) n = true := by
  induction hr with
  | here st rest =>
    intro s
    simp only [predefine1]
    exact predefine_mono.1 _ rest n (setDefault_self s n)
  | inDefine x rest e he _ ih =>
    intro s
    cases x with
    | sym m st =>
      simp only [predefine1]
      exact predefine_mem n rest e he ih _
    | _ =>
      simp only [predefine1]
      exact predefine_mem n (_ :: rest) e (List.mem_cons_of_mem _ he) ih _
  | inOp o x rest e hd hs he _ ih =>
    intro s
    cases o <;> simp_all [predefine1, skipsFrame] <;> exact predefine_mem n (x :: rest) e (by simpa using he) ih _
  | inCall h x rest e hh he _ ih =>
    intro s
    cases h with
    | op o => exact absurd rfl (hh o)
    | _ => simp only [predefine1]; exact predefine_mem n (_ :: x :: rest) e he ih _
theorem lookup_append_false (s : Scope) (m n : String) :
    ((s ++ [(m, false)]).lookup n == some true) = (s.lookup n == some true) := by
  induction s with
  | nil => by_cases h : n == m <;> simp [List.lookup, h]
  | cons p r ih =>
    obtain ⟨k, v⟩ := p
    by_cases h : n == k <;> simp [List.lookup, h, ih]

theorem setDefault_defined (s : Scope) (m n : String) : scopeDefined (setDefault s m) n = scopeDefined s n := by
  unfold setDefault scopeDefined
  split
  · rfl
  · exact lookup_append_false s m n

/-- announcing adds names as "not yet defined" only: what is defined stays exactly what it was -/
theorem predefine_defined :
    (∀ (s : Scope) (l : List Sx) (n : String), scopeDefined (predefine s l) n = scopeDefined s n) ∧
    (∀ (s : Scope) (e : Sx) (n : String), scopeDefined (predefine1 s e) n = scopeDefined s n) := by
  apply predefine.mutual_induct
    (motive_1 := fun s l => ∀ n, scopeDefined (predefine s l) n = scopeDefined s n)
    (motive_2 := fun s e => ∀ n, scopeDefined (predefine1 s e) n = scopeDefined s n)
  all_goals intros
  all_goals simp_all [predefine, predefine1, setDefault_defined]

/-- **a reference to a name that a define of the frame may still bind is never resolved statically** — neither to this
    scope nor past it — as long as the scope has not passed a define of that name -/
theorem reachable_define_stays_dynamic (s : Scope) (rest : Scopes) (n : String) (e : Sx) (k : Nat)
    (hr : Reaches n e) (hnd : scopeDefined s n = false) : lookupSteps (predefine1 s e :: rest) n k = Option.none := by
  have h1 := reaches_announced n e hr s
  have h2 : scopeDefined (predefine1 s e) n = false := by rw [predefine_defined.2]; exact hnd
  simp [lookupSteps, h1, h2]

/-- the witness of the repaired defect: the `b` that `(set [b (do (define b 1) 1)])` may bind is reachable -/
example : Reaches "b" (.list true [.op .SET, .list true [.sym "b" Option.none,
    .list true [.op .DO, .list true [.op .DEFINE, .sym "b" Option.none, .int 1], .int 1]]]) := by
  refine .inOp .SET _ [] _ (by decide) rfl (List.mem_cons_self) ?_
  refine .inCall _ _ [] _ (by intro o; simp) (List.mem_cons_of_mem _ List.mem_cons_self) ?_
  refine .inOp .DO _ _ _ (by decide) rfl (List.mem_cons_self) ?_
  exact .here _ _

/-- `(do (define b 5) (let ([a (do (define b 1) 1)]) b))`: the initial value defines `b` inside the let's frame; the
    reference in the body is announced (not yet defined) in the let's static scope, stays a dynamic lookup, and both runs
    read 1 -/
def letDefProg : Sx :=
  .list true [.op .DO, .list true [.op .DEFINE, .sym "b" Option.none, .int 5],
    .list true [.op .LET, .list true [.list true [.sym "a" Option.none,
        .list true [.op .DO, .list true [.op .DEFINE, .sym "b" Option.none, .int 1], .int 1]]],
      .sym "b" Option.none]]
example : ((resolve [] letDefProg).bind (fun p => (eval 20 {} p).toOption)).map (fun r => match r.1 with | .int i => i | _ => -1) = some 1 := by
  decide +kernel
example : ((eval 20 {} letDefProg).toOption).map (fun r => match r.1 with | .int i => i | _ => -1) = some 1 := by decide +kernel
example : predefine (predefine (boundScope ["a"]) [.sym "b" Option.none])
    (letInits [.list true [.sym "a" Option.none, .list true [.op .DO, .list true [.op .DEFINE, .sym "b" Option.none, .int 1], .int 1]]])
    = [("a", true), ("b", false)] := by decide +kernel

/-! ## non-vacuity: an assignment two frames below its binding; a local recursive function shadowing a global -/

def prog : Sx :=   -- (let ([a 1]) (let ([p 2]) ((fn [] (set [a (+ a 5)]))) a))
  .list true [.op .LET, .list true [.list true [.sym "a" Option.none, .int 1]],
    .list true [.op .LET, .list true [.list true [.sym "p" Option.none, .int 2]],
      .list true [.list true [.op .FN, .list true [], .list true [.op .SET, .list true [.sym "a" Option.none,
        .list true [.op .ADD, .sym "a" Option.none, .int 5]]]]],
      .sym "a" Option.none]]

example : ((resolve [] prog).bind (fun p => (eval 14 {} p).toOption)).map (fun r => match r.1 with | .int i => i | _ => -1) = some 6 := by decide
example : ((eval 14 {} prog).toOption).map (fun r => match r.1 with | .int i => i | _ => -1) = some 6 := by decide

/-- `(let ([z 1]) (define f (fn [n] (f n))) …)` with a global `f`: the inner `f` stays dynamic -/
example : lookupSteps [[("n", true)], [("z", true), ("f", false)], [("f", true)]] "f" 0 = Option.none := by decide
example : lookupSteps [[("n", true)], [("z", true)], [("f", true)]] "f" 0 = some 2 := by decide

end Wal.C07
