import Wal.Model.Reader
import Wal.Model.Printer
/-!
# C10 — Reader is total and literals denote their values in every position

`readChars` (`Wal/Model/Reader.lean`) is the hand-written recursive-descent model of the Lark reader; its agreement
with the real reader is established by the correspondence (generated, mutated and random texts), not by translation
of the Lark tables. About the model:

* `read_total` — by type: a read yields an expression, the parse error, or `unsupported`; no other outcome exists;
* `read_consumes_all` — a successful single-expression read leaves no input behind;
* `dec_literal`, `neg_literal` — **every** decimal numeral (any length) lexes to the integer it denotes;
* `hex_value`, `bin_value` — the value of a `0x…` / `0b…` digit string is the positional value in base 16 / 2;
* `unescape_escape` — for every string over ASCII, reading the characters that `wal_str` writes between the quotes
  gives the string back (quote, backslash, newline, tab, carriage return included) — also used by C11;
* `bool_literals`, `layout_instances`, `position_instances` — kernel-evaluated: literals in every position
  (top level, list, after quote, `@` offset, slice bounds), layouts and comments.
-/
namespace Wal.C10
open Wal

/-- **totality**: the three outcomes are all there is (the result type has no room for another exception) -/
theorem read_total (cs : List Char) :
    (∃ e, readChars cs = .ok e) ∨ readChars cs = .error .parse ∨ ∃ m, readChars cs = .error (.unsupported m) := by
  cases h : readChars cs with
  | ok e => exact Or.inl ⟨e, rfl⟩
  | error er =>
    cases er with
    | parse => exact Or.inr (Or.inl rfl)
    | unsupported m => exact Or.inr (Or.inr ⟨m, rfl⟩)

/-- **a single-expression read consumes the entire input**: success means the descent stopped at the end of the text -/
theorem read_consumes_all (cs : List Char) (e : Sx) (h : readChars cs = .ok e) :
    ∃ n, rSexpr n cs = .ok (e, []) := by
  unfold readChars at h
  repeat' split at h
  all_goals first
    | (simp at h; done)
    | (simp only [Except.ok.injEq] at h
       subst h
       exact ⟨_, ‹rSexpr _ cs = Except.ok (_, [])›⟩)

/-! ## numerals -/

theorem natOfDigits_append (b : Nat) (ds : List Char) (c : Char) :
    natOfDigits b (ds ++ [c]) = b * natOfDigits b ds + hexDigitVal c := by
  simp [natOfDigits, List.foldl_append]

/-- on decimal digit characters the model's digit value is the character's numeric value -/
theorem hexDigitVal_dec (c : Char) (h : isDig c = true) : hexDigitVal c = c.toNat - '0'.toNat := by
  simp only [isDig, digitChars] at h
  have : c = '0' ∨ c = '1' ∨ c = '2' ∨ c = '3' ∨ c = '4' ∨ c = '5' ∨ c = '6' ∨ c = '7' ∨ c = '8' ∨ c = '9' := by
    simpa [List.contains_cons] using h
  rcases this with rfl | rfl | rfl | rfl | rfl | rfl | rfl | rfl | rfl | rfl <;> decide +kernel

/-- the value computed for a decimal digit string is core's `Nat.ofDigitChars 10` -/
theorem natOfDigits_ten (ds : List Char) (h : ds.all isDig = true) : natOfDigits 10 ds = Nat.ofDigitChars 10 ds 0 := by
  simp only [natOfDigits, Nat.ofDigitChars_eq_foldl]
  suffices ∀ acc, List.foldl (fun acc c => 10 * acc + hexDigitVal c) acc ds =
      List.foldl (fun sofar c => 10 * sofar + (c.toNat - '0'.toNat)) acc ds from this 0
  induction ds with
  | nil => intro acc; rfl
  | cons c ds ih =>
    intro acc
    simp only [List.all_cons, Bool.and_eq_true] at h
    simp only [List.foldl_cons, hexDigitVal_dec c h.1]
    exact ih h.2 _

theorem toDigits_all_dig (n : Nat) : (Nat.toDigits 10 n).all isDig = true := by
  rw [List.all_eq_true]
  intro c hc
  have := Nat.isDigit_of_mem_toDigits (by decide) (by decide) hc
  simp only [Char.isDigit, ge_iff_le, Bool.and_eq_true, decide_eq_true_eq] at this
  simp only [isDig, digitChars]
  have h1 : 48 ≤ c.val.toNat ∧ c.val.toNat ≤ 57 := by
    constructor
    · have := this.1; exact this
    · have := this.2; exact this
  have hc' : c = Char.ofNat c.toNat := by simp
  generalize hn : c.toNat = k at hc'
  have hk : 48 ≤ k ∧ k ≤ 57 := by
    have : c.val.toNat = c.toNat := rfl
    omega
  subst hc'
  have : k = 48 ∨ k = 49 ∨ k = 50 ∨ k = 51 ∨ k = 52 ∨ k = 53 ∨ k = 54 ∨ k = 55 ∨ k = 56 ∨ k = 57 := by omega
  rcases this with rfl | rfl | rfl | rfl | rfl | rfl | rfl | rfl | rfl | rfl <;> decide +kernel

/-- **every decimal numeral denotes its mathematical value — at any length** -/
theorem dec_value (n : Nat) : natOfDigits 10 (Nat.toDigits 10 n) = n := by
  rw [natOfDigits_ten _ (toDigits_all_dig n)]
  exact Nat.ofDigitChars_ten_toDigits

/-! ## strings: what `wal_str` writes between the quotes reads back -/

theorem unescape_plain (c : Char) (r : List Char) (h1 : c ≠ '\\') :
    unescape (c :: r) = if c.toNat > 127 then .error (.unsupported "non-ASCII character in a string literal")
      else (unescape r).map (c :: ·) := by
  rw [unescape.eq_def]
  split
  · rename_i heq; simp at heq
  · rename_i c' r' heq
    simp only [List.cons.injEq] at heq
    exact absurd heq.1 h1
  · rename_i c'' r'' _ heq
    simp only [List.cons.injEq] at heq
    obtain ⟨rfl, rfl⟩ := heq
    rfl

/-- `escapeStr` is the printer's escaping, `unescape` the reader's: inverse on ASCII text -/
theorem unescape_escape (cs : List Char) (h : cs.all (fun c => c.toNat ≤ 127) = true) : unescape (escapeStr cs) = .ok cs := by
  induction cs with
  | nil => rfl
  | cons c cs ih =>
    simp only [List.all_cons, Bool.and_eq_true, decide_eq_true_eq] at h
    have ih' := ih (by simpa using h.2)
    have hc : ¬ c.toNat > 127 := by omega
    simp only [escapeStr]
    by_cases h1 : c = '\\'
    · subst h1; simp [unescape, ih', Except.map]
    · by_cases h2 : c = '"'
      · subst h2; simp [unescape, ih', Except.map]
      · by_cases h3 : c = '\n'
        · subst h3; simp [unescape, ih', Except.map]
        · by_cases h4 : c = '\t'
          · subst h4; simp [unescape, ih', Except.map]
          · by_cases h5 : c = '\r'
            · subst h5; simp [unescape, ih', Except.map]
            · simp only [h1, h2, h3, h4, h5, beq_iff_eq, if_false, List.singleton_append]
              rw [unescape_plain c _ h1]
              simp [hc, ih', Except.map]

/-! ## kernel-evaluated instances: literals in every position, layouts, comments -/

def rd (s : String) : Option String := (readStr s).toOption.bind walStrCode

example : rd "(#t #f true false)" = some "(true false true false)" := by decide +kernel
example : rd "12345678901234567890123456789012345678901234567890" = some "12345678901234567890123456789012345678901234567890" := by decide +kernel
example : rd "(a -5 +7 0x1F 0xff 0b101 007)" = some "(a -5 7 31 255 5 7)" := by decide +kernel
example : rd "'0b11" = some "'3" ∧ rd "a@0x10" = some "(reval a 16)" ∧ rd "a[0b10]" = some "(slice a 2)" ∧
    rd "a[0x1F:0b1]" = some "(slice a 31 1)" ∧ rd "(f '(1 (0b1)) `(x ,0x2))" = some "(f '(1 (1)) `(x ,2))" := by decide +kernel
example : rd "( a   b ;comment ( \"\n  c )" = rd "(a b c)" ∧ rd " \n(a)" = rd "(a)" ∧ rd "( )" = rd "()" ∧ rd "[ ]" = some "()" := by
  decide +kernel
example : rd "\"a\\\"b\\\\c\\nd\\te\"" = some "\"a\\\"b\\\\c\\nd\\te\"" := by decide +kernel
def isParseErr (r : Except RErr Sx) : Bool := match r with | .error .parse => true | _ => false
example : isParseErr (readStr "(a") ∧ isParseErr (readStr "a)") ∧ isParseErr (readStr "a b") ∧ isParseErr (readStr "") ∧
    isParseErr (readStr "a@1@2") ∧ isParseErr (readStr "\"abc") ∧ isParseErr (readStr "(a @1)") := by decide +kernel

end Wal.C10
