import Wal.Lemmas.Tid
import Wal.Props.C03
/-!
# C03, globally — relative evaluation is position-neutral for every body

`C03.reval_neutral` assumes of the evaluation of the body that it keeps the loaded traces and leaves the stack of
saved positions as it found it. `Lemmas/Tid.lean` (trace ids) and `Lemmas/Bal.lean` (saved positions) prove exactly
that for every evaluation the restricted evaluator `Tid.evalT` completes (`eval` without `unload`, `set-scope`,
`unset-scope`; a restriction of `eval`: `Tid.evalT_sub`). Hence, with no assumption on the body — any expression, any
nesting of `reval`, scans, calls, scopes, macro expansion, `eval` of computed code, to any depth — when `(reval e k)`
completes, **every trace index equals its value before `e` was evaluated**, and no saved position is left pending.
-/
namespace Wal.C03
open Wal

/-- position neutrality of `reval` over any sub-evaluator that keeps trace ids and the saved-position stack -/
theorem reval_neutral_of (rec : St → Sx → Res)
    (hT : ∀ st e v st', rec st e = .ok (v, st') → Tid.T st st')
    (hB : ∀ st e v st', rec st e = .ok (v, st') → Bal.B st st')
    (st st' : St) (e k v : Sx) (hnd : (st.tc.traces.map (·.tid)).Nodup)
    (h : opReval rec st [e, k] = .ok (v, st')) :
    ∃ kv st1, rec st k = .ok (kv, st1) ∧
      indicesOf st'.tc.traces = indicesOf st1.tc.traces ∧ st'.tc.idxStack = st1.tc.idxStack := by
  unfold opReval at h
  simp only [bind, Except.bind, pure, Except.pure] at h
  repeat' (split at h)
  all_goals try (simp at h; done)
  · -- out of range: the state is the one after the offset
    rename_i v1 h1 _ _ _ _
    simp only [Except.ok.injEq, Prod.mk.injEq] at h
    obtain ⟨_, hst⟩ := h; subst hst
    exact ⟨v1.1, v1.2, h1, rfl, rfl⟩
  · rename_i v1 h1 _ off _ _ _ v2 h2 _ c3 h3
    simp only [Except.ok.injEq, Prod.mk.injEq] at h
    obtain ⟨_, hst⟩ := h; subst hst
    refine ⟨v1.1, v1.2, h1, ?_⟩
    have t1 : Tid.tids v1.2 = Tid.tids st := hT _ _ _ _ h1
    have t2 := hT _ _ _ _ h2
    have b2 := (hB _ _ _ _ h2).2.2
    simp only [Tid.T, Tid.tids, Container.storeIndices, Tid.stepAll_tids] at t1 t2
    simp only [Container.storeIndices] at b2
    have hnd1 : (v1.2.tc.traces.map (·.tid)).Nodup := by rw [t1]; exact hnd
    unfold Container.restoreIndices at h3
    rw [b2] at h3
    simp only at h3
    split at h3
    · simp only [Option.some.injEq] at h3; subst h3
      exact ⟨restore_exact _ _ hnd1 t2, rfl⟩
    · simp at h3

/-- **`(reval e k)` is position-neutral for every `e`** (restricted evaluator, any fuel): afterwards every trace index
is what it was when the offset had been evaluated, and the stack of saved positions is as before -/
theorem reval_position_neutral (n : Nat) (st st' : St) (e k v : Sx)
    (hnd : (st.tc.traces.map (·.tid)).Nodup)
    (h : Tid.evalT (n + 1) st (.list true [.op .REL_EVAL, e, k]) = .ok (v, st')) :
    ∃ kv st1, Tid.evalT n st k = .ok (kv, st1) ∧
      indicesOf st'.tc.traces = indicesOf st1.tc.traces ∧ st'.tc.idxStack = st1.tc.idxStack := by
  have h' : opReval (Tid.evalT n) st [e, k] = .ok (v, st') := by
    simpa [Tid.evalT, Tid.evalStepT, Tid.dispatchT, Bal.dispatchR, dispatch] using h
  exact reval_neutral_of (Tid.evalT n) (Tid.evalT_T n) (Tid.evalT_B n) st st' e k v hnd h'

/-- the restricted evaluation is an evaluation: the statement is about `eval` whenever `evalT` completes -/
theorem restricted_is_evaluation (n : Nat) (st : St) (e : Sx) (r : Sx × St) (h : Tid.evalT n st e = .ok r) :
    eval n st e = .ok r := Tid.evalT_sub n st e r h

/-- the hypotheses are satisfiable: `(a@1)@1` on the one-trace state of `C03.lean` is completed by the restricted
evaluator (value 2 = `a` at index 2, index back at 0, nothing pending), and the trace ids are distinct -/
example : ((Tid.evalT 7 st0 (.list true [.op .REL_EVAL, .list true [.op .REL_EVAL, .sym "a" Option.none, .int 1], .int 1])).toOption.map
      (fun r => (match r.1 with | .int i => i | _ => -1, indicesOf r.2.tc.traces, r.2.tc.idxStack.length)) = some (2, [("t", 0)], 0))
    ∧ (st0.tc.traces.map (·.tid)).Nodup := by decide

end Wal.C03
