import Wal.Lemmas.OptMain
import Wal.Model.Wire
/-!
# C08 — the global statement, for the restricted evaluator

`Opt.evalF` is the model evaluator with dynamic checks that stop an evaluation (outcome `unsupported`) when it
* executes `fn`, `defsig`, `defmacro` or `array` on operands that the pass would rewrite (these forms store
  their operands or read them as syntax: the two runs would hold different code),
* executes `reval` / `all-scopes` on an expression operand that is not an expression form after the pass,
* executes a constant product with a non-integer factor (`1 * x = x` on floats is IEEE-754, not provable in Lean),
* applies an operator that was obtained as a *value* (a computed head that evaluates to an operator).
Everything else — every other operator, `let`, `set`, `define`, `if`, `case`, `while`, calls of existing functions,
`eval` of computed code, macro expansion at run time, scans, relative evaluation, scopes and groups, to any depth —
is covered. The proof is an induction on the fuel; the operator cases are the congruence lemmas of
`Wal/Lemmas/Opt.lean` (one per operator) and the rule-soundness theorems of `Props/C08.lean`.
-/
namespace Wal.C08
open Wal

/-- **the optimisation pass never changes observable behaviour** (restricted evaluator): whenever the evaluation of
`e` completes, the evaluation of `optimize e` completes from the same state with the **same value** (same type) and the
**same final state** — printed output, every variable, every array, every trace position, every cache — and needs no
more fuel -/
theorem optimize_preserves_restricted (n : Nat) (st : St) (e : Sx) (v : Sx) (st' : St)
    (h : Opt.evalF n st e = .ok (v, st')) :
    eval n st e = .ok (v, st') ∧ eval n st (optimize e) = .ok (v, st') :=
  Opt.optimize_preserves n st e (v, st') h

/-- the restricted evaluator is a restriction: what it completes, the evaluator completes with the same result -/
theorem restricted_is_evaluation (n : Nat) (st : St) (e : Sx) (r : Sx × St) (h : Opt.evalF n st e = .ok r) :
    eval n st e = .ok r := Opt.evalF_sub n st e r h

/-- **congruence through every generic operator**: an operator applied to the optimised operands completes with the
result it had on the original operands, for every pair of sub-evaluators related as the induction hypothesis relates
them -/
theorem operand_congruence (recF rec : St → Sx → Res)
    (hsub : ∀ st e r, recF st e = .ok r → rec st e = .ok r)
    (hm : ∀ st e r, recF st e = .ok r → rec st (optimize e) = .ok r)
    (hope : ∀ st o r, rec st (.op o) ≠ .ok r)
    (n : Nat) (st : St) (o : Op) (args : List Sx) (r : Sx × St) (hgen : Opt.genericOp o = true)
    (hrev : ∀ e rest, args = e :: rest → (o = .REL_EVAL ∨ o = .ALLSCOPES) → revalArgOk (optimize e) = true)
    (h : dispatch n recF st o args = .ok r) : dispatch n rec st o (optList args) = .ok r :=
  Opt.dispatch_cong recF rec hsub hm hope n st o args r hgen hrev h

/-- the optimised run is itself covered by the fuel-independence theorem: the comparison does not depend on the bound -/
theorem optimize_preserves_any_fuel (n m : Nat) (st : St) (e : Sx) (r r' : Sx × St)
    (h : Opt.evalF n st e = .ok r) (h' : eval m st (optimize e) = .ok r') : r = r' :=
  Mono.Evals_det st (optimize e) r r' ⟨n, (Opt.optimize_preserves n st e r h).2⟩ ⟨m, h'⟩

private def prog : Sx :=
  .list true [.op .LET, .list true [.list true [.sym "x" Option.none, .list true [.op .ADD, .int 1, .int 2]]],
    .list true [.op .IF, .bool true,
      .list true [.op .MUL, .sym "x" Option.none, .list true [.op .DO, .list true [.op .ADD, .int 1, .int 1]]], .int 0]]

-- non-vacuity: the restricted evaluator completes on a program that the pass rewrites in four places
example : (Opt.evalF 30 Wire.initSt prog).toOption.map (fun r => match r.1 with | .int i => i | _ => -1) = some 6 := by
  decide +kernel
example : (eval 30 Wire.initSt (optimize prog)).toOption.map (fun r => match r.1 with | .int i => i | _ => -1) = some 6 := by
  decide +kernel

end Wal.C08
