import Wal.Model.Csv
/-!
# C18 — CSV trace fidelity

Model: `loadCsvText` (`Wal/Model/Csv.lean`). Proved for every input:

* `csvTime_frac / csvTime_int` — the time cell `d+(.d{0,9})?` denotes `sec·10⁹ + frac·10^(9-|frac|)` nanoseconds,
  independent of the number of fractional digits written;
* `split_join`     — splitting the joined fields gives the fields back (rows and cells are recovered exactly);
* `row_places`     — a data row appends each cell to the column of *its* header position and skips the time
                     column wherever it stands (`column order / time position do not matter`);
* `rows_ts / rows_len` — one time index per row, in row order.
-/
namespace Wal.C18
open Wal

/-! ## decimal numerals -/

theorem foldl_acc (b : List Char) : ∀ acc : Nat,
    b.foldl (fun acc c => 10 * acc + (c.toNat - '0'.toNat)) acc =
      acc * 10 ^ b.length + b.foldl (fun acc c => 10 * acc + (c.toNat - '0'.toNat)) 0 := by
  induction b with
  | nil => intro acc; simp
  | cons c b ih =>
    intro acc
    simp only [List.foldl_cons, List.length_cons]
    rw [ih (10 * acc + (c.toNat - '0'.toNat)), ih (10 * 0 + (c.toNat - '0'.toNat))]
    rw [Nat.pow_succ, Nat.add_mul, Nat.add_mul]
    simp only [Nat.mul_zero, Nat.zero_mul, Nat.zero_add]
    rw [Nat.add_assoc, Nat.mul_comm 10 acc, Nat.mul_assoc, Nat.mul_comm 10 (10 ^ b.length)]

theorem decNat_append (a b : List Char) : decNat (a ++ b) = decNat a * 10 ^ b.length + decNat b := by
  unfold decNat
  rw [List.foldl_append, foldl_acc]

theorem decNat_zeros (n : Nat) : decNat (List.replicate n '0') = 0 := by
  unfold decNat
  induction n with
  | zero => rfl
  | succ n ih => simp [List.replicate_succ, List.foldl_cons]; simpa using ih

theorem takeWhile_digits (pre rest : List Char) (hp : pre.all Char.isDigit = true) (c : Char) (hc : c.isDigit = false) :
    (pre ++ c :: rest).takeWhile Char.isDigit = pre ∧ (pre ++ c :: rest).dropWhile Char.isDigit = c :: rest := by
  induction pre with
  | nil => simp [List.takeWhile, List.dropWhile, hc]
  | cons x pre ih =>
    simp only [List.all_cons, Bool.and_eq_true] at hp
    obtain ⟨hx, hp⟩ := hp
    obtain ⟨h1, h2⟩ := ih hp
    simp [List.takeWhile, List.dropWhile, hx, h1, h2]

theorem takeWhile_all (pre : List Char) (hp : pre.all Char.isDigit = true) :
    pre.takeWhile Char.isDigit = pre ∧ pre.dropWhile Char.isDigit = [] := by
  induction pre with
  | nil => simp
  | cons x pre ih =>
    simp only [List.all_cons, Bool.and_eq_true] at hp
    obtain ⟨hx, hp⟩ := hp
    obtain ⟨h1, h2⟩ := ih hp
    simp [List.takeWhile, List.dropWhile, hx, h1, h2]

/-- **TS is the row's time in integer nanoseconds — whatever the number of fractional digits (up to 9)** -/
theorem csvTime_frac (pre post : List Char) (hp : pre.all Char.isDigit = true) (hne : pre ≠ [])
    (hq : post.all Char.isDigit = true) (hq0 : post ≠ []) (hl : post.length ≤ 9) :
    csvTime (pre ++ '.' :: post) = some ((decNat pre * 10 ^ 9 + decNat post * 10 ^ (9 - post.length) : Nat) : Int) := by
  obtain ⟨h1, h2⟩ := takeWhile_digits pre post hp '.' (by decide)
  obtain ⟨h3, h4⟩ := takeWhile_all post hq
  have hpe : pre.isEmpty = false := by cases pre <;> simp_all
  have hqe : post.isEmpty = false := by cases post <;> simp_all
  simp only [csvTime, h1, h2, hpe, h3, h4, hqe]
  simp only [Bool.false_eq_true, if_false, List.isEmpty_nil, Bool.not_true]
  congr 1
  rw [← List.append_assoc, decNat_append, decNat_append, decNat_zeros]
  simp only [List.length_replicate, Nat.add_zero]
  have : post.length + (9 - post.length) = 9 := by omega
  rw [Nat.add_mul, Nat.mul_assoc, ← Nat.pow_add, this]

theorem csvTime_int (pre : List Char) (hp : pre.all Char.isDigit = true) (hne : pre ≠ []) :
    csvTime pre = some ((decNat pre * 10 ^ 9 : Nat) : Int) := by
  obtain ⟨h1, h2⟩ := takeWhile_all pre hp
  have hpe : pre.isEmpty = false := by cases pre <;> simp_all
  simp only [csvTime, h1, h2, hpe]
  simp only [Bool.false_eq_true, if_false, List.takeWhile_nil, List.dropWhile_nil, List.isEmpty_nil, Bool.not_true, if_true]
  congr 1
  rw [decNat_append]
  simp [decNat, List.replicate]

/-- a trailing dot without fraction (`"12."`) denotes whole seconds as well -/
theorem csvTime_dot (pre : List Char) (hp : pre.all Char.isDigit = true) (hne : pre ≠ []) :
    csvTime (pre ++ ['.']) = some ((decNat pre * 10 ^ 9 : Nat) : Int) := by
  obtain ⟨h1, h2⟩ := takeWhile_digits pre [] hp '.' (by decide)
  have hpe : pre.isEmpty = false := by cases pre <;> simp_all
  simp only [csvTime, h1, h2, hpe]
  simp only [Bool.false_eq_true, if_false, List.takeWhile_nil, List.dropWhile_nil, List.isEmpty_nil, Bool.not_true, if_true]
  congr 1
  rw [decNat_append]
  simp [decNat, List.replicate]

/-! ## splitting recovers the fields -/

def joinWith (sep : Char) : List (List Char) → List Char
  | [] => []
  | [f] => f
  | f :: g :: r => f ++ sep :: joinWith sep (g :: r)

theorem split_field (sep : Char) (f : List Char) (hf : ¬ sep ∈ f) : splitOnChar sep f = [f] := by
  induction f with
  | nil => rfl
  | cons c f ih =>
    have hc : (c == sep) = false := by
      simp only [List.mem_cons, not_or] at hf
      simp only [beq_eq_false_iff_ne, ne_eq]; exact fun e => hf.1 e.symm
    have hf' : ¬ sep ∈ f := fun h => hf (List.mem_cons_of_mem _ h)
    simp [splitOnChar, ih hf', hc]

/-- **rows and cells are recovered exactly**: splitting the joined fields returns the fields -/
theorem split_join (sep : Char) (fields : List (List Char)) (hne : fields ≠ []) (hf : ∀ f ∈ fields, ¬ sep ∈ f) :
    splitOnChar sep (joinWith sep fields) = fields := by
  induction fields with
  | nil => exact absurd rfl hne
  | cons f rest ih =>
    cases rest with
    | nil => simpa [joinWith] using split_field sep f (hf f List.mem_cons_self)
    | cons g r =>
      have ihr := ih (by simp) (fun x hx => hf x (List.mem_cons_of_mem _ hx))
      have hf0 : ¬ sep ∈ f := hf f List.mem_cons_self
      simp only [joinWith]
      -- walk through the characters of the first field
      clear ih hne hf
      induction f with
      | nil => simp [splitOnChar, ihr]
      | cons c f ihf =>
        have hc : (c == sep) = false := by
          simp only [List.mem_cons, not_or] at hf0
          simp only [beq_eq_false_iff_ne, ne_eq]; exact fun e => hf0.1 e.symm
        have hf' : ¬ sep ∈ f := fun h => hf0 (List.mem_cons_of_mem _ h)
        simp [splitOnChar, ihf hf', hc]

/-! ## a data row lands in the right columns -/

theorem lookup_map_append (d : List (String × List String)) (k v k' : String) :
    (d.map (fun p => (p.1, if p.1 == k then p.2 ++ [v] else p.2))).lookup k' =
      (d.lookup k').map (fun col => if k' == k then col ++ [v] else col) := by
  induction d with
  | nil => rfl
  | cons p d ih =>
    obtain ⟨a, col⟩ := p
    by_cases ha : (k' == a) = true
    · have : k' = a := by simpa using ha
      subst this
      simp [List.lookup]
    · have ha' : (k' == a) = false := by simpa using ha
      simpa [List.lookup, ha'] using ih

theorem appendCell_lookup (d : List (String × List String)) (k v : String) (d' : List (String × List String))
    (h : appendCell d k v = some d') (k' : String) :
    d'.lookup k' = (d.lookup k').map (fun col => if k' == k then col ++ [v] else col) := by
  unfold appendCell at h
  split at h
  · simp only [Option.some.injEq] at h; subst h
    exact lookup_map_append d k v k'
  · simp at h

/-- **the position of the time column does not matter and every cell goes to the column named by its own header**:
after a row, column `h` has gained exactly the cells standing at the positions `x ≠ timeIdx` with `header[x] = h`,
in order -/
theorem row_places (header : List String) (timeIdx : Nat) :
    ∀ (cells : List String) (x : Nat) (d d' : List (String × List String)),
      csvRowGo header timeIdx x cells d = some d' →
      ∀ h, d'.lookup h = (d.lookup h).map (fun col => col ++
        ((cells.zipIdx x).filter (fun p => p.2 != timeIdx && header[p.2]? == some h)).map (·.1)) := by
  intro cells
  induction cells with
  | nil => intro x d d' hgo h; simp [csvRowGo] at hgo; subst hgo; cases d.lookup h <;> simp
  | cons cell cells ih =>
    intro x d d' hgo h
    unfold csvRowGo at hgo
    by_cases hx : (x == timeIdx) = true
    · simp only [hx, if_true] at hgo
      rw [ih (x + 1) d d' hgo h]
      have : (x != timeIdx) = false := by simpa using hx
      simp [List.zipIdx_cons, this]
    · simp only [hx] at hgo
      cases hh : header[x]? with
      | none => simp [hh] at hgo
      | some hd =>
        simp only [hh] at hgo
        cases ha : appendCell d hd cell with
        | none => simp [ha] at hgo
        | some d1 =>
          simp only [ha] at hgo
          rw [ih (x + 1) d1 d' hgo h, appendCell_lookup d hd cell d1 ha h]
          have hne : (x != timeIdx) = true := by simpa using hx
          cases d.lookup h with
          | none => rfl
          | some col =>
            simp only [Option.map_some, List.zipIdx_cons, List.filter_cons, hne, hh, Bool.true_and]
            by_cases hk : (h == hd) = true
            · have : hd = h := (by simpa using hk : h = hd).symm
              subst this
              simp
            · have hk' : (h == hd) = false := by simpa using hk
              have : (some hd == some h) = false := by
                simp only [beq_eq_false_iff_ne, ne_eq, Option.some.injEq] at hk' ⊢
                exact fun e => hk' e.symm
              simp [hk', this]

/-- **row `i` after the header is time index `i`**: one timestamp per row, in row order -/
theorem rows_ts (header : List String) (timeIdx : Nat) :
    ∀ (rows : List (List String)) (s s' : CsvSt), csvRows header timeIdx rows s = some s' →
      s'.ts.length = s.ts.length + rows.length ∧
      s'.ts = s.ts ++ rows.filterMap (fun r => (r[timeIdx]?).bind (fun c => csvTime c.toList)) := by
  intro rows
  induction rows with
  | nil => intro s s' h; simp [csvRows] at h; subst h; simp
  | cons row rows ih =>
    intro s s' h
    unfold csvRows at h
    cases hr : row[timeIdx]? with
    | none => simp [hr] at h
    | some tc =>
      simp only [hr] at h
      cases ht : csvTime tc.toList with
      | none => simp [ht] at h
      | some t =>
        simp only [ht] at h
        cases hg : csvRowGo header timeIdx 0 row s.data with
        | none => simp [hg] at h
        | some d =>
          simp only [hg] at h
          obtain ⟨h1, h2⟩ := ih _ s' h
          constructor
          · simp at h1 ⊢; omega
          · simp [h2, hr, ht]

/-! ## names and non-vacuity -/

example : normCsvName "Channel 0" = "Channel_0" := by decide
example : normCsvName "bus[12]" = "bus<12>" := by decide
example : normCsvName "addr[7:0]" = "addr" := by decide
example : normCsvName "D(3) x" = "D<3>_x" := by decide
example : csvTime "12.5".toList = some 12500000000 := by decide
example : csvTime "0.000000001".toList = some 1 := by decide
example : csvTime "3".toList = some 3000000000 := by decide
example : csvTime "1.2.3".toList = Option.none := by decide
example : ((loadCsvText "t" "f" "a b,Time [s],c[3]\n1,0.5,x\n10,1.25,0\n").map
    (fun t => (t.rawsignals, t.timestamps, t.maxIndex, t.data))) =
    some (["a_b", "c<3>"], [500000000, 1250000000], 1, [("a_b", ["1", "10"]), ("c<3>", ["x", "0"])]) := by decide

end Wal.C18
