import Wal.Model.Eval
import Wal.Props.C19
/-!
# C13 — Virtual signals behave exactly like their body at every index

Two layers.

1. **Concrete** (`readSignal`, `opDefsig` of `Wal/Model/Eval.lean`): a read of a virtual signal looks the
   current *timestamp* up in the signal's cache; a hit returns the cached value and changes nothing
   (`read_hit`); a miss evaluates the body, returns its last value and inserts exactly the pair
   (current timestamp, value) (`read_miss`). `defsig` registers the signal under the name relative to the
   captured scope/group with `~`/`#` references rewritten to absolute names (`defsig_listed`, examples).
2. **Abstract machine** (`Abs`): original timestamps, the new→original index table of `sample-at`, the current
   index and the timestamp-keyed cache, with operations *jump* (any navigation: step, `@`, scans),
   *read* and *sample*. `Abs.read_after_any_history`: after **every** history of jumps, reads and resamplings,
   whatever a read returns is the body's value at the current original sample — a cached value is never
   served for a different time point — provided timestamps identify samples.
   Layer 1 shows that the model's read is exactly the abstract `read` step.
-/
namespace Wal.C13
open Wal

/-! ## layer 1: the model's read of a virtual signal -/

/-- a cache hit returns the cached value and leaves the whole state untouched -/
theorem read_hit (rec : St → Sx → Res) (st : St) (name sig scope : String) (t : Trace) (vs : VSig) (ts : Int) (v : Sx)
    (hr : st.tc.route name = .ok (t, sig))
    (hv : t.signalValue st.tc.multi sig scope = .virt vs.name)
    (hf : t.virt.find? (fun w => w.name == vs.name) = some vs)
    (hts : pyIdx? t.timestamps t.index = some ts)
    (hc : vs.cache.lookup ts = some v) :
    readSignal rec st name scope = .ok (v, st) := by
  simp [readSignal, hr, hv, hf, hts, hc]

/-- a miss evaluates the body (all forms, last value) and inserts exactly (current timestamp ↦ value) -/
theorem read_miss (rec : St → Sx → Res) (st st1 : St) (name sig scope : String) (t : Trace) (vs : VSig) (ts : Int)
    (w : Bool) (body vals : List Sx) (v : Sx)
    (hr : st.tc.route name = .ok (t, sig))
    (hv : t.signalValue st.tc.multi sig scope = .virt vs.name)
    (hf : t.virt.find? (fun w => w.name == vs.name) = some vs)
    (hts : pyIdx? t.timestamps t.index = some ts)
    (hc : vs.cache.lookup ts = Option.none)
    (hb : vs.body = .list w body)
    (he : evalList rec st body = .ok (vals, st1))
    (hl : vals.getLast? = some v) :
    readSignal rec st name scope = .ok (v, st1.updTrace t.tid (fun t' =>
      { t' with virt := t'.virt.map (fun x => if x.name == vs.name then { x with cache := (ts, v) :: x.cache } else x) })) := by
  simp [readSignal, hr, hv, hf, hts, hc, hb, he, bind, Except.bind, lastOr, hl, pure, Except.pure]

theorem virt_upsert_has (n : String) (virt : List VSig) (vs : VSig) (hn : vs.name = n) :
    (if virt.any (fun v => v.name == n) = true then virt.map (fun v => if (v.name == n) = true then vs else v)
     else virt ++ [vs]).any (fun v => v.name == n) = true := by
  by_cases hany : virt.any (fun v => v.name == n) = true
  · simp only [hany, if_true, List.any_map]
    rw [List.any_eq_true] at hany ⊢
    obtain ⟨x, hx, hxn⟩ := hany
    exact ⟨x, hx, by simp [Function.comp, hxn, hn]⟩
  · simp [hany, hn]

/-- **after `defsig` the signal is listed among the signals** (single trace, top-level scope and group) -/
theorem defsig_listed (st st' : St) (n : String) (k : Option Nat) (b : Sx) (bs : List Sx) (t : Trace) (r : Sx)
    (h1 : st.tc.nTraces = 1) (ht : st.tc.traces = [t])
    (hcs : st.readFrom 0 "CS" = some (.str "")) (hcg : st.readFrom 0 "CG" = some (.str ""))
    (h : opDefsig st (.sym n k :: b :: bs) = .ok (r, st')) :
    ∀ t' ∈ st'.tc.traces, t'.hasSignal n = true := by
  simp only [opDefsig, readCS, readCG, hcs, hcg, bind, Except.bind, h1, ht, pure, Except.pure] at h
  simp only [bne_self_eq_false, Bool.false_eq_true, if_false, String.append_empty, String.empty_append] at h
  simp only [beq_self_eq_true, if_true] at h
  injection h with h; injection h with _ h2; subst h2
  intro t' ht'
  simp only [St.updTrace, ht, List.map_cons, List.map_nil, beq_self_eq_true, if_true, List.mem_singleton] at ht'
  subst ht'
  simp only [Trace.hasSignal, Trace.isVirtual, Bool.or_eq_true]
  right
  exact virt_upsert_has n t.virt _ rfl

/-! ### `~` / `#` references are fixed at definition (kernel-evaluated instances of `defsigResolve`) -/

example : defsigResolve "top." "" (.list true [.op .ADD, .list true [.op .RESOLVE_SCOPE, .sym "cnt" Option.none], .int 1]) =
    .list true [.op .ADD, .sym "top.cnt" Option.none, .int 1] := by
  simp [defsigResolve, defsigResolveList]
example : defsigResolve "" "top.d_" (.list true [.op .AND, .list true [.op .RESOLVE_GROUP, .sym "valid" Option.none],
      .list true [.op .RESOLVE_GROUP, .sym "ready" Option.none]]) =
    .list true [.op .AND, .sym "top.d_valid" Option.none, .sym "top.d_ready" Option.none] := by
  simp [defsigResolve, defsigResolveList]

/-! ## layer 2: the cache over every history -/
namespace Abs

structure S where
  origTs : List Int                 -- timestamps of the original trace (position = original sample)
  lookup : List Nat                 -- new index ↦ original index (identity before any sample-at)
  index : Nat
  cache : List (Int × Sx)           -- timestamp ↦ cached value
  /-- the body's value: a function of the current index table and the current (new) index — it may look at neighbouring
      samples (`e@k`), which is why resampling has to drop the cache; a `defsig` of the same name replaces it -/
  body : List Nat → Nat → Sx

inductive Op where
  | jump (i : Nat)                  -- any navigation: step, @, scans … (lands on a valid index or stays)
  | read                            -- read the virtual signal
  | sample (L : List Nat)           -- sample-at (indices into the original trace); drops the cached values
  | redefine (g : List Nat → Nat → Sx)   -- (defsig v body') for the same name: a new signal with an empty cache

def tsAt (s : S) (i : Nat) : Option Int := (s.lookup[i]?).bind (fun o => s.origTs[o]?)

def step (s : S) : Op → S × Option Sx
  | .jump i => (if i < s.lookup.length then { s with index := i } else s, Option.none)
  | .sample L => ({ s with lookup := dedup (L.filter (· < s.origTs.length)), index := 0, cache := [] }, Option.none)
  | .redefine g => ({ s with body := g, cache := [] }, Option.none)
  | .read =>
    match tsAt s s.index with
    | some ts =>
      match s.cache.lookup ts with
      | some v => (s, some v)
      | Option.none => let v := s.body s.lookup s.index; ({ s with cache := (ts, v) :: s.cache }, some v)
    | Option.none => (s, Option.none)

/-- timestamps identify samples, the index table has no repeats, and every cached pair is the (current) body's value at
the (new) index that carries this timestamp -/
def Inv (s : S) : Prop :=
  (∀ (i j : Nat) (ti tj : Int), s.origTs[i]? = some ti → s.origTs[j]? = some tj → ti = tj → i = j) ∧
  s.lookup.Nodup ∧
  (∀ (ts : Int) (v : Sx), s.cache.lookup ts = some v → ∃ i : Nat, tsAt s i = some ts ∧ v = s.body s.lookup i)

theorem lookup_cons {ts ts' : Int} {v v' : Sx} {c : List (Int × Sx)}
    (h : ((ts', v') :: c).lookup ts = some v) : (ts = ts' ∧ v = v') ∨ c.lookup ts = some v := by
  by_cases e : (ts == ts') = true
  · simp [List.lookup, e] at h; exact Or.inl ⟨by simpa using e, h.symm⟩
  · have : (ts == ts') = false := by simpa using e
    simp [List.lookup, this] at h; exact Or.inr h

theorem step_inv (s : S) (op : Op) (h : Inv s) : Inv (step s op).1 := by
  obtain ⟨hinj, hnd, hc⟩ := h
  cases op with
  | jump i => simp only [step]; split <;> exact ⟨hinj, hnd, hc⟩
  | sample L => exact ⟨hinj, C19.dedup_nodup _, fun ts v h => by simp [step, List.lookup] at h⟩
  | redefine g => exact ⟨hinj, hnd, fun ts v h => by simp [step, List.lookup] at h⟩
  | read =>
    simp only [step]
    split
    · rename_i ts hts
      split
      · exact ⟨hinj, hnd, hc⟩
      · refine ⟨hinj, hnd, ?_⟩
        intro ts' v hl
        rcases lookup_cons hl with ⟨rfl, rfl⟩ | h'
        · exact ⟨s.index, hts, rfl⟩
        · exact hc ts' v h'
    · exact ⟨hinj, hnd, hc⟩

/-- whatever a read returns is the body's value at the current index -/
theorem read_correct (s : S) (h : Inv s) (v : Sx) (hr : (step s .read).2 = some v) : v = s.body s.lookup s.index := by
  obtain ⟨hinj, hnd, hc⟩ := h
  simp only [step] at hr
  split at hr
  · rename_i ts hts
    split at hr
    · rename_i w hw
      simp at hr; subst hr
      obtain ⟨i, hi, hv⟩ := hc ts w hw
      -- the same timestamp at two indices of a repeat-free table over injective timestamps: the same index
      simp only [tsAt] at hi hts
      cases hli : s.lookup[i]? with
      | none => simp [hli] at hi
      | some oi =>
        cases hlx : s.lookup[s.index]? with
        | none => simp [hlx] at hts
        | some ox =>
          simp only [hli, hlx, Option.bind] at hi hts
          have hoo : oi = ox := hinj oi ox ts ts hi hts rfl
          subst hoo
          have hil : i < s.lookup.length := (List.getElem?_eq_some_iff.1 hli).1
          have : i = s.index := (List.getElem?_inj hil hnd).1 (hli.trans hlx.symm)
          subst this; exact hv
    · simp at hr; exact hr.symm
  · simp at hr

def run (s : S) : List Op → S
  | [] => s
  | op :: r => run (step s op).1 r

theorem run_inv (ops : List Op) : ∀ s, Inv s → Inv (run s ops) := by
  induction ops with
  | nil => intro s h; exact h
  | cons op r ih => intro s h; exact ih _ (step_inv s op h)

/-- **irrespective of the order in which indices are visited and of any earlier reads, also after resampling and after
the signal has been defined anew**: after every history of jumps, reads, resamplings and redefinitions a read returns the
value of the body that is current then, at the current index -/
theorem read_after_any_history (s : S) (ops : List Op) (h : Inv s) (v : Sx)
    (hr : (step (run s ops) .read).2 = some v) :
    v = (run s ops).body (run s ops).lookup (run s ops).index :=
  read_correct _ (run_inv ops s h) v hr

/-- a redefinition is what decides from then on: directly after `(defsig v body')` a read yields `body'` -/
theorem read_after_redefine (s : S) (g : List Nat → Nat → Sx) (h : Inv s) (v : Sx)
    (hr : (step (step s (.redefine g)).1 .read).2 = some v) : v = g s.lookup s.index := by
  have := read_correct _ (step_inv s (.redefine g) h) v hr
  simpa [step] using this

/-- strictly increasing timestamps identify samples -/
theorem increasing_identifies (ts : List Int) (h : ts.Pairwise (· < ·)) :
    ∀ (i j : Nat) (ti tj : Int), ts[i]? = some ti → ts[j]? = some tj → ti = tj → i = j := by
  intro i j ti tj hi hj e
  subst e
  have hnd : ts.Nodup := h.imp (fun hlt => Int.ne_of_lt hlt)
  have hil : i < ts.length := (List.getElem?_eq_some_iff.1 hi).1
  exact (List.getElem?_inj hil hnd).1 (hi.trans hj.symm)

/-- non-vacuity: a four-sample trace with an empty cache satisfies the invariant -/
example : Inv { origTs := [0, 10, 20, 30], lookup := [0, 1, 2, 3], index := 0, cache := [],
                body := fun l i => .int ((l[i]?.getD 0) + 1) } :=
  ⟨increasing_identifies [0, 10, 20, 30] (by decide), by decide, fun ts v h => by simp [List.lookup] at h⟩

end Abs

end Wal.C13
