import Wal.Props.C10
/-!
# C11 — Printed expressions read back identically; shorthands equal their long forms

Printer: `walChars` (`Wal/Model/Printer.lean`, model of `wal_str`); reader: `readChars`. Proved:

* `string_token_roundtrip` — for **every** ASCII string (quote, backslash, newline, tab, carriage return included) the
  printed literal, followed by any text, is scanned back to exactly that string and that rest;
* `dec_roundtrip` — every natural number prints to a numeral whose value is the number (from C10);
* kernel-evaluated round trips over all expression shapes and the shorthand equations for several operand kinds.

The general theorem `read (walStr e) = e` for all readable `e` (token-level induction as in
`notes/prototypes/lean/RT.lean`) is not proved for the full grammar; the round trip is otherwise established by the
correspondence (reader and printer of the model against the implementation, and read→print→read on the implementation).
-/
namespace Wal.C11
open Wal

theorem stringBody_plain (c : Char) (r acc : List Char) (h1 : c ≠ '\n') (h2 : c ≠ '"') (h3 : c ≠ '\\') :
    stringBody (c :: r) acc = stringBody r (c :: acc) := by
  rw [stringBody.eq_def]
  split
  · rename_i heq; simp at heq
  · rename_i heq; simp only [List.cons.injEq] at heq; exact absurd heq.1 h1
  · rename_i heq; simp only [List.cons.injEq] at heq; exact absurd heq.1 h2
  · rename_i heq; simp only [List.cons.injEq] at heq; exact absurd heq.1 h3
  · rename_i heq; simp only [List.cons.injEq] at heq; obtain ⟨rfl, rfl⟩ := heq; rfl

theorem stringBody_pair (c : Char) (r acc : List Char) (h : c ≠ '\n') :
    stringBody ('\\' :: c :: r) acc = stringBody r (c :: '\\' :: acc) := by
  rw [stringBody.eq_def]
  have hb : (c == '\n') = false := by simpa using h
  simp [hb]

/-- scanning what the printer writes between the quotes stops exactly at the closing quote -/
theorem stringBody_escape (cs : List Char) : ∀ (rest acc : List Char),
    stringBody (escapeStr cs ++ '"' :: rest) acc = some (acc.reverse ++ escapeStr cs, rest) := by
  induction cs with
  | nil => intro rest acc; simp [escapeStr, stringBody]
  | cons c cs ih =>
    intro rest acc
    simp only [escapeStr]
    by_cases h1 : c = '\\'
    · subst h1
      simp only [beq_self_eq_true, if_true, List.cons_append, List.nil_append]
      rw [stringBody_pair _ _ _ (by decide), ih]; simp
    · by_cases h2 : c = '"'
      · subst h2
        simp only [h1, beq_iff_eq, if_false, beq_self_eq_true, if_true, List.cons_append, List.nil_append]
        rw [stringBody_pair _ _ _ (by decide), ih]; simp
      · by_cases h3 : c = '\n'
        · subst h3
          simp only [h1, h2, beq_iff_eq, if_false, beq_self_eq_true, if_true, List.cons_append, List.nil_append]
          rw [stringBody_pair _ _ _ (by decide), ih]; simp
        · by_cases h4 : c = '\t'
          · subst h4
            simp only [h1, h2, h3, beq_iff_eq, if_false, beq_self_eq_true, if_true, List.cons_append, List.nil_append]
            rw [stringBody_pair _ _ _ (by decide), ih]; simp
          · by_cases h5 : c = '\r'
            · subst h5
              simp only [h1, h2, h3, h4, beq_iff_eq, if_false, beq_self_eq_true, if_true, List.cons_append, List.nil_append]
              rw [stringBody_pair _ _ _ (by decide), ih]; simp
            · simp only [h1, h2, h3, h4, h5, beq_iff_eq, if_false, List.cons_append, List.nil_append]
              rw [stringBody_plain c _ _ h3 h2 h1, ih]; simp

/-- **string contents survive print → read**: the printed literal `"…"` followed by any text scans back to the
string's characters and leaves exactly that text — for every ASCII string -/
theorem string_token_roundtrip (s : String) (rest : List Char) (h : s.toList.all (fun c => c.toNat ≤ 127) = true) :
    ∃ body, stringBody (escapeStr s.toList ++ '"' :: rest) [] = some (body, rest) ∧ unescape body = .ok s.toList := by
  refine ⟨escapeStr s.toList, ?_, C10.unescape_escape s.toList h⟩
  simpa using stringBody_escape s.toList rest []

/-- every natural number prints to a numeral that denotes it -/
theorem dec_roundtrip (n : Nat) : natOfDigits 10 (Nat.toDigits 10 n) = n := C10.dec_value n

/-! ## kernel-evaluated round trips and shorthand equations -/

def rt (s : String) : Option String := (readStr s).toOption.bind walStrCode
def rt2 (s : String) : Option String := (rt s).bind rt

example : rt2 "(define f (fn [a b] (+ a b 1)))" = rt "(define f (fn [a b] (+ a b 1)))" := by decide +kernel
example : rt2 "`(a ,b ,@c 'd (unquote e) \"s\\\"t\\\\u\\nv\\tw\")" = rt "`(a ,b ,@c 'd (unquote e) \"s\\\"t\\\\u\\nv\\tw\")" := by decide +kernel
example : rt2 "(x \\esc.id[3] y)" = rt "(x \\esc.id[3] y)" ∧ rt "(x \\esc.id[3] y)" = some "(x \\esc.id[3]  y)" := by decide +kernel
example : rt2 "a.b<3>[7:0]@-1" = rt "a.b<3>[7:0]@-1" ∧ rt "a.b<3>[7:0]@-1" = some "(reval (slice a.b<3> 7 0) -1)" := by decide +kernel
example : rt "e@k" = rt "(reval e k)" ∧ rt "~s" = rt "(resolve-scope s)" ∧ rt "#sg" = rt "(resolve-group sg)" ∧ rt "e[i]" = rt "(slice e i)" ∧
    rt "e[7:0]" = rt "(slice e 7 0)" ∧ rt "e[h : l]" = rt "(slice e h l)" ∧ rt "'x" = rt "(quote x)" ∧ rt "`x" = rt "(quasiquote x)" ∧ rt "(a b)" = rt "[a b]" ∧ rt "(a b)" = rt "{a b}" := by
  decide +kernel
example : rt "(f x)[2]@(+ 1 2)" = rt "(reval (slice (f x) 2) (+ 1 2))" ∧ rt "'(a b)[1:0]" = rt "(quote (slice (a b) 1 0))" := by decide +kernel

end Wal.C11
