import Wal.Props.C03
/-!
# C04 — Scans (find, find/g, whenever, count) are pointwise, complete, position-neutral

`findLoop` / `opFind` (model of `op_find`) and the shared `scanLoop` of `find/g` and `whenever`
(`Wal/Model/Eval.lean`), against an arbitrary evaluator `rec` of the condition.
-/
namespace Wal.C04
open Wal

/-- `rec` evaluates `c` without changing the state, in every state (the trace-reading fragment) -/
def Neutral (rec : St → Sx → Res) (c : Sx) : Prop := ∀ st, ∃ v, rec st c = .ok (v, st)

/-- the state with its single trace replaced -/
def withTrace (st : St) (t : Trace) : St := { st with tc := { st.tc with traces := [t] } }

/-- truth of `c` with the trace positioned at `i` -/
def valAt (rec : St → Sx → Res) (c : Sx) (st : St) (t : Trace) (i : Int) : Bool :=
  match rec (withTrace st { t with index := i }) c with
  | .ok (v, s) => s.truthy v
  | .error _ => false

theorem find_single (st : St) (t : Trace) (h : st.tc.traces = [t]) : st.tc.find? t.tid = some t := by
  simp [Container.find?, h]

theorem upd_single (st : St) (t t' : Trace) (h : st.tc.traces = [t]) :
    st.updTrace t.tid (fun _ => t') = withTrace st t' := by
  simp [St.updTrace, withTrace, h]

theorem withTrace_self (st : St) (t : Trace) (h : st.tc.traces = [t]) : withTrace st t = st := by
  cases st with
  | mk frames arrays env tc scope group aliases gensym out =>
    cases tc with
    | mk traces n stack => simp only [withTrace] at *; subst h; rfl

theorem range_split (i0 : Int) (n : Nat) :
    (List.range (n + 1)).map (fun (j : Nat) => i0 + (j : Int)) = i0 :: (List.range n).map (fun (j : Nat) => i0 + 1 + (j : Int)) := by
  rw [List.range_succ_eq_map, List.map_cons, List.map_map]
  simp only [Int.natCast_zero, Int.add_zero, List.cons.injEq, true_and]
  apply List.map_congr_left
  intro j _
  simp only [Function.comp]
  omega

/-- **find is pointwise and complete**: from index `i₀` the loop collects, ascending and without duplicates, exactly
the indices `i₀ … MAX-INDEX` at which the condition is truthy, and stops at the last index -/
theorem findLoop_spec (rec : St → Sx → Res) (c : Sx) (hc : Neutral rec c) :
    ∀ (d : Nat) (st : St) (t : Trace) (acc : List Int) (k : Nat),
      st.tc.traces = [t] → t.index + d = t.maxIndex → 0 ≤ t.index → d + 1 ≤ k →
      findLoop rec c t.tid k st acc =
        .ok (acc ++ ((List.range (d + 1)).map (fun (j : Nat) => t.index + (j : Int))).filter (valAt rec c st t),
             withTrace st { t with index := t.maxIndex }) := by
  intro d
  induction d with
  | zero =>
    intro st t acc k htr hd h0 hk
    obtain ⟨k', rfl⟩ : ∃ k', k = k' + 1 := ⟨k - 1, by omega⟩
    obtain ⟨v, hv⟩ := hc st
    have hval : valAt rec c st t t.index = st.truthy v := by
      have : withTrace st { t with index := t.index } = st := by
        have : ({ t with index := t.index } : Trace) = t := rfl
        rw [this]; exact withTrace_self st t htr
      simp [valAt, this, hv]
    have hoob : t.oob 1 = true := by
      simp only [Trace.oob, Bool.or_eq_true, decide_eq_true_eq]; omega
    have hmax : t.maxIndex = t.index := by omega
    have hst : withTrace st { t with index := t.maxIndex } = st := by
      have : ({ t with index := t.maxIndex } : Trace) = t := by
        cases t; simp only at hmax; simp [hmax]
      rw [this]; exact withTrace_self st t htr
    simp only [findLoop, hv, bind, Except.bind, find_single st t htr, Trace.step, hoob, if_true]
    simp only [Bool.false_eq_true, if_false, hst]
    have h01 : (List.range (0 + 1)).map (fun (j : Nat) => t.index + (j : Int)) = [t.index] := by simp
    rw [h01]
    simp only [List.filter_cons, List.filter_nil, hval]
    cases st.truthy v <;> simp
  | succ d ih =>
    intro st t acc k htr hd h0 hk
    obtain ⟨k', rfl⟩ : ∃ k', k = k' + 1 := ⟨k - 1, by omega⟩
    obtain ⟨v, hv⟩ := hc st
    have hval : valAt rec c st t t.index = st.truthy v := by
      have : withTrace st { t with index := t.index } = st := by
        have : ({ t with index := t.index } : Trace) = t := rfl
        rw [this]; exact withTrace_self st t htr
      simp [valAt, this, hv]
    have hoob : t.oob 1 = false := by
      simp only [Trace.oob, Bool.or_eq_false_iff, decide_eq_false_iff_not]; omega
    let t' : Trace := { t with index := t.index + 1 }
    have htr' : (withTrace st t').tc.traces = [t'] := rfl
    have hrec := ih (withTrace st t') t' (if st.truthy v then acc ++ [t.index] else acc) k' htr'
      (by show t.index + 1 + (d : Int) = t.maxIndex; omega) (by show 0 ≤ t.index + 1; omega) (by omega)
    have hvalshift : valAt rec c (withTrace st t') t' = valAt rec c st t := by
      funext i; rfl
    have hfinal : withTrace (withTrace st t') { t' with index := t'.maxIndex } = withTrace st { t with index := t.maxIndex } := rfl
    simp only [findLoop, hv, bind, Except.bind, find_single st t htr, Trace.step, hoob]
    simp only [Bool.false_eq_true, if_false, if_true, upd_single st t _ htr]
    rw [show ({ t with index := t.index + 1 } : Trace) = t' from rfl]
    rw [show t.tid = t'.tid from rfl, hrec, hvalshift, hfinal]
    congr 2
    have hsplit := range_split t.index (d + 1)
    rw [hsplit, List.filter_cons, hval]
    show _ = acc ++ (if st.truthy v = true then t.index :: _ else _)
    have : (List.range (d + 1)).map (fun (j : Nat) => t'.index + (j : Int)) =
        (List.range (d + 1)).map (fun (j : Nat) => t.index + 1 + (j : Int)) := rfl
    rw [this]
    cases st.truthy v <;> simp

/-- the collected indices are strictly ascending (hence duplicate free) -/
theorem hits_ascending (i0 : Int) (n : Nat) (p : Int → Bool) :
    (((List.range n).map (fun (j : Nat) => i0 + (j : Int))).filter p).Pairwise (· < ·) := by
  apply List.Pairwise.filter
  rw [List.pairwise_map]
  apply List.Pairwise.imp _ (List.pairwise_lt_range)
  intro a b hab
  omega

/-- **`(find c)` with one trace**: the hits from the current index on, and the index is what it was before -/
theorem find_spec (n : Nat) (rec : St → Sx → Res) (c : Sx) (hc : Neutral rec c) (st : St) (t : Trace)
    (htr : st.tc.traces = [t]) (h0 : 0 ≤ t.index) (hm : t.index ≤ t.maxIndex) (hn : (t.maxIndex - t.index).toNat + 1 ≤ n) :
    opFind n rec st [c] =
      .ok (.list false ((sortDedupInt (((List.range ((t.maxIndex - t.index).toNat + 1)).map
              (fun (j : Nat) => t.index + (j : Int))).filter (valAt rec c st t))).map .int), st) := by
  have hd : t.index + ((t.maxIndex - t.index).toNat : Int) = t.maxIndex := by omega
  have hl := findLoop_spec rec c hc (t.maxIndex - t.index).toNat st t [] n htr hd h0 hn
  have hback : (withTrace st { t with index := t.maxIndex }).updTrace t.tid (fun u => { u with index := t.index }) = st := by
    have : (withTrace st { t with index := t.maxIndex }).updTrace t.tid (fun u => { u with index := t.index }) = withTrace st t := by
      simp [St.updTrace, withTrace]
    rw [this]; exact withTrace_self st t htr
  simp only [opFind, htr, List.map_cons, List.map_nil, findTraces, St.traceIdx, find_single st t htr, Option.map_some,
    hl, List.nil_append, bind, Except.bind, hback, pure, Except.pure]

/-- **(count c) is the length of that list** — `count` expands to `(length (find c))` (the expansion equation is C15);
the length operator on a list value is the list length -/
theorem length_of_list (rec : St → Sx → Res) (st st1 : St) (e : Sx) (w : Bool) (xs : List Sx)
    (h : rec st e = .ok (.list w xs, st1)) : opLength rec st [e] = .ok (.int xs.length, st1) := by
  simp [opLength, h, bind, Except.bind, pure, Except.pure]

/-! ## position neutrality of `find/g` and `whenever` -/

/-- the epilogue of both scans puts every trace back to the index saved before the scan, whatever the loop did
to the indices (as long as the same traces are loaded) -/
theorem scan_restores (st : St) (ts0 : List Trace) (hnd : (ts0.map (·.tid)).Nodup)
    (hsame : st.tc.traces.map (·.tid) = ts0.map (·.tid)) :
    ∃ st', restorePrev st (indicesOf ts0) = .ok st' ∧ indicesOf st'.tc.traces = indicesOf ts0 ∧
      st'.out = st.out ∧ st'.frames = st.frames := by
  have hall : st.tc.traces.all (fun t => ((indicesOf ts0).lookup t.tid).isSome) = true := by
    rw [List.all_eq_true]
    intro t ht
    have : t.tid ∈ ts0.map (·.tid) := by rw [← hsame]; exact List.mem_map_of_mem (f := (·.tid)) ht
    obtain ⟨u, hu, hut⟩ := List.mem_map.1 this
    have := C03.lookup_indicesOf ts0 u hu hnd
    rw [hut] at this
    simp [this]
  refine ⟨{ st with tc := { st.tc with traces := setIndices st.tc.traces (indicesOf ts0) } }, by simp [restorePrev, hall], ?_, rfl, rfl⟩
  exact C03.restore_exact st.tc.traces ts0 hnd hsame

/-- one round of the shared loop: the condition is evaluated once, the body (`onHit`) exactly once iff it is truthy,
then every trace advances in lock-step; the loop ends when the first trace ends -/
theorem scanLoop_step {α} (rec : St → Sx → Res) (c : Sx) (onHit : St → α → Except Err (α × St)) (k : Nat)
    (st st1 : St) (acc : α) (v : Sx) (hv : rec st c = .ok (v, st1)) :
    scanLoop rec c onHit (k + 1) st acc =
      (match (if st1.truthy v then onHit st1 acc else .ok (acc, st1)) with
       | .error e => .error e
       | .ok (acc', st2) =>
         if (stepAll st2.tc.traces 1).2.isEmpty
         then scanLoop rec c onHit k { st2 with tc := { st2.tc with traces := (stepAll st2.tc.traces 1).1 } } acc'
         else .ok (acc', { st2 with tc := { st2.tc with traces := (stepAll st2.tc.traces 1).1 } })) := by
  simp only [scanLoop, hv, bind, Except.bind, pure, Except.pure]
  by_cases ht : st1.truthy v = true
  · simp only [ht, if_true]
    cases onHit st1 acc with
    | error e => rfl
    | ok p => obtain ⟨a, s⟩ := p; rfl
  · simp only [ht]
    rfl

/-! ## non-vacuity -/

example : (eval 8 C03.st0 (.list true [.op .FIND, .list true [.op .EQ, .sym "a" Option.none, .int 1]])).toOption.map
    (fun r => (match r.1 with | .list _ xs => xs.length | _ => 99, indicesOf r.2.tc.traces)) = some (1, [("t", 0)]) := by decide

end Wal.C04
