import Wal.Lemmas.Neu
/-!
# C04 / C03, globally — every completed evaluation is position-neutral

`Lemmas/Neu.lean`: for the restricted evaluator `Neu.evalN` (`eval` without `step`, `sample-at`, `unload`,
`set-scope`, `unset-scope`; a restriction of `eval`: `Neu.evalN_sub`), started with distinct trace ids, every evaluation
that completes — any expression, any nesting of `reval`, `find`, `count`, `whenever`, `find/g`, calls, scopes, groups, virtual
signals, macro expansion, `eval` of computed code, to any depth and any fuel — leaves **every trace index what it was
before**. This is the last sentence of C04 ("after any of these completes, every trace index is what it was before")
and the neutrality clause of C03, for every condition and body at once rather than under a hypothesis on them.
-/
namespace Wal.C04
open Wal

/-- **position neutrality of every completed evaluation** -/
theorem completed_evaluation_position_neutral (n : Nat) (st st' : St) (e v : Sx)
    (hnd : (st.tc.traces.map (·.tid)).Nodup) (h : Neu.evalN n st e = .ok (v, st')) :
    indicesOf st'.tc.traces = indicesOf st.tc.traces ∧ st'.tc.idxStack = st.tc.idxStack :=
  ⟨Neu.evalN_neutral n st e v st' hnd h, (Neu.evalN_all n st e v st' h).2.1.2.2⟩

/-- … and of the whole pipeline (macro expansion, optimize, resolve, evaluation) -/
theorem pipeline_position_neutral (m : Mode) (n : Nat) (st st' : St) (e v : Sx)
    (hnd : (st.tc.traces.map (·.tid)).Nodup) (h : Neu.walEvalN m n st e = .ok (v, st')) :
    indicesOf st'.tc.traces = indicesOf st.tc.traces := Neu.walEvalN_neutral m n st st' e v hnd h

/-- the restricted evaluation is an evaluation -/
theorem neutral_restricted_is_evaluation (n : Nat) (st : St) (e : Sx) (r : Sx × St) (h : Neu.evalN n st e = .ok r) :
    eval n st e = .ok r := Neu.evalN_sub n st e r h

/-- the hypotheses are satisfiable: a `whenever` whose condition and body nest relative evaluations, started at
index 1 of the one-trace state of `C03.lean`, is completed by the restricted evaluator -/
example : ((Neu.evalN 9 { C03.st0 with tc := { C03.st0.tc with traces := [{ C03.tr with index := 1 }] } }
      (.list true [.op .WHENEVER, .list true [.op .REL_EVAL, .sym "a" Option.none, .int 1],
        .list true [.op .REL_EVAL, .sym "a" Option.none, .int (-1)]])).toOption.map
      (fun r => (match r.1 with | .int i => i | _ => -1, indicesOf r.2.tc.traces)) = some (1, [("t", 1)]))
    ∧ (C03.st0.tc.traces.map (·.tid)).Nodup := by decide

/-- … and `find` (hence `count`) over a condition that nests a relative evaluation: hits 1 and 2 from index 1, back at 1 -/
example : (Neu.evalN 9 { C03.st0 with tc := { C03.st0.tc with traces := [{ C03.tr with index := 1 }] } }
      (.list true [.op .FIND, .list true [.op .REL_EVAL, .sym "a" Option.none, .int 1]])).toOption.map
      (fun r => (match r.1 with | .list _ xs => xs.length | _ => 99, indicesOf r.2.tc.traces)) = some (2, [("t", 1)]) := by decide

end Wal.C04
