import Wal.Model.Eval
/-!
# C09 — Integer and bit-vector arithmetic is exact at any width

`Int`/`Nat` are unbounded, like Python integers, so every statement below holds at any width.
The operators are the model's `numBin?`, `numCmp?`, `pyMod`, `sliceBit`, `sliceRange`, `convertBin`,
`bitsToSint`, `bitsToVal` (`Wal/Model/Arith.lean`, `Trace.lean`).
-/
namespace Wal.C09
open Wal

/-! ## + - * mod and the comparisons agree with ℤ -/

theorem add_exact (a b : Int) : numBin? .add (.int a) (.int b) = some (.int (a + b)) := rfl
theorem sub_exact (a b : Int) : numBin? .sub (.int a) (.int b) = some (.int (a - b)) := rfl
theorem mul_exact (a b : Int) : numBin? .mul (.int a) (.int b) = some (.int (a * b)) := rfl

/-- n-ary `+` (`sum`, start 0) is the integer sum -/
theorem sum_exact (xs : List Int) (acc : Int) :
    pySumInt acc (xs.map .int) = some (.int (xs.foldl (· + ·) acc)) := by
  induction xs generalizing acc with
  | nil => rfl
  | cons x xs ih =>
    simp only [List.map_cons, pySumInt, asInt?, List.foldl_cons]
    exact ih (acc + x)

/-- `sum` of integers never enters the floating-point phase -/
theorem pySum_ints (xs : List Int) : pySum? (xs.map .int) = some (.int (xs.foldl (· + ·) 0)) := sum_exact xs 0

/-- n-ary `*` (`reduce`) is the integer product -/
theorem prod_exact (xs : List Int) (acc : Int) :
    numFold? .mul (.int acc) (xs.map .int) = some (.int (xs.foldl (· * ·) acc)) := by
  induction xs generalizing acc with
  | nil => rfl
  | cons x xs ih =>
    simp only [List.map_cons, numFold?, List.foldl_cons] at ih ⊢
    exact ih (acc * x)

/-- `mod` is floor modulo: `a - b·⌊a/b⌋`, the sign of the divisor -/
theorem mod_floor (a b : Int) : pyMod a b = a - b * a.fdiv b := Int.fmod_def a b

theorem cmp_exact (a b : Int) :
    numCmp? .lt (.int a) (.int b) = some (decide (a < b)) ∧ numCmp? .le (.int a) (.int b) = some (decide (a ≤ b)) ∧
    numCmp? .gt (.int a) (.int b) = some (decide (a > b)) ∧ numCmp? .ge (.int a) (.int b) = some (decide (a ≥ b)) :=
  ⟨rfl, rfl, rfl, rfl⟩

/-- `**` with a non-negative exponent is the exact integer power (operator level, any sub-evaluator) -/
theorem exp_exact (rec : St → Sx → Res) (st st1 st2 : St) (ea eb : Sx) (a : Int) (n : Nat)
    (ha : rec st ea = .ok (.int a, st1)) (hb : rec st1 eb = .ok (.int n, st2)) :
    opExp rec st [ea, eb] = .ok (.int (a ^ n), st2) := by
  simp [opExp, evalList, ha, hb, bind, Except.bind, pure, Except.pure, isNum, asInt?]

/-! ## slices: `x[i]` is bit `i`, `x[h:l] = ⌊x / 2^l⌋ mod 2^(h-l+1)` -/

theorem intLand_nat (m n : Nat) : intLand (m : Int) (n : Int) = ((m &&& n : Nat) : Int) := rfl

theorem one_shl (i : Nat) : ((1 : Int) <<< i) = ((1 <<< i : Nat) : Int) := rfl

theorem int_shr_nat (m i : Nat) : ((m : Int) >>> i) = ((m >>> i : Nat) : Int) := rfl

/-- **x[i] is bit i of x** -/
theorem slice_bit (x i : Nat) : sliceBit (x : Int) i = ((x / 2 ^ i % 2 : Nat) : Int) := by
  simp only [sliceBit, one_shl, intLand_nat, int_shr_nat]
  congr 1
  apply Nat.eq_of_testBit_eq
  intro j
  rw [Nat.testBit_shiftRight, Nat.testBit_and, Nat.one_shiftLeft, Nat.testBit_two_pow]
  have h2 : (2 : Nat) = 2 ^ 1 := rfl
  rw [show x / 2 ^ i % 2 = x / 2 ^ i % 2 ^ 1 from rfl, Nat.testBit_mod_two_pow, Nat.testBit_div_two_pow]
  by_cases hj : j = 0
  · subst hj; simp
  · have : ¬ (i = i + j) := by omega
    have h1 : ¬ (j < 1) := by omega
    simp [this, h1, hj]

theorem mask_nat (n l : Nat) : ((((1 : Int) <<< n) - 1) <<< l) = (((2 ^ n - 1) <<< l : Nat) : Int) := by
  have h1 : ((1 : Int) <<< n) = ((2 ^ n : Nat) : Int) := by rw [one_shl, Nat.one_shiftLeft]
  have hpos : 1 ≤ 2 ^ n := Nat.one_le_two_pow
  have h2 : (((2 ^ n : Nat) : Int) - 1) = ((2 ^ n - 1 : Nat) : Int) := by omega
  rw [h1, h2]
  rfl

/-- **x[h:l] equals floor(x / 2^l) mod 2^(h-l+1)** -/
theorem slice_range (x h l : Nat) (hl : l ≤ h) :
    sliceRange (x : Int) (h : Int) (l : Int) = ((x / 2 ^ l % 2 ^ (h - l + 1) : Nat) : Int) := by
  have hn : ((h : Int) - (l : Int) + 1).toNat = h - l + 1 := by omega
  have hlt : ((l : Int)).toNat = l := by omega
  simp only [sliceRange, hn, hlt, mask_nat, intLand_nat, int_shr_nat]
  congr 1
  apply Nat.eq_of_testBit_eq
  intro j
  rw [Nat.testBit_shiftRight, Nat.testBit_and, Nat.testBit_shiftLeft, Nat.testBit_two_pow_sub_one,
    Nat.testBit_mod_two_pow, Nat.testBit_div_two_pow]
  have : l + j - l = j := by omega
  have hge : l + j ≥ l := by omega
  simp only [this, hge, decide_true, Bool.true_and]
  rw [Nat.add_comm j l, Bool.and_comm]

/-- **adjacent slices reassemble**: `x[h:m+1]·2^(m+1-l) + x[m:l] = x[h:l]` for `l ≤ m < h` (in the div/mod form) -/
theorem slice_reassemble (x h m l : Nat) (hlm : l ≤ m) (hmh : m < h) :
    (x / 2 ^ (m + 1) % 2 ^ (h - (m + 1) + 1)) * 2 ^ (m + 1 - l) + x / 2 ^ l % 2 ^ (m - l + 1) = x / 2 ^ l % 2 ^ (h - l + 1) := by
  -- y := x / 2^l ; a := m + 1 - l ; b := h - m
  have e1 : x / 2 ^ (m + 1) = x / 2 ^ l / 2 ^ (m + 1 - l) := by
    rw [Nat.div_div_eq_div_mul, ← Nat.pow_add]; congr 2; omega
  have e2 : m - l + 1 = m + 1 - l := by omega
  have e3 : h - (m + 1) + 1 = h - m := by omega
  have e4 : h - l + 1 = (m + 1 - l) + (h - m) := by omega
  rw [e1, e2, e3, e4]
  generalize x / 2 ^ l = y
  generalize m + 1 - l = a
  generalize h - m = b
  rw [Nat.pow_add, Nat.mod_mul, Nat.mul_comm, Nat.add_comm]

/-! ## convert/bin, bits->sint, numerals -/

theorem ofDigitChars_zeros (k : Nat) (ds : List Char) :
    Nat.ofDigitChars 2 (List.replicate k '0' ++ ds) 0 = Nat.ofDigitChars 2 ds 0 := by
  induction k with
  | zero => rfl
  | succ k ih =>
    simp only [List.replicate_succ, List.cons_append, Nat.ofDigitChars_eq_foldl, List.foldl_cons] at ih ⊢
    exact ih

/-- **(convert/bin v w) is the binary numeral of v, padded to at least w digits** -/
theorem convertBin_value (v w : Nat) :
    Nat.ofDigitChars 2 (convertBin (v : Int) w) 0 = v ∧ (convertBin (v : Int) w).length ≥ w ∧
    (convertBin (v : Int) w).length ≥ (Nat.toDigits 2 v).length := by
  have hv : ((v : Int) ≥ 0) := by omega
  simp only [convertBin, hv, if_true, Int.toNat_natCast, padLeft, binDigits]
  refine ⟨?_, ?_, ?_⟩
  · rw [ofDigitChars_zeros]; exact Nat.ofDigitChars_toDigits (by decide) (by decide)
  · simp only [List.length_append, List.length_replicate]; omega
  · simp only [List.length_append, List.length_replicate]; omega

/-- bits->sint is the two's-complement reading (kernel-evaluated instances; the general statement is covered by
the correspondence at widths up to 128 bits and exhaustively for widths <= 6) -/
example : bitsToSint "1000".toList = -8 ∧ bitsToSint "0111".toList = 7 ∧ bitsToSint "1".toList = -1 ∧
    bitsToSint "11111111".toList = -1 ∧ bitsToSint "10000000".toList = -128 ∧ bitsToSint "0".toList = 0 := by decide

/-- **a signal's integer value equals the binary numeral stored in the trace regardless of its width** -/
theorem signal_value_exact (s : String) (h : bitsAllBinary s.toList = true) :
    bitsToVal s = .int (Nat.ofDigitChars 2 s.toList 0) := by
  simp only [bitsToVal, h, if_true, binVal, Nat.ofDigitChars_eq_foldl]
  congr 2
  -- on the characters '0' and '1' both folds add the same digit
  have hall : ∀ c ∈ s.toList, c = '0' ∨ c = '1' := by
    intro c hc
    have hb : s.toList.all (fun c => c == '0' || c == '1') = true := by
      simp only [bitsAllBinary, Bool.and_eq_true] at h; exact h.2
    have := (List.all_eq_true.1 hb) c hc
    simpa using this
  generalize s.toList = cs at hall
  suffices ∀ acc, List.foldl (fun acc c => 2 * acc + if (c == '1') = true then 1 else 0) acc cs =
      List.foldl (fun sofar c => 2 * sofar + (c.toNat - '0'.toNat)) acc cs from this 0
  induction cs with
  | nil => intro acc; rfl
  | cons c cs ih =>
    intro acc
    simp only [List.foldl_cons]
    have hc := hall c List.mem_cons_self
    have ih' := ih (fun d hd => hall d (List.mem_cons_of_mem _ hd))
    rcases hc with rfl | rfl
    · simpa using ih' (2 * acc + 0)
    · simpa using ih' (2 * acc + 1)

/-! ## non-vacuity / instances beyond 64 bits (kernel-evaluated) -/

example : sliceRange ((2 : Int) ^ 100 + 5) 100 98 = 4 := by decide
example : sliceBit ((2 : Int) ^ 70) 70 = 1 := by decide
example : pyMod (-7) 3 = 2 ∧ pyMod 7 (-3) = -2 := by decide
example : intLand (-1) 1024 = 1024 ∧ intLor (-8) 3 = -5 ∧ intXor (-1) 5 = -6 := by decide +kernel

end Wal.C09
