import Wal.Model.Eval
/-!
# C14 — List/array library agrees with the sequence and finite-map model; lists immutable

Lists are immutable *values* in the model, so "never modify a list that is still reachable" is a statement about
the implementation; it is established by the correspondence (a second reference is held to every argument and
compared after the call). Proved here: each list built-in on list values *is* the named `List` function (for every
evaluator of the operand), and the array store refines a finite map with insertion order (`assocSet`, `assocDel`).
-/
namespace Wal.C14
open Wal

/-! ## list built-ins = the mathematical sequence operation -/

theorem first_spec (rec : St → Sx → Res) (st st1 : St) (e : Sx) (w : Bool) (x : Sx) (xs : List Sx)
    (h : rec st e = .ok (.list w (x :: xs), st1)) : opListAccess selFirst rec st [e] = .ok (x, st1) := by
  simp [opListAccess, h, bind, Except.bind, selFirst, pure, Except.pure]

theorem first_empty_errors (rec : St → Sx → Res) (st st1 : St) (e : Sx) (w : Bool)
    (h : rec st e = .ok (.list w [], st1)) : ∃ er, opListAccess selFirst rec st [e] = .error er := by
  simp only [opListAccess, h, bind, Except.bind, selFirst]
  exact ⟨_, rfl⟩

theorem second_spec (rec : St → Sx → Res) (st st1 : St) (e : Sx) (w : Bool) (x y : Sx) (xs : List Sx)
    (h : rec st e = .ok (.list w (x :: y :: xs), st1)) : opListAccess selSecond rec st [e] = .ok (y, st1) := by
  simp [opListAccess, h, bind, Except.bind, selSecond, pure, Except.pure]

theorem last_spec (rec : St → Sx → Res) (st st1 : St) (e : Sx) (w : Bool) (xs : List Sx) (x : Sx)
    (h : rec st e = .ok (.list w xs, st1)) (hl : xs.getLast? = some x) : opListAccess selLast rec st [e] = .ok (x, st1) := by
  simp [opListAccess, h, bind, Except.bind, selLast, hl, pure, Except.pure]

/-- `rest` is the tail (the empty list for lists of length 0 and 1) -/
theorem rest_spec (rec : St → Sx → Res) (st st1 : St) (e : Sx) (w : Bool) (xs : List Sx)
    (h : rec st e = .ok (.list w xs, st1)) : ∃ w', opListAccess selRest rec st [e] = .ok (.list w' xs.tail, st1) := by
  simp only [opListAccess, h, bind, Except.bind, pure, Except.pure]
  match xs with
  | [] => exact ⟨false, rfl⟩
  | [_] => exact ⟨false, rfl⟩
  | _ :: y :: r => exact ⟨w, rfl⟩

theorem length_spec (rec : St → Sx → Res) (st st1 : St) (e : Sx) (w : Bool) (xs : List Sx)
    (h : rec st e = .ok (.list w xs, st1)) : opLength rec st [e] = .ok (.int xs.length, st1) := by
  simp [opLength, h, bind, Except.bind, pure, Except.pure]

/-- `list` builds the sequence of its evaluated operands, in order -/
theorem list_spec (rec : St → Sx → Res) (st st1 : St) (args vs : List Sx)
    (h : evalList rec st args = .ok (vs, st1)) : opList rec st args = .ok (.list true vs, st1) := by
  simp [opList, h, bind, Except.bind, pure, Except.pure]

/-- `+` on two lists is concatenation (`++`) -/
theorem append_lists_spec (rec : St → Sx → Res) (st st1 : St) (a b : Sx) (w1 w2 : Bool) (xs ys : List Sx)
    (h : evalList rec st [a, b] = .ok ([.list w1 xs, .list w2 ys], st1)) :
    ∃ w, opAdd rec st [a, b] = .ok (.list w (xs ++ ys), st1) := by
  simp only [opAdd, h, bind, Except.bind, pure, Except.pure]
  simp [isList]

/-- `+` of a list and a non-list appends the element (what the library macro `append` relies on) -/
theorem append_elem_spec (rec : St → Sx → Res) (st st1 : St) (a b : Sx) (w1 : Bool) (xs : List Sx) (i : Int)
    (h : evalList rec st [a, b] = .ok ([.list w1 xs, .int i], st1)) :
    ∃ w, opAdd rec st [a, b] = .ok (.list w (xs ++ [.int i]), st1) := by
  simp only [opAdd, h, bind, Except.bind, pure, Except.pure]
  simp [isList]

/-- `zip` is `List.zip` (pairs as two-element lists; truncates to the shorter list) -/
theorem zip_spec (rec : St → Sx → Res) (st st1 : St) (a b : Sx) (w1 w2 : Bool) (xs ys : List Sx)
    (h : evalList rec st [a, b] = .ok ([.list w1 xs, .list w2 ys], st1)) :
    opZip rec st [a, b] = .ok (.list false ((xs.zip ys).map (fun p => .list false [p.1, p.2])), st1) := by
  simp [opZip, h, bind, Except.bind, pure, Except.pure]

/-- `map` with a built-in operator applies it to every element in order (`mapLoop` = monadic `List.map`) -/
theorem mapLoop_length (call : St → Sx → Res) : ∀ (xs : List Sx) (st st' : St) (vs : List Sx),
    mapLoop call st xs = .ok (vs, st') → vs.length = xs.length := by
  intro xs
  induction xs with
  | nil => intro st st' vs h; simp [mapLoop] at h; simp [h.1.symm]
  | cons x xs ih =>
    intro st st' vs h
    simp only [mapLoop, bind, Except.bind, pure, Except.pure] at h
    cases hc : call st x with
    | error e => simp [hc] at h
    | ok p =>
      obtain ⟨v, st1⟩ := p
      simp only [hc] at h
      cases hm : mapLoop call st1 xs with
      | error e => simp [hm] at h
      | ok q =>
        obtain ⟨ws, st2⟩ := q
        simp only [hm, Except.ok.injEq, Prod.mk.injEq] at h
        obtain ⟨rfl, _⟩ := h
        simp [ih st1 st2 ws hm]

/-- a state-neutral element function makes `mapLoop` the plain `List.map` -/
theorem mapLoop_pure (call : St → Sx → Res) (f : Sx → Sx) (st : St) (hf : ∀ x, call st x = .ok (f x, st)) :
    ∀ xs, mapLoop call st xs = .ok (xs.map f, st) := by
  intro xs
  induction xs with
  | nil => rfl
  | cons x xs ih => simp [mapLoop, hf x, ih, bind, Except.bind, pure, Except.pure]

/-- likewise `fold` is `List.foldl` -/
theorem foldLoop_pure (call : St → Sx → Sx → Res) (f : Sx → Sx → Sx) (st : St) (hf : ∀ a x, call st a x = .ok (f a x, st)) :
    ∀ xs acc, foldLoop call st acc xs = .ok (xs.foldl f acc, st) := by
  intro xs
  induction xs with
  | nil => intro acc; rfl
  | cons x xs ih => intro acc; simp [foldLoop, hf acc x, ih, bind, Except.bind]

/-- `range` with one argument is `0 … n-1` -/
theorem range_spec (n : Nat) : pyRange 0 n 1 = (List.range n).map (fun (i : Nat) => (i : Int)) := by
  unfold pyRange
  simp only [show (1 : Int) > 0 by decide, if_true]
  by_cases hn : n = 0
  · subst hn; simp
  · have : ¬ ((n : Int) ≤ 0) := by omega
    simp only [this, if_false]
    have h1 : (((n : Int) - 0 + 1 - 1) / 1).toNat = n := by simp
    rw [h1]
    apply List.map_congr_left
    intro i _
    omega

/-- membership: `in` is `∈` up to Python equality -/
theorem in_spec_ints (x : Int) (xs : List Int) : pyIn? (.int x) (xs.map .int) = some (decide (x ∈ xs)) := by
  induction xs with
  | nil => rfl
  | cons y ys ih =>
    simp only [List.map_cons, pyIn?, pyEq?]
    by_cases h : y = x
    · subst h; simp
    · have : (y == x) = false := by simpa using h
      simp only [this, ih, List.mem_cons]
      have hx : ¬ x = y := fun e => h e.symm
      simp [hx]

/-! ## arrays refine a finite map with insertion order -/

/-- the abstract finite map: what `geta` reads -/
def get (m : List (String × Sx)) (k : String) : Option Sx := m.lookup k

theorem seta_get (m : List (String × Sx)) (k : String) (v : Sx) : get (assocSet m k v) k = some v := by
  induction m with
  | nil => simp [assocSet, get, List.lookup]
  | cons p m ih =>
    obtain ⟨k', v'⟩ := p
    by_cases h : (k' == k) = true
    · simp [assocSet, h, get, List.lookup]
    · have h' : (k' == k) = false := by simpa using h
      have h2 : (k == k') = false := by
        simp only [beq_eq_false_iff_ne, ne_eq] at h' ⊢; exact fun e => h' e.symm
      simp only [assocSet, h', Bool.false_eq_true, if_false, get, List.lookup, h2]
      exact ih

theorem seta_other (m : List (String × Sx)) (k k' : String) (v : Sx) (hne : k' ≠ k) :
    get (assocSet m k v) k' = get m k' := by
  induction m with
  | nil =>
    have : (k' == k) = false := by simpa using hne
    simp [assocSet, get, List.lookup, this]
  | cons p m ih =>
    obtain ⟨a, b⟩ := p
    by_cases h : (a == k) = true
    · have ha : a = k := by simpa using h
      subst ha
      have : (k' == a) = false := by simpa using hne
      simp [assocSet, get, List.lookup, this]
    · have h' : (a == k) = false := by simpa using h
      simp only [assocSet, h', Bool.false_eq_true, if_false, get, List.lookup]
      cases (k' == a) <;> simp only [] <;> first | exact ih | rfl

/-- **insertion order**: updating an existing key keeps its position, a new key goes to the end -/
theorem seta_order (m : List (String × Sx)) (k : String) (v : Sx) :
    (assocSet m k v).map (·.1) = if assocHas m k then m.map (·.1) else m.map (·.1) ++ [k] := by
  induction m with
  | nil => simp [assocSet, assocHas]
  | cons p m ih =>
    obtain ⟨a, b⟩ := p
    by_cases h : (a == k) = true
    · have ha : a = k := by simpa using h
      simp [assocSet, h, assocHas, ha]
    · have h' : (a == k) = false := by simpa using h
      simp only [assocSet, h', Bool.false_eq_true, if_false, List.map_cons, ih, assocHas, List.any_cons, Bool.false_or]
      split <;> rename_i hh <;> simp [hh]

theorem dela_spec (m : List (String × Sx)) (k k' : String) :
    get (assocDel m k) k' = if k' = k then Option.none else get m k' := by
  induction m with
  | nil => simp [assocDel, get, List.lookup]
  | cons p m ih =>
    obtain ⟨a, b⟩ := p
    simp only [assocDel, get] at ih ⊢
    by_cases ha : a = k
    · subst ha
      simp only [List.filter_cons, bne_self_eq_false, Bool.false_eq_true, if_false]
      by_cases hk : k' = a
      · simp [hk] at ih ⊢; simpa using ih
      · have : (k' == a) = false := by simpa using hk
        simp [List.lookup, this, hk] at ih ⊢; exact ih
    · have hne : (a != k) = true := by simpa using ha
      simp only [List.filter_cons, hne, if_true, List.lookup]
      by_cases hk : (k' == a) = true
      · have : k' = a := by simpa using hk
        subst this
        simp [ha]
      · have hk' : (k' == a) = false := by simpa using hk
        simp only [hk']
        exact ih

/-- `length` counts exactly the surviving entries: a new key adds one, an update adds none -/
theorem seta_length (m : List (String × Sx)) (k : String) (v : Sx) :
    (assocSet m k v).length = if assocHas m k then m.length else m.length + 1 := by
  have := congrArg List.length (seta_order m k v)
  simp only [List.length_map] at this
  rw [this]; split <;> simp

/-- **geta of a missing key is an error** (operator level) -/
theorem geta_missing_errors (rec : St → Sx → Res) (st st1 : St) (a k : Sx) (r : Nat) (ks : String) (kvs : List (String × Sx))
    (h : evalArrKey rec st a k = .ok (r, ks, st1)) (ha : st1.arr? r = some kvs) (hm : kvs.lookup ks = Option.none) :
    ∃ er, opGeta rec st [a, k] = .error er := by
  simp only [opGeta, h, bind, Except.bind, ha, Option.bind, hm]
  exact ⟨_, rfl⟩

/-- keys are compared by their textual form: integer 1, string "1" and symbol 1 are one key -/
example : keyStr? (.int 1) = keyStr? (.str "1") ∧ keyStr? (.str "1") = keyStr? (.sym "1" Option.none) := by decide

/-- aliasing: two names for one array are one heap cell, so an update through one is seen through the other (kernel-evaluated) -/
example : (eval 12 { arrays := #[] } (.list true [.op .DO,
      .list true [.op .DEFINE, .sym "a" Option.none, .list true [.op .ARRAY]],
      .list true [.op .DEFINE, .sym "b" Option.none, .sym "a" Option.none],
      .list true [.op .SETA, .sym "a" Option.none, .int 1, .int 7],
      .list true [.op .GETA, .sym "b" Option.none, .str "1"]])).toOption.map (fun r => match r.1 with | .int i => i | _ => -1) = some 7 := by decide

end Wal.C14
