import Wal.Model.Eval
/-!
# C19 — Resampling and trimming re-index the trace consistently

`Trace.setSamplingPoints` (model of `set_sampling_points` of the VCD/CSV readers) and
`Trace.setMaxIndex` (`trim-trace`). `L' = dedup L` are the distinct selected samples in list order.
-/
namespace Wal.C19
open Wal

/-- all entries of `L` are valid original indices -/
def ValidIdx (t : Trace) (l : List Int) : Prop := ∀ i ∈ l, 0 ≤ i ∧ i < t.allTimestamps.length

theorem pyIdx_valid {α} (xs : List α) (i : Int) (h : 0 ≤ i ∧ i < xs.length) : pyIdx? xs i = xs[i.toNat]? := by
  have : ¬ i < 0 := by omega
  simp [pyIdx?, this]

theorem mapM_valid (t : Trace) (l : List Int) (h : ValidIdx t l) :
    l.mapM (fun i => pyIdx? t.allTimestamps i) = some (l.map (fun i => t.allTimestamps[i.toNat]?.getD 0)) := by
  induction l with
  | nil => rfl
  | cons i l ih =>
    have hi := h i List.mem_cons_self
    have hl : ValidIdx t l := fun j hj => h j (List.mem_cons_of_mem _ hj)
    have hlt : i.toNat < t.allTimestamps.length := by omega
    simp [List.mapM_cons, pyIdx_valid _ i hi, ih hl, List.getElem?_eq_getElem hlt]

/-- the resampled trace, for valid lists -/
theorem sample_some (t : Trace) (l : List Int) (h : ValidIdx t l) :
    t.setSamplingPoints l = some { t with
      lookup := some (dedup l),
      timestamps := dedup (l.map (fun i => t.allTimestamps[i.toNat]?.getD 0)),
      index := 0,
      maxIndex := ((dedup (l.map (fun i => t.allTimestamps[i.toNat]?.getD 0))).length : Int) - 1,
      virt := t.virt.map (fun v => { v with cache := [] }) } := by
  simp [Trace.setSamplingPoints, mapM_valid t l h]

/-- **INDEX is 0 after resampling** -/
theorem sample_index0 (t t' : Trace) (l : List Int) (h : t.setSamplingPoints l = some t') : t'.index = 0 := by
  unfold Trace.setSamplingPoints at h
  split at h
  · simp at h
  · simp only [Option.some.injEq] at h; subst h; rfl

/-! ### `dedup` commutes with an injective map -/

theorem mem_dedup {α} [BEq α] [LawfulBEq α] (x : α) (l : List α) : x ∈ dedup l ↔ x ∈ l := by
  induction l with
  | nil => simp [dedup]
  | cons y l ih =>
    simp only [dedup, List.mem_cons, List.mem_filter, ih]
    constructor
    · rintro (h | ⟨h, _⟩)
      · exact Or.inl h
      · exact Or.inr h
    · rintro (h | h)
      · exact Or.inl h
      · by_cases hxy : x = y
        · exact Or.inl hxy
        · exact Or.inr ⟨h, by simpa using hxy⟩

theorem dedup_map_inj {α β} [BEq α] [LawfulBEq α] [BEq β] [LawfulBEq β] (f : α → β) (l : List α)
    (hinj : ∀ a ∈ l, ∀ b ∈ l, f a = f b → a = b) : dedup (l.map f) = (dedup l).map f := by
  induction l with
  | nil => rfl
  | cons x l ih =>
    have hinj' : ∀ a ∈ l, ∀ b ∈ l, f a = f b → a = b :=
      fun a ha b hb => hinj a (List.mem_cons_of_mem _ ha) b (List.mem_cons_of_mem _ hb)
    simp only [List.map_cons, dedup, ih hinj', List.filter_map]
    congr 1
    apply congrArg
    apply List.filter_congr
    intro a ha
    have ha' : a ∈ l := (mem_dedup a l).1 ha
    show (f a != f x) = (a != x)
    by_cases hax : a = x
    · subst hax; simp
    · have : f a ≠ f x := fun e => hax (hinj a (List.mem_cons_of_mem _ ha') x List.mem_cons_self e)
      have h1 : (f a != f x) = true := by simpa using this
      have h2 : (a != x) = true := by simpa using hax
      rw [h1, h2]

theorem dedup_nodup {α} [BEq α] [LawfulBEq α] (l : List α) : (dedup l).Nodup := by
  induction l with
  | nil => simp [dedup]
  | cons x l ih =>
    simp only [dedup, List.nodup_cons, List.mem_filter]
    exact ⟨by simp, List.Nodup.sublist List.filter_sublist ih⟩

/-- timestamps identify samples (well-formed traces: strictly increasing `#` markers) -/
def TsDistinct (t : Trace) : Prop := t.allTimestamps.Nodup

/-- **MAX-INDEX is the number of distinct selected samples minus one, and TS at new index `j` is the
original timestamp of the `j`-th distinct selected sample** -/
theorem sample_ts (t t' : Trace) (l : List Int) (hv : ValidIdx t l) (hd : TsDistinct t)
    (h : t.setSamplingPoints l = some t') :
    t'.timestamps = (dedup l).map (fun i => t.allTimestamps[i.toNat]?.getD 0) ∧
    t'.maxIndex = ((dedup l).length : Int) - 1 ∧ t'.lookup = some (dedup l) ∧ t'.data = t.data ∧
    t'.allTimestamps = t.allTimestamps := by
  rw [sample_some t l hv] at h
  simp only [Option.some.injEq] at h; subst h
  have hinj : ∀ a ∈ l, ∀ b ∈ l, (t.allTimestamps[a.toNat]?.getD 0) = (t.allTimestamps[b.toNat]?.getD 0) → a = b := by
    intro a ha b hb e
    have ha' := hv a ha
    have hb' := hv b hb
    have hla : a.toNat < t.allTimestamps.length := by omega
    have hlb : b.toNat < t.allTimestamps.length := by omega
    rw [List.getElem?_eq_getElem hla, List.getElem?_eq_getElem hlb] at e
    simp only [Option.getD_some] at e
    have := (List.getElem_inj hd).1 e
    omega
  rw [dedup_map_inj _ l hinj]
  simp

/-- **every signal at new index `j` reports what the original trace reports at the `j`-th distinct selected sample** -/
theorem sample_value (t t' : Trace) (l : List Int) (hv : ValidIdx t l) (hd : TsDistinct t)
    (h : t.setSamplingPoints l = some t') (name : String) (col : List String) (hc : t.data.lookup name = some col)
    (j : Nat) (hj : j < (dedup l).length) :
    t'.access name j = pyIdx? col ((dedup l)[j]) := by
  obtain ⟨_, _, hl, hdat, _⟩ := sample_ts t t' l hv hd h
  unfold Trace.access
  rw [hdat, hc, hl]
  generalize hdl : dedup l = dl at hj
  cases dl with
  | nil => simp at hj
  | cons x xs =>
    have hneg : ¬ ((j : Int) < 0) := by omega
    simp only [hneg, if_false, Int.toNat_natCast, List.getElem?_eq_getElem hj]

/-- **indices given to a later sample-at always refer to the original, unsampled trace** -/
theorem resample_refers_to_original (t t1 : Trace) (l1 l2 : List Int) (h1 : t.setSamplingPoints l1 = some t1) :
    t1.setSamplingPoints l2 = t.setSamplingPoints l2 := by
  unfold Trace.setSamplingPoints at h1
  split at h1
  · simp at h1
  · simp only [Option.some.injEq] at h1; subst h1
    simp only [Trace.setSamplingPoints, List.map_map]
    rfl

/-- **trim-trace only lowers MAX-INDEX to min(m, MAX-INDEX) and leaves every value unchanged** -/
theorem trim_spec (t : Trace) (m : Int) :
    (t.setMaxIndex m).maxIndex = min m t.maxIndex ∧
    (∀ name i, (t.setMaxIndex m).access name i = t.access name i) ∧
    (t.setMaxIndex m).timestamps = t.timestamps ∧ (t.setMaxIndex m).index = t.index := by
  refine ⟨rfl, ?_, rfl, rfl⟩
  intro name i
  rfl

/-! ## non-vacuity -/

def demo : Trace :=
  { tid := "t", file := "f", maxIndex := 4, timestamps := [0, 5, 10, 15, 20], allTimestamps := [0, 5, 10, 15, 20],
    rawsignals := ["a"], data := [("a", ["0", "1", "10", "11", "100"])] }

example : ValidIdx demo [0, 2, 2, 4] ∧ TsDistinct demo := by
  constructor
  · intro i hi; simp [demo] at hi ⊢; omega
  · simp [TsDistinct, demo]

example : ((demo.setSamplingPoints [0, 2, 2, 4]).map (fun t => (t.timestamps, t.maxIndex, t.access "a" 2))) =
    some ([0, 10, 20], 2, some "100") := by decide

end Wal.C19
