import Wal.Model.Eval
/-!
# C02 — Time navigation is exact and bounds-safe

Statements about the model of `Trace.step`, `TraceContainer.step` and the `step` operator
(`Wal/Model/Trace.lean`, `Wal/Model/Eval.lean::opStep`). Unbounded: every trace length, amount,
number of traces and history of requests.
-/
namespace Wal.C02
open Wal

/-- the index of a trace is a valid time index -/
def InRange (t : Trace) : Prop := 0 ≤ t.index ∧ t.index ≤ t.maxIndex

/-- the target of a request by `k` lies inside the trace -/
def TargetIn (t : Trace) (k : Int) : Prop := 0 ≤ t.index + k ∧ t.index + k ≤ t.maxIndex

instance (t : Trace) (k : Int) : Decidable (TargetIn t k) := by unfold TargetIn; infer_instance

theorem oob_iff (t : Trace) (k : Int) : t.oob k = true ↔ ¬ TargetIn t k := by
  unfold Trace.oob TargetIn
  simp only [Bool.or_eq_true, decide_eq_true_eq]
  omega

/-- **exactness**: a request whose target is in range moves the trace by exactly `k` and reports success -/
theorem step_exact_in (t : Trace) (k : Int) (h : TargetIn t k) :
    t.step k = ({ t with index := t.index + k }, true) := by
  have : t.oob k = false := by
    cases hb : t.oob k with
    | false => rfl
    | true => exact absurd h ((oob_iff t k).1 hb)
  simp [Trace.step, this]

/-- **bounds safety**: a request whose target is out of range does not move the trace and reports failure -/
theorem step_exact_out (t : Trace) (k : Int) (h : ¬ TargetIn t k) : t.step k = (t, false) := by
  have : t.oob k = true := (oob_iff t k).2 h
  simp [Trace.step, this]

/-- success is reported iff the target is in range -/
theorem step_reports (t : Trace) (k : Int) : (t.step k).2 = true ↔ TargetIn t k := by
  by_cases h : TargetIn t k
  · simp [step_exact_in t k h, h]
  · simp [step_exact_out t k h, h]

/-- a single step preserves the invariant and nothing but the index -/
theorem step_inv (t : Trace) (k : Int) (h : InRange t) : InRange (t.step k).1 := by
  by_cases hk : TargetIn t k
  · rw [step_exact_in t k hk]; exact hk
  · rw [step_exact_out t k hk]; exact h

theorem step_only_index (t : Trace) (k : Int) :
    (t.step k).1 = { t with index := (t.step k).1.index } := by
  by_cases hk : TargetIn t k
  · rw [step_exact_in t k hk]
  · rw [step_exact_out t k hk]

/-! ## the container: global and named requests -/

theorem stepAll_fst (ts : List Trace) (k : Int) : (stepAll ts k).1 = ts.map (fun t => (t.step k).1) := by
  induction ts with
  | nil => rfl
  | cons t ts ih => simp [stepAll, ih]

/-- every trace moves iff its *own* target is in range -/
theorem stepAll_each (ts : List Trace) (k : Int) :
    (stepAll ts k).1 = ts.map (fun t => if TargetIn t k then { t with index := t.index + k } else t) := by
  rw [stepAll_fst]
  apply List.map_congr_left
  intro t _
  by_cases h : TargetIn t k
  · simp [step_exact_in t k h, h]
  · simp [step_exact_out t k h, h]

/-- the global request reports success (no ended trace) iff every trace's target is in range
(trace ids are non-empty: the loader never registers an empty id in the domain of the property) -/
theorem stepAll_success (ts : List Trace) (k : Int) (hid : ∀ t ∈ ts, t.tid ≠ "") :
    (stepAll ts k).2 = [] ↔ ∀ t ∈ ts, TargetIn t k := by
  induction ts with
  | nil => simp [stepAll]
  | cons t ts ih =>
    have hid' : ∀ t ∈ ts, t.tid ≠ "" := fun x hx => hid x (List.mem_cons_of_mem _ hx)
    have ht : t.tid ≠ "" := hid t List.mem_cons_self
    by_cases h : TargetIn t k
    · simp [stepAll, step_exact_in t k h, h, ih hid']
    · simp [stepAll, step_exact_out t k h, h, ht]

/-- the list of ended traces names exactly the traces whose target is out of range -/
theorem stepAll_ended (ts : List Trace) (k : Int) (hid : ∀ t ∈ ts, t.tid ≠ "") :
    (stepAll ts k).2 = (ts.filter (fun t => !decide (TargetIn t k))).map (·.tid) := by
  induction ts with
  | nil => rfl
  | cons t ts ih =>
    have hid' : ∀ t ∈ ts, t.tid ≠ "" := fun x hx => hid x (List.mem_cons_of_mem _ hx)
    have ht : t.tid ≠ "" := hid t List.mem_cons_self
    by_cases h : TargetIn t k
    · simp [stepAll, step_exact_in t k h, h, ih hid']
    · simp [stepAll, step_exact_out t k h, h, ht, ih hid']

theorem stepAll_inv (ts : List Trace) (k : Int) (h : ∀ t ∈ ts, InRange t) : ∀ t ∈ (stepAll ts k).1, InRange t := by
  rw [stepAll_fst]
  intro t ht
  obtain ⟨t0, h0, rfl⟩ := List.mem_map.1 ht
  exact step_inv t0 k (h t0 h0)

/-- **isolation**: stepping a named trace never changes any trace with another id, and keeps the order and ids -/
theorem stepNamed_isolation (ts : List Trace) (tid : String) (k : Int) (ts' : List Trace) (e : List String)
    (h : stepNamed ts tid k = some (ts', e)) :
    ts'.length = ts.length ∧ ∀ i (hi : i < ts.length) (hi' : i < ts'.length), ts[i].tid ≠ tid → ts'[i] = ts[i] := by
  induction ts generalizing ts' e with
  | nil => simp [stepNamed] at h
  | cons t ts ih =>
    unfold stepNamed at h
    by_cases ht : (t.tid == tid) = true
    · simp only [ht, if_true] at h
      injection h with h; injection h with h1 h2; subst h1
      refine ⟨by simp, ?_⟩
      intro i hi hi' hne
      cases i with
      | zero => simp at hne; exact absurd (by simpa using ht) hne
      | succ i => simp
    · simp only [ht] at h
      cases hrec : stepNamed ts tid k with
      | none => simp [hrec] at h
      | some p =>
        obtain ⟨ts1, e1⟩ := p
        simp only [hrec] at h
        injection h with h; injection h with h1 h2; subst h1
        obtain ⟨hl, hrest⟩ := ih ts1 e1 hrec
        refine ⟨by simp [hl], ?_⟩
        intro i hi hi' hne
        cases i with
        | zero => simp
        | succ i =>
          simp only [List.getElem_cons_succ] at hne ⊢
          exact hrest i (by simpa using hi) (by simpa using hi') hne

/-- the named trace itself (first with that id) moves exactly like a single trace -/
theorem stepNamed_target (ts : List Trace) (tid : String) (k : Int) (ts' : List Trace) (e : List String)
    (h : stepNamed ts tid k = some (ts', e)) :
    ∃ i, ∃ (hi : i < ts.length) (hi' : i < ts'.length), ts[i].tid = tid ∧ ts'[i] = (ts[i].step k).1 ∧
      (∀ j (hj : j < ts.length), j < i → ts[j].tid ≠ tid) := by
  induction ts generalizing ts' e with
  | nil => simp [stepNamed] at h
  | cons t ts ih =>
    unfold stepNamed at h
    by_cases ht : (t.tid == tid) = true
    · simp only [ht, if_true] at h
      injection h with h; injection h with h1 h2; subst h1
      exact ⟨0, by simp, by simp, by simpa using ht, by simp, by intro j _ hj; omega⟩
    · simp only [ht] at h
      cases hrec : stepNamed ts tid k with
      | none => simp [hrec] at h
      | some p =>
        obtain ⟨ts1, e1⟩ := p
        simp only [hrec] at h
        injection h with h; injection h with h1 h2; subst h1
        obtain ⟨i, hi, hi', h1, h2, h3⟩ := ih ts1 e1 hrec
        refine ⟨i + 1, by simpa using hi, by simpa using hi', by simpa using h1, by simpa using h2, ?_⟩
        intro j hj hlt
        cases j with
        | zero => simpa using ht
        | succ j => simpa using h3 j (by simpa using hj) (by omega)

theorem stepNamed_inv (ts : List Trace) (tid : String) (k : Int) (ts' : List Trace) (e : List String)
    (h : stepNamed ts tid k = some (ts', e)) (hin : ∀ t ∈ ts, InRange t) : ∀ t ∈ ts', InRange t := by
  induction ts generalizing ts' e with
  | nil => simp [stepNamed] at h
  | cons t ts ih =>
    unfold stepNamed at h
    by_cases ht : (t.tid == tid) = true
    · simp only [ht, if_true] at h
      injection h with h; injection h with h1 h2; subst h1
      intro x hx
      rcases List.mem_cons.1 hx with rfl | hx
      · exact step_inv t k (hin t List.mem_cons_self)
      · exact hin x (List.mem_cons_of_mem _ hx)
    · simp only [ht] at h
      cases hrec : stepNamed ts tid k with
      | none => simp [hrec] at h
      | some p =>
        obtain ⟨ts1, e1⟩ := p
        simp only [hrec] at h
        injection h with h; injection h with h1 h2; subst h1
        intro x hx
        rcases List.mem_cons.1 hx with rfl | hx
        · exact hin x List.mem_cons_self
        · exact ih ts1 e1 hrec (fun y hy => hin y (List.mem_cons_of_mem _ hy)) x hx

/-! ## every reachable position is in range: induction over the history of requests -/

/-- navigation requests as they reach the container -/
inductive Nav where
  | all (k : Int)                    -- (step), (step k), set-index, (step (- INDEX))
  | named (tid : String) (k : Int)   -- (step "tid"), (step tid… k) one id at a time
  deriving Repr

def Nav.apply (ts : List Trace) : Nav → List Trace
  | .all k => (stepAll ts k).1
  | .named tid k => match stepNamed ts tid k with
    | some (ts', _) => ts'
    | Option.none => ts          -- unknown id: the request raises and nothing changes

def run (ts : List Trace) (ops : List Nav) : List Trace := ops.foldl Nav.apply ts

theorem apply_inv (ts : List Trace) (op : Nav) (h : ∀ t ∈ ts, InRange t) : ∀ t ∈ op.apply ts, InRange t := by
  cases op with
  | all k => exact stepAll_inv ts k h
  | named tid k =>
    simp only [Nav.apply]
    cases hs : stepNamed ts tid k with
    | none => simpa using h
    | some p => obtain ⟨ts', e⟩ := p; exact stepNamed_inv ts tid k ts' e hs h

/-- **every loaded trace's index stays within 0..MAX-INDEX at all times** -/
theorem inv_reachable (ts : List Trace) (ops : List Nav) (h : ∀ t ∈ ts, InRange t) : ∀ t ∈ run ts ops, InRange t := by
  induction ops generalizing ts with
  | nil => simpa [run] using h
  | cons op ops ih => exact ih (op.apply ts) (apply_inv ts op h)

/-- a freshly loaded trace with at least one timestamp starts in range -/
theorem loaded_in_range (t : Trace) (h0 : t.index = 0) (hm : 0 ≤ t.maxIndex) : InRange t := by
  simp [InRange, h0, hm]

/-! ## what is observed afterwards is the resulting index -/

theorem observe_index (t : Trace) (multi : Bool) (scope : String) (h : InRange t) :
    t.signalValue multi "INDEX" scope = .val (.int t.index) := by
  obtain ⟨h1, h2⟩ := h
  simp [Trace.signalValue, h1, h2, specialSignals]

theorem observe_ts (t : Trace) (multi : Bool) (scope : String) (ts : Int) (h : InRange t)
    (hts : pyIdx? t.timestamps t.index = some ts) :
    t.signalValue multi "TS" scope = .val (.int ts) := by
  obtain ⟨h1, h2⟩ := h
  simp [Trace.signalValue, h1, h2, specialSignals, hts]

/-! ## the `step` operator (all argument forms reduce to the container requests above) -/

/-- `(step)` -/
theorem opStep_nullary (rec : St → Sx → Res) (st : St) (h : st.tc.traces ≠ []) :
    opStep rec st [] = .ok (.bool (stepAll st.tc.traces 1).2.isEmpty,
      { st with tc := { st.tc with traces := (stepAll st.tc.traces 1).1 } }) := by
  have : st.tc.traces.isEmpty = false := by
    cases hh : st.tc.traces with
    | nil => exact absurd hh h
    | cons _ _ => rfl
  simp [opStep, this]

/-- `(step e)` with `e` evaluating to an integer `k` -/
theorem opStep_amount (rec : St → Sx → Res) (st st1 : St) (e : Sx) (k : Int)
    (h : st.tc.traces ≠ []) (he : rec st e = .ok (.int k, st1)) :
    opStep rec st [e] = .ok (.bool (stepAll st1.tc.traces k).2.isEmpty,
      { st1 with tc := { st1.tc with traces := (stepAll st1.tc.traces k).1 } }) := by
  have : st.tc.traces.isEmpty = false := by
    cases hh : st.tc.traces with
    | nil => exact absurd hh h
    | cons _ _ => rfl
  simp [opStep, this, he, bind, Except.bind, asInt?, pure, Except.pure]

/-! ## non-vacuity -/

def demo : Trace :=
  { tid := "t", file := "f", maxIndex := 3, timestamps := [0, 5, 10, 15], allTimestamps := [0, 5, 10, 15],
    rawsignals := ["a"], data := [("a", ["0", "1", "0", "1"])] }

example : InRange demo ∧ TargetIn demo 3 ∧ ¬ TargetIn demo 4 ∧ ¬ TargetIn demo (-1) := by
  simp [InRange, TargetIn, demo]
example : (demo.step 3).1.index = 3 ∧ (demo.step 4).1.index = 0 := by decide

end Wal.C02
