import Wal.Model.Wire
/-!
# C15 — Standard-library forms and user macros equal their defining equations

Everything here is about `Gen.stdEnv`, the global frame of a fresh interpreter, **regenerated from
`wal/libs/std/std.wal` on every run** by the translator: an edit of the library source changes the generated term
and the theorems below are re-checked against it.

* *Expansion equations*: the model's `expand` (the real macro bodies, run by the model evaluator in the generated
  environment) maps each library form to its documented long form. Operands are the opaque symbols `c`, `a`, `b`, …;
  the library macros never inspect their operands (they only splice them), which is what `hygienic` below checks
  syntactically for the binders. The equations are stated on the printed text (`walStrCode`) and proved by kernel
  evaluation.
* *Hygiene*: `reader_no_dollar`-style freshness — gensym names start with `$`, and `template_hygienic`: in no library
  macro template does a literal (non-gensym) binder scope over an unquoted user operand.
* *User macros* (`macro_args_unevaluated`): `expand` binds the parameters to the argument *expressions*.
-/
namespace Wal.C15
open Wal

/-- expansion of a form in the initial environment (gensym counter reset so that the temporaries are `$1`, `$2`, …) -/
def expandText (e : Sx) : Option String :=
  match expand (eval 80) (some 0) 80 { Wire.initSt with gensym := 0 } e with
  | .ok (r, _) => walStrCode (optimize r)
  | .error _ => Option.none

def s (n : String) : Sx := .sym n Option.none
def call (f : String) (args : List Sx) : Sx := .list true (s f :: args)

/-! ## expansion equations (kernel-evaluated against the regenerated library) -/

theorem when_eq : expandText (call "when" [s "c", s "a", s "b"]) = some "(if c (do a b))" := by decide +kernel
theorem unless_eq : expandText (call "unless" [s "c", s "a", s "b"]) = some "(if (! c) (do a b))" := by decide +kernel
theorem cond_eq : expandText (call "cond" [.list true [s "c1", s "a"], .list true [s "else", s "e"]]) =
    some "(if c1 a e)" := by decide +kernel
theorem cond_else_only : expandText (call "cond" [.list true [s "else", s "e"]]) = some "e" := by decide +kernel
theorem cond_first_only : expandText (call "cond" [.list true [s "c1", s "a"], .list true [s "c2", s "b"]]) =
    some "(if c1 a (if c2 b))" := by decide +kernel
theorem cond_empty : expandText (call "cond" []) = some "(do)" := by decide +kernel
theorem forlist_eq : expandText (call "for/list" [.list true [s "e", s "xs"], s "a", s "b"]) =
    some "(map (fn (e) (do a b)) xs)" := by decide +kernel
theorem for_eq : expandText (call "for" [.list true [s "e", s "xs"], s "a"]) =
    some "(let (($1 (map (fn (e) a) xs))) (if $1 (last $1) '()))" := by decide +kernel
theorem dowhile_eq : expandText (call "dowhile" [s "a", s "b", s "c"]) = some "(do a b (while c a b))" := by decide +kernel
theorem until_eq : expandText (call "until" [s "c", s "a", s "b"]) = some "(while (! c) a b)" := by decide +kernel
theorem inc_eq : expandText (call "inc" [s "x", s "y"]) = some "(set (x (+ x 1)) (y (+ y 1)))" := by decide +kernel
theorem dec_eq : expandText (call "dec" [s "x"]) = some "(set (x (if (defined? 'x) (- x 1) -1)))" := by decide +kernel
theorem setbang_eq : expandText (call "set!" [s "k", s "v"]) = some "(set (k v))" := by decide +kernel
theorem defun_eq : expandText (call "defun" [s "f", .list true [s "p", s "q"], s "a", s "b"]) =
    some "(define f (fn (p q) f a b))" := by decide +kernel
theorem car_eq : expandText (call "car" [s "xs"]) = some "(first xs)" := by decide +kernel
theorem cdr_eq : expandText (call "cdr" [s "xs"]) = some "(rest xs)" := by decide +kernel
theorem cadr_eq : expandText (call "cadr" [s "xs"]) = some "(first (rest xs))" := by decide +kernel
theorem rising_eq : expandText (call "rising" [s "e"]) = some "(&& (= e 0) (= (reval e 1) 1))" := by decide +kernel
theorem falling_eq : expandText (call "falling" [s "e"]) = some "(&& (= e 1) (= (reval e 1) 0))" := by decide +kernel
theorem stable_eq : expandText (call "stable" [s "e"]) = some "(= e (reval e 1))" := by decide +kernel
theorem unstable_eq : expandText (call "unstable" [s "e"]) = some "(!= e (reval e 1))" := by decide +kernel
theorem always_eq : expandText (call "always" [s "a", s "b"]) = some "(whenever true a b)" := by decide +kernel
theorem step_until_eq : expandText (call "step-until" [s "c"]) = some "(while (&& (! c) (step)) INDEX)" := by decide +kernel
theorem step_while_eq : expandText (call "step-while" [s "c"]) = some "(while (&& c (step)) INDEX)" := by decide +kernel
theorem count_eq : expandText (call "count" [s "c"]) = some "(length (find c))" := by decide +kernel
theorem signed_eq : expandText (call "signed" [s "sig"]) = some "(bits->sint (convert/bin sig (signal-width 'sig)))" := by decide +kernel
theorem sum_eq : expandText (call "sum" [s "xs"]) = some "(fold + 0 xs)" := by decide +kernel
theorem timeframe_eq : expandText (call "timeframe" [s "a", s "b"]) =
    some "(let (($1 (ALL-INDICES)) ($2 (do a b))) (let (($3 (map (fn (trace) (in-group (first trace) (step (- (second trace) INDEX)))) $1))) (if $3 (last $3) '())) $2)" := by
  decide +kernel

/-! ## user macros: arguments unevaluated, expansion before evaluation -/

/-- a state with the user macro `(defmacro m [p q] `(list ',p ,q))` -/
def stM : St :=
  match eval 30 { Wire.initSt with gensym := 0 } (.list true [.op .DEFMACRO, s "m", .list true [s "p", s "q"],
      .list true [.op .QUASIQUOTE, .list true [.op .LIST, .list true [.op .QUOTE, .unq (s "p")], .unq (s "q")]]]) with
  | .ok (_, st) => st
  | .error _ => Wire.initSt

/-- the macro receives `(print 1)` unevaluated (it ends up under a quote; nothing is printed by the expansion) -/
theorem macro_args_unevaluated :
    (match expand (eval 40) (some 0) 40 stM (call "m" [.list true [.op .PRINT, .int 1], s "y"]) with
     | .ok (r, st) => (walStrCode r, st.out)
     | .error _ => (Option.none, [])) = (some "(list '(print 1) y)", []) := by decide +kernel

/-! ## hygiene -/

/-- temporaries are `$n`: the name starts with a character that no symbol written in a program can start with
(the reader's symbol terminal starts with a letter, `_`, `.` or `\`) -/
theorem gensym_dollar (st : St) : ∃ n st', opGensym st = .ok (.sym n (some 0), st') ∧ n.toList.head? = some '$' ∧ st'.gensym = st.gensym + 1 := by
  refine ⟨_, _, rfl, ?_, rfl⟩
  simp [String.toList_append]

theorem gensym_fresh (st : St) : (st.gensym + 1 ≠ st.gensym) := by omega

mutual
/-- inside a quasiquote template: `lit` = "some literal (non-unquoted) binder is in scope";
the template is hygienic if no unquoted operand occurs where a literal binder is in scope (quoted data excepted) -/
def hyg (lit : Bool) : Sx → Bool
  | .unq _ => !lit
  | .unqs _ => !lit
  | .list _ (.op .QUOTE :: _) => true
  | .list _ [.op .LET, .list _ binds, body] => hygBinds lit binds && hyg (lit || hasLitBinder binds) body
  | .list _ (.op .LET :: .list _ binds :: b1 :: b2 :: rest) =>
    hygBinds lit binds && hygList (lit || hasLitBinder binds) (b1 :: b2 :: rest)
  | .list _ (.op .FN :: .list _ ps :: body) => hygList (lit || ps.any isSym) body
  | .list _ (.sym "for" _ :: .list _ [b, e] :: body) => hyg lit e && hygList (lit || isSym b) body
  | .list _ (.sym "for/list" _ :: .list _ [b, e] :: body) => hyg lit e && hygList (lit || isSym b) body
  | .list _ xs => hygList lit xs
  | _ => true
def hygList (lit : Bool) : List Sx → Bool
  | [] => true
  | x :: r => hyg lit x && hygList lit r
def hygBinds (lit : Bool) : List Sx → Bool
  | [] => true
  | .list _ [_, e] :: r => hyg lit e && hygBinds lit r
  | _ :: r => hygBinds lit r
def hasLitBinder : List Sx → Bool
  | [] => false
  | .list _ (.sym _ _ :: _) :: _ => true
  | _ :: r => hasLitBinder r
end

mutual
/-- all quasiquote templates of a macro body -/
def templatesOk : Sx → Bool
  | .list _ [.op .QUASIQUOTE, t] => hyg false t
  | .list _ xs => templatesOkList xs
  | _ => true
def templatesOkList : List Sx → Bool
  | [] => true
  | x :: r => templatesOk x && templatesOkList r
end

def macroBodies : List Sx := Gen.stdEnv.filterMap (fun p => match p.2 with | .mac _ _ b => some b | _ => Option.none)

/-- **temporaries introduced by library macros never capture a user variable, whatever its name**: in every template of
`std.wal` / `module.wal`, every binder that scopes over an unquoted operand is itself an unquote (a gensym or a name the
user supplied) -/
theorem template_hygienic : macroBodies.all templatesOk = true := by decide +kernel

/-- non-vacuity: the check rejects the shape that `partition` used to have -/
example : hyg false (.list true [.op .FOLD, .list true [.op .FN, .list true [s "acc", s "x"],
    .list true [.unq (s "pred"), s "x"]], .unq (s "xs")]) = false := by decide

end Wal.C15
