import Wal.Lemmas.Mono
/-!
# C06 — Core evaluator: lexical scoping, closures, left-to-right single evaluation

Operator-level laws of the model evaluator (`Wal/Model/Eval.lean`), each against an arbitrary evaluator `rec`
of the sub-terms. The reference semantics the implementation is compared with in the correspondence is an
independent textbook evaluator (`harness/gen_prog.py::Ref`); the laws below are the properties of the model that
make it a lexically scoped, applicative-order, left-to-right evaluator.
-/
namespace Wal.C06
open Wal

/-! ## order and single evaluation -/

/-- **operands are evaluated left to right, each exactly once, threading the state**: the evaluation of a list of
operands *is* the evaluation of the first operand followed by the evaluation of the rest in the resulting state -/
theorem evalList_seq (rec : St → Sx → Res) (st : St) (a : Sx) (as : List Sx) :
    evalList rec st (a :: as) =
      (match rec st a with
       | .error e => .error e
       | .ok (v, st1) => (match evalList rec st1 as with
          | .error e => .error e
          | .ok (vs, st2) => .ok (v :: vs, st2))) := by
  simp only [evalList, bind, Except.bind, pure, Except.pure]
  cases rec st a with
  | error e => rfl
  | ok p =>
    obtain ⟨v, st1⟩ := p
    simp only
    cases evalList rec st1 as with
    | error e => rfl
    | ok q => obtain ⟨vs, st2⟩ := q; rfl

theorem evalList_length (rec : St → Sx → Res) : ∀ (as : List Sx) (st st' : St) (vs : List Sx),
    evalList rec st as = .ok (vs, st') → vs.length = as.length := by
  intro as
  induction as with
  | nil => intro st st' vs h; simp [evalList] at h; simp [h.1.symm]
  | cons a as ih =>
    intro st st' vs h
    rw [evalList_seq] at h
    cases hr : rec st a with
    | error e => simp [hr] at h
    | ok p =>
      obtain ⟨v, st1⟩ := p
      simp only [hr] at h
      cases hl : evalList rec st1 as with
      | error e => simp [hl] at h
      | ok q =>
        obtain ⟨ws, st2⟩ := q
        simp only [hl, Except.ok.injEq, Prod.mk.injEq] at h
        obtain ⟨rfl, _⟩ := h
        simp [ih st1 st2 ws hl]

/-! ## closures: definition-site environment, arguments in the caller's environment -/

/-- a function value captures the environment of its **definition site** -/
theorem fn_captures_definition_env (st : St) (ps b : Sx) (bs : List Sx) (v : Sx) (st' : St)
    (h : opFn st (ps :: b :: bs) = .ok (v, st')) :
    ∃ name, v = .clo st.env ps (.list true (.op .DO :: b :: bs)) name ∧ st' = st := by
  simp only [opFn] at h
  split at h <;> split at h <;>
    first
    | (simp only [Except.ok.injEq, Prod.mk.injEq] at h; exact ⟨_, h.1.symm, h.2.symm⟩)
    | (simp at h)

/-- **a call evaluates the body in a fresh frame whose parent is the captured environment — not the caller's —
and the caller's environment is current again afterwards**; the arguments are evaluated first, in the caller's
environment (`bindParams` runs in `st`) -/
theorem call_frame (rec : St → Sx → Res) (st : St) (cenv : Nat) (ps body : Sx) (nm : String) (args : List Sx)
    (binds : List (String × Sx)) (st1 : St) (hb : bindParams rec st ps args = .ok (binds, st1))
    (hlive : cenv < st1.frames.size) :
    evalClosure rec st (.clo cenv ps body nm) args =
      (match rec { (st1.pushFrame (some cenv) binds).1 with env := (st1.pushFrame (some cenv) binds).2 } body with
       | .error e => .error e
       | .ok (v, st3) => .ok (v, { st3 with env := st.env })) := by
  have hg : ¬ (cenv ≥ st1.frames.size) := by omega
  simp only [evalClosure, hb, bind, Except.bind, pure, Except.pure, hg, if_false]
  cases rec { (st1.pushFrame (some cenv) binds).1 with env := (st1.pushFrame (some cenv) binds).2 } body with
  | error e => rfl
  | ok p => obtain ⟨v, st3⟩ := p; rfl

theorem call_env_restored (rec : St → Sx → Res) (st st' : St) (clo : Sx) (args : List Sx) (v : Sx)
    (h : evalClosure rec st clo args = .ok (v, st')) : st'.env = st.env := by
  cases clo with
  | clo cenv ps body nm =>
    simp only [evalClosure, bind, Except.bind, pure, Except.pure] at h
    cases hb : bindParams rec st ps args with
    | error e => simp [hb] at h
    | ok p =>
      obtain ⟨binds, st1⟩ := p
      simp only [hb] at h
      split at h
      · simp at h
      · split at h
        · simp at h
        · simp only [Except.ok.injEq, Prod.mk.injEq] at h
          rw [← h.2]
  | _ => simp [evalClosure] at h

/-- **calling a function with the wrong number of arguments raises an error** -/
theorem arity_errors (rec : St → Sx → Res) (st : St) (cenv : Nat) (pl : List Sx) (body : Sx) (nm : String) (args : List Sx)
    (h : pl.length ≠ args.length) : ∃ e, evalClosure rec st (.clo cenv (.list true pl) body nm) args = .error e := by
  have : (pl.length != args.length) = true := by simpa using h
  simp only [evalClosure, bindParams, this, if_true, bind, Except.bind]
  exact ⟨_, rfl⟩

/-! ## let: sequential bindings that vanish with the let -/

/-- **let bindings are established sequentially**: the initialiser of a binding is evaluated with the let frame —
already holding the earlier bindings — as the current environment -/
theorem let_sequential (rec : St → Sx → Res) (fid : Nat) (st : St) (n : String) (k : Option Nat) (e : Sx) (r : List Sx) :
    letBind rec fid st (.list true [.sym n k, e] :: r) =
      (match rec st e with
       | .error er => .error er
       | .ok (v, st1) => (match st1.defineIn fid n v with
          | some st2 => letBind rec fid st2 r
          | Option.none => .error (errA "variable already defined"))) := by
  simp only [letBind, bind, Except.bind]
  cases rec st e with
  | error er => rfl
  | ok p => obtain ⟨v, st1⟩ := p; rfl

/-- **… and vanish with the let**: after the let the environment that was current before is current again -/
theorem let_vanishes (rec : St → Sx → Res) (st st' : St) (args : List Sx) (v : Sx)
    (h : opLet rec st args = .ok (v, st')) : st'.env = st.env := by
  unfold opLet at h
  split at h
  · simp only [bind, Except.bind, pure, Except.pure] at h
    split at h
    · simp at h
    · split at h
      · simp at h
      · split at h
        · simp at h
        · simp only [Except.ok.injEq, Prod.mk.injEq] at h
          rw [← h.2]
  · simp at h

/-! ## … for every expression: the environment is restored by every completed evaluation -/

/-- **whatever an expression does — `let`s, calls of closures, macro expansion, `eval` of computed code, scans,
any nesting of these — when its evaluation completes the environment that was current before is current again**
(`Glob.eval_P`: induction on the fuel, one lemma per operator of the model; `Glob.Ok` says the frame heap is acyclic
and the current environment allocated, which holds for the fresh interpreter and is itself preserved) -/
theorem eval_restores_env (n : Nat) (st st' : St) (e v : Sx) (hok : Glob.Ok st)
    (h : eval n st e = .ok (v, st')) : st'.env = st.env :=
  (Glob.eval_P n st e v st' h hok).2.1

/-- frames are never deallocated or re-parented by an evaluation: the heap only grows (closures keep their
definition environment alive) -/
theorem eval_frames_grow (n : Nat) (st st' : St) (e v : Sx) (hok : Glob.Ok st)
    (h : eval n st e = .ok (v, st')) : st.frames.size ≤ st'.frames.size :=
  (Glob.eval_P n st e v st' h hok).2.2

/-! ## the fuel of the model is not observable -/

/-- **a completed evaluation is unchanged by more fuel** (`Mono.eval_mono_le`: every operator is monotone in the
evaluator of its sub-terms and in its loop bounds) -/
theorem more_fuel_same_result (n m : Nat) (hnm : n ≤ m) (st : St) (e : Sx) (r : Sx × St)
    (h : eval n st e = .ok r) : eval m st e = .ok r := Mono.eval_mono_le n m hnm st e r h

/-- **evaluation is a function of the state and the expression**: two completed runs, whatever fuel each was given,
return the same value and the same state (result, output, variables, trace positions) -/
theorem evaluation_deterministic (st : St) (e : Sx) (r r' : Sx × St)
    (h : Mono.Evals st e r) (h' : Mono.Evals st e r') : r = r' := Mono.Evals_det st e r r' h h'

/-! ## define / set -/

/-- `define` binds in the **current** frame and returns the value -/
theorem define_current_frame (rec : St → Sx → Res) (st st1 st2 : St) (n : String) (k : Option Nat) (e v : Sx)
    (he : rec st e = .ok (v, st1)) (hd : st1.defineIn st1.env n v = some st2) :
    opDefine rec st [.sym n k, e] = .ok (v, st2) := by
  simp [opDefine, he, hd, bind, Except.bind, pure, Except.pure]

/-- **redefining a name in the same scope raises an error** -/
theorem redefine_errors (rec : St → Sx → Res) (st st1 : St) (n : String) (k : Option Nat) (e v : Sx) (f : Frame)
    (he : rec st e = .ok (v, st1)) (hf : st1.frames[st1.env]? = some f) (hhas : assocHas f.vars n = true) :
    ∃ er, opDefine rec st [.sym n k, e] = .error er := by
  have : st1.defineIn st1.env n v = Option.none := by simp [St.defineIn, hf, hhas]
  simp only [opDefine, he, this, bind, Except.bind]
  exact ⟨_, rfl⟩

/-- **assignment updates the nearest enclosing binding** — the first frame on the chain from the current
environment that holds the name — so every closure whose chain contains that frame sees the new value -/
theorem set_nearest (rec : St → Sx → Res) (st st1 : St) (n : String) (e v : Sx) (j : Nat)
    (he : rec st e = .ok (v, st1)) (hj : st1.definedAt st1.env n = some j) :
    opSet rec st [.list true [.sym n Option.none, e]] = .ok (v, st1.setVar j n v) := by
  simp [opSet, setLoop, he, bind, Except.bind, pure, Except.pure, St.writeFrom, hj]

/-- **assigning to an undefined name raises an error** -/
theorem set_undefined_errors (rec : St → Sx → Res) (st st1 : St) (n : String) (e v : Sx)
    (he : rec st e = .ok (v, st1)) (hj : st1.definedAt st1.env n = Option.none) :
    ∃ er, opSet rec st [.list true [.sym n Option.none, e]] = .error er := by
  simp only [opSet, List.isEmpty_cons, Bool.false_eq_true, if_false, setLoop, he, bind, Except.bind, pure, Except.pure, St.writeFrom, hj]
  exact ⟨_, rfl⟩

/-- **using an unbound name raises an error** (no trace signal and no binding on the chain) -/
theorem unbound_errors (rec : St → Sx → Res) (st : St) (n : String)
    (hal : st.aliases.lookup n = Option.none) (hsig : st.tc.contains n = some false)
    (hun : st.readFrom st.env n = Option.none) : ∃ er, evalSym rec st n Option.none = .error er := by
  simp only [evalSym, hal, Option.getD_none, hsig, hun]
  exact ⟨_, rfl⟩

/-- a bound name reads the value of the nearest binding (which `set_nearest` updates) -/
theorem bound_reads (rec : St → Sx → Res) (st : St) (n : String) (v : Sx)
    (hal : st.aliases.lookup n = Option.none) (hsig : st.tc.contains n = some false)
    (hb : st.readFrom st.env n = some v) : evalSym rec st n Option.none = .ok (v, st) := by
  simp [evalSym, hal, hsig, hb]

/-! ## non-vacuity: a closure sees its definition site, not its caller (kernel-evaluated) -/

def prog : Sx :=   -- (do (define x 1) (define f (fn [] x)) (let ([x 2]) (f)))
  .list true [.op .DO,
    .list true [.op .DEFINE, .sym "x" Option.none, .int 1],
    .list true [.op .DEFINE, .sym "f" Option.none, .list true [.op .FN, .list true [], .sym "x" Option.none]],
    .list true [.op .LET, .list true [.list true [.sym "x" Option.none, .int 2]], .list true [.sym "f" Option.none]]]

example : (eval 12 {} prog).toOption.map (fun r => (match r.1 with | .int i => i | _ => -1, r.2.env)) = some (1, 0) := by decide

end Wal.C06
