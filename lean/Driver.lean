import Wal.Model.Wire
import Wal.Model.Reader
import Wal.Model.Wawk
import Wal.Model.WawkParse
import Wal.Lemmas.Neu
/-!
# `walmodel`: line-protocol driver around the executable model

One request per line on stdin, one reply per line on stdout. See `harness/model.py` for the client.
-/
open Wal Wal.Wire

def splitToks (line : String) : List String :=
  (line.trimAscii.toString.splitOn " ").filter (· ≠ "")

def showOut (st : St) : String := hexOfString (String.join st.out)

def showState (st : St) : String :=
  "st scope=" ++ hexOfString st.scope ++ " group=" ++ hexOfString st.group ++ " n=" ++ toString st.tc.nTraces
    ++ " stack=" ++ toString st.tc.idxStack.length ++ " env=" ++ toString st.env
    ++ " aliases=" ++ toString st.aliases.length
    ++ " idx=" ++ ",".intercalate (st.tc.traces.map (fun t => hexOfString t.tid ++ ":" ++ toString t.index ++ ":" ++ toString t.maxIndex))

def parseMode (flags : String) : Mode :=
  { expand := flags.toList.contains 'e', optimize := flags.toList.contains 'o', resolve := flags.toList.contains 'r' }

def step (st : St) (toks : List String) : St × String :=
  match toks with
  | ["reset"] => (initSt, "ok")
  | "loadvcd" :: tid :: file :: toks =>
    match unhex tid, unhex file, toks.mapM unhex with
    | some tid, some file, some ts =>
      if (st.tc.find? tid).isSome then (st, "err dup") else
      match loadVcdTokens tid file ts with
      | .ok t =>
        (match st.tc.load tid (.ok t) with
          | some c => ({ st with tc := c }, "ok")
          | Option.none => (st, "err load"))
      | .error (.error m) => (st, "err " ++ hexOfString m)
      | .error (.unsupported m) => (st, "unsup " ++ hexOfString m)
    | _, _, _ => (st, "bad-request")
  | ["loadcsv", tid, file, text] =>
    match unhex tid, unhex file, unhex text with
    | some tid, some file, some text =>
      if (st.tc.find? tid).isSome then (st, "err dup") else
      match loadCsvText tid file text with
      | some t =>
        (match st.tc.load tid (.ok t) with
          | some c => ({ st with tc := c }, "ok")
          | Option.none => (st, "err load"))
      | Option.none => (st, "err csv")
    | _, _, _ => (st, "bad-request")
  | ["loadfail", tid, kind] =>
    match unhex tid with
    | some tid =>
      let o : LoadOutcome := if kind == "ext" then .unsupportedExt else .readerError
      (match st.tc.load tid o with
        | some c => ({ st with tc := c }, "ok")
        | Option.none => (st, "err"))
    | Option.none => (st, "bad-request")
  | ["unload", tid] =>
    match unhex tid with
    | some tid => ({ st with tc := st.tc.unload tid }, "ok")
    | Option.none => (st, "bad-request")
  | "eval" :: flags :: fuel :: rest =>
    match fuel.toNat?, parseSx rest with
    | some n, some (e, []) =>
      let st0 := { st with out := [] }
      -- flag `g`: the glue of `Wal.eval` (`if sexpr is not None:`)
      let isNone := match e with | .none => true | _ => false
      if flags.toList.contains 'g' && isNone then (st, "ok N ; ") else
      (match walEval (parseMode flags) n st0 e with
        | .ok (v, st') => ({ st' with out := [] }, "ok " ++ showSx st'.arr? v ++ " ; " ++ showOut st')
        | .error .fuel => (st, "fuel")
        | .error (.unsupported m) => (st, "unsup " ++ hexOfString m)
        | .error (.error m) => (st, "err " ++ hexOfString m)
        | .error (.exit c) => (st, "exit " ++ toString c))
    | _, _ => (st, "bad-request")
  | "cover" :: flags :: fuel :: rest =>
    -- does the evaluation about to be requested fall under the global theorems? (no effect on the state)
    match fuel.toNat?, parseSx rest with
    | some n, some (e, []) =>
      let st0 := { st with out := [] }
      let r := match Bal.walEvalR (parseMode flags) n st0 e with | .ok _ => "1" | .error _ => "0"
      let f := match Opt.walEvalF n st0 e with | .ok _ => "1" | .error _ => "0"
      let c := match Res.walEvalC (parseMode flags) n st0 e with | .ok _ => "1" | .error _ => "0"
      let t := match Tid.walEvalT (parseMode flags) n st0 e with | .ok _ => "1" | .error _ => "0"
      let nn := match Neu.walEvalN (parseMode flags) n st0 e with | .ok _ => "1" | .error _ => "0"
      (st, "cov R" ++ r ++ " F" ++ f ++ " C" ++ c ++ " T" ++ t ++ " N" ++ nn)
    | _, _ => (st, "bad-request")
  | ["runreset"] =>
    -- `SEval.reset()` + reload of std: everything as on a fresh interpreter, the loaded traces rewound to index 0
    ({ initSt with tc := { st.tc with traces := st.tc.traces.map (fun t => { t with index := 0 }) } }, "ok")
  | ["state"] => (st, showState st)
  | "optimize" :: rest =>
    match parseSx rest with
    | some (e, []) => (st, "ok " ++ showSx st.arr? (optimize e))
    | _ => (st, "bad-request")
  | "resolve" :: names :: rest =>
    match parseSx rest, ((names.splitOn ",").filter (· ≠ "") |>.mapM unhex) with
    | some (e, []), some ns =>
      (match resolve ns e with
        | some r => (st, "ok " ++ showSx st.arr? r)
        | Option.none => (st, "err"))
    | _, _ => (st, "bad-request")
  | ["read", h] =>
    match unhex h with
    | some text =>
      (match readStr text with
        | .ok e => (st, "ok " ++ showSx st.arr? e)
        | .error .parse => (st, "perr")
        | .error (.unsupported m) => (st, "unsup " ++ hexOfString m))
    | Option.none => (st, "bad-request")
  | ["read"] =>
    (match readStr "" with
      | .ok e => (st, "ok " ++ showSx st.arr? e)
      | .error .parse => (st, "perr")
      | .error (.unsupported m) => (st, "unsup " ++ hexOfString m))
  | "print" :: rest =>
    match parseSx rest with
    | some (e, []) =>
      (match walStrCode e with
        | some s => (st, "ok " ++ hexOfString s)
        | Option.none => (st, "unsup"))
    | _ => (st, "bad-request")
  | "wawkparse" :: rest =>
    -- a list of token lists; the reply lists the transpiled forms (all must parse, as in one WAWK program)
    match parseSx rest with
    | some (.list _ tokLists, []) =>
      let tok? : Sx → Option Wawk.Tok := fun t => match t with
        | .list _ [.str s] =>
          (match s with
            | "||" => some (.op .or) | "&&" => some (.op .and) | "==" => some (.op .eq) | "!=" => some (.op .neq)
            | ">" => some (.op .gt) | "<" => some (.op .lt) | ">=" => some (.op .ge) | "<=" => some (.op .le)
            | "+" => some (.op .add) | "-" => some (.op .sub) | "*" => some (.op .mul) | "/" => some (.op .div)
            | "!" => some .bang | "(" => some .lp | ")" => some .rp
            | _ => Option.none)
        | a => some (.atom a)
      let one : Sx → Option (Option Sx) := fun tl => match tl with
        | .list _ toks => (toks.mapM tok?).map (fun ts => (Wawk.parseExpr ts).map (·.toSx))
        | _ => Option.none
      (match tokLists.mapM one with
        | some rs =>
          (match rs.mapM id with
            | some forms => (st, "ok " ++ showSx st.arr? (.list false forms))
            | Option.none => (st, "perr"))
        | Option.none => (st, "bad-request"))
    | _ => (st, "bad-request")
  | "wawkemit" :: rest =>
    match parseSx rest with
    | some (.list _ stmts, []) =>
      let prog := stmts.filterMap (fun s => match s with
        | .list _ [.list _ conds, action] => some ({ conds := conds, action := action } : Wawk.Stmt)
        | _ => Option.none)
      if prog.length != stmts.length then (st, "bad-request") else
      (match Wawk.emit prog with
        | some forms => (st, "ok " ++ showSx st.arr? (.list false forms))
        | Option.none => (st, "err"))
    | _ => (st, "bad-request")
  | ["normvar", h] =>
    match unhex h with
    | some s => (st, "ok " ++ hexOfString (normVarName s))
    | Option.none => (st, "bad-request")
  | ["normscope", h] =>
    match unhex h with
    | some s => (st, "ok " ++ hexOfString (normScopeName s))
    | Option.none => (st, "bad-request")
  | _ => (st, "bad-request")

partial def loop (hin hout : IO.FS.Stream) (st : St) : IO Unit := do
  let line ← hin.getLine
  if line.isEmpty then return ()
  let (st', reply) := step st (splitToks line)
  hout.putStrLn reply
  if line.trimAscii.toString == "flush" || reply == "bad-request" then hout.flush
  loop hin hout st'

def main : IO Unit := do
  let hin ← IO.getStdin
  let hout ← IO.getStdout
  loop hin hout initSt
  hout.flush
