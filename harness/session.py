"""Sessions: one list of steps, executed on the real implementation and on the Lean model.

Step kinds (tuples):
  ('loadvcd', tid, text)            Wal.load of a temp .vcd file holding `text`
  ('loadcsv', tid, text)
  ('loadfail', tid, kind)           kind in {'missing', 'ext'}; duplicate ids are ordinary loads of a used tid
  ('unload', tid)                   TraceContainer.unload
  ('eval', mode, text [, post])     text is read by the real reader; mode = subset of 'eorg'; post in {None,'sort'}
  ('evalast', mode, ast [, post])   same with a ready-made AST
  ('state',)                        observable interpreter context
Observations are canonical tuples; see compare().
"""
import copy
import os
import subprocess

from . import impl, wire
from .wire import hx, unhx

HERE = os.path.dirname(os.path.abspath(__file__))
DRIVER = os.path.join(HERE, '..', 'lean', '.lake', 'build', 'bin', 'walmodel')
FUEL = 400


# ------------------------------------------------------------------ implementation side

def _sortinner(c):
    if c[0] == 'L':
        items = tuple(_sortinner(x) for x in c[2])
        if items and all(x[0] == 'S' for x in items) and not c[1]:
            items = tuple(sorted(items))
        return ('L', c[1], items)
    return c


def _post(v, post):
    if post == 'sort' and v[0] == 'L':
        return ('L', v[1], tuple(sorted(v[2], key=repr)))
    if post == 'sortinner':
        return _sortinner(v)
    return v


def impl_state(w):
    ctx = w.eval_context
    tc = w.traces
    return ('st', ctx.scope, ctx.group, tc.n_traces, len(tc.index_stack),
            0 if ctx.environment is ctx.global_environment else 1, len(ctx.aliases),
            tuple((t.tid, t.index, t.max_index) for t in tc.traces.values()))


def wawk_emit(src):
    """parse_wawk + AST.emit as `wawk` runs them in a fresh process (the default-argument dict of find_variables is a
    process-wide accumulator; the command line tool transpiles one program per process)"""
    from wawk.ast_defs import AST
    d = AST.find_variables.__defaults__
    if d and isinstance(d[0], dict):
        d[0].clear()
    forms, symbols = AST(wawk_parse(src), '').emit()
    return list(forms), symbols


def _textmode(text):
    """what open(path).read() hands to the CSV reader: the model is given the file's text, line ends as the text layer reports them"""
    return text.replace('\r\n', '\n').replace('\r', '\n')


_PARSED = {}


def wawk_parse(src):
    """parse_wawk (the Earley parse takes about a second per program: memoised per process, handed out as copies)"""
    from wawk.parser import parse_wawk
    if src not in _PARSED:
        if len(_PARSED) > 8:
            _PARSED.clear()
        _PARSED[src] = parse_wawk(src)
    return copy.deepcopy(_PARSED[src])


def _tok_atom(t):
    from wal.ast_defs import Symbol
    return t[1] if t[0] in ('i', 's') else Symbol(t[1])


def tok_text(toks):
    return ' '.join(t[1] if t[0] in ('p', 'y') else str(t[1]) if t[0] == 'i' else '"' + t[1] + '"' for t in toks)


def wawk_parse_exprs(token_lists):
    """the forms the real parser builds for the expressions (texts of the token lists), or raises"""
    src = 'BEGIN: {\n' + '\n'.join(f'  v{k} = {tok_text(toks)};' for k, toks in enumerate(token_lists)) + '\n}\n'
    parsed = wawk_parse(src)
    action = parsed[0].action          # (do (set (v0 e0)) (set (v1 e1)) ...)
    return [a[1][1] for a in action[1:]]


def run_impl(steps, limit=5.0):
    """execute steps on a fresh interpreter; returns the list of observations (stops after an eval error)"""
    import contextlib
    import io
    w = impl.fresh()
    obs = []
    wd = impl.workdir()
    nfile = 0
    for st in steps:
        kind = st[0]
        if kind in ('loadvcd', 'loadcsv'):
            ext = '.vcd' if kind == 'loadvcd' else '.csv'
            nfile += 1
            path = os.path.join(wd, f'f{nfile}{ext}')
            with open(path, 'w', encoding='utf-8', newline='') as f:
                f.write(st[2])
            try:
                with impl.time_limit(limit), contextlib.redirect_stdout(io.StringIO()):
                    w.load(path, st[1])
                obs.append(('ok',))
            except impl.CaseTimeout:
                obs.append(('timeout',))
                break
            except BaseException as e:  # noqa: BLE001
                obs.append(('err', type(e).__name__))
            finally:
                os.unlink(path)
        elif kind == 'loadfail':
            path = os.path.join(wd, 'missing.vcd' if st[2] == 'missing' else 'trace.txt')
            try:
                with contextlib.redirect_stdout(io.StringIO()):
                    w.load(path, st[1])
                obs.append(('ok',))
            except BaseException as e:  # noqa: BLE001
                obs.append(('err', type(e).__name__))
        elif kind == 'unload':
            w.traces.unload(st[1])
            obs.append(('ok',))
        elif kind in ('eval', 'evalast'):
            mode = st[1]
            ast = impl.parse(st[2]) if kind == 'eval' else copy.deepcopy(st[2])
            post = st[3] if len(st) > 3 else None
            r = impl.run_eval(w, ast, mode, limit)
            if r[0] == 'ok':
                obs.append(('ok', _post(wire.canon(r[1]), post), r[2]))
            elif r[0] == 'err':
                obs.append(('err', r[1]))
                break
            elif r[0] == 'exit':
                obs.append(('exit', r[1]))
                break
            else:
                obs.append(('timeout',))
                break
        elif kind == 'state':
            obs.append(impl_state(w))
        elif kind == 'read':
            from . import c10
            obs.append(c10.read_one(st[1]))
        elif kind == 'print':
            from wal.util import wal_str
            try:
                obs.append(('ok', wal_str(impl.parse(st[1]) if isinstance(st[1], str) else st[1])))
            except BaseException as e:  # noqa: BLE001
                obs.append(('other', type(e).__name__))
        elif kind == 'wawkparse':
            # st[1]: list of token lists; all are parsed by the real parser in one program (one assignment each)
            try:
                obs.append(('ok', wire.canon(wawk_parse_exprs(st[1]))))
            except BaseException as e:  # noqa: BLE001
                obs.append(('err', type(e).__name__))
        elif kind == 'wawkemit':
            try:
                obs.append(('ok', wire.canon(wawk_emit(st[1])[0])))
            except BaseException as e:  # noqa: BLE001
                obs.append(('err', type(e).__name__))
        elif kind == 'run':
            # Wal.run: evaluate as on a freshly started interpreter with the same traces at index 0
            import contextlib as _c
            import io as _io
            buf = _io.StringIO()
            try:
                with impl.time_limit(limit), _c.redirect_stdout(buf):
                    v = w.run(impl.parse(st[1]))
                obs.append(('ok', wire.canon(v), buf.getvalue()))
            except impl.CaseTimeout:
                obs.append(('timeout',))
                break
            except BaseException as e:  # noqa: BLE001
                obs.append(('err', type(e).__name__))
                break
        else:
            raise ValueError(kind)
    return obs


# ------------------------------------------------------------------ model side

COVER = False           # set by a check that wants the theorem-coverage counts
COVER_COUNTS = {'evaluations': 0, 'balance_theorem_applies': 0, 'optimize_theorem_applies': 0, 'resolve_theorem_applies': 0, 'position_theorem_applies': 0, 'neutral_theorem_applies': 0}


def model_lines(steps):
    """request lines for one case (first line resets the model)"""
    lines = ['reset']
    nfile = 0
    for st in steps:
        kind = st[0]
        if kind == 'loadvcd':
            nfile += 1
            toks = st[2].split()
            lines.append(' '.join(['loadvcd', hx(st[1]) or '-', hx(f'f{nfile}.vcd')] + [hx(t) for t in toks]))
        elif kind == 'loadcsv':
            nfile += 1
            lines.append(' '.join(['loadcsv', hx(st[1]) or '-', hx(f'f{nfile}.csv'), hx(_textmode(st[2])) or '-']))
        elif kind == 'loadfail':
            lines.append(f'loadfail {hx(st[1])} {"ext" if st[2] == "ext" else "reader"}')
        elif kind == 'unload':
            lines.append(f'unload {hx(st[1])}')
        elif kind in ('eval', 'evalast'):
            ast = impl.parse(st[2]) if kind == 'eval' else st[2]
            if COVER:
                # ask the model first whether this evaluation falls under the global theorems (no effect on the model state)
                lines.append(f'#ignore cover {st[1] or "-"} {FUEL} ' + wire.enc(ast))
            lines.append(f'eval {st[1] or "-"} {FUEL} ' + wire.enc(ast))
        elif kind == 'state':
            lines.append('state')
        elif kind == 'read':
            lines.append(('read ' + hx(st[1])).rstrip())
        elif kind == 'print':
            lines.append('print ' + wire.enc(impl.parse(st[1]) if isinstance(st[1], str) else st[1]))
        elif kind == 'wawkparse':
            lines.append('wawkparse ' + wire.enc([[[t[1]] if t[0] == 'p' else _tok_atom(t) for t in toks] for toks in st[1]]))
        elif kind == 'wawkemit':
            lines.append('wawkemit ' + wire.enc([[list(x.condition), x.action] for x in wawk_parse(st[1])]))
        elif kind == 'run':
            lines.append('#ignore runreset')
            lines.append(f'eval eor {FUEL} ' + wire.enc(impl.parse(st[1])))
        else:
            raise ValueError(kind)
    return lines


def parse_reply(step, reply):
    kind = step[0]
    toks = reply.split()
    if not toks:
        return ('bad', reply)
    if kind in ('loadvcd', 'loadcsv', 'loadfail', 'unload'):
        if toks[0] == 'ok':
            return ('ok',)
        if toks[0] == 'err':
            return ('err', 'model')
        if toks[0] == 'unsup':
            return ('unsup', unhx(toks[1]) if len(toks) > 1 else '')
        return ('bad', reply)
    if kind in ('eval', 'evalast', 'run'):
        post = step[3] if len(step) > 3 and kind != 'run' else None
        if toks[0] == 'ok':
            sep = toks.index(';')
            v, _ = wire.dec(toks[1:sep])
            out = unhx(toks[sep + 1]) if len(toks) > sep + 1 else ''
            return ('ok', _post(v, post), out)
        if toks[0] == 'err':
            return ('err', unhx(toks[1]) if len(toks) > 1 else '')
        if toks[0] == 'exit':
            return ('exit', int(toks[1]))
        if toks[0] == 'unsup':
            return ('unsup', unhx(toks[1]) if len(toks) > 1 else '')
        if toks[0] == 'fuel':
            return ('fuel',)
        return ('bad', reply)
    if kind == 'read':
        if toks[0] == 'ok':
            v, _ = wire.dec(toks[1:])
            return ('ok', v)
        if toks[0] == 'perr':
            return ('parse',)
        if toks[0] == 'unsup':
            return ('unsup', unhx(toks[1]) if len(toks) > 1 else '')
        return ('bad', reply)
    if kind == 'wawkparse':
        if toks[0] == 'ok':
            v, _ = wire.dec(toks[1:])
            return ('ok', v)
        if toks[0] == 'perr':
            return ('err', 'model')
        return ('bad', reply)
    if kind == 'wawkemit':
        if toks[0] == 'ok':
            v, _ = wire.dec(toks[1:])
            return ('ok', v)
        if toks[0] == 'err':
            return ('err', 'model')
        return ('bad', reply)
    if kind == 'print':
        if toks[0] == 'ok':
            return ('ok', unhx(toks[1]) if len(toks) > 1 else '')
        if toks[0] == 'unsup':
            return ('unsup', 'print')
        return ('bad', reply)
    if kind == 'state':
        if toks[0] != 'st':
            return ('bad', reply)
        kv = dict(t.split('=', 1) for t in toks[1:])
        idx = []
        if kv.get('idx'):
            for part in kv['idx'].split(','):
                t, i, m = part.split(':')
                idx.append((unhx(t), int(i), int(m)))
        return ('st', unhx(kv['scope']), unhx(kv['group']), int(kv['n']), int(kv['stack']),
                0 if int(kv['env']) == 0 else 1, int(kv['aliases']), tuple(idx))
    raise ValueError(kind)


class Model:
    """batch client of the compiled driver"""

    def __init__(self):
        if not os.path.exists(DRIVER):
            raise RuntimeError(f'model driver not built: {DRIVER}')

    def run(self, all_lines):
        data = '\n'.join(all_lines) + '\n'
        p = subprocess.run([DRIVER], input=data.encode('utf-8'), stdout=subprocess.PIPE, stderr=subprocess.PIPE,
                           timeout=3600)
        if p.returncode != 0:
            raise RuntimeError(f'model driver failed ({p.returncode}): {p.stderr.decode()[:2000]}')
        out = p.stdout.decode('utf-8').split('\n')
        if out and out[-1] == '':
            out.pop()
        if len(out) != len(all_lines):
            raise RuntimeError(f'model driver: {len(all_lines)} requests, {len(out)} replies')
        return out


def run_model_cases(cases_steps):
    """cases_steps: list of step lists -> list of observation lists (aligned with steps, full length)"""
    lines = []
    spans = []
    for steps in cases_steps:
        ls = model_lines(steps)
        spans.append((len(lines), len(ls)))
        lines.extend(ls)
    replies = Model().run([ln[8:] if ln.startswith('#ignore ') else ln for ln in lines])
    for ln, rp in zip(lines, replies):
        if ln.startswith('#ignore cover ') and rp.startswith('cov '):
            COVER_COUNTS['evaluations'] += 1
            COVER_COUNTS['balance_theorem_applies'] += ' R1' in rp
            COVER_COUNTS['optimize_theorem_applies'] += ' F1' in rp
            COVER_COUNTS['resolve_theorem_applies'] += ' C1' in rp
            COVER_COUNTS['position_theorem_applies'] += ' T1' in rp
            COVER_COUNTS['neutral_theorem_applies'] += ' N1' in rp
    res = []
    for steps, (off, n) in zip(cases_steps, spans):
        # skip the reply to `reset` and to auxiliary lines
        rs = [replies[off + k] for k in range(1, n) if not lines[off + k].startswith('#ignore ')]
        res.append([parse_reply(s, r) for s, r in zip(steps, rs)])
    return res


# ------------------------------------------------------------------ comparison

def compare(steps, iobs, mobs):
    """-> ('agree', n_compared) | ('skip', why) | ('diff', index, impl_obs, model_obs)"""
    n = 0
    for k, io in enumerate(iobs):
        mo = mobs[k]
        if io[0] == 'timeout':
            return ('skip', 'impl-timeout')
        if mo[0] in ('unsup', 'fuel'):
            return ('skip', 'model-' + mo[0] + (':' + mo[1] if len(mo) > 1 else ''))
        if mo[0] == 'bad':
            return ('diff', k, io, mo)
        if io[0] == 'err':
            if mo[0] != 'err':
                return ('diff', k, io, mo)
            n += 1
            if steps[k][0] in ('eval', 'evalast', 'run'):
                return ('agree', n)      # state after a failed evaluation is unspecified
            continue
        if io[0] == 'exit':
            if mo != io:
                return ('diff', k, io, mo)
            return ('agree', n + 1)
        if io != mo:
            return ('diff', k, io, mo)
        n += 1
    return ('agree', n)
