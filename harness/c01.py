"""C01 — VCD fidelity: every signal at every index reads what the file says."""
import random

from . import framework, gen_trace


def _v(x):
    return ('I', x) if isinstance(x, int) else ('S', x)


def qs(s):
    return '"' + s.replace('\\', '\\\\').replace('"', '\\"') + '"'


class C01(framework.PropertyCheck):
    pid = 'C01'
    quick_cases = 300
    thorough_cases = 12000
    rule = ('generated well-formed four-state VCD files (scope depth 0-4, 1-12 vars, ids over printable ASCII incl. # $ b x 0 1, multi-char '
            'and shared ids, widths 1-200, 1-12 timestamps, redundant/repeated changes, changes before the first #, x/z/X/Z, minimal-width and '
            'zero-extended vectors, $dumpvars/$end blocks, header blocks in any order, $comment in the dump) rendered with random layout; '
            'every (signal, index) pair is read; thorough adds an exhaustive tiny space (<=2 vars, ids from {!,#,b,1}, <=3 markers, <=3 changes); '
            'non-trivial = a shared or tricky id, an x/z value, or a width > 64')
    assumptions = ['layout is abstracted by str.split() (the harness feeds the model the token list)',
                   'file I/O and text decoding (open().read()) are exercised on the implementation side only',
                   'keep_signals and FST traces are not covered']

    def cases(self, rng, tier, n):
        for k in range(n):
            c = {'vf': gen_trace.gen_vcd(rng, min_ts=1), 'layout': rng.randrange(1 << 30)}
            if k % 5 == 4:
                # the file is read the same whatever was loaded (and unloaded again) before it: another file that uses the same
                # identifier codes with other widths and values has come and gone
                c['history'] = rng.randrange(1 << 30)
            if k % 5 == 2 and k % 2:
                c['unload_first'] = True       # an id that is not loaded has been "unloaded" before the file is loaded
            if k % 5 == 0 and k % 2:
                c['failed_after'] = ['missing', 'ext'][(k // 10) % 2]   # a second load that fails (no such file / unknown kind) follows the load
            if k % 5 == 3:
                c['qualified'] = True          # every name is written with the trace id in front (one trace loaded)
            yield c
        if tier == 'thorough':
            import itertools
            ids = ['!', '#', 'b', '1']
            changes = []
            for i in ids[:3]:
                changes += [['scalar', '1', i], ['scalar', 'x', i], ['vector', '10', i]]
            for nv in (1, 2):
                for idsel in itertools.product(ids, repeat=nv):
                    header = [['scope', 'module', 't']] + [['var', 'wire', 2, i, f's{k}', None] for k, i in enumerate(idsel)] + [['upscope']]
                    live = [c for c in changes if c[2] in idsel]
                    for nm in (1, 2, 3):
                        for nc in range(0, 4):
                            for combo in itertools.product(live, repeat=nc):
                                for pos in ([0] if nc == 0 else range(0, nm + 1)):
                                    dump = []
                                    k = 0
                                    # all changes placed before marker `pos` (pos = nm -> after the last marker)
                                    for m in range(nm):
                                        if m == pos:
                                            dump += [list(c) for c in combo]
                                        dump.append(['time', m * 5])
                                    if pos == nm:
                                        dump += [list(c) for c in combo]
                                    yield {'vf': {'header': header, 'dump': dump}, 'layout': k}

    def steps(self, case):
        vf = case['vf']
        den = gen_trace.denote(vf)
        text = gen_trace.render(vf, random.Random(case['layout']))
        steps = [('loadvcd', 't0', text), ('eval', 'eorg', '(list SIGNALS SCOPES MAX-INDEX INDEX)')]
        if case.get('history') is not None:
            ids = sorted({h[3] for h in vf['header'] if h[0] == 'var'})[:6] or ['!']
            aux = {'header': [['scope', 'module', 'other']] + [['var', 'wire', 3, i, f'o{k}', None] for k, i in enumerate(ids)] + [['upscope']],
                   'dump': [['time', 0]] + [['vector', '101', i] for i in ids] + [['time', 7]] + [['vector', '010', i] for i in ids]}
            if case['history'] % 3 == 2:
                # the other file is loaded after this one (same identifier codes, other widths), read, and unloaded before anything is asked
                steps = [steps[0], ('loadvcd', 'zz', gen_trace.render(aux, random.Random(case['history']))), ('eval', 'eorg', '(list zz^other.o0)'),
                         ('unload', 'zz'), steps[1]]
            elif case['history'] % 2:
                steps = [('loadvcd', 'zz', gen_trace.render(aux, random.Random(case['history']))), ('eval', 'eorg', '(list other.o0 MAX-INDEX)'),
                         steps[0], ('unload', 'zz'), steps[1]]
            else:
                # the other file was loaded under the very same id, read, and unloaded
                steps = [('loadvcd', 't0', gen_trace.render(aux, random.Random(case['history']))), ('eval', 'eorg', '(list other.o0 MAX-INDEX)'),
                         ('unload', 't0'), steps[0], steps[1]]
        if case.get('unload_first'):
            steps = [('unload', 'nosuch9')] + steps
        if case.get('failed_after'):
            steps = [steps[0], ('loadfail', 'q9', case['failed_after'])] + steps[1:]
        names = den['signals']
        if case.get('qualified'):
            names = ['t0^' + n for n in names]
        # every signal is read directly and, from the index before, through a relative read that lands on this index
        q = '(list INDEX TS ' + ' '.join(f'(get {qs(n)})' for n in names) + ')'
        qrel = '(list ' + ' '.join(f'(reval (get {qs(n)}) 1)' for n in names[:6]) + ')'
        qback = '(list ' + ' '.join(f'(reval (get {qs(n)}) (- INDEX))' for n in names[:4]) + ' (reval TS -1))'
        steps.append(('eval', 'eorg', '(list ' + ' '.join(f'(signal-width {qs(n)})' for n in names) + ')'))
        for _i in range(len(den['timestamps'])):
            steps.append(('eval', 'eorg', q))
            steps.append(('eval', 'eorg', qrel))
            steps.append(('eval', 'eorg', qback))
            if _i < 2:
                # a scan over the whole file that reads the signals, then the direct reads once more: still this index's values
                steps.append(('eval', 'eorg', '(list (count #t) (length (find (do ' + ' '.join(f'(get {qs(n)})' for n in names[:4]) + ' #t))))'))
                steps.append(('eval', 'eorg', q))
            steps.append(('eval', 'eorg', '(step)'))
        return steps

    def oracle(self, case, iobs):
        den = gen_trace.denote(case['vf'])
        names = den['signals']
        n = len(den['timestamps'])
        if case.get('unload_first'):
            iobs = iobs[1:]
        if case.get('failed_after'):
            # (a file of unknown kind: the tool prints a message; whether it raises is not prescribed)
            if len(iobs) < 2 or (case['failed_after'] == 'missing' and iobs[1][0] != 'err'):
                return {'what': 'a load that cannot succeed did not fail', 'obs': iobs[:2]}
            iobs = iobs[0:1] + iobs[2:]
        if case.get('history') is not None:
            if case['history'] % 3 == 2:
                if len(iobs) < 4 or iobs[1] != ('ok',) or iobs[2][0] != 'ok' or iobs[3] != ('ok',):
                    return {'what': 'loading / reading / unloading the other file failed', 'obs': iobs[:4]}
                iobs = iobs[0:1] + iobs[4:]
            elif case['history'] % 2:
                if len(iobs) < 4 or iobs[0] != ('ok',) or iobs[3] != ('ok',):
                    return {'what': 'loading / unloading the other file failed', 'obs': iobs[:4]}
                iobs = iobs[2:3] + iobs[4:]
            else:
                if len(iobs) < 3 or iobs[0] != ('ok',) or iobs[2] != ('ok',):
                    return {'what': 'loading / unloading the other file failed', 'obs': iobs[:3]}
                iobs = iobs[3:]
        if not iobs or iobs[0] != ('ok',):
            return {'what': 'well-formed file rejected', 'obs': iobs[:1]}
        want0 = ('L', True, (('L', False, tuple(('S', s) for s in names)), ('L', False, tuple(('S', s) for s in den['scopes'])),
                             ('I', n - 1), ('I', 0)))
        if len(iobs) < 2 or iobs[1][0] != 'ok' or iobs[1][1] != want0:
            return {'what': 'SIGNALS / SCOPES / MAX-INDEX differ', 'got': iobs[1:2], 'want': want0}
        wantw = ('L', True, tuple(('I', den['widths'][s]) for s in names))
        if len(iobs) < 3 or iobs[2][0] != 'ok' or iobs[2][1] != wantw:
            return {'what': 'signal-width differs', 'got': iobs[2:3], 'want': wantw}
        k = 3
        for i in range(n):
            want = ('L', True, (('I', i), ('I', den['timestamps'][i])) + tuple(_v(den['values'][s][i]) for s in names))
            if k >= len(iobs) or iobs[k][0] != 'ok' or iobs[k][1] != want:
                got = iobs[k] if k < len(iobs) else None
                bad = None
                if got and got[0] == 'ok' and got[1][0] == 'L' and len(got[1][2]) == len(want[2]):
                    for j, (a, b) in enumerate(zip(got[1][2], want[2])):
                        if a != b:
                            bad = {'position': j, 'signal': (['INDEX', 'TS'] + names)[j], 'got': a, 'want': b, 'id': den['ids'].get((['', ''] + names)[j])}
                            break
                return {'what': 'value at index differs from the file', 'index': i, 'first_difference': bad, 'got': got if not bad else None}
            k += 1
            wantrel = ('L', True, tuple(_v(den['values'][s][i + 1]) for s in names[:6])) if i + 1 < n else ('L', True, tuple(('B', False) for _s in names[:6]))
            if k >= len(iobs) or iobs[k][0] != 'ok' or iobs[k][1] != wantrel:
                return {'what': 'a relative read (offset 1) does not report the value the file gives for the next index', 'index': i,
                        'got': iobs[k] if k < len(iobs) else None, 'want': wantrel}
            k += 1
            # ... and back to the first index / the index before
            wantback = ('L', True, tuple(_v(den['values'][s][0]) for s in names[:4]) + ((('I', den['timestamps'][i - 1]),) if i > 0 else (('B', False),)))
            if k >= len(iobs) or iobs[k][0] != 'ok' or iobs[k][1] != wantback:
                return {'what': 'a relative read back to index 0 / to the index before does not report what the file gives there', 'index': i,
                        'got': iobs[k] if k < len(iobs) else None, 'want': wantback}
            k += 1
            if i < 2:
                wantscan = ('L', True, (('I', n - i), ('I', n - i)))
                if k + 1 >= len(iobs) or iobs[k][0] != 'ok' or iobs[k][1] != wantscan or iobs[k + 1][0] != 'ok' or iobs[k + 1][1] != want:
                    return {'what': 'after a scan that read the signals, a direct read does not report this index\'s values (or the scan is wrong)', 'index': i,
                            'scan': iobs[k] if k < len(iobs) else None, 'read': iobs[k + 1] if k + 1 < len(iobs) else None, 'want': [wantscan, want]}
                k += 2
            want_step = ('B', i + 1 < n)
            if k >= len(iobs) or iobs[k][0] != 'ok' or iobs[k][1] != want_step:
                return {'what': '(step) result', 'index': i, 'got': iobs[k] if k < len(iobs) else None}
            k += 1
        return None

    def nontrivial(self, case, iobs):
        vf = case['vf']
        ids = [h[3] for h in vf['header'] if h[0] == 'var']
        shared = len(set(ids)) != len(ids)
        tricky = any(i in gen_trace.TRICKY_IDS for i in ids)
        wide = any(h[2] > 64 for h in vf['header'] if h[0] == 'var')
        xz = any((d[0] == 'scalar' and d[1] in 'xzXZ') or (d[0] == 'vector' and any(c in 'xzXZ' for c in d[1])) for d in vf['dump'])
        return shared or tricky or wide or xz

    def classify(self, case):
        vf = case['vf']
        nv = sum(1 for h in vf['header'] if h[0] == 'var')
        nt = sum(1 for d in vf['dump'] if d[0] == 'time')
        return f'vars{min(nv, 12) // 4 * 4}+,ts{min(nt, 12) // 4 * 4}+'


CHECK = C01()
