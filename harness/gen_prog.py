"""Core-calculus programs: generator, renderer, and an independent reference evaluator (C06/C07/C16/C17).

Programs are JSON values: symbols = str, ints, bools, strings = {"s": text}, forms = lists.
The reference evaluator implements textbook lexical scoping (environment = chain of dicts, closures capture
their definition environment, applicative order, left to right) with WAL's surface conventions
(define/set return the value, && / || return booleans, one-armed if yields nothing, print uses WAL's rendering).
"""

NAMES = ['a', 'b', 'c']


def render(p):
    if isinstance(p, bool):
        return '#t' if p else '#f'
    if isinstance(p, int):
        return str(p)
    if isinstance(p, str):
        return p
    if isinstance(p, dict):
        return '"' + p['s'] + '"'
    if p is None:
        return "'()"
    if isinstance(p, list):
        if len(p) == 2 and p[0] == 'quote':
            return "'" + render(p[1])
        if len(p) == 2 and p[0] == 'quasiquote':
            return '`' + render(p[1])
        if len(p) == 2 and p[0] == 'unquote':
            return ',' + render(p[1])
        if len(p) == 2 and p[0] == 'unquote-splice':
            return ',@' + render(p[1])
        return '(' + ' '.join(render(x) for x in p) + ')'
    raise TypeError(p)


# ------------------------------------------------------------------ reference evaluator

class RefOutside(Exception):
    """the reference semantics makes no statement here (nothing is claimed about the program)"""


class RefError(Exception):
    pass


class Fuel(Exception):
    pass


class Env:
    def __init__(self, parent=None):
        self.vars = {}
        self.parent = parent

    def find(self, x):
        e = self
        while e is not None:
            if x in e.vars:
                return e
            e = e.parent
        return None


class Clo:
    def __init__(self, env, params, body):
        self.env, self.params, self.body = env, params, body


class Sym:
    def __init__(self, name):
        self.name = name

    def __eq__(self, o):
        return isinstance(o, Sym) and o.name == self.name

    def __hash__(self):
        return hash(self.name)


def show(v):
    """WAL's printed form (wal_str) of a reference value"""
    if isinstance(v, bool):
        return 'true' if v else 'false'
    if isinstance(v, int):
        return str(v)
    if isinstance(v, str):
        return '"' + v + '"'
    if v is None:
        return 'None'
    if isinstance(v, Sym):
        return v.name
    if isinstance(v, list):
        if len(v) == 2 and v[0] == Sym('quote'):
            return "'" + show(v[1])
        return '(' + ' '.join(show(x) for x in v) + ')'
    raise RefOutside('printing a function value is not defined by the reference')


def truthy(v):
    if v is None or v is False:
        return False
    if isinstance(v, (int, str, list)):
        return bool(v)
    return True


BUILTIN = {'+', '-', '*', '=', '!=', '<', '>', '!', '&&', '||', 'if', 'let', 'define', 'set', 'fn', 'do', 'while', 'print', 'case', 'quote',
           'quasiquote', 'eval', 'list', 'first', 'second', 'rest', 'length'}


class Ref:
    def __init__(self, fuel=20000):
        self.out = []
        self.fuel = fuel
        self.glob = Env()

    def datum(self, p):
        if isinstance(p, (bool, int)):
            return p
        if isinstance(p, dict):
            return p['s']
        if isinstance(p, str):
            return Sym(p)
        if p is None:
            return []
        return [self.datum(x) for x in p]

    def undatum(self, v):
        """code from data (for eval)"""
        if isinstance(v, Sym):
            return v.name
        if isinstance(v, str):
            return {'s': v}
        if isinstance(v, list):
            return [self.undatum(x) for x in v]
        return v

    def qq(self, p, env):
        if isinstance(p, list) and p and not (len(p) == 2 and p[0] in ('unquote', 'unquote-splice')):
            res = []
            for el in p:
                if isinstance(el, list) and len(el) == 2 and el[0] == 'unquote':
                    res.append(self.ev(el[1], env))
                elif isinstance(el, list) and len(el) == 2 and el[0] == 'unquote-splice':
                    v = self.ev(el[1], env)
                    if not isinstance(v, list):
                        raise RefError('splice')
                    res.extend(v)
                else:
                    res.append(self.qq(el, env))
            return res
        return self.datum(p)

    def call(self, f, args):
        if not isinstance(f, Clo):
            raise RefError('not a function')
        env = Env(f.env)
        if isinstance(f.params, str):
            env.vars[f.params] = list(args)
        else:
            if len(f.params) != len(args):
                raise RefError('arity')
            for p, a in zip(f.params, args):
                if p in env.vars:
                    raise RefError('duplicate parameter')
                env.vars[p] = a
        r = None
        for b in f.body:
            r = self.ev(b, env)
        return r

    def ev(self, p, env):
        self.fuel -= 1
        if self.fuel <= 0:
            raise Fuel()
        if isinstance(p, (bool, int)):
            return p
        if isinstance(p, dict):
            return p['s']
        if isinstance(p, str):
            e = env.find(p)
            if e is None:
                raise RefError(f'unbound {p}')
            return e.vars[p]
        if not isinstance(p, list) or not p:
            raise RefError('bad form')
        h, args = p[0], p[1:]
        if isinstance(h, str) and h in BUILTIN and env.find(h) is None:
            return self.builtin(h, args, env)
        f = self.ev(h, env)
        vals = [self.ev(a, env) for a in args] if not isinstance(f, Clo) or True else None
        return self.call(f, vals)

    def ints(self, vals):
        if not all(isinstance(v, int) for v in vals):
            raise RefError('type')
        return [int(v) for v in vals]

    def builtin(self, h, args, env):
        ev = self.ev
        if h == 'quote':
            return self.datum(args[0])
        if h == 'quasiquote':
            return self.qq(args[0], env)
        if h == 'if':
            if truthy(ev(args[0], env)):
                return ev(args[1], env)
            return ev(args[2], env) if len(args) == 3 else None
        if h == '&&':
            for a in args:
                if not truthy(ev(a, env)):
                    return False
            return True
        if h == '||':
            for a in args:
                if truthy(ev(a, env)):
                    return True
            return False
        if h == 'let':
            new = Env(env)
            for name, e in args[0]:
                v = ev(e, new)
                if name in new.vars:
                    raise RefError('duplicate let binding')
                new.vars[name] = v
            r = None
            for b in args[1:]:
                r = ev(b, new)
            return r
        if h == 'define':
            v = ev(args[1], env)
            if args[0] in env.vars:
                raise RefError('already defined')
            env.vars[args[0]] = v
            return v
        if h == 'set':
            r = None
            for name, e in args:
                r = ev(e, env)
                tgt = env.find(name)
                if tgt is None:
                    raise RefError('set of undefined')
                tgt.vars[name] = r
            return r
        if h == 'fn':
            return Clo(env, args[0], args[1:])
        if h == 'do':
            r = None
            for a in args:
                r = ev(a, env)
            return r
        if h == 'while':
            r = None
            while truthy(ev(args[0], env)):
                for b in args[1:]:
                    r = ev(b, env)
            return r
        if h == 'print':
            vals = [ev(a, env) for a in args]
            self.out.append(''.join(v if isinstance(v, str) else show(v) for v in vals) + '\n')
            return None
        if h == 'case':
            key = ev(args[0], env)
            dflt = None
            for cl in args[1:]:
                k = self.datum(cl[0])
                if _eq(key, k):          # keys are data: a symbol key matches the same quoted symbol, bound or not
                    r = None
                    for b in cl[1:]:
                        r = ev(b, env)
                    return r
                if k == Sym('default'):
                    for b in cl[1:]:
                        dflt = ev(b, env)
            return dflt
        if h == 'eval':
            v = ev(args[0], env)
            return ev(self.undatum(v), env)
        vals = [ev(a, env) for a in args]
        if h == 'list':
            return vals
        if h == 'first':
            if not isinstance(vals[0], list) or not vals[0]:
                raise RefError('first')
            return vals[0][0]
        if h == 'second':
            if not isinstance(vals[0], list) or len(vals[0]) < 2:
                raise RefError('second')
            return vals[0][1]
        if h == 'rest':
            if not isinstance(vals[0], list):
                raise RefError('rest')
            return vals[0][1:]
        if h == 'length':
            if not isinstance(vals[0], (list, str)):
                raise RefError('length')
            return len(vals[0])
        if h == '!':
            return not any(self.ints(vals))
        if h == '=':
            return all(_eq(v, vals[0]) for v in vals)
        if h == '!=':
            return not all(_eq(v, vals[0]) for v in vals)
        iv = self.ints(vals)
        if h == '+':
            return sum(iv)
        if h == '-':
            if len(iv) == 1:
                return -iv[0]
            r = iv[0]
            for x in iv[1:]:
                r -= x
            return r
        if h == '*':
            if len(iv) < 2:
                raise RefError('arity *')
            r = 1
            for x in iv:
                r *= x
            return r
        if h == '<':
            return iv[0] < iv[1]
        if h == '>':
            return iv[0] > iv[1]
        raise RefError(h)


def _eq(a, b):
    if isinstance(a, Clo) or isinstance(b, Clo):
        return a is b
    if isinstance(a, list) and isinstance(b, list):
        return len(a) == len(b) and all(_eq(x, y) for x, y in zip(a, b))
    if isinstance(a, (bool, int)) and isinstance(b, (bool, int)):
        return int(a) == int(b)
    if type(a) is not type(b):
        return False
    return a == b


def ref_canon(v):
    """canonical form comparable with wire.canon (lists: kind ignored by the comparison helper)"""
    if v is None:
        return ('N',)
    if isinstance(v, bool):
        return ('B', v)
    if isinstance(v, int):
        return ('I', v)
    if isinstance(v, str):
        return ('S', v)
    if isinstance(v, Sym):
        return ('Y', v.name)
    if isinstance(v, list):
        return ('L', tuple(ref_canon(x) for x in v))
    if isinstance(v, Clo):
        return ('C',)
    return ('X',)


def strip_canon(c):
    """implementation/model canonical value -> the reference's shape (list kinds and symbol steps dropped)"""
    k = c[0]
    if k == 'L':
        return ('L', tuple(strip_canon(x) for x in c[2]))
    if k == 'Y':
        return ('Y', c[1])
    if k == 'O':
        return ('Y', c[1])          # operators inside quoted data print/compare as their names
    return c


def ref_run(forms, fuel=20000):
    """-> ('ok', [canon values per form], stdout) | ('err', n_completed, stdout) | ('fuel',)"""
    r = Ref(fuel)
    vals = []
    try:
        for f in forms:
            vals.append(ref_canon(r.ev(f, r.glob)))
    except RefError as e:
        return ('err', len(vals), ''.join(r.out), str(e))
    except (Fuel, RecursionError):
        return ('fuel',)
    return ('ok', vals, ''.join(r.out))


# ------------------------------------------------------------------ generator

class ProgGen:
    """typed random programs: env maps name -> 'int' | ('fn', arity) | 'list' | 'any'"""

    def __init__(self, rng, names=None, errors=0.03):
        self.rng = rng
        self.names = names or NAMES
        self.errors = errors
        self.counter = 0

    def fresh(self):
        self.counter += 1
        return f'k{self.counter}'

    def int_expr(self, d, env):
        r = self.rng.random()
        ints = [n for n, t in env.items() if t == 'int']
        if d <= 0 or r < 0.2:
            if ints and self.rng.random() < 0.6:
                return self.rng.choice(ints)
            if self.rng.random() < self.errors:
                return self.rng.choice(self.names + ['zz'])         # possibly unbound: the error law
            return self.rng.choice([0, 1, 2, 3, 5, -1])
        if r < 0.4:
            op = self.rng.choice(['+', '-', '*', '+'])
            return [op, self.int_expr(d - 1, env), self.int_expr(d - 1, env)]
        if r < 0.5:
            return ['if', self.bool_expr(d - 1, env), self.int_expr(d - 1, env), self.int_expr(d - 1, env)]
        if r < 0.62:
            return self.let_expr(d, env, 'int')
        if r < 0.72:
            fns = [(n, t[1]) for n, t in env.items() if isinstance(t, tuple)]
            if fns:
                n, ar = self.rng.choice(fns)
                if self.rng.random() < self.errors:
                    ar += self.rng.choice([1, -1]) if ar > 0 else 1       # arity error law
                return [n] + [self.int_expr(d - 1, env) for _ in range(ar)]
            return self.lambda_call(d, env)
        if r < 0.8:
            return self.lambda_call(d, env)
        if r < 0.88 and ints:
            x = self.rng.choice(ints)
            return ['set', [x, self.int_expr(d - 1, env)]]
        if r < 0.93:
            return ['do', ['print', self.rng.choice([{'s': 'p'}, {'s': 'q'}]), self.int_expr(d - 1, env)], self.int_expr(d - 1, env)]
        if r < 0.96:
            return ['case', self.int_expr(d - 1, env), [0, self.int_expr(d - 1, env)], [1, 7], ['default', self.int_expr(d - 1, env)]]
        return ['first', ['list', self.int_expr(d - 1, env), self.int_expr(d - 1, env)]]

    def bool_expr(self, d, env):
        r = self.rng.random()
        if d <= 0 or r < 0.3:
            return self.rng.choice([True, False, ['<', self.int_expr(0, env), self.int_expr(0, env)]])
        if r < 0.6:
            return [self.rng.choice(['<', '>', '=']), self.int_expr(d - 1, env), self.int_expr(d - 1, env)]
        if r < 0.8:
            return [self.rng.choice(['&&', '||']), self.bool_expr(d - 1, env), self.bool_expr(d - 1, env)]
        return ['!', self.bool_expr(d - 1, env)]

    def let_expr(self, d, env, _t):
        n = self.rng.choice([1, 1, 2])
        new = dict(env)
        binds = []
        for _ in range(n):
            x = self.rng.choice(self.names)
            if any(b[0] == x for b in binds):
                continue
            binds.append([x, self.int_expr(d - 1, new)])       # sequential: earlier bindings visible
            new[x] = 'int'
        body = self.body(d - 1, new, [b[0] for b in binds])
        return ['let', binds] + body

    def body(self, d, env, bound=()):
        """a straight-line body: optional defines / sets / prints, then a result expression;
        `bound` = names the enclosing binder already put into this scope (parameters, let names)"""
        env = dict(env)
        stmts = []
        local_defined = set(bound)
        for _ in range(self.rng.choice([0, 0, 1, 2])):
            r = self.rng.random()
            if r < 0.45:
                x = self.rng.choice(self.names)
                if x in local_defined and self.rng.random() > self.errors:
                    continue
                if self.rng.random() < 0.3:
                    ar = self.rng.choice([0, 1, 2])
                    stmts.append(['define', x, self.lam(d - 1, env, ar)])
                    env[x] = ('fn', ar)
                else:
                    stmts.append(['define', x, self.int_expr(d - 1, env)])
                    env[x] = 'int'
                local_defined.add(x)
            elif r < 0.7:
                ints = [n for n, t in env.items() if t == 'int']
                if ints:
                    pairs = [[self.rng.choice(ints), self.int_expr(d - 1, env)] for _ in range(self.rng.choice([1, 1, 2, 3]))]
                    stmts.append(['set'] + pairs)
            else:
                stmts.append(['print', self.int_expr(d - 1, env)])
        stmts.append(self.int_expr(d, env))
        return stmts

    def lam(self, d, env, ar):
        params = []
        new = dict(env)
        for _ in range(ar):
            x = self.rng.choice([n for n in self.names if n not in params] or [self.fresh()])
            params.append(x)
            new[x] = 'int'
        return ['fn', params] + self.body(d, new, params)

    def lambda_call(self, d, env):
        if self.rng.random() < 0.2:
            # a variadic function applied on the spot: its operands are evaluated where the call stands
            v = self.fresh()
            body = ['+', ['first', v], ['length', v], self.int_expr(d - 1, env)]
            return [['fn', v, body]] + [self.int_expr(d - 1, env) for _ in range(self.rng.randint(1, 3))]
        ar = self.rng.choice([0, 1, 1, 2])
        return [self.lam(d - 1, env, ar)] + [self.int_expr(d - 1, env) for _ in range(ar)]

    def template(self, env):
        """hand-written shapes: recursion, higher-order functions, counters shared between closures, loops, quoting"""
        r = self.rng
        n = r.randint(0, 5)
        k = r.choice(['rec', 'counter', 'hof', 'loop', 'shadow', 'quote', 'qq', 'eval', 'variadic', 'setdeep', 'twoclos', 'letseq',
                      'nil1', 'nil2', 'nil3', 'nil4', 'mset', 'mset2', 'msetclo', 'recshadow', 'laterdef', 'evaldef', 'casesym', 'casesym',
                      'emptylet', 'variadic2', 'variadic3', 'bodyname', 'redefnil', 'letseq2', 'laterdo', 'letdefine', 'conddef', 'opdefine', 'rebind', 'eq3', 'letdup', 'latelet'])
        f, g, x, y = self.fresh(), self.fresh(), r.choice(self.names), r.choice(self.names)
        nil = r.choice([['if', False, 1], ['print', {'s': 'z'}], ['do'], ['while', False, 1]])
        if k == 'casesym':
            # clause keys are data: a key that happens to be the name of a variable in scope (at any distance) still
            # matches the quoted symbol
            other = y if y != x else 'otherkey'
            inner = ['case', ['quote', x], [other, 10], [x, ['+', x, 20]], ['default', 30]]
            for _ in range(r.randint(0, 2)):
                inner = r.choice([['let', [[self.fresh(), 0]], inner], [['fn', [], inner]]])
            return [['define', f, n], ['let', [[x, n]], inner], ['case', ['quote', f], [f, f], ['default', 0]]]
        if k == 'rec':
            return [['define', f, ['fn', [x], ['if', ['<', x, 1], 0, ['+', x, [f, ['-', x, 1]]]]]], [f, n]]
        if k == 'counter':
            return [['define', f, ['fn', [], ['let', [[x, n]], ['fn', [], ['set', [x, ['+', x, 1]]], x]]]],
                    ['define', g, [f]], [g], [g], ['define', self.fresh(), [f]], ['list', [g], [g]]]
        if k == 'hof':
            return [['define', f, ['fn', [g, x], [g, [g, x]]]], [f, ['fn', [y], ['*', y, 2]], n]]
        if k == 'loop':
            i = self.fresh()
            return [['define', i, 0], ['define', f, 0],
                    ['while', ['<', i, n], ['set', [f, ['+', f, i]]], ['print', i], ['set', [i, ['+', i, 1]]]], f]
        if k == 'shadow':
            return [['define', x, 1], ['define', f, ['fn', [], x]], ['let', [[x, 2]], ['list', [f], x, ['let', [[x, 3]], [f]]]], x]
        if k == 'quote':
            return [['quote', [1, x, [2, 'b']]], ['first', ['quote', [x, y]]], ['length', ['quote', [1, 2, 3]]]]
        if k == 'qq' and r.random() < 0.5:
            # a template that begins with a spliced variable builds a new list every time: the variable keeps its elements
            v = self.fresh()
            t = ['quasiquote', [['unquote-splice', v], ['unquote', x], 'z']]
            return [['define', x, n], ['define', v, ['list', 1, 2]], t, v, t, ['length', v],
                    ['define', f, ['fn', [], ['quasiquote', [['unquote-splice', v], ['unquote', x]]]]], [f], [f], v]
        if k == 'qq':
            return [['define', x, n], ['quasiquote', [1, ['unquote', x], ['unquote-splice', ['list', x, 2]], 'z']]]
        if k == 'eval':
            return [['define', x, n], ['eval', ['quote', ['+', x, 1]]], ['let', [[x, 10]], ['eval', ['quote', ['*', x, 2]]]]]
        if k == 'eq3':
            # = and != evaluate every operand (each exactly once), whatever the earlier ones were
            return [['define', x, 0], ['list', ['=', 1, 2, ['do', ['print', {'s': 'e'}], 3]], ['!=', 1, 2, ['do', ['set', [x, ['+', x, n]]], 1]],
                                       ['=', n, n, ['do', ['set', [x, ['+', x, 1]]], n]]], x, ['=', 1, 2, 'unbound9']]
        if k == 'letdup':
            return [['define', x, 1], ['let', [[y + 'd', 1], [y + 'e', 2]], ['+', y + 'd', y + 'e']], ['let', [[y + 'd', 1], [y + 'd', 2]], y + 'd']]
        if k == 'latelet':
            # statements of other kinds (a let, a lambda, quoted data) may stand between a closure and the define it refers to
            return [['define', g, 5], ['let', [[x + 'z', 1]], ['define', f, ['fn', [], [g]]], ['let', [[y + 'q', 1]], y + 'q'], ['quote', [1, 2]],
                                       ['fn', [], 0], ['define', g, ['fn', [], n]], [f]], g]
        if k == 'rebind':
            # one call site, evaluated several times, follows the binding that is in scope each time
            return [['define', f, ['fn', [], n]], ['define', g, ['fn', [], [f]]], [g], ['set', [f, ['fn', [], ['+', n, 10]]]], [g],
                    ['define', x + 'h', ['fn', [f], [f]]], [x + 'h', f], [x + 'h', ['fn', [], 77]], [g]]
        if k == 'opdefine':
            # a define among the operands of another form binds in the frame that evaluates the form
            return [['define', x, 5], [['fn', [y + 'a'], ['set', [x, ['do', ['define', x, 1], n]]]], 1], x,
                    ['let', [[y + 'b', 1]], ['+', ['do', ['define', x, 2], 1], x]], [['fn', [], ['list', ['do', ['define', x, n], 0], x]]], x]
        if k == 'conddef':
            # a define that does not execute, then an assignment in the same body: it reaches the outer variable, which every closure shares
            return [['define', x, 0], ['define', g, ['fn', [], x]], ['define', f, ['fn', ['c'], ['if', 'c', ['define', x, 5], 0], ['set', [x, ['+', n, 7]]], x]],
                    [f, 0], ['list', x, [g]]]
        if k == 'letdefine':
            # the initial values of a let are evaluated inside its frame: what they define there is what the body sees
            return [['define', x, 5], ['let', [[y + 'i', ['do', ['define', x, n], 1]]], x], x,
                    [['fn', [], ['let', [[y + 'j', ['do', ['define', x, 2], ['+', x, 1]]]], ['+', x, y + 'j']]]]]
        if k == 'letseq2':
            # the initial values of a let see the earlier variables of the same let, also when the name exists further out
            return [['define', x, 0], ['define', g, ['fn', [], ['let', [[x, 1], [x + 'y', ['+', x, 10]]], x + 'y']]], [g],
                    ['let', [[y + 'o', 2]], ['let', [[x, n], [x + 'c', ['fn', [], x]]], [x + 'c']]], x]
        if k == 'laterdo':
            # a name defined further down in the same do block is the one a closure written above it means
            return [['define', g, 5], ['let', [[x + 'z', 1]], ['do', ['define', f, ['fn', [], [g]]], ['define', g, ['fn', [], n]], [f]]],
                    [['fn', [], ['do', ['define', f, ['fn', [], [g, 1]]], ['define', g, ['fn', [x], ['+', x, n]]], [f]]]], g]
        if k == 'emptylet':
            # a let without bindings is still a scope of its own: it sees the directly enclosing binding, and what it defines ends with it
            return [['define', x, 1], ['let', [[x, 2]], ['let', [], x]], ['let', [], ['define', f, n], ['+', f, x]], ['define', f, 5],
                    [['fn', [x], ['let', [], ['set', [x, ['+', x, 1]]], x]], n], ['list', f, x]]
        if k == 'variadic2':
            # the rest parameter is a binding of the function like any other, also when the name exists further out
            v = self.fresh()      # (a name of its own: the rest of the program takes the alphabet's names for integers)
            return [['define', v, ['quote', [9, 9, 9]]], [['fn', v, ['length', v]], 1, 2], ['let', [[y + 'v', 5]], [['fn', y + 'v', ['first', y + 'v']], n, 2]],
                    ['define', g, 7], [['fn', g, ['set', [g, 0]], g], 1], g, ['length', v]]
        if k == 'bodyname':
            # every form of a function body is evaluated, also a leading bare name (which additionally names the function)
            return [['define', x, n], ['define', f, ['fn', [y + 'p'], x, ['+', y + 'p', 1]]], [f, 1],
                    ['define', g, ['fn', [y + 'p'], 'unbound9', ['+', y + 'p', 1]]], [g, 1]]
        if k == 'redefnil':
            # a second define of a name in the same frame is an error whatever value the name holds
            v = self.fresh()
            i = self.fresh()
            return [['define', i, 0], ['while', ['<', i, 2], ['define', v, nil], ['set', [i, ['+', i, 1]]]]] if r.random() < 0.5 else \
                   [['define', v, nil], ['eval', ['quote', ['define', v, 1]]]]
        if k == 'variadic3':
            # the operands of a call of a variadic function are evaluated in the caller's scope, like those of any other call
            return [['define', x, 100], ['define', f, ['fn', 'argv', ['+', ['first', 'argv'], ['length', 'argv']]]],
                    ['let', [[x, n]], [f, x]], [['fn', [x], [f, ['+', x, 1], x]], n], ['let', [[y + 'w', 3]], [f, y + 'w', n]],
                    ['let', [[x, 7]], [['fn', 'more', ['first', 'more']], x]]]
        if k == 'variadic':
            return [['define', f, ['fn', 'args', ['length', 'args']]], [f], [f, 1, 2, n], [['fn', 'xs', ['first', 'xs']], n, 2]]
        if k == 'setdeep':
            return [['define', x, 1], ['let', [[y + 'q', 2]], ['let', [[y + 'r', 3]], [['fn', [], ['set', [x, ['+', x, n]]]]]]], x]
        if k == 'twoclos':
            return [['define', f, ['let', [[x, 0]], ['list', ['fn', [], ['set', [x, ['+', x, 1]]]], ['fn', [], x]]]],
                    [['first', f]], [['first', f]], [['second', f]]]
        if k == 'recshadow':
            # a local recursive function whose name shadows an outer binding
            return [['define', f, 5], ['let', [[x + 'z', 1]], ['define', f, ['fn', [x], ['if', ['<', x, 1], 0, ['+', x, [f, ['-', x, 1]]]]]], [f, n]], f]
        if k == 'laterdef':
            # a closure refers to a name that the same scope defines later (and an outer scope binds differently)
            return [['define', g, 5], ['let', [[x + 'z', 1]], ['define', f, ['fn', [], [g]]], ['define', g, ['fn', [], n]], [f]], g]
        if k == 'evaldef':
            # eval'd code with its own define of a name that is also global (the define lands in the current frame)
            v = self.fresh()
            return [['define', v, 1], ['let', [[x, 2]], ['+', ['eval', ['quote', ['do', ['define', v, n], ['*', v, v]]]], x]],
                    [['fn', [x], ['eval', ['quote', ['do', ['define', v, 7], ['+', v, x]]]]], 3], v]
        if k == 'nil1':
            return [['define', x, 5], ['let', [[x, nil]], ['list', x]], ['list', x]]
        if k == 'nil2':
            return [['define', x, 5], ['define', f, ['fn', [x], ['list', x, ['let', [[x, n]], x]]]], [f, nil]]
        if k == 'nil3':
            v = self.fresh()
            return [['define', v, nil], ['list', v], ['let', [[x, 1]], ['list', v, x]], ['set', [v, n]], v]
        if k == 'nil4':
            return [['define', x, 7], ['define', g, ['let', [[x, nil]], ['fn', [], ['list', x]]]], [g], ['define', f, ['fn', [x], ['fn', [], ['list', x]]]],
                    [[f, nil]]]
        if k == 'mset':
            v, w = self.fresh(), self.fresh()
            return [['define', v, 1], ['define', w, 2], ['set', [v, n], [w, ['+', v, 1]]], ['list', v, w],
                    ['set', [v, ['+', v, 1]], [v, ['+', v, 1]]], v]
        if k == 'mset2':
            v, w = self.fresh(), self.fresh()
            return [['define', v, 1], ['let', [[w, 0]], ['set', [w, ['+', v, 1]], [v, ['*', w, 3]], [w, ['+', v, w]]], ['list', v, w]], v]
        if k == 'msetclo':
            v, w = self.fresh(), self.fresh()
            return [['define', v, 0], ['define', f, ['fn', [], v]], ['define', w, 0], ['set', [v, n], [w, [f]]], ['list', v, w]]
        return [['let', [[x, 1], [y if y != x else x + 'q', ['+', x, 1]]], ['list', x, y if y != x else x + 'q']]]

    def program(self, size=3):
        """list of top-level forms"""
        env = {}
        forms = []
        for _ in range(self.rng.randint(1, size)):
            r = self.rng.random()
            if r < 0.3:
                forms.extend(self.template(env))
            elif r < 0.55:
                x = self.rng.choice(self.names)
                if x in env and self.rng.random() > self.errors:
                    forms.append(['set', [x, self.int_expr(2, env)]] if env[x] == 'int' else self.int_expr(2, env))
                    continue
                if self.rng.random() < 0.35:
                    ar = self.rng.choice([0, 1, 2])
                    forms.append(['define', x, self.lam(2, env, ar)])
                    env[x] = ('fn', ar)
                else:
                    forms.append(['define', x, self.int_expr(2, env)])
                    env[x] = 'int'
            else:
                forms.append(self.int_expr(self.rng.randint(1, 4), env))
        return forms


def enumerate_small(max_size, names=('a', 'b')):
    """all expressions of the binding grammar up to a size bound:
    E ::= 1 | x | (+ E E) | (let ([x E]) E) | ((fn [x] E) E) | (do (define x E) E) | (set [x E])"""
    memo = {}

    def gen(n):
        if n in memo:
            return memo[n]
        res = []
        if n == 1:
            res = [1] + list(names)
        else:
            for x in names:
                for e in gen(n - 1):
                    res.append(['set', [x, e]])
            for i in range(1, n - 1):
                for e1 in gen(i):
                    for e2 in gen(n - 1 - i):
                        res.append(['+', e1, e2])
                        for x in names:
                            res.append(['let', [[x, e1]], e2])
                            res.append([['fn', [x], e2], e1])
                            res.append(['do', ['define', x, e1], e2])
        memo[n] = res
        return res
    out = []
    for n in range(1, max_size + 1):
        out.extend(gen(n))
    return out


def static_redefine(form, scope=None):
    """does the form define a name twice in one static scope (what the resolution pass refuses up front)?
    scope = set of names of the innermost scope (None = fresh top-level scope is supplied by the caller)"""
    scope = set() if scope is None else scope

    def walk(p, sc):
        if not isinstance(p, list) or not p:
            return False
        h = p[0]
        if h == 'define':
            if walk(p[2], sc):
                return True
            if p[1] in sc:
                return True
            sc.add(p[1])
            return False
        if h == 'let':
            new = set(b[0] for b in p[1])
            return any(walk(b, new) for b in p[2:])      # initialisers are not visited by the pass
        if h == 'fn':
            new = set(p[1]) if isinstance(p[1], list) else {p[1]}
            return any(walk(b, new) for b in p[2:])
        if h in ('quote', 'quasiquote'):
            return False
        return any(walk(x, sc) for x in p)
    return walk(form, scope)
