"""C09 — integer and bit-vector arithmetic is exact at any width."""
import random

from . import framework, gen_trace


def py_slice_bit(x, i):
    return (x >> i) & 1


def py_slice(x, h, l):
    return (x >> l) % (1 << (h - l + 1))


def fmt_bin(v, w):
    return format(v, f'0{w}b')


def sint(bits):
    u = int(bits, 2)
    return u - (1 << len(bits)) if bits[0] == '1' else u


class C09(framework.PropertyCheck):
    pid = 'C09'
    quick_cases = 2500
    thorough_cases = 60000
    rule = ('operand tuples for + - * mod ** (non-negative exponent) comparisons bor band bxor x[i] x[h:l] convert/bin bits->sint signed '
            'string->int int->string: random widths up to 256 bits clustered around powers of two, 2^53, 2^63, 2^64, negative operands where '
            'defined, all arities, literal operands and operands read from a trace signal of the given width; thorough adds all values of '
            'width <= 6 with all slice bounds 0 <= l <= h <= 8; oracle = Python arbitrary-precision integers; non-trivial = some operand or '
            'result needs more than 64 bits or is negative')

    def big(self, rng, neg=True):
        r = rng.random()
        if r < 0.25:
            v = rng.randint(0, 300)
        elif r < 0.6:
            k = rng.choice([7, 8, 31, 32, 53, 63, 64, 65, 127, 128, 200, 256])
            v = (1 << k) + rng.randint(-3, 3)
        else:
            v = rng.getrandbits(rng.choice([16, 40, 64, 70, 130, 256]))
        if neg and rng.random() < 0.25:
            v = -v
        return v

    def cases(self, rng, tier, n):
        for _ in range(n):
            k = rng.choice(['arith', 'arith', 'cmp', 'bit', 'slice', 'slice', 'conv', 'signed', 'str', 'sig', 'exp'])
            if k == 'arith':
                op = rng.choice(['+', '-', '*', 'mod'])
                ar = 2 if op == 'mod' else rng.choice([1, 2, 2, 3, 4]) if op != '*' else rng.choice([2, 2, 3, 4])
                args = [self.big(rng) for _ in range(ar)]
                if op == 'mod' and args[1] == 0:
                    args[1] = 7
                yield {'k': k, 'op': op, 'args': args}
            elif k == 'exp' and rng.random() < 0.2:
                # exponents 0 and 1 at every width, far beyond what a double holds
                base = rng.choice([1, -1]) * (rng.getrandbits(rng.choice([64, 300, 1030, 1100, 2100])) | 1)
                yield {'k': k, 'op': '**', 'args': [base, rng.choice([0, 0, 1, 2])]}
            elif k == 'exp' and rng.random() < 0.3:
                # the same power with a float base first (a rounded result), then with the integer base: exact
                b, e = rng.choice([3, 7, 10, 13]), rng.randint(35, 70)
                yield {'k': k, 'op': '**', 'args': [float(b), e], 'float': True}
                yield {'k': k, 'op': '**', 'args': [b, float(e)], 'float': True}
                yield {'k': k, 'op': '**', 'args': [b, e]}
            elif k == 'exp':
                yield {'k': k, 'op': '**', 'args': [rng.choice([2, 3, 10, -3, -2, 7, self.big(rng) % 1000, -(self.big(rng) % 50)]), rng.randint(0, 90)]}
            elif k == 'cmp':
                a = self.big(rng)
                b = a + rng.choice([-1, 0, 0, 1]) if rng.random() < 0.6 else self.big(rng)
                yield {'k': k, 'op': rng.choice(['=', '!=', '<', '>', '<=', '>=']), 'args': [a, b]}
            elif k == 'bit':
                yield {'k': k, 'op': rng.choice(['bor', 'band', 'bxor']), 'args': [self.big(rng) for _ in range(rng.choice([1, 2, 2, 3]))]}
            elif k == 'slice':
                x = self.big(rng, neg=False)
                if rng.random() < 0.3:
                    x = -x - rng.choice([0, 1, 2])          # two's complement: infinitely many leading ones
                h = rng.randint(0, 260)
                l = rng.randint(0, h)
                m = rng.randint(l, h)
                yield {'k': k, 'x': x, 'h': h, 'l': l, 'm': m}
            elif k == 'conv':
                v = self.big(rng, neg=False)
                yield {'k': k, 'v': v, 'w': rng.choice([0, 1, 8, v.bit_length(), v.bit_length() + 3, 300])}
            elif k == 'signed':
                w = rng.choice([1, 2, 3, 8, 16, 64, 65, 128])
                r = rng.random()
                v = (1 << (w - 1)) if r < 0.3 else (1 << w) - 1 if r < 0.45 else 0 if r < 0.55 else rng.getrandbits(w)
                c = {'k': k, 'w': w, 'v': v}
                r2 = rng.random()
                if r2 < 0.3:
                    c['hist'] = True
                elif r2 < 0.55:
                    # a signal outside every scope whose name is an everyday word (a library form must not capture it)
                    # (not `signal`: that is the macro's own parameter, and an unresolved name denotes a signal before a variable —
                    # the language's rule, see C07's quantifier; observation recorded in DESIGN §16.8)
                    c['rootname'] = rng.choice(['width', 'bits', 'tmp', 'res', 'value', 'w', 'x', 'n', 'sig'])
                yield c
            elif k == 'str':
                v = self.big(rng)
                if rng.random() < 0.2:
                    t, b = rng.choice([('0b1', 16), ('0B', 16), ('0b10', 16), ('0B1f', 16), ('0b', 16), ('-0b1', 16), ('0b1', 2), ('0B101', 2),
                                       ('0x1f', 16), ('0XfF', 16), ('0o17', 8), ('0d9', 16), ('00b1', 16), ('0', 2), ('00', 10), ('-0', 8)])
                    yield {'k': k, 'v': 0, 'base': b, 'text': t}
                    continue
                yield {'k': k, 'v': v, 'base': rng.choice([2, 8, 10, 16])}
            else:
                w = rng.choice([1, 4, 8, 33, 64, 65, 100, 200])
                yield {'k': 'sig', 'w': w, 'v': rng.getrandbits(w) | (1 << (w - 1)), 'add': self.big(rng)}
        if tier == 'thorough':
            for x in range(0, 64):
                for h in range(0, 9):
                    for l in range(0, h + 1):
                        yield {'k': 'slice', 'x': x, 'h': h, 'l': l, 'm': (h + l) // 2}
            for w in range(1, 7):
                for v in range(0, 1 << w):
                    yield {'k': 'signed', 'w': w, 'v': v}

    def _vcd(self, w, v):
        vf = {'header': [['scope', 'module', 'top'], ['var', 'wire', w, '!', 's', None], ['upscope']],
              'dump': [['time', 0], ['vector', bin(v)[2:], '!'], ['time', 5], ['vector', bin(v)[2:].rjust(w, '0'), '!'],
                       ['time', 9], ['vector', bin(v ^ 5)[2:], '!']]}
        return gen_trace.render(vf)

    def _plan(self, c):
        """-> (steps, [(step index, expected canonical value)])"""
        k = c['k']
        I = lambda v: ('I', v)      # noqa: E731
        if k in ('arith', 'exp', 'cmp', 'bit'):
            a = c['args']
            op = c['op']
            txt = '(' + op + ' ' + ' '.join(map(str, a)) + ')'
            if c.get('float'):
                return [('eval', 'eor', txt)], []
            if op == '+':
                want = I(sum(a))
            elif op == '-':
                want = I(-a[0]) if len(a) == 1 else I(a[0] - sum(a[1:]))
            elif op == '*':
                p = 1
                for x in a:
                    p *= x
                want = I(p)
            elif op == 'mod':
                want = I(a[0] % a[1])
            elif op == '**':
                want = I(a[0] ** a[1])
            elif op in ('=', '!=', '<', '>', '<=', '>='):
                want = ('B', {'=': a[0] == a[1], '!=': a[0] != a[1], '<': a[0] < a[1], '>': a[0] > a[1], '<=': a[0] <= a[1], '>=': a[0] >= a[1]}[op])
            else:
                r = a[0]
                for x in a[1:]:
                    r = r | x if op == 'bor' else r & x if op == 'band' else r ^ x
                want = I(r)
            # the same through variables, so that neither the reader nor the optimiser decides the outcome
            binds = ' '.join(f'[v{i} {x}]' for i, x in enumerate(a))
            txt2 = f'(let ({binds}) ({op} ' + ' '.join(f'v{i}' for i in range(len(a))) + '))'
            return [('eval', 'eor', f'(list {txt} {txt2})')], [(0, ('L', True, (want, want)))]
        if k == 'slice':
            x, h, l, m = c['x'], c['h'], c['l'], c['m']
            txt = (f'(let ([x {x}]) (list x[{l}] x[{h}:{l}] (slice x {h} {l}) '
                   f'(+ (* x[{h}:{m + 1}] (** 2 {m + 1 - l})) x[{m}:{l}])))') if m < h else \
                  f'(let ([x {x}]) (list x[{l}] x[{h}:{l}] (slice x {h} {l}) x[{h}:{l}]))'
            want = ('L', True, (I(py_slice_bit(x, l)), I(py_slice(x, h, l)), I(py_slice(x, h, l)), I(py_slice(x, h, l))))
            return [('eval', 'eor', txt)], [(0, want)]
        if k == 'conv':
            v, w = c['v'], c['w']
            txt = f'(list (convert/bin {v} {w}) (convert/bin {v}) (bits->sint (convert/bin {v} {max(w, v.bit_length() + 1)})))'
            want = ('L', True, (('S', fmt_bin(v, w)), ('S', fmt_bin(v, 0)), I(v)))
            return [('eval', 'eor', txt)], [(0, want)]
        if k == 'signed':
            w, v = c['w'], c['v']
            bits = fmt_bin(v, w)
            want = ('L', True, (I(sint(bits)), I(sint(bits)), I(v), I(w)))
            if c.get('hist'):
                # a function that uses (signed s) was defined and called while another file, with another width for s, was loaded
                w2 = w + 3 if w < 200 else w - 3
                v2 = (1 << (w2 - 1)) | 1
                want_a = I(sint(fmt_bin(v2, w2)))
                return ([('loadvcd', 't0', self._vcd(w2, v2)), ('eval', 'eor', '(defun sd9 [] (signed top.s))'), ('eval', 'eor', '(sd9)'), ('unload', 't0'),
                         ('loadvcd', 't0', self._vcd(w, v)),
                         ('eval', 'eor', f'(list (bits->sint "{bits}") (signed top.s) top.s (signal-width "top.s"))'), ('eval', 'eor', '(sd9)')],
                        [(2, want_a), (5, want), (6, I(sint(bits)))])
            if c.get('rootname'):
                nm = c['rootname']
                vf = {'header': [['var', 'wire', w, '!', nm, None], ['scope', 'module', 'top'], ['var', 'wire', w, '!', 's', None], ['upscope']],
                      'dump': [['time', 0], ['vector', bin(v)[2:], '!'], ['time', 5], ['vector', bin(v ^ 5)[2:], '!']]}
                return ([('loadvcd', 't0', gen_trace.render(vf)),
                         ('eval', 'eor', f'(list (bits->sint "{bits}") (signed {nm}) {nm} (signal-width "{nm}"))')], [(1, want)])
            return ([('loadvcd', 't0', self._vcd(w, v)),
                     ('eval', 'eor', f'(list (bits->sint "{bits}") (signed top.s) top.s (signal-width "top.s"))')], [(1, want)])
        if k == 'str' and c.get('text'):
            # numerals that begin like a prefixed literal: Python accepts the prefix only when it matches the base, otherwise the
            # characters are digits of the numeral (0b1 in base 16 is 0xb1)
            s, b = c['text'], c['base']
            return [('eval', 'eor', f'(list (string->int "{s}" {b}))')], [(0, ('L', True, (I(int(s, b)),)))]
        if k == 'str':
            v, b = c['v'], c['base']
            digits = {2: bin, 8: oct, 16: hex}.get(b, str)(abs(v))
            if b != 10:
                digits = digits[2:]
            s = ('-' if v < 0 else '') + digits
            txt = f'(list (string->int "{s}" {b}) (int->string {v}) (string->int (int->string {v})) (string->int "{v}"))'
            want = ('L', True, (I(v), ('S', str(v)), I(v), I(v)))
            return [('eval', 'eor', txt)], [(0, want)]
        if k == 'sig':
            w, v, a = c['w'], c['v'], c['add']
            want = ('L', True, (I(v), I(v + a), I(v * 3), I(py_slice(v, w - 1, w - 1)), ('B', True), I(v), I(v & a if a >= 0 else v & a)))
            v2 = v ^ 5
            # the same reads again after the samples have been re-indexed (index 0 is now the third sample)
            want2 = ('L', True, (I(v2), I(v2 + a), I(py_slice(v2, w - 1, w - 1)), I(v)))
            return ([('loadvcd', 't0', self._vcd(w, v)),
                     ('eval', 'eor', f'(list top.s (+ top.s {a}) (* top.s 3) top.s[{w - 1}] (= top.s {v}) top.s@1 (band top.s {a}))'),
                     ('eval', 'eor', "(sample-at '(2 0))"),
                     ('eval', 'eor', f'(list top.s (+ top.s {a}) top.s[{w - 1}] top.s@1)')], [(1, want), (3, want2)])
        raise ValueError(k)

    def steps(self, case):
        return self._plan(case)[0]

    def oracle(self, case, iobs):
        steps, exps = self._plan(case)
        for si, want in exps:
            if si >= len(iobs):
                return {'what': 'evaluation raised', 'obs': iobs[-1] if iobs else None, 'case': case, 'expr': steps[-1][2][:300]}
            o = iobs[si]
            if o[0] != 'ok' or o[1] != want:
                return {'what': 'result differs from exact integer arithmetic', 'expr': steps[si][2][:400], 'got': o, 'want': want}
        return None

    def nontrivial(self, case, iobs):
        vals = []
        for k in ('args',):
            vals += case.get(k, [])
        for k in ('x', 'v', 'add'):
            if k in case:
                vals.append(case[k])
        vals = [v for v in vals if isinstance(v, int)]
        return any(v < 0 or v.bit_length() > 64 for v in vals) or case.get('w', 0) > 64 or case.get('h', 0) > 64

    def classify(self, case):
        return case['k'] + (':' + case['op'] if 'op' in case else '')


CHECK = C09()
