"""C05 — scoped, grouped and aliased names denote the intended signal; context restored."""
import random

from . import framework, gen_trace
from .c01 import qs

SCOPES = ['top', 'top.a', 'top.a.b', 'top.ab', 'top.g<0>']
LOCAL = ['x_valid', 'x_ready', 'x_data', 'y_valid', 'y_ready', 'yvalid', 'valid', 'v<1>_valid', 'v<1>_ready', 'xavalid', 'x.valid', 'clk',
         'load', 'in', 'max', 'm_last', 'first',       # local names that are also names of operators
         'q_valid_q_valid', 'q_valid_q_ready', 'r_ready_valid']    # the suffix text also occurs earlier in the name
N = 4


def hierarchy(rng):
    """-> (vcd description, {fullname: [values]})"""
    header = []
    sigs = []
    stack = []
    k = 0

    def add_scope(path):
        nonlocal k
        parts = path.split('.')
        # emit $scope lines for the last component (parents are already open)
        header.append(['scope', 'module', parts[-1].replace('<', '[').replace('>', ']')])
        stack.append(path)
        names = [n for n in LOCAL if rng.random() < (0.55 if n not in ('load', 'in', 'max', 'm_last', 'first') else 0.3) and '.' not in n] or ['clk']
        for n in names:
            if sigs and rng.random() < 0.15:
                vid = rng.choice(sigs)[1]          # a second name for an identifier code declared earlier (the two always read the same)
            else:
                vid = 'i%d' % k
                k += 1
            header.append(['var', 'wire', 4, vid, n.replace('<', '[').replace('>', ']'), None])
            sigs.append((path + '.' + n, vid))
    add_scope('top')
    add_scope('top.a')
    add_scope('top.a.b')
    header.append(['upscope'])
    header.append(['upscope'])
    add_scope('top.ab')
    header.append(['upscope'])
    add_scope('top.g<0>')
    header.append(['upscope'])
    header.append(['upscope'])
    dump = []
    vals = {}
    for i in range(N):
        dump.append(['time', i * 5])
        byid = {}
        for full, vid in sigs:
            if vid not in byid:
                byid[vid] = rng.getrandbits(4)
                dump.append(['vector', bin(byid[vid])[2:], vid])
            vals.setdefault(full, []).append(byid[vid])
    return {'header': header, 'dump': dump}, vals, [s for s, _ in sigs]


def groups_ref(signals, scopes, cs, suffixes):
    """the property's reading: prefixes p (directly inside the captured scope when one is set) with p+s for every suffix"""
    res = set()
    s0 = suffixes[0]
    for sig in signals:
        if not sig.endswith(s0):
            continue
        p = sig[:-len(s0)] if s0 else ''
        if cs:
            if not p.startswith(cs + '.'):
                continue
            mid = p[len(cs) + 1:]
            if not mid or '.' in mid:
                continue
        if all((p + s) in signals for s in suffixes[1:]):
            res.add(p)
    return sorted(res)


class C05(framework.PropertyCheck):
    pid = 'C05'
    quick_cases = 300
    thorough_cases = 6000
    rule = ('generated hierarchy (scopes top, top.a, top.a.b, top.ab, top.g<0>; local names with underscores, <n>, names that are prefixes/suffixes '
            'of each other) x a random script of constructs: ~n under in-scope for every scope, #n under in-group, missing references, get by '
            'string, alias / re-alias / unalias (plain, under ~ and # and inside a function body), groups with 1-3 suffixes incl. regex '
            'metacharacters, with and without captured scope, nestings of in-scope / in-group / in-groups / all-scopes / set-scope to depth 4 '
            'with CS CG LOCAL-SIGNALS LOCAL-SCOPES probed before, inside and after, at a random index; a quarter of the scripts run after another file with other scopes was loaded, queried and unloaded; oracle = set comprehension over the '
            'generated names; non-trivial = a re-alias, a nesting depth >= 2 or a groups query with a metacharacter suffix')

    def cases(self, rng, tier, n):
        for _ in range(n):
            yield {'seed': rng.randrange(1 << 30), 'script': rng.randrange(1 << 30), 'index': rng.randrange(N)}

    def _plan(self, case):
        rng = random.Random(case['seed'])
        vf, vals, signals = hierarchy(rng)
        r = random.Random(case['script'])
        i = case['index']
        sigset = set(signals)
        steps = [('loadvcd', 't0', gen_trace.render(vf)), ('eval', 'eorg', f'(step {i})')]
        exps = [('ok',), ('any',)]
        if case['script'] % 4 == 2:
            # an id that is not loaded is "unloaded" first: nothing changes
            steps = [steps[0], ('unload', 'nosuch9')] + steps[1:]
            exps = [exps[0], ('any',)] + exps[1:]
        if case['script'] % 4 == 1:
            # another file with other scopes has been loaded, asked for its scopes, and unloaded: the names are those of the file that is there now
            aux = {'header': [['scope', 'module', 'other'], ['var', 'wire', 1, '!', 'clk', None], ['scope', 'module', 'sub'],
                              ['var', 'wire', 1, '"', 'x_valid', None], ['upscope'], ['upscope']],
                   'dump': [['time', 0], ['scalar', '1', '!'], ['scalar', '0', '"'], ['time', 5], ['scalar', '0', '!']]}
            steps = [('loadvcd', 't0', gen_trace.render(aux)), ('eval', 'eorg', '(list SCOPES (in-scope "other.sub" (list CS ~x_valid)) (all-scopes CS))'),
                     ('unload', 't0')] + steps
            exps = [('any',), ('any',), ('any',)] + exps

        def V(full):
            return ('I', vals[full][i])

        def local_signals(scope):
            if scope == '':
                return [s for s in signals if '.' not in s]
            return sorted(s for s in signals if s.startswith(scope + '.') and '.' not in s[len(scope) + 1:])

        def local_scopes(scope):
            sc = scope + '.' if scope else scope
            return [s for s in SCOPES if s.startswith(sc) and '.' not in s[len(sc) + 1:]]

        def ctx(scope, group):
            return ('L', True, (('S', scope), ('S', group), ('L', False, tuple(('S', s) for s in local_signals(scope))),
                                ('L', False, tuple(('S', s) for s in local_scopes(scope)))))
        CTX = '(list CS CG LOCAL-SIGNALS LOCAL-SCOPES)'

        def add(text, want, post=None):
            steps.append(('eval', 'eorg', text) if post is None else ('eval', 'eorg', text, post))
            exps.append(want)
        for _k in range(r.randint(4, 9)):
            f2 = f'f2_{_k}'
            kind = r.choice(['scoped', 'scoped', 'grouped', 'missing', 'get', 'alias', 'alias2', 'groups', 'groups', 'nest', 'nest', 'allscopes', 'setscope',
                             'nestset', 'aliassig', 'unalias2'])
            if kind == 'scoped':
                sc = r.choice(SCOPES)
                loc = [s[len(sc) + 1:] for s in local_signals(sc)]
                if not loc:
                    continue
                ns = [r.choice(loc) for _ in range(r.randint(1, 3))]
                q = r.choice([f'"{sc}"', f"'{sc}"])
                add(f'(in-scope {q} (list ' + ' '.join(f'~{n}' for n in ns) + '))', ('val', ('L', True, tuple(V(sc + '.' + n) for n in ns))))
            elif kind == 'grouped':
                full = r.choice(signals)
                cut = r.randint(1, len(full) - 1)
                g, n = full[:cut], full[cut:]
                if not (n[0].isalpha() or n[0] in '_.') or '<' in g[-1:] or not g[-1:].isalnum() and g[-1:] not in '._>':
                    continue
                if n in ('t', 'f'):
                    continue          # #t and #f are the boolean literals
                add(f'(in-group "{g}" (list #{n} (get "{full}")))', ('val', ('L', True, (V(full), V(full)))))
            elif kind == 'missing':
                sc = r.choice(SCOPES)
                n = r.choice(['nosuch', 'x_valid_', 'alid', 'x_val'])
                # a sibling whose full name is literally S+n although S.n does not exist (top.a + b.x -> top.ab.x)
                sib = [(s0, full[len(s0):]) for s0 in SCOPES for full in signals
                       if full.startswith(s0) and full[len(s0):len(s0) + 1] not in ('.', '') and (s0 + '.' + full[len(s0):]) not in sigset
                       and (full[len(s0)].isalpha() or full[len(s0)] == '_')]
                if sib and r.random() < 0.6:
                    sc, n = r.choice(sib)
                if sc + '.' + n in sigset:
                    continue
                add(f'(in-scope "{sc}" ~{n})', ('err',))
                break
            elif kind == 'get':
                full = r.choice(signals)
                add(f'(list (get {qs(full)}) {full})', ('val', ('L', True, (V(full), V(full)))))
            elif kind == 'alias':
                a, b = r.choice(signals), r.choice(signals)
                add(f"(do (alias q1 '{a}) (define f1 (fn [] q1)) (list q1 (f1)))", ('val', ('L', True, (V(a), V(a)))))
                add(f"(do (alias q1 '{b}) (list q1 (f1) (signal? 'q1)))", ('val', ('L', True, (V(b), V(b), ('B', False)))))
                add('(do (unalias q1) (defined? \'f1))', ('val', ('B', True)))
                add('q1', ('err',))
                break
            elif kind == 'alias2':
                sc = r.choice(SCOPES)
                # (a quoted operator name reads as the operator, not as a symbol: such local names cannot be alias targets)
                loc = [s[len(sc) + 1:] for s in local_signals(sc) if s[len(sc) + 1:] not in ('load', 'in', 'max', 'first')]
                if len(loc) < 2:
                    continue
                a, b = r.sample(loc, 2)
                add(f"(do (alias q2 '{a}) (define {f2} (fn [] (in-scope \"{sc}\" ~q2))) (list ({f2}) (in-scope \"{sc}\" ~q2)))",
                    ('val', ('L', True, (V(sc + '.' + a), V(sc + '.' + a)))))
                add(f"(do (alias q2 '{b}) (list ({f2}) (in-scope \"{sc}\" ~q2) (in-group \"{sc}.\" #q2)))",
                    ('val', ('L', True, (V(sc + '.' + b), V(sc + '.' + b), V(sc + '.' + b)))))
                add('(unalias q2)', ('any',))
            elif kind == 'groups':
                suf = r.choice([['_valid', '_ready'], ['_valid'], ['valid'], ['.valid'], ['_valid', '_ready', '_data'], ['.clk'], ['x_valid'],
                                ['a_valid'], ['_ready', '_valid'], ['>_valid'], ['lid', 'dy']])
                cs = r.choice(['', '', 'top', 'top.a', 'top.ab'])
                call = '(groups ' + ' '.join(f'"{s}"' for s in suf) + ')'
                want = ('L', False, tuple(('S', p) for p in groups_ref(sigset, SCOPES, cs, suf)))
                add(f'(in-scope "{cs}" {call})' if cs else call, ('val', want))
            elif kind == 'nest':
                def build(depth, scope, group):
                    text_open, closes = '', ''
                    for _d in range(depth):
                        c = r.choice(['in-scope', 'in-group', 'in-groups'])
                        if c == 'in-scope':
                            scope = r.choice(SCOPES)
                            text_open += f'(in-scope "{scope}" '
                        elif c == 'in-group':
                            group = r.choice(['top.x_', 'top.a.y_', 'top.ab.v<1>_', 'zz'])
                            p = group.rfind('.')
                            scope = group[:p + 1] if p != -1 else scope
                            text_open += f'(in-group "{group}" '
                        else:
                            # several groups in turn (the value is the last one's): a group without a scope part leaves the
                            # scope that was captured before in-groups started, whatever the groups before it captured
                            gl = r.choice([['top.x_'], ['top.a.y_'], ['top.x_', 'zz'], ['top.a.y_', 'top.x_'], ['top.a.y_', 'q_'], ['zz', 'top.ab.v<1>_']])
                            group = gl[-1]
                            p = group.rfind('.')
                            scope = group[:p + 1] if p != -1 else scope
                            text_open += '(in-groups (list ' + ' '.join(f'"{x}"' for x in gl) + ') '
                        closes += ')'
                    return text_open, closes, scope, group
                d1 = r.randint(1, 3)
                o1, c1, scope, group = build(d1, '', '')
                add(CTX, ('val', ctx('', '')), 'sortinner')
                add(o1 + CTX + c1, ('val', ctx(scope, group)), 'sortinner')
                # an inner construct finishes while the outer one is still active: the outer context must be back
                o2, c2, _s2, _g2 = build(r.randint(1, 4 - d1) if d1 < 4 else 1, scope, group)
                add(o1 + '(do ' + o2 + '1' + c2 + ' ' + CTX + ')' + c1, ('val', ctx(scope, group)), 'sortinner')
                add(CTX, ('val', ctx('', '')), 'sortinner')
            elif kind == 'nestset':
                # the body itself moves the captured scope: when the construct finishes the scope is what it was before it started
                opener = r.choice(['(in-scope "top.a" ', '(in-group "zz" ', '(in-group "top.x_" ', '(in-groups (list "top.a.y_") ', '(in-group "x" '])
                inner = r.choice(['(set-scope top.ab)', '(unset-scope)', '(do (set-scope top.a.b) (unset-scope))', '(set-scope top)'])
                add(f'(do {opener}{inner}) {CTX})', ('val', ctx('', '')), 'sortinner')
                sc = r.choice(SCOPES)
                add(f'(in-scope "{sc}" (do {opener}{inner}) {CTX}))', ('val', ctx(sc, '')), 'sortinner')
                add(CTX, ('val', ctx('', '')), 'sortinner')
            elif kind == 'unalias2':
                a, b, c = r.choice(signals), r.choice(signals), r.choice(signals)
                add(f"(do (alias q5 '{a}) (alias q6 '{b}) (alias q7 '{c}) (list q5 q6 q7))", ('val', ('L', True, (V(a), V(b), V(c)))))
                add('(do (unalias q5 q6) q7)', ('val', V(c)))
                add(r.choice(['q5', '(get \'q5)', 'q6']), ('err',))
                break
            elif kind == 'aliassig':
                # an alias may carry the name of an existing signal (patching one signal over another)
                a, b = r.choice(signals), r.choice(signals)
                if '<' in a or '<' in b:
                    continue
                add(f"(do (alias {a} '{b}) (list {a} {b} (reval {a} 0) (get \"{a}\") (get '{a})))", ('val', ('L', True, (V(b), V(b), V(b), V(b), V(b)))))
                add(f'(do (unalias {a}) (list {a} {b}))', ('val', ('L', True, (V(a), V(b)))))
            elif kind == 'allscopes':
                add('(list (all-scopes (list CS)) CS)', ('val', ('L', True, (('L', False, tuple(('L', True, (('S', s),)) for s in SCOPES)), ('S', '')))))
                add(CTX, ('val', ctx('', '')), 'sortinner')
                sc = r.choice(SCOPES)
                add(f'(in-scope "{sc}" (do (all-scopes (list CS)) {CTX}))', ('val', ctx(sc, '')), 'sortinner')
            elif kind == 'setscope':
                sc = r.choice(SCOPES)
                add(f'(do (set-scope {sc}) {CTX})', ('val', ctx(sc, '')), 'sortinner')
                sc2 = r.choice(SCOPES)
                add(f'(do (in-scope "{sc2}" 1) {CTX})', ('val', ctx(sc, '')), 'sortinner')
                add(f'(do (unset-scope) {CTX})', ('val', ctx('', '')), 'sortinner')
        if r.random() < 0.3:
            # a signal defined in the program takes part in grouping like one from the file, whichever suffix it completes
            for suf in (['_valid', '_ready'], ['_ready', '_valid'], ['_valid', '_ready', '_data']):
                cands = sorted(sg[:-len(suf[0])] for sg in sigset if sg.endswith(suf[0]) and '.' in sg
                               and any(sg[:-len(suf[0])] + t not in sigset for t in suf[1:]))
                if cands:
                    pfx = r.choice(cands)
                    new = [pfx + t for t in suf[1:] if pfx + t not in sigset]
                    sc, _, local = pfx.rpartition('.')
                    for full in new:
                        add(f'(in-scope "{sc}" (defsig {full[len(sc) + 1:]} 1))', ('any',))
                    grown = sigset | set(new)
                    call = '(groups ' + ' '.join(f'"{t}"' for t in suf) + ')'
                    add(call, ('val', ('L', False, tuple(('S', q) for q in groups_ref(grown, SCOPES, '', suf)))))
                    add(f'(in-scope "{sc}" {call})', ('val', ('L', False, tuple(('S', q) for q in groups_ref(grown, SCOPES, sc, suf)))))
                    break
        return steps, exps

    def steps(self, case):
        return self._plan(case)[0]

    def oracle(self, case, iobs):
        steps, exps = self._plan(case)
        for k, (st, ex) in enumerate(zip(steps, exps)):
            if k >= len(iobs):
                if exps[k - 1][0] == 'err':
                    return None
                return {'what': 'a construct raised although the property prescribes a value', 'construct': steps[k - 1][2][:300], 'obs': iobs[-1]}
            o = iobs[k]
            if ex[0] == 'err':
                if o[0] == 'ok':
                    return {'what': 'a reference to a signal that does not exist yielded a value instead of an error', 'construct': st[2], 'got': o}
                return None
            if ex[0] == 'val':
                want = _sortinner(ex[1]) if len(st) > 3 else ex[1]
                if o[0] != 'ok' or o[1] != want:
                    return {'what': 'name resolution / context differs from the reference', 'construct': st[2][:400], 'got': o, 'want': want}
        return None

    def nontrivial(self, case, iobs):
        steps, _ = self._plan(case)
        txt = ' '.join(s[2] for s in steps if len(s) > 2 and isinstance(s[2], str))
        return 'alias' in txt or txt.count('(in-') >= 3 or '".valid"' in txt or '".clk"' in txt

    def classify(self, case):
        return 'script'


def _sortinner(c):
    """LOCAL-SIGNALS under a scope comes out of a Python set: sort the list-of-strings members of the probe"""
    if c[0] == 'L':
        items = tuple(_sortinner(x) for x in c[2])
        if items and all(x[0] == 'S' for x in items) and not c[1]:
            items = tuple(sorted(items))
        return ('L', c[1], items)
    return c


CHECK = C05()
