"""C16 — API, source file, -c and compiled .wo runs agree; passes are idempotent."""
import contextlib
import io
import os
import random
import subprocess
import sys

from . import framework, gen_prog, gen_trace, gen_expr, impl, session

PY = sys.executable
REPO = impl.REPO


def cli(args, cwd, timeout=60):
    env = dict(os.environ, PYTHONPATH=REPO, PYTHONHASHSEED='0')
    try:
        p = subprocess.run(['timeout', str(timeout), PY, '-m'] + args, cwd=cwd, env=env, stdin=subprocess.DEVNULL,
                           stdout=subprocess.PIPE, stderr=subprocess.PIPE, timeout=timeout + 10)
    except subprocess.TimeoutExpired:
        return ('timeout',)
    return ('done', p.returncode, p.stdout.decode('utf-8', 'replace'), p.stderr.decode('utf-8', 'replace')[-400:])


class C16(framework.PropertyCheck):
    pid = 'C16'
    quick_cases = 48
    thorough_cases = 700
    procs_quick = 12
    rule = ('multi-form programs from the core (define/let/fn/set/while/print), list, macro (std macros and a user defmacro used in later forms) and '
            'trace fragments (step, signals, find, whenever, @), with and without a trace given by -l, executed four ways: library API (Wal.eval per '
            'form), python -m wal file.wal, python -m wal -c (do forms...), python -m walc + python -m wal file.wo; stdout, exit status and the final '
            'trace position (printed by a trailing form) are compared; the API run is also compared with the Lean model (passes applied once); '
            'non-trivial = the program uses a user macro in a later form, or a trace')
    assumptions = ['pickle, argparse, process start-up and exit codes are exercised, not modelled',
                   'programs given to -c are wrapped in one (do ...) form, as the option takes a single expression']

    def gen_program(self, r, with_trace, simplefail=False):
        if simplefail:
            # a short program without macros that fails: every path reports the failure the same way
            forms = [f'(define a9 {r.randint(1, 9)})', '(print "start " a9)',
                     r.choice(['(print undefined-variable-zz)', '(first 5)', '(do (define dd9 1) (define dd9 2))', '(+ a9 (undefined-function-zz 1))',
                               '(print (let ([q9 1]) (q9 2)))'])]
            if r.random() < 0.5:
                forms.append('(print "after")')
            return forms
        g = gen_prog.ProgGen(r, errors=0.0)
        forms = [gen_prog.render(f) for f in g.program(r.randint(1, 3))]
        forms = [f for f in forms]
        extra = []
        k = r.random()
        if k < 0.5:
            extra += ["(defmacro twice [e] `(do ,e ,e))", '(define cnt9 0)', '(twice (set [cnt9 (+ cnt9 1)]))', '(print "cnt " cnt9)']
        if r.random() < 0.5:
            extra += ['(defun addp [a b] (print "add " a " " b) (+ a b))', '(print (addp 1 (addp 2 3)))',
                      "(print (for/list [e '(1 2 3)] (* e e)))", '(print (cond [(> 1 2) "a"] [else "b"]))', "(print (cadr '(1 2 3)))"]
        if r.random() < 0.3:
            extra += ["(defmacro unless2 [c e] `(unless ,c ,e))", '(unless2 #f (print "u2"))', "(print (reverse '(1 2 3)) (sort '(3 1 2)))"]
        if r.random() < 0.3:
            # a macro whose expansion is a literal, used inside the operands of other macros and inside a function body
            extra += ['(defmacro five9 [] 5)', '(when #t (print "f " (five9)))', '(defun mul9 [x] (* x (five9)))', '(print (mul9 3) (for/list [e9 (list 1 (five9))] (+ e9 (five9))))']
        if r.random() < 0.3:
            # a user macro that looks at its operands as they were written (library macro call, foldable arithmetic)
            extra += ["(define xs9 '(1 2 3))", "(defmacro q9 [e] `',e)", '(print (q9 (sum xs9)) (q9 (+ 1 2)))',
                      "(defmacro len9 [e] (length e))", '(print (len9 (when 1 2 3)))',
                      # ... and again several forms after the last definition of a macro
                      '(define a8 2)', '(print "gap")', '(print (q9 (* a8 (+ 2 3))) (len9 (unless 1 2)))']
        if r.random() < 0.35:
            # the same with the macro defined in a nested position (include guard, do block, under a built-in form)
            extra += [r.choice(["(unless (defined? 'show9) (defmacro show9 [e] `(list ',e ,e)))", "(do (define g9 1) (defmacro show9 [e] `(list ',e ,e)))",
                                "(when #t (defmacro show9 [e] `(list ',e ,e)))", "(if #t (defmacro show9 [e] `(list ',e ,e)))",
                                "(if (defined? 'show9) 0 (defmacro show9 [e] `(list ',e ,e)))", "(&& 1 (do (defmacro show9 [e] `(list ',e ,e)) 1))",
                                "(eval '(defmacro show9 [e] `(list ',e ,e)))", "(eval (list 'defmacro 'show9 '[e] '`(list ',e ,e)))"]), '(print (show9 (+ 1 2)) (show9 (if 1 2 3)))']
        if r.random() < 0.25:
            # a macro that does something when it is expanded and whose expansion is an atom: every call site is expanded exactly once
            extra += ['(define sites9 0)', '(defmacro site9 [] (set [sites9 (+ sites9 1)]) sites9)', '(print "s " (site9))', '(print "s " (site9) " " sites9)',
                      '(defmacro tag9 [] (print "expanding") "tag")', '(print (tag9))']
        if with_trace:
            extra += [r.choice(['(step 2)', '(step)', '(step 1)']), '(print INDEX " " t0^top.cnt)',
                      r.choice(['(print (find (= t0^top.clk 1)))', '(whenever (= t0^top.clk 1) (print "w" INDEX))', '(print t0^top.cnt@1)',
                                '(print (rising t0^top.clk) (count (= t0^top.clk 0)))']), '(print "idx " INDEX)']
        r.shuffle(extra) if False else None
        forms = [f'(print {f})' if not f.startswith('(define') and r.random() < 0.7 else f for f in forms] + extra
        if r.random() < 0.2:
            f = r.choice(['(exit 3)', '(print undefined-variable-zz)', '(exit)', 'boom9', 'boom9', 'boom8',
                          '(do (define dd9 1) (define dd9 2))'])          # the last one is refused by the resolve pass, before evaluation
            if f == 'boom9':
                # the error happens inside a named function that was defined at the very beginning of the program
                forms.insert(0, '(defun boom9 [a] (+ a undefined-variable-zz))')
                f = '(do (print "in") (boom9 1))'
            elif f == 'boom8':
                forms.insert(0, '(defun boom8 [a] (first a))')
                f = '(boom8 5)'
            forms.append(f)
            if r.random() < 0.6:
                forms.append('(print "after")')       # otherwise the failing form is the last line of the file
        return forms

    def cases(self, rng, tier, n):
        for k in range(n):
            c = {'seed': rng.randrange(1 << 30), 'trace': rng.random() < 0.5}
            if k % 6 == 5:
                c['trace'] = True
                c['two'] = True        # two traces, given to -l in an order that is not the alphabetical one
            if k % 8 == 3 and not c.get('two'):
                c['simplefail'] = True
                c['trace'] = False
            if k % 12 == 7:
                c['module'] = True     # a module of its own (macro defined and used inside) loaded with eval-file, as source and compiled
            yield c

    _trace = None

    def _vcd(self):
        if C16._trace is None:
            vf, _ = gen_trace.simple_vcd(random.Random(16), 6, sigs=gen_expr.SIGS)
            C16._trace = gen_trace.render(vf)
        return C16._trace

    _trace2 = None

    def _vcd2(self):
        if C16._trace2 is None:
            vf, _ = gen_trace.simple_vcd(random.Random(61), 4, sigs=gen_expr.SIGS)
            C16._trace2 = gen_trace.render(vf)
        return C16._trace2

    TWO = ['(print t0^MAX-INDEX " " t1^MAX-INDEX)', '(step t1 1)', '(print t0^INDEX " " t1^INDEX " " t1^top.cnt " " t0^top.cnt)']

    def steps(self, case):
        forms = self.gen_program(random.Random(case['seed']), case['trace'], case.get('simplefail', False))
        if case.get('module'):
            return None
        st = []
        if case['trace']:
            st.append(('loadvcd', 't0', self._vcd()))
        if case.get('two'):
            st.append(('loadvcd', 't1', self._vcd2()))
            forms = self.TWO + [f for f in forms if 'INDEX' not in f and 'find' not in f and 'whenever' not in f and 'count' not in f and '(step' not in f]
        for f in forms:
            st.append(('eval', 'eorg', f))
        return st

    def module_oracle(self, case):
        """(eval-file m) finds m.wo before m.wal: the program behaves the same with the module as source and compiled"""
        wd = impl.workdir()
        r = random.Random(case['seed'])
        n = r.randint(2, 9)
        lib = ["(defmacro sq9 [e] `(* ,e ,e))", f'(define base9 (sq9 {n}))', '(defun twice9 [a] (+ a a))', '(print "lib " base9)']
        prog = ['(eval-file mylib9)', '(print (twice9 base9))', '(print (sq9 3))' if r.random() < 0.5 else '(print (twice9 2))']
        outs = {}
        for kind in ('wal', 'wo'):
            d = os.path.join(wd, 'm_' + kind)
            os.makedirs(d, exist_ok=True)
            with open(os.path.join(d, 'mylib9.wal'), 'w') as f:
                f.write('\n'.join(lib) + '\n')
            with open(os.path.join(d, 'prog.wal'), 'w') as f:
                f.write('\n'.join(prog) + '\n')
            if kind == 'wo':
                comp = cli(['walc', 'mylib9.wal', '-o', 'mylib9.wo'], d)
                if comp[0] != 'done' or comp[1] != 0:
                    return {'what': 'walc failed on a module', 'detail': comp, 'module': lib}
                os.unlink(os.path.join(d, 'mylib9.wal'))
            outs[kind] = cli(['wal', 'prog.wal'], d)
            for fn in os.listdir(d):
                os.unlink(os.path.join(d, fn))
            os.rmdir(d)
        a, b = outs['wal'], outs['wo']
        if a[0] != 'done' or b[0] != 'done':
            return None
        if (a[1], a[2]) != (b[1], b[2]):
            return {'what': 'a program behaves differently when the module it loads is compiled', 'module': lib, 'program': prog,
                    'with_source': (a[1], a[2][-300:]), 'with_wo': (b[1], b[2][-300:]), 'stderr': b[3]}
        if a[1] != 0:
            return {'what': 'the module program failed', 'detail': (a[1], a[2][-300:], a[3])}
        return None

    def oracle(self, case, iobs):
        if case.get('module'):
            return self.module_oracle(case)
        forms = self.gen_program(random.Random(case['seed']), case['trace'], case.get('simplefail', False))
        if case.get('two'):
            forms = self.TWO + [f for f in forms if 'INDEX' not in f and 'find' not in f and 'whenever' not in f and 'count' not in f and '(step' not in f]
        wd = impl.workdir()
        src = os.path.join(wd, 'prog.wal')
        with open(src, 'w') as f:
            f.write('\n'.join(forms) + '\n')
        tr = []
        if case['trace']:
            tp = os.path.join(wd, 'tr.vcd')
            with open(tp, 'w') as f:
                f.write(self._vcd())
            tr = ['-l', tp]
            if case.get('two'):
                tp = os.path.join(wd, 'zb.vcd')          # first on the command line, last in the alphabet
                with open(tp, 'w') as f:
                    f.write(self._vcd())
                tp2 = os.path.join(wd, 'ya.vcd')
                with open(tp2, 'w') as f:
                    f.write(self._vcd2())
                tr = ['-l', tp, tp2]
        # expected from the API run (iobs): stdout concatenated, exit status
        out = ''
        status = 0
        for o in iobs[(2 if case.get('two') else 1 if case['trace'] else 0):]:
            if o[0] == 'ok':
                out += o[2]
            elif o[0] == 'exit':
                status = o[1]
                break
            elif o[0] == 'err':
                status = 70
                break
            else:
                return None
        api = (status, out)
        res = {}
        res['file'] = cli(['wal', src] + tr, wd)
        if not any('defmacro' in f for f in forms):
            # -c takes one expression: a macro defined and used inside the same (do ...) form cannot be expanded up front
            res['-c'] = cli(['wal', '-c', '(do ' + ' '.join(forms) + ')'] + tr, wd)
        wo = os.path.join(wd, 'prog.wo')
        comp = cli(['walc', src, '-o', wo], wd)
        res['wo'] = cli(['wal', wo] + tr, wd) if comp[0] == 'done' and comp[1] == 0 else ('compile-failed', comp)
        for f in (src, wo):
            if os.path.exists(f):
                os.unlink(f)
        for k, r in res.items():
            if r[0] != 'done':
                if status == 0:
                    return {'what': f'path {k} did not run', 'detail': r, 'program': forms}
                continue
            got_status, got_out = r[1], r[2]
            if status == 70:
                # a failing program: every path must fail too; the diagnostic text is not compared
                if got_status == 0:
                    return {'what': f'path {k} reports success for a program that fails through the API', 'program': forms, 'stdout': got_out[-300:]}
                # -c holds the whole program in one form: a pass may refuse it before anything is printed
                if got_status != 70 or (k != '-c' and not got_out.startswith(out)):
                    return {'what': f'execution path "{k}" ends a failing program differently (exit status 70 after the output printed so far)',
                            'program': forms, 'api': api, 'path': (got_status, got_out[:len(out) + 200]), 'stderr': r[3]}
                continue
            if got_status != status or got_out != out:
                return {'what': f'execution path "{k}" differs from the API run', 'program': forms, 'trace': case['trace'],
                        'api': api, 'path': (got_status, got_out), 'stderr': r[3]}
        return None

    def nontrivial(self, case, iobs):
        forms = self.gen_program(random.Random(case['seed']), case['trace'], case.get('simplefail', False))
        return case['trace'] or any('defmacro' in f for f in forms)

    def classify(self, case):
        return 'trace' if case['trace'] else 'notrace'


CHECK = C16()
