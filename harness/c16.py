"""C16 — API, source file, -c and compiled .wo runs agree; passes are idempotent."""
import contextlib
import io
import os
import random
import subprocess
import sys

from . import framework, gen_prog, gen_trace, gen_expr, impl, session

PY = sys.executable
REPO = impl.REPO


def cli(args, cwd, timeout=60):
    env = dict(os.environ, PYTHONPATH=REPO, PYTHONHASHSEED='0')
    try:
        p = subprocess.run(['timeout', str(timeout), PY, '-m'] + args, cwd=cwd, env=env, stdin=subprocess.DEVNULL,
                           stdout=subprocess.PIPE, stderr=subprocess.PIPE, timeout=timeout + 10)
    except subprocess.TimeoutExpired:
        return ('timeout',)
    return ('done', p.returncode, p.stdout.decode('utf-8', 'replace'), p.stderr.decode('utf-8', 'replace')[-400:])


class C16(framework.PropertyCheck):
    pid = 'C16'
    quick_cases = 48
    thorough_cases = 700
    procs_quick = 12
    rule = ('multi-form programs from the core (define/let/fn/set/while/print), list, macro (std macros and a user defmacro used in later forms) and '
            'trace fragments (step, signals, find, whenever, @), with and without a trace given by -l, executed four ways: library API (Wal.eval per '
            'form), python -m wal file.wal, python -m wal -c (do forms...), python -m walc + python -m wal file.wo; stdout, exit status and the final '
            'trace position (printed by a trailing form) are compared; the API run is also compared with the Lean model (passes applied once); '
            'non-trivial = the program uses a user macro in a later form, or a trace')
    assumptions = ['pickle, argparse, process start-up and exit codes are exercised, not modelled',
                   'programs given to -c are wrapped in one (do ...) form, as the option takes a single expression']

    def gen_program(self, r, with_trace):
        g = gen_prog.ProgGen(r, errors=0.0)
        forms = [gen_prog.render(f) for f in g.program(r.randint(1, 3))]
        forms = [f for f in forms]
        extra = []
        k = r.random()
        if k < 0.5:
            extra += ["(defmacro twice [e] `(do ,e ,e))", '(define cnt9 0)', '(twice (set [cnt9 (+ cnt9 1)]))', '(print "cnt " cnt9)']
        if r.random() < 0.5:
            extra += ['(defun addp [a b] (print "add " a " " b) (+ a b))', '(print (addp 1 (addp 2 3)))',
                      "(print (for/list [e '(1 2 3)] (* e e)))", '(print (cond [(> 1 2) "a"] [else "b"]))', "(print (cadr '(1 2 3)))"]
        if r.random() < 0.3:
            extra += ["(defmacro unless2 [c e] `(unless ,c ,e))", '(unless2 #f (print "u2"))', "(print (reverse '(1 2 3)) (sort '(3 1 2)))"]
        if with_trace:
            extra += [r.choice(['(step 2)', '(step)', '(step 1)']), '(print INDEX " " t0^top.cnt)',
                      r.choice(['(print (find (= t0^top.clk 1)))', '(whenever (= t0^top.clk 1) (print "w" INDEX))', '(print t0^top.cnt@1)',
                                '(print (rising t0^top.clk) (count (= t0^top.clk 0)))']), '(print "idx " INDEX)']
        r.shuffle(extra) if False else None
        forms = [f'(print {f})' if not f.startswith('(define') and r.random() < 0.7 else f for f in forms] + extra
        if r.random() < 0.1:
            forms.append(r.choice(['(exit 3)', '(print undefined-variable-zz)', '(exit)']))
            forms.append('(print "after")')
        return forms

    def cases(self, rng, tier, n):
        for _ in range(n):
            yield {'seed': rng.randrange(1 << 30), 'trace': rng.random() < 0.5}

    _trace = None

    def _vcd(self):
        if C16._trace is None:
            vf, _ = gen_trace.simple_vcd(random.Random(16), 6, sigs=gen_expr.SIGS)
            C16._trace = gen_trace.render(vf)
        return C16._trace

    def steps(self, case):
        forms = self.gen_program(random.Random(case['seed']), case['trace'])
        st = []
        if case['trace']:
            st.append(('loadvcd', 't0', self._vcd()))
        for f in forms:
            st.append(('eval', 'eorg', f))
        return st

    def oracle(self, case, iobs):
        forms = self.gen_program(random.Random(case['seed']), case['trace'])
        wd = impl.workdir()
        src = os.path.join(wd, 'prog.wal')
        with open(src, 'w') as f:
            f.write('\n'.join(forms) + '\n')
        tr = []
        if case['trace']:
            tp = os.path.join(wd, 'tr.vcd')
            with open(tp, 'w') as f:
                f.write(self._vcd())
            tr = ['-l', tp]
        # expected from the API run (iobs): stdout concatenated, exit status
        out = ''
        status = 0
        for o in iobs[(1 if case['trace'] else 0):]:
            if o[0] == 'ok':
                out += o[2]
            elif o[0] == 'exit':
                status = o[1]
                break
            elif o[0] == 'err':
                status = 70
                break
            else:
                return None
        api = (status, out)
        res = {}
        res['file'] = cli(['wal', src] + tr, wd)
        if not any('defmacro' in f for f in forms):
            # -c takes one expression: a macro defined and used inside the same (do ...) form cannot be expanded up front
            res['-c'] = cli(['wal', '-c', '(do ' + ' '.join(forms) + ')'] + tr, wd)
        wo = os.path.join(wd, 'prog.wo')
        comp = cli(['walc', src, '-o', wo], wd)
        res['wo'] = cli(['wal', wo] + tr, wd) if comp[0] == 'done' and comp[1] == 0 else ('compile-failed', comp)
        for f in (src, wo):
            if os.path.exists(f):
                os.unlink(f)
        for k, r in res.items():
            if r[0] != 'done':
                if status == 0:
                    return {'what': f'path {k} did not run', 'detail': r, 'program': forms}
                continue
            got_status, got_out = r[1], r[2]
            if status == 70:
                # a failing program: every path must fail too; the diagnostic text is not compared
                if got_status == 0:
                    return {'what': f'path {k} reports success for a program that fails through the API', 'program': forms, 'stdout': got_out[-300:]}
                continue
            if got_status != status or got_out != out:
                return {'what': f'execution path "{k}" differs from the API run', 'program': forms, 'trace': case['trace'],
                        'api': api, 'path': (got_status, got_out), 'stderr': r[3]}
        return None

    def nontrivial(self, case, iobs):
        forms = self.gen_program(random.Random(case['seed']), case['trace'])
        return case['trace'] or any('defmacro' in f for f in forms)

    def classify(self, case):
        return 'trace' if case['trace'] else 'notrace'


CHECK = C16()
