"""Generators for WAL source text: the trace-reading fragment (C03, C04, C13 …).

All generators return source text (the real reader parses it), so cases are JSON-serialisable and replayable.
"""

SIGS = [('clk', 1), ('a', 1), ('d', 4), ('cnt', 8), ('d_valid', 1), ('d_ready', 1), ('e_valid', 1), ('e_ready', 1)]

# definitions every session of the trace-reading fragment starts with (single trace)
PRELUDE_SINGLE = [
    '(defsig v (+ top.cnt 1))',
    '(defsig w (&& (= top.clk 1) (> v 2)))',
    '(defun rd [k] (+ top.cnt k))',
    '(defun isclk [] (= top.clk 1))',
]


def prelude_multi(tids):
    t = tids[0]
    return [f'(defun rd [k] (+ {t}^top.cnt k))', f'(defun isclk [] (= {t}^top.clk 1))']


class ExprGen:
    def __init__(self, rng, tids=None, virtual=True, funcs=True, n_max=8):
        self.rng = rng
        self.tids = tids          # None / [] => single trace, unqualified names
        self.virtual = virtual and not tids
        self.funcs = funcs
        self.n_max = n_max

    def sig(self, name):
        if self.tids:
            return f'{self.rng.choice(self.tids)}^top.{name}'
        return f'top.{name}'

    def special(self, name):
        if self.tids:
            return f'{self.rng.choice(self.tids)}^{name}'
        return name

    def atom(self, want='any'):
        r = self.rng.random()
        if want == 'bool':
            c = [self.sig('clk'), self.sig('d_valid'), self.sig('d_ready')]
            if self.virtual:
                c.append('w')
            if self.funcs:
                c.append('(isclk)')
            return self.rng.choice(c)
        if r < 0.3:
            return self.sig(self.rng.choice(['cnt', 'clk', 'd_valid', 'cnt', 'd_ready']))
        if r < 0.4:
            # a and d may be x-valued: only compared, never used in arithmetic
            return f'(= {self.sig(self.rng.choice(["a", "d"]))} {self.rng.choice(["0", "1", "5"])})'
        if r < 0.55:
            return self.special(self.rng.choice(['INDEX', 'TS', 'INDEX', 'MAX-INDEX']))
        if r < 0.7:
            return str(self.rng.choice([0, 1, 2, 3, 7, -1]))
        if r < 0.8 and self.virtual:
            return self.rng.choice(['v', 'v', 'w'])
        if r < 0.9 and self.funcs:
            return f'(rd {self.rng.randint(0, 3)})'
        if not self.tids and r < 0.95:
            return self.rng.choice(['(in-scope "top" ~cnt)', '(in-group "top.d_" #valid)', '(in-scope "top" (+ ~clk ~d_ready))',
                                    '(in-group "top.d_" (&& #valid #ready))'])
        return self.sig('cnt')

    def num(self, depth):
        r = self.rng.random()
        if depth <= 0 or r < 0.3:
            return self.atom()
        if r < 0.55:
            op = self.rng.choice(['+', '-', '*', '+'])
            return f'({op} {self.num(depth - 1)} {self.num(depth - 1)})'
        if r < 0.7:
            return f'(reval {self.num(depth - 1)} {self.off()})' if self.rng.random() < 0.5 else f'{self.atom()}@{self.off()}'
        if r < 0.8:
            return f'(if {self.boolean(depth - 1)} {self.num(depth - 1)} {self.num(depth - 1)})'
        if r < 0.9:
            return f'(slice {self.sig("cnt")} {self.rng.randint(0, 3)})'
        return self.boolean(depth - 1)

    def boolean(self, depth):
        r = self.rng.random()
        if depth <= 0 or r < 0.25:
            return self.atom('bool')
        if r < 0.55:
            op = self.rng.choice(['=', '!=', '<', '>', '<=', '>='])
            return f'({op} {self.num(depth - 1)} {self.num(depth - 1)})'
        if r < 0.75:
            op = self.rng.choice(['&&', '||'])
            return f'({op} {self.boolean(depth - 1)} {self.boolean(depth - 1)})'
        if r < 0.85:
            return f'(! {self.boolean(depth - 1)})'
        if r < 0.93:
            return f'(reval {self.boolean(depth - 1)} {self.off()})'
        return f'(= {self.sig("a")} {self.rng.choice(["0", "1", chr(34) + "x" + chr(34)])})'

    def off(self):
        return str(self.rng.choice([1, -1, 1, 2, -2, 0, 3, self.rng.randint(-self.n_max, self.n_max)]))

    def expr(self, depth=3):
        return self.num(depth) if self.rng.random() < 0.6 else self.boolean(depth)


def trace_sigs():
    return list(SIGS)
