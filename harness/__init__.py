"""Verification harness for ics-jku/wal. The repository under test is $WAL_REPO (default /repo): it is put in front of
sys.path here, before any module of the package imports `wal`."""
import os
import sys

_REPO = os.environ.get('WAL_REPO', '/repo')
if _REPO not in sys.path:
    sys.path.insert(0, _REPO)
