"""C03 — relative evaluation e@k is exact and position-neutral."""
import random

from . import framework, gen_trace, gen_expr


class C03(framework.PropertyCheck):
    pid = 'C03'
    theorem_coverage = True
    quick_cases = 300
    thorough_cases = 6000
    rule = ('random e of the trace-reading fragment (depth<=4: signals, INDEX/TS, arithmetic/logic, nested @, scoped/grouped references, virtual '
            'signals, user functions) on 1-2 generated traces (N<=7, different lengths), sampled (position, k) pairs with k in [-(N+1),N+1] '
            '(thorough: every pair for N<=5): value of (reval e k) vs value of e after (step k), every index before/after, and '
            '(e@j)@k vs e@(j+k); non-trivial = k != 0 and an in-range as well as an out-of-range pair was exercised')
    assumptions = ['expressions avoid arithmetic on x-valued signals so that evaluation errors are rare; an erroring e ends the case on both sides']

    def cases(self, rng, tier, n):
        for c in range(n):
            ntr = 1 if rng.random() < 0.6 else 2
            lens = [rng.randint(1, 7) for _ in range(ntr)]
            if ntr == 2 and lens[0] == lens[1]:
                lens[1] = lens[1] % 7 + 1
            tids = ['t0', 'tB'][:ntr]
            g = gen_expr.ExprGen(rng, tids if ntr == 2 else None, n_max=max(lens))
            e = g.expr(rng.randint(1, 4))
            if c % 25 == 7 and ntr == 1 and lens[0] >= 2:
                # relative evaluations nested far deeper than any realistic bound (there is none in the language): every level is undone
                sig = 'top.cnt'
                e = sig
                for lvl in range(rng.randint(33, 45)):
                    e = f'(reval {e} {1 if lvl % 2 else -1})'
            if c % 10 == 9 and ntr == 1:
                # an offset that evaluates to zero inside another offset, and a read after it: the inner one changes nothing
                e = rng.choice(['(list (reval INDEX 0) INDEX top.cnt)', '(+ (reval top.cnt (- 1 1)) top.cnt)',
                                "(map (fn [d] (reval top.cnt d)) '(-1 0 1))", '(list top.cnt@0 top.clk@0 TS)',
                                '(do (define z9 (- INDEX INDEX)) (list (reval top.cnt z9) top.cnt INDEX))'])
            nmax = max(lens)
            pairs = []
            all_pairs = tier == 'thorough' and nmax <= 5 and c % 4 == 0
            if all_pairs:
                for i in range(lens[0]):
                    for k in range(-(nmax + 1), nmax + 2):
                        pairs.append([[i] + [min(i, l - 1) for l in lens[1:]], k])
            else:
                for _ in range(6):
                    pos = [rng.randrange(l) for l in lens]
                    pairs.append([pos, rng.randint(-(nmax + 1), nmax + 1)])
            comp = [[[rng.randrange(l) for l in lens], rng.randint(-3, 3), rng.randint(-3, 3)] for _ in range(3)]
            case = {'tids': tids, 'lens': lens, 'seeds': [rng.randrange(1 << 30) for _ in tids], 'e': e, 'pairs': pairs, 'comp': comp}
            if ntr == 1 and c % 5 == 3 and lens[0] >= 3:
                # the trace was trimmed after loading: positions behind the new end are outside the trace
                case['trim'] = rng.randint(1, lens[0] - 2)
                full = lens[0]
                case['lens'] = [case['trim'] + 1]
                case['full'] = full
                case['pairs'] = [[[min(p[0], case['trim'])], k] for p, k in pairs]
                case['comp'] = [[[min(p[0], case['trim'])], j, k] for p, j, k in comp]
            if ntr == 1 and c % 5 == 1:
                case['shadow'] = True       # a local variable carries the name of a signal: under @ it is still the variable
            yield case

    def _idx_syms(self, case):
        if len(case['tids']) == 1:
            return ['INDEX']
        return [f'{t}^INDEX' for t in case['tids']]

    def _goto(self, case, pos):
        if len(case['tids']) == 1:
            return [f'(step (- {pos[0]} INDEX))']
        return [f'(step "{t}" (- {p} {t}^INDEX))' for t, p in zip(case['tids'], pos)]

    def _plan(self, case):
        steps = []
        for tid, n, s in zip(case['tids'], case['lens'], case['seeds']):
            vf, _den = gen_trace.simple_vcd(random.Random(s), case.get('full', n), sigs=gen_expr.SIGS)
            steps.append(('loadvcd', tid, gen_trace.render(vf)))
        if case.get('trim') is not None:
            steps.append(('eval', 'eorg', f"(trim-trace 't0 {case['trim']})"))
        single = len(case['tids']) == 1
        for d in (gen_expr.PRELUDE_SINGLE if single else gen_expr.prelude_multi(case['tids'])):
            steps.append(('eval', 'eorg', d))
        plan = []     # (kind, data, step index)
        idx = ' '.join(self._idx_syms(case))
        e = case['e']
        for pos, k in case['pairs']:
            for g in self._goto(case, pos):
                steps.append(('eval', 'eorg', g))
            plan.append(('reval', (pos, k), len(steps)))
            steps.append(('eval', 'eorg', f'(list {idx} (reval {e} {k}) {idx})'))
            inr = all(0 <= p + k < l for p, l in zip(pos, case['lens']))
            if case.get('shadow'):
                plan.append(('shadow', (pos, k), len(steps)))
                steps.append(('eval', 'eorg', f'(let ([top.cnt 4242]) (list (reval top.cnt {k}) top.cnt (reval (+ top.cnt 1) {k})))'))
            if inr:
                steps.append(('eval', 'eorg', f'(step {k})'))
                plan.append(('direct', (pos, k), len(steps)))
                steps.append(('eval', 'eorg', f'(list {e})'))
        for pos, j, k in case['comp']:
            ok1 = all(0 <= p + k < l for p, l in zip(pos, case['lens']))
            ok2 = all(0 <= p + k + j < l for p, l in zip(pos, case['lens']))
            if not (ok1 and ok2):
                continue
            for g in self._goto(case, pos):
                steps.append(('eval', 'eorg', g))
            plan.append(('comp', (pos, j, k), len(steps)))
            steps.append(('eval', 'eorg', f'(list (reval (reval {e} {j}) {k}) (reval {e} {j + k}) {idx})'))
        return steps, plan

    def steps(self, case):
        return self._plan(case)[0]

    def oracle(self, case, iobs):
        steps, plan = self._plan(case)
        ntr = len(case['tids'])
        last_reval = None
        for kind, data, si in plan:
            if si >= len(iobs):
                # evaluation stopped: acceptable only if an evaluation raised (erroring e); a load problem is not
                if iobs and iobs[-1][0] in ('err', 'timeout'):
                    return None
                return {'what': 'missing observations', 'have': len(iobs), 'need': si}
            o = iobs[si]
            if o[0] != 'ok':
                if o[0] == 'err':
                    # (reval e k) may only raise if e raises at the target position; when the target is out of range it must not raise
                    if kind == 'reval':
                        pos, k = data
                        inr = all(0 <= p + k < l for p, l in zip(pos, case['lens']))
                        if not inr:
                            return {'what': 'reval raised although the target is out of range (e must not be evaluated)', 'pos': pos, 'k': k, 'obs': o}
                    return None
                return None
            vals = o[1][2]
            if kind == 'reval':
                pos, k = data
                before, r, after = vals[:ntr], vals[ntr], vals[ntr + 1:]
                want_pos = tuple(('I', p) for p in pos)
                if before != want_pos or after != want_pos:
                    return {'what': 'trace index changed by relative evaluation', 'e': case['e'], 'pos': pos, 'k': k, 'before': before, 'after': after}
                inr = all(0 <= p + k < l for p, l in zip(pos, case['lens']))
                if not inr and r != ('B', False):
                    return {'what': 'out-of-range relative evaluation did not yield #f', 'e': case['e'], 'pos': pos, 'k': k, 'got': r}
                last_reval = (data, r)
            elif kind == 'shadow':
                pos, k = data
                inr = all(0 <= p + k < l for p, l in zip(pos, case['lens']))
                want = (('I', 4242), ('I', 4242), ('I', 4243)) if inr else (('B', False), ('I', 4242), ('B', False))
                if vals != want:
                    return {'what': 'a local variable named like a signal is not read as the variable under @', 'pos': pos, 'k': k, 'got': vals, 'want': want}
            elif kind == 'direct':
                if last_reval is None or last_reval[0] != data:
                    continue
                direct = vals[0]
                if direct != last_reval[1]:
                    return {'what': '(reval e k) differs from e evaluated after (step k)', 'e': case['e'], 'pos': data[0], 'k': data[1],
                            'reval': last_reval[1], 'direct': direct}
            elif kind == 'comp':
                pos, j, k = data
                if vals[0] != vals[1]:
                    return {'what': '(e@j)@k differs from e@(j+k)', 'e': case['e'], 'pos': pos, 'j': j, 'k': k, 'nested': vals[0], 'flat': vals[1]}
                if vals[2:] != tuple(('I', p) for p in pos):
                    return {'what': 'trace index changed by nested relative evaluation', 'pos': pos, 'after': vals[2:]}
        return None

    def nontrivial(self, case, iobs):
        ins = [all(0 <= p + k < l for p, l in zip(pos, case['lens'])) for pos, k in case['pairs'] if k != 0]
        return True in ins and False in ins

    def classify(self, case):
        return f'{len(case["tids"])}trace'


CHECK = C03()
