"""C15 — standard-library forms and user macros equal their defining equations."""
import random

from . import framework, gen_trace, gen_expr, impl, session, wire

SETUP = ['(define x 3)', '(define y 0)', '(define n 2)', "(define xs '(1 2 3))", '(defsig vclk9 (= top.clk 1))']
PROBE = '(list x y n INDEX)'


def pr(tag, e):
    """operand with an observable evaluation count"""
    return f'(do (print "{tag}") {e})'


def conds(rng, V):
    return rng.choice(['#t', '#f', '1', '0', f'(> {V} 1)', f'(< {V} 1)', '(= top.clk 1)', '(> x 2)', f'(= {V} {V})'])


def vals(rng, V):
    return rng.choice([V, '7', f'(+ {V} 1)', 'x', '"s"', f'(* {V} 2)', f'(set [y (+ y {V})])'])


def gen_form(rng, V, kind=None):
    """-> (library form, defining expression) over the user variable V"""
    k = kind or rng.choice(['when', 'unless', 'cond', 'cond', 'for/list', 'for', 'dowhile', 'until', 'inc', 'dec', 'set!', 'defun', 'car', 'cdr', 'cadr',
                    'rising', 'falling', 'stable', 'unstable', 'nested-temporal', 'nested-temporal', 'always', 'count', 'sum', 'append', 'partition', 'timeframe', 'geta/default',
                    'step-until', 'step-while', 'set-index', 'reverse', 'filter'])
    c, a, b = pr('c', conds(rng, V)), pr('a', vals(rng, V)), pr('b', vals(rng, V))
    if k == 'when':
        return k, f'(when {c} {a} {b})', f'(if {c} (do {a} {b}))'
    if k == 'unless':
        return k, f'(unless {c} {a} {b})', f'(if (! {c}) (do {a} {b}))'
    if k == 'cond':
        nc = rng.randint(0, 4)
        cl = [(pr(f'c{i}', conds(rng, V)), pr(f'v{i}', vals(rng, V))) for i in range(nc)]
        els = rng.random() < 0.5
        form = '(cond ' + ' '.join(f'[{ci} {vi}]' for ci, vi in cl) + (f' [else {a}]' if els else '') + ')'
        eq = f'{a}' if els else None
        for ci, vi in reversed(cl):
            eq = f'(if {ci} (do {vi}) {eq})' if eq is not None else f'(if {ci} (do {vi}))'
        if eq is None:
            eq = '(do)'
        elif els and not cl:
            eq = f'(if #t (do {a}))'
        elif els:
            # the else clause is the innermost alternative: (if #t (do a))
            eq = None
            for ci, vi in reversed(cl + [('#t', a)]):
                eq = f'(if {ci} (do {vi}) {eq})' if eq is not None else f'(if {ci} (do {vi}))'
        return k, form, eq
    if k == 'for/list':
        return k, f'(for/list [e xs] {a} (+ e {V}))', f'(map (fn [e] (do {a} (+ e {V}))) xs)'
    if k == 'for':
        lst = rng.choice(['xs', "'()", f'(list {V} 2)'])
        return k, f'(for [e {lst}] {a} (+ e {V}))', f"(let ([r9 (map (fn [e] (do {a} (+ e {V}))) {lst})]) (if r9 (last r9) '()))"
    if k == 'dowhile':
        return k, f'(dowhile {a} (set [n (- n 1)]) (> n 0))', f'(do {a} (set [n (- n 1)]) (while (> n 0) {a} (set [n (- n 1)])))'
    if k == 'until':
        return k, f'(until (< n 1) {a} (set [n (- n 1)]))', f'(while (! (< n 1)) {a} (set [n (- n 1)]))'
    if k == 'inc':
        return k, '(inc x y)', '(set [x (+ x 1)] [y (+ y 1)])'
    if k == 'dec':
        return k, '(dec x y)', '(set [x (- x 1)] [y (- y 1)])'
    if k == 'set!':
        return k, f'(set! x {a})', f'(set [x {a}])'
    if k == 'defun':
        if rng.random() < 0.3:
            # a body that is a single literal (a string, a number) is the function's value
            lit = rng.choice(['", "', '"ns"', '7', '"doc"'])
            return k, f'(do (defun f9 [p] {lit}) (list (f9 1) (f9 {V})))', f'(do (define f9 (fn [p] {lit})) (list (f9 1) (f9 {V})))'
        return k, f'(do (defun f9 [p q] {a} (+ p q {V})) (f9 1 2))', f'(do (define f9 (fn [p q] {a} (+ p q {V}))) (f9 1 2))'
    if k == 'car':
        return k, f'(car (list {a} 2))', f'(first (list {a} 2))'
    if k == 'cdr':
        return k, f'(cdr (list {a} 2 {V}))', f'(rest (list {a} 2 {V}))'
    if k == 'cadr':
        return k, f'(cadr (list {a} 2 {V}))', f'(first (rest (list {a} 2 {V})))'
    # operands of the temporal forms: signals, expressions, and the things that are not stored samples (a virtual signal, TS, INDEX)
    # ... and operands that move between 0 and a value other than 1 (the forms compare with 0 and 1, not with "zero / not zero")
    sig = rng.choice(['top.clk', 'top.d_valid', '(+ top.clk 0)', 'top.cnt', '(slice top.cnt 0)', 'vclk9', 'TS', 'INDEX', 'vclk9',
                      '(* 2 top.clk)', '(+ top.clk top.clk top.clk)', '(* 7 top.d_valid)', '(- 1 top.clk)'])
    if k == 'rising':
        return k, f'(rising {sig})', f'(&& (= {sig} 0) (= (reval {sig} 1) 1))'
    if k == 'falling':
        return k, f'(falling {sig})', f'(&& (= {sig} 1) (= (reval {sig} 1) 0))'
    if k == 'stable':
        return k, f'(stable {sig})', f'(= {sig} (reval {sig} 1))'
    if k == 'unstable':
        return k, f'(unstable {sig})', f'(!= {sig} (reval {sig} 1))'
    if k == 'nested-temporal':
        f1, f2 = rng.choice(['stable', 'unstable', 'rising', 'falling']), rng.choice(['stable', 'unstable', 'rising', 'falling'])
        eqs = {'rising': lambda e: f'(&& (= {e} 0) (= (reval {e} 1) 1))', 'falling': lambda e: f'(&& (= {e} 1) (= (reval {e} 1) 0))',
               'stable': lambda e: f'(= {e} (reval {e} 1))', 'unstable': lambda e: f'(!= {e} (reval {e} 1))'}
        shape = rng.choice(['nest', 'reval', 'find', 'until'])
        if shape == 'nest':
            return k, f'(list ({f1} ({f2} {sig})) INDEX)', f'(list {eqs[f1](eqs[f2](sig))} INDEX)'
        if shape == 'reval':
            o = rng.choice([1, 2, -1])
            return k, f'(list (reval ({f1} {sig}) {o}) INDEX)', f'(list (reval {eqs[f1](sig)} {o}) INDEX)'
        if shape == 'find':
            return k, f'(list (find (reval ({f1} {sig}) 1)) (count ({f1} ({f2} {sig}))) INDEX)', \
                f'(list (find (reval {eqs[f1](sig)} 1)) (length (find {eqs[f1](eqs[f2](sig))})) INDEX)'
        return k, f'(do (step-until ({f1} ({f2} {sig}))) INDEX)', f'(do (while (&& (! {eqs[f1](eqs[f2](sig))}) (step)) INDEX) INDEX)'
    if k == 'always':
        return k, f'(always (print INDEX {V}) (+ INDEX {V}))', f'(whenever #t (print INDEX {V}) (+ INDEX {V}))'
    if k == 'count':
        return k, f'(count (= {sig} 1))', f'(length (find (= {sig} 1)))'
    if k == 'sum':
        return k, f'(sum (list {V} 2 3))', f'(fold + 0 (list {V} 2 3))'
    if k == 'append':
        el = rng.choice([V, "'(1 2)", '"s"'])
        return k, f'(append (list {a} 1) {el})', f'(+ (list {a} 1) (let ([t9 {el}]) (if (list? t9) (list t9) t9)))'
    if k == 'partition':
        return k, f'(partition (fn [e] (> e {V})) (list 1 {V} 5 9))', \
            f"(list (filter (fn [e] (> e {V})) (list 1 {V} 5 9)) (filter (fn [e] (! (> e {V}))) (list 1 {V} 5 9)))"
    if k == 'timeframe':
        st = rng.choice([1, 2, -1, 5])
        return k, f'(timeframe {a} (step {st}) (+ INDEX {V}))', \
            f'(let ([i9 INDEX] [r9 (do {a} (step {st}) (+ INDEX {V}))]) (step (- i9 INDEX)) r9)'
    if k == 'geta/default':
        key = rng.choice(['"k"', '"nokey"'])
        return k, f'(geta/default (array ("k" {V})) {a} {key})', f'(let ([a9 (array ("k" {V}))]) (if (in {key} a9) (geta a9 {key}) {a}))'
    if k == 'step-until':
        c2 = rng.choice(['(= top.clk 1)', '(> top.cnt 3)', '(= INDEX 2)', '#f', '#t', f'(> INDEX {V})'])
        return k, f'(do (step-until {c2}) INDEX)', f'(do (while (&& (! {c2}) (step)) INDEX) INDEX)'
    if k == 'step-while':
        # the condition is used for its truth value only: a signal value (also an undefined one), a number, a list, a form without a value
        c2 = rng.choice(['(= top.clk 0)', '(< top.cnt 3)', '#t', '#f', f'(< INDEX {V})', 'top.a', 'top.clk', '(- 3 INDEX)', '(when (< INDEX 2) 1)',
                         '(if (< INDEX 3) (list INDEX))', '(slice top.cnt 0)', 'top.d'])
        return k, f'(do (step-while {c2}) INDEX)', f'(do (while (&& {c2} (step)) INDEX) INDEX)'
    if k == 'set-index':
        i = rng.choice([0, 1, 3, -1, 99, V, 5, 6, 'MAX-INDEX', '(+ MAX-INDEX 1)', 'INDEX'])      # the trace has six samples: 5 is the last index
        return k, f'(list (set-index {i}) INDEX)', f'(list (if (< {i} 0) #f (if (> {i} MAX-INDEX) #f (step (- {i} INDEX)))) INDEX)'
    if k == 'reverse':
        return k, f'(reverse (list {V} 2 {a}))', f"(let ([l9 (list {V} 2 {a})]) (list (last l9) (second l9) (first l9)))"
    return 'filter', f'(filter (fn [e] (> e {V})) (list 1 {V} 5 9))', f'(fold (fn [a9 e] (if (> e {V}) (+ a9 e) a9)) (list) (list 1 {V} 5 9))'


# every name that a library macro *template* binds (let names, fn / for parameters, define names inside a quasiquote):
# the temporaries of the property; collected from std.wal by the check at start-up
def template_symbols():
    from . import impl
    from wal.ast_defs import Symbol, Macro, WList, Operator
    from wal.trace.trace import Trace
    w = impl.fresh()
    syms = set()

    def binders(e):
        if isinstance(e, (WList, list)) and len(e) > 1:
            h = e[0]
            if h == Operator.LET and isinstance(e[1], (WList, list)):
                for b in e[1]:
                    if isinstance(b, (WList, list)) and b and isinstance(b[0], Symbol):
                        syms.add(b[0].name)
            elif h == Operator.FN:
                if isinstance(e[1], Symbol):
                    syms.add(e[1].name)
                elif isinstance(e[1], (WList, list)):
                    syms.update(p.name for p in e[1] if isinstance(p, Symbol))
            elif h == Operator.DEFINE and isinstance(e[1], Symbol):
                syms.add(e[1].name)
            elif isinstance(h, Symbol) and h.name in ('for', 'for/list') and isinstance(e[1], (WList, list)) and e[1] and isinstance(e[1][0], Symbol):
                syms.add(e[1][0].name)

    def walk(e, quoted):
        if isinstance(e, (WList, list)):
            q = quoted or (len(e) > 0 and e[0] == Operator.QUASIQUOTE)
            if q:
                binders(e)
            for x in e:
                walk(x, q)
    BY_MACRO.clear()
    for name, v in w.eval_context.global_environment.environment.items():
        if isinstance(v, Macro):
            before = set(syms)
            syms.clear()
            walk(v.expression, False)
            own = set(syms)
            params = [v.args.name] if isinstance(v.args, Symbol) else [p.name for p in v.args if isinstance(p, Symbol)] if isinstance(v.args, (WList, list)) else []
            BY_MACRO[name] = sorted((own | set(params)) - set(Trace.SPECIAL_SIGNALS))
            syms |= before
    return sorted(s for s in syms if s not in Trace.SPECIAL_SIGNALS) + ['acc', 'x', 'TIMEFRAME-START', 'RES', 'tmp', 'temp', 'sym', 'body', 'args', 'condition']


BY_MACRO = {}     # macro name -> names its own template binds (and its parameter names), read from the current std.wal


_TS = None


class C15(framework.PropertyCheck):
    pid = 'C15'
    quick_cases = 700
    thorough_cases = 15000
    rule = ('each library form (when unless cond (0-4 clauses, with/without else) for for/list dowhile until inc dec set! defun car cdr cadr rising '
            'falling stable unstable always count sum append partition timeframe geta/default step-until step-while set-index reverse filter) with '
            'operands that print (evaluation counts) or assign, on a loaded trace at a random start index, against its defining expression on a '
            'twin interpreter: result, stdout, variables and final INDEX; user macros: arguments unevaluated, (m args) vs (eval (macroexpand ...)); '
            'hygiene: the operand variable is named after every name bound by a library macro template (let names, fn/for parameters; read from std.wal at start-up) plus the parameter names of the macros '
            'and after a fresh name; non-trivial = the operand variable carries a template symbol name or the form is temporal')

    def cases(self, rng, tier, n):
        global _TS
        if _TS is None:
            _TS = template_symbols()
        for i in range(n):
            V = 'zz9' if i % 3 == 0 else rng.choice(_TS)
            r = random.Random(rng.randrange(1 << 30))
            if i % 40 == 17:
                yield {'kind': 'topmacro', 'V': V, 'start': 0, 'n': rng.randint(1, 9)}
                continue
            if i % 9 == 8:
                yield {'kind': 'usermacro', 'seed': rng.randrange(1 << 30), 'V': V, 'start': rng.randrange(6)}
                continue
            k, form, eq = gen_form(r, V)
            own = BY_MACRO.get(k) or []
            if own and i % 3 == 1:
                # the operand variable carries a name that this very macro binds in its template (or uses as a parameter)
                V = rng.choice(own)
                k, form, eq = gen_form(random.Random(rng.randrange(1 << 30)), V, kind=k)
            yield {'kind': k, 'form': form, 'eq': eq, 'V': V, 'start': rng.randrange(6)}

    _trace = None
    _den = None

    def _vcd(self):
        if C15._trace is None:
            vf, C15._den = gen_trace.simple_vcd(random.Random(9), 6, sigs=gen_expr.SIGS)
            C15._trace = gen_trace.render(vf)
        return C15._trace

    def temporal_reference(self, form, start):
        """absolute meaning of the temporal forms ("current versus next index"), independent of reval: value of `form` at index
        `start` over the trace's denotation; -> (value,) or None when the form uses anything outside the temporal calculus"""
        from wal.ast_defs import Symbol, Operator
        self._vcd()
        den = C15._den
        n = len(den['timestamps'])

        class Outside(Exception):
            pass

        def ev(e, i):
            if isinstance(e, bool) or isinstance(e, int):
                return e
            if isinstance(e, Symbol):
                if e.name == 'INDEX':
                    return i
                if e.name == 'TS':
                    return den['timestamps'][i]
                if e.name == 'vclk9':
                    return den['values']['top.clk'][i] == 1
                if e.name in den['values']:
                    return den['values'][e.name][i]
                raise Outside()
            if isinstance(e, (list,)) or hasattr(e, 'data'):
                e = list(e)
                h = e[0]
                name = h.value if isinstance(h, Operator) else h.name if isinstance(h, Symbol) else None
                if name == 'list':
                    return [ev(x, i) for x in e[1:]]
                if name in ('+', '*', '-') and len(e) >= 3:
                    vals = [ev(x, i) for x in e[1:]]
                    if not all(isinstance(v, int) and not isinstance(v, bool) for v in vals):
                        raise Outside()
                    acc = vals[0]
                    for v in vals[1:]:
                        acc = acc + v if name == '+' else acc * v if name == '*' else acc - v
                    return acc
                if name == 'reval' and isinstance(e[2], int):
                    return ev(e[1], i + e[2]) if 0 <= i + e[2] < n else False
                if name in ('rising', 'falling', 'stable', 'unstable') and len(e) == 2:
                    cur = ev(e[1], i)
                    nxt = ev(e[1], i + 1) if i + 1 < n else False      # beyond the last index a relative read gives #f
                    if name == 'rising':
                        return bool(cur == 0) and bool(nxt == 1)
                    if name == 'falling':
                        return bool(cur == 1) and bool(nxt == 0)
                    return (cur == nxt) if name == 'stable' else (cur != nxt)
            raise Outside()
        try:
            return (ev(impl.parse(form), start),)
        except Outside:
            return None

    def _steps(self, case, expr):
        st = [('loadvcd', 't0', self._vcd())] + [('eval', 'eor', s) for s in SETUP]
        st.append(('eval', 'eor', f'(step {case["start"]})'))
        V = case['V']
        st.append(('eval', 'eor', f'(let ([{V} 2]) (list {expr}))'))
        st.append(('eval', 'eor', PROBE))
        return st

    def _usermacro(self, case):
        r = random.Random(case['seed'])
        V = case['V']
        m = r.choice([
            ("(defmacro m9 [p q] `(list ',p ,q ,q))", f'(m9 (print "never") {pr("q", V)})'),
            ("(defmacro m9 [p] `',p)", f'(m9 (when {V} (inc x)))', f"'(when {V} (inc x))"),
            (f"(defmacro m9 [p] `(list ',(first p) {V}))", '(m9 (unless 0 1))', f"(list 'unless {V})"),
            ("(defmacro m9 args `(list ,(length args) ',(first (second args))))", f'(m9 {V} (cadr xs) (car xs))', "(list 3 'cadr)"),
            ("(defmacro m9 args `(list ,@(rest args) ',(first args)))", f'(m9 (undefined-fn 1) {pr("a", V)} 3)'),
            ("(defmacro m9 [p] (let ([t (gensym)]) `(let ([,t ,p]) (+ ,t ,t))))", f'(m9 {pr("p", V)})'),
            ("(defmacro m9 [c p] `(if ,c ,p (m8 ,p)))", f'(m9 (< {V} 1) {pr("p", "x")})'),
            # an expansion may be a literal: the call then is that literal
            ("(defmacro m9 [] 5)", '(m9)', '5'),
            # ... and afterwards the program continues where it was: definitions made next are global, variables named like a parameter are the user's
            ("(defmacro m9 [x9] x9)", f'(do (m9 7) (define zz8 (m9 {V})) (list (m9 1) zz8 ((fn [] zz8))))', f'(list 1 {V} {V})'),
            # one operand inserted at two different depths below its binding
            ("(defmacro m9 [k xs] `(if (= ,k 0) '() (for/list [e9 ,xs] (* ,k e9))))", f'(list (m9 {V} \'(1 2)) ((fn [{V}] (let ([w9 1]) (m9 {V} (list {V} w9)))) 3))'),
            ("(defmacro m9 [t xs] `(do (set [,t 0]) (for [e9 ,xs] (set [,t (+ ,t e9)])) ,t))", f'(let ([q9 9]) (list (m9 q9 \'(1 2 3)) q9 {V}))'),
            ("(defmacro m9 [p] (if (list? p) \"l\" #t))", f'(list (m9 (a b)) (m9 {V}))', '(list "l" #t)'),
            # operands that a constant folder could rewrite reach the macro as written, in the call and in macroexpand alike
            ("(defmacro m9 [p q] `(list ',p ,q ,q))", '(m9 (+ 1 2) (* 2 3))'),
            ("(defmacro m9 [p] `',p)", '(m9 (if 1 a b))', "'(if 1 a b)"),
            ("(defmacro m9 [p] `(list ',p (length ',p)))", f'(m9 (do {V}))'),
            ("(defmacro m9 [p] `(list ',(first p) ',(length p)))", '(m9 (&& 1 0 x))', "(list '&& 4)"),
            # code that is evaluated from data inside a local scope is expanded there and runs there: it sees the local variables
            ("(defmacro m9 [p] `(+ ,p ,p))", f"(let ([k9 (+ {V} 1)]) (list (eval '(when k9 (m9 k9))) (eval '(cond [(> k9 0) (inc k9)] [else 0])) k9))",
             f'(list (* 2 (+ {V} 1)) (+ {V} 2) (+ {V} 2))'),
            ("(defmacro m9 [p] `(* 2 ,p))", f"((fn [k9] (list (eval '(unless #f (m9 k9))) (first (eval '(for/list [e9 (list k9 1)] (m9 e9)))))) {V})",
             f'(list (* 2 {V}) (* 2 {V}))'),
            # an operand that is itself a template: its unquotes belong to the caller and are evaluated when the expansion runs, in the caller's scope
            ("(defmacro m9 [p] `(list ,p ,p))", f'(m9 `(a ,{V}))', f"(list (list 'a {V}) (list 'a {V}))"),
            ("(defmacro m9 [p] `(first ,p))", f'(list (m9 `(,(+ {V} 1) 0)) (last (for/list [e9 `(1 ,{V} ,(+ {V} 1))] (* e9 2))))', f'(list (+ {V} 1) (* 2 (+ {V} 1)))'),
            # a quoted list inside a template is still template: unquotes inside it are filled in
            ("(defmacro m9 [p q] `(list (first '(,p ,q)) (length '(,@(list p q p)))))", f'(m9 {V} x)', f"(list '{V} 3)"),
            ("(defmacro m9 args `(length '(,@args)))", f'(list (m9 a b {V}) (m9))', '(list 3 0)'),
            ("(defmacro m9 [p] `(fn [] ,p))", f'(let ([f9 (m9 `(v ,{V}))]) (list (f9) (car `(,{V} 0)) (cadr `(0 ,{V}))))', f"(list (list 'v {V}) {V} {V})"),
        ])
        return m

    def _topmacro(self, case):
        """macros whose expansion is a literal or their operand, called as top-level forms: the program continues where it was"""
        n = case['n']
        forms = [("(defmacro lit9 [] 5)", None), ("(defmacro id9 [x9] x9)", None), ('(lit9)', ('I', 5)), (f'(define zt8 {n})', ('I', n)), ('(lit9)', ('I', 5)),
                 ('zt8', ('I', n)), ('(define x9 10)', ('I', 10)), ('(id9 7)', ('I', 7)), ('x9', ('I', 10)),
                 ('((fn [] (list zt8 x9 (id9 zt8))))', ('L', True, (('I', n), ('I', 10), ('I', n)))), ('(define zu8 (lit9))', ('I', 5)), ('(+ zu8 zt8)', ('I', 5 + n))]
        return forms

    def steps(self, case):
        if case['kind'] == 'topmacro':
            return [('loadvcd', 't0', self._vcd())] + [('eval', 'eor', f) for f, _ in self._topmacro(case)]
        if case['kind'] == 'usermacro':
            d, use = self._usermacro(case)[:2]
            st = [('loadvcd', 't0', self._vcd())] + [('eval', 'eor', s) for s in SETUP]
            st += [('eval', 'eor', "(defmacro m8 [p] `(* 2 ,p))"), ('eval', 'eor', d)]
            st.append(('eval', 'eor', f'(let ([{case["V"]} 2]) (list {use}))'))
            st.append(('eval', 'eor', PROBE))
            return st
        return self._steps(case, case['form'])

    def oracle(self, case, iobs):
        if case['kind'] == 'topmacro':
            for k, (f, want) in enumerate(self._topmacro(case)):
                o = iobs[k + 1] if k + 1 < len(iobs) else None
                if o is None or o[0] != 'ok':
                    return {'what': 'a top-level form after the call of a macro with a literal expansion failed', 'form': f, 'got': o}
                if want is not None and _nokind(o[1]) != _nokind(want):
                    return {'what': 'after the call of a macro whose expansion is a literal the program does not continue in its own environment',
                            'form': f, 'got': o[1], 'want': want, 'forms': [x for x, _ in self._topmacro(case)]}
            return None
        if case['kind'] == 'usermacro':
            um = self._usermacro(case)
            d, use = um[:2]
            st = [('loadvcd', 't0', self._vcd())] + [('eval', 'eor', s) for s in SETUP]
            st += [('eval', 'eor', "(defmacro m8 [p] `(* 2 ,p))"), ('eval', 'eor', d)]
            if len(um) > 2:
                # the arguments reach the macro exactly as written: compare with the datum itself
                st.append(('eval', 'eor', f"(let ([{case['V']} 2]) (list {um[2]}))"))
            else:
                st.append(('eval', 'eor', f"(let ([{case['V']} 2]) (list (eval (macroexpand '{use}))))"))
            st.append(('eval', 'eor', PROBE))
            twin = session.run_impl(st)
            what = '(m args...) differs from the expansion reported by macroexpand'
        else:
            if case['kind'] in ('rising', 'falling', 'stable', 'unstable', 'nested-temporal'):
                ref = self.temporal_reference(case['form'], min(case['start'], 5))
                k0 = len(iobs) - 2
                if ref is not None and k0 >= 0 and iobs[k0][0] == 'ok':
                    want = ('L', True, (wire.canon(ref[0]),))
                    if _nokind(iobs[k0][1]) != _nokind(want):
                        return {'what': 'temporal form differs from its meaning over the trace (current versus next index; index unchanged afterwards)',
                                'form': case['form'], 'start': case['start'], 'got': iobs[k0][1], 'want': want}
            twin = session.run_impl(self._steps(case, case['eq']))
            what = 'library form differs from its defining expression'
        k = len(twin) - 2
        if len(twin) < 3 or twin[k][0] != 'ok':
            return None          # the defining expression itself raises here (e.g. x-valued operand): nothing is claimed
        if len(iobs) != len(twin) or iobs[k:] != twin[k:]:
            return {'what': what, 'kind': case['kind'], 'form': case.get('form') or self._usermacro(case)[1], 'equation': case.get('eq'),
                    'V': case['V'], 'start': case['start'], 'form_result': iobs[k:] if len(iobs) > k else iobs[-1:], 'equation_result': twin[k:]}
        return None

    def nontrivial(self, case, iobs):
        return case['V'] != 'zz9' or case['kind'] in ('rising', 'falling', 'stable', 'unstable', 'always', 'count', 'timeframe', 'step-until', 'step-while')

    def classify(self, case):
        return case['kind']


def _nokind(c):
    return ('L', tuple(_nokind(x) for x in c[2])) if c[0] == 'L' else c


CHECK = C15()
