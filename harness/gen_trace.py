"""Generators for well-formed VCD / CSV traces as abstract descriptions (JSON-serialisable),
their rendering to text, and an independent pointwise reference denotation (the search oracle of C01/C18).

VcdFile = {'header': [item...], 'dump': [item...]}
 header items: ['comment'|'date'|'version', [words]] | ['timescale', [tokens]] | ['scope', kind, name] | ['upscope']
               | ['var', kind, width, id, name, range_or_None]
 dump items:   ['time', t] | ['scalar', v, id] | ['vector', bits, id] | ['cmd', '$dumpvars'|'$end'|...] | ['comment', [words]]
"""
import re

ID_CHARS = [chr(c) for c in range(33, 127)]
TRICKY_IDS = ['#', '$', 'b', 'x', '0', '1', '##', '#1', 'b0', 'x1', '$end1', '1!', 'z', 'bb', '!', '"', "'", '$a', 'Z0']
NAME_PARTS = ['clk', 'rst', 'data', 'valid', 'ready', 'a', 'b', 'cnt', 'state', 'x', 'q_r', 'd_valid', 'd_ready', 'mem']


def norm_var(name):
    name = re.sub(r'\[[0-9]+:[0-9]+\]', '', name)
    name = re.sub(r'\[([0-9]+)\]', r'<\1>', name)
    name = re.sub(r'\(([0-9]+)\)', r'<\1>', name)
    return name


def norm_scope(name):
    name = re.sub(r'\[([0-9]+)\]', r'<\1>', name)
    name = re.sub(r'\(([0-9]+)\)', r'<\1>', name)
    return name


def gen_id(rng, used):
    for _ in range(100):
        r = rng.random()
        if r < 0.35:
            i = rng.choice(TRICKY_IDS)
        elif r < 0.7:
            i = rng.choice(ID_CHARS)
        else:
            i = ''.join(rng.choice(ID_CHARS) for _ in range(rng.randint(2, 4)))
        if i not in used:
            return i
    return 'id%d' % len(used)


def gen_bits(rng, width, xz=0.15, style=None):
    style = style or rng.choice(['full', 'min', 'ext'])
    if rng.random() < xz:
        n = width if style != 'min' else rng.randint(1, width)
        return ''.join(rng.choice('01xzXZ' if rng.random() < 0.5 else '01x') for _ in range(n))
    v = rng.getrandbits(width) if rng.random() < 0.8 else rng.choice([0, 1, (1 << width) - 1, 1 << (width - 1)])
    b = bin(v)[2:]
    if style == 'full':
        return b.rjust(width, '0')
    if style == 'ext':
        return b.rjust(len(b) + rng.randint(0, 3), '0')
    return b


def gen_vcd(rng, max_depth=4, max_vars=12, max_ts=12, widths=(1, 200), tricky=True, share=0.25, min_ts=0,
            changes_per_ts=(0, 6), flat=False):
    header = []
    extras = [['comment', ['some', 'text', '$var', 'wire']], ['date', ['Mon', 'Jan', '1']], ['version', ['gen', '1.0']],
              ['timescale', rng.choice([['1ns'], ['1', 'ns'], ['10', 'ps']])]]
    rng.shuffle(extras)
    n_pre = rng.randint(0, len(extras))
    header.extend(extras[:n_pre])
    used_ids, used_names = [], set()
    decls = []            # (fullname, id, width)
    stack = []
    n_vars = rng.randint(1, max_vars)
    scope_names = set()

    def add_var():
        for _ in range(50):
            base = rng.choice(NAME_PARTS)
            r = rng.random()
            if r < 0.15:
                base += '[%d]' % rng.randint(0, 12)
            elif r < 0.25:
                base += '(%d)' % rng.randint(0, 12)
            elif r < 0.3:
                base += '_%d' % rng.randint(0, 3)
            elif r < 0.35:
                base += '[%d][%d]' % (rng.randint(0, 3), rng.randint(0, 3))
            w = 1 if rng.random() < 0.35 else (rng.randint(2, 16) if rng.random() < 0.6 else rng.randint(widths[0], widths[1]))
            rangetok = None
            if w > 1:
                r = rng.random()
                if r < 0.3:
                    base += '[%d:0]' % (w - 1)        # glued range
                elif r < 0.6:
                    rangetok = '[%d:0]' % (w - 1)     # separate token
            full = '.'.join(stack + [norm_var(base)])
            if full in used_names or full in scope_names:
                continue
            if used_ids and rng.random() < share:
                cands = [(i, ww) for (_f, i, ww) in decls if ww == w]
                if cands:
                    vid = rng.choice(cands)[0]
                else:
                    vid = gen_id(rng, used_ids) if tricky else 'v%d' % len(used_ids)
            else:
                vid = gen_id(rng, used_ids) if tricky else 'v%d' % len(used_ids)
            if vid not in used_ids:
                used_ids.append(vid)
            used_names.add(full)
            decls.append((full, vid, w))
            header.append(['var', rng.choice(['wire', 'reg', 'logic']), w, vid, base, rangetok])
            return
    placed = 0
    while placed < n_vars:
        r = rng.random()
        if not flat and r < 0.3 and len(stack) < max_depth:
            nm = rng.choice(['top', 'u0', 'core', 'alu', 'gen[%d]' % rng.randint(0, 3), 'blk(%d)' % rng.randint(0, 3), 'sub'])
            full = '.'.join(stack + [norm_scope(nm)])
            if full in scope_names or full in used_names:
                continue
            stack.append(norm_scope(nm))
            scope_names.add(full)
            header.append(['scope', rng.choice(['module', 'begin', 'task']), nm])
        elif r < 0.42 and stack:
            stack.pop()
            header.append(['upscope'])
        else:
            if not flat and not stack and rng.random() < 0.7:
                continue      # mostly put variables inside scopes
            add_var()
            placed += 1
        if n_pre < len(extras) and rng.random() < 0.15:
            header.append(extras[n_pre])
            n_pre += 1
    while stack:
        stack.pop()
        header.append(['upscope'])
    header.extend(extras[n_pre:])
    # dump
    dump = []
    ids = [(i, w) for (_f, i, w) in decls]

    def change():
        vid, w = rng.choice(ids)
        if w == 1 and rng.random() < 0.8:
            return ['scalar', rng.choice('01' * 4 + 'xzXZ'), vid]
        return ['vector', gen_bits(rng, w), vid]
    if rng.random() < 0.3:
        for _ in range(rng.randint(1, 3)):
            dump.append(change())          # changes before the first timestamp
    n_ts = rng.randint(min_ts, max_ts)
    t = rng.randint(0, 5)
    for k in range(n_ts):
        dump.append(['time', t])
        t += rng.choice([1, 1, 5, 10, 100, 12345])
        if k == 0 and rng.random() < 0.6:
            dump.append(['cmd', '$dumpvars'])
            for vid, w in ids:
                if rng.random() < 0.9:
                    dump.append(['scalar', rng.choice('01x'), vid] if w == 1 else ['vector', gen_bits(rng, w), vid])
            dump.append(['cmd', '$end'])
        for _ in range(rng.randint(*changes_per_ts)):
            c = change()
            dump.append(c)
            if rng.random() < 0.15:
                dump.append(list(c))       # redundant repeat
            if rng.random() < 0.1:
                dump.append(['comment', ['x', '#5', 'b1', '!']])
        if rng.random() < 0.05:
            dump.append(['cmd', rng.choice(['$dumpall', '$dumpon', '$dumpoff', '$end'])])
    return {'header': header, 'dump': dump}


def render(vf, rng=None):
    """tokens with random layout (any whitespace between tokens)"""
    toks = []
    for it in vf['header']:
        k = it[0]
        if k in ('comment', 'date', 'version'):
            toks += ['$' + k] + list(it[1]) + ['$end']
        elif k == 'timescale':
            toks += ['$timescale'] + list(it[1]) + ['$end']
        elif k == 'scope':
            toks += ['$scope', it[1], it[2], '$end']
        elif k == 'upscope':
            toks += ['$upscope', '$end']
        elif k == 'var':
            toks += ['$var', it[1], str(it[2]), it[3], it[4]] + ([it[5]] if it[5] else []) + ['$end']
    toks += ['$enddefinitions', '$end']
    for it in vf['dump']:
        k = it[0]
        if k == 'time':
            toks.append('#%d' % it[1])
        elif k == 'scalar':
            toks.append(it[1] + it[2])
        elif k == 'vector':
            toks += ['b' + it[1], it[2]]
        elif k == 'cmd':
            toks.append(it[1])
        elif k == 'comment':
            toks += ['$comment'] + list(it[1]) + ['$end']
    if rng is None:
        return '\n'.join(toks) + '\n'
    out = []
    for t in toks:
        out.append(t)
        r = rng.random()
        out.append(' ' if r < 0.5 else '\n' if r < 0.8 else rng.choice(['  ', '\t', '\n\n', ' \n', '\r\n']))
    return ''.join(out)


def bits_to_val(bits):
    if bits and all(c in '01' for c in bits):
        return int(bits, 2)
    return bits


def denote(vf):
    """independent reference: what the property says the trace is"""
    scopes, signals, widths, ids = [], [], {}, {}
    stack = []
    for it in vf['header']:
        if it[0] == 'scope':
            stack.append(norm_scope(it[2]))
            scopes.append('.'.join(stack))
        elif it[0] == 'upscope':
            stack.pop()
        elif it[0] == 'var':
            full = '.'.join(stack + [norm_var(it[4])])
            signals.append(full)
            widths[full] = it[2]
            ids[full] = it[3]
    cur = {}
    ts = []
    cols = {}
    for it in vf['dump']:
        if it[0] == 'time':
            if ts:
                for i in set(ids.values()):
                    cols.setdefault(i, []).append(cur.get(i, 'x'))
            ts.append(it[1])
        elif it[0] == 'scalar':
            cur[it[2]] = it[1]
        elif it[0] == 'vector':
            cur[it[2]] = it[1]
    if ts:
        for i in set(ids.values()):
            cols.setdefault(i, []).append(cur.get(i, 'x'))
    values = {s: [bits_to_val(b) for b in cols.get(ids[s], [])] for s in signals}
    return {'signals': signals, 'scopes': scopes, 'timestamps': ts, 'values': values, 'widths': widths, 'ids': ids}


def simple_vcd(rng, n_idx, sigs=None, scope='top', xz=0.1, xz_names=('a', 'd')):
    """a small regular trace for navigation / scan properties: `n_idx` timestamps, every signal assigned at
    every timestamp with a (mostly) changing value; returns (vf, denotation)"""
    sigs = sigs or [('clk', 1), ('a', 1), ('d', 4), ('cnt', 8)]
    header = [['timescale', ['1ns']]]
    if scope:
        header.append(['scope', 'module', scope])
    for k, (nm, w) in enumerate(sigs):
        header.append(['var', 'wire', w, chr(33 + k), nm, None])
    if scope:
        header.append(['upscope'])
    dump = []
    t = 0
    for i in range(n_idx):
        dump.append(['time', t])
        t += rng.choice([1, 2, 5, 10])
        for k, (nm, w) in enumerate(sigs):
            vid = chr(33 + k)
            if nm == 'clk':
                dump.append(['scalar', str(i % 2), vid])
            elif nm == 'cnt':
                dump.append(['vector', bin(i % (1 << w))[2:], vid])
            elif w == 1:
                dump.append(['scalar', rng.choice('01' * 5 + 'x') if (nm in xz_names and rng.random() < xz * 3) else rng.choice('01'), vid])
            else:
                dump.append(['vector', gen_bits(rng, w, xz=xz if nm in xz_names else 0.0, style='min'), vid])
    vf = {'header': header, 'dump': dump}
    return vf, denote(vf)


# ------------------------------------------------------------------ CSV

def gen_csv(rng, max_cols=6, max_rows=12):
    ncols = rng.randint(1, max_cols)
    names = []
    while len(names) < ncols:
        base = rng.choice(['Channel %d' % rng.randint(0, 7), 'clk', 'data out', 'bus[%d]' % rng.choice([0, 3, 9, 10, 12, 107]), 'D(%d)' % rng.choice([0, 7, 11, 250]),
                           'addr[7:0]', 'a b c', 'sig_%d' % rng.randint(0, 9), 'x', 'mem[%d][%d]' % (rng.randint(0, 2), rng.choice([0, 1, 31])), 'row %d[%d] q' % (rng.randint(0, 2), rng.choice([5, 64])),
                           'sda  in', 'trail ', 'two   gaps',
                           # an index before the range suffix: only the range is dropped
                           'mem[%d][7:0]' % rng.randint(0, 3), 'a[1] b[%d:0]' % rng.choice([7, 15]), 'w[2][15:8] x'])      # every blank is one underscore, wherever it stands
        if norm_csv(base) not in [norm_csv(n) for n in names]:
            names.append(base)
    tpos = rng.randint(0, ncols)
    header = names[:tpos] + ['Time [s]'] + names[tpos:]
    nrows = rng.randint(1, max_rows)
    nd = rng.randint(0, 9)
    mixed = rng.random() < 0.35
    # seconds: small captures, long captures and absolute (epoch based) time stamps — far beyond what a double holds exactly in ns
    t = rng.choice([rng.randint(0, 3), rng.randint(0, 3), 8400000, 1727600000, 4503600]) * 10 ** 9 + rng.randint(0, 10 ** 9 - 1)
    rows = []
    for _ in range(nrows):
        sec, frac = divmod(t, 10 ** 9)
        fr = ('%09d' % frac)[:nd]
        if nd == 0:
            ttxt = str(sec) + rng.choice(['', '', '.'])
        else:
            ttxt = f'{sec}.{fr}'
        if mixed:
            # the same instant written with another number of fraction digits (trailing zeros dropped or added), row by row
            core = fr.rstrip('0') if nd else ''
            core = core + '0' * rng.randint(0, 9 - len(core))
            ttxt = f'{sec}.{core}' if core else str(sec) + rng.choice(['', '.'])
        # the value the row's text denotes (truncated to nd digits)
        tns = sec * 10 ** 9 + (int(fr) * 10 ** (9 - nd) if nd else 0)
        cells = []
        for _n in names:
            r = rng.random()
            cells.append(rng.choice('01') if r < 0.6 else 'x' if r < 0.7 else ''.join(rng.choice('01') for _ in range(rng.randint(2, 70))))
        row = cells[:tpos] + [ttxt] + cells[tpos:]
        rows.append({'cells': row, 'tns': tns})
        t += rng.choice([1, 10, 1000, 12345678, 10 ** 9])
    return {'header': header, 'rows': rows, 'tpos': tpos}


def norm_csv(name):
    name = name.replace(' ', '_')
    return norm_var(name)


def render_csv(cf, rng=None):
    lines = [','.join(cf['header'])] + [','.join(r['cells']) for r in cf['rows']]
    txt = '\n'.join(lines)
    if rng is not None and rng.random() < 0.5:
        txt += '\n'
    return txt


def denote_csv(cf):
    names = [norm_csv(h) for h in cf['header'] if h != 'Time [s]']
    cols = [i for i, h in enumerate(cf['header']) if h != 'Time [s]']
    values = {n: [bits_to_val(r['cells'][c]) for r in cf['rows']] for n, c in zip(names, cols)}
    return {'signals': names, 'timestamps': [r['tns'] for r in cf['rows']], 'values': values}
