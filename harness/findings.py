"""Known findings: genuine defects recorded rather than repaired (known_findings.json).

Each finding names a matcher (a function here) that recognises exactly the recorded failure
on (case, violation); any other violation of the same property is still reported.
The file is never written at run time.
"""
from . import framework

MATCHERS = {}


def matcher(name):
    def deco(f):
        MATCHERS[name] = f
        return f
    return deco


def match(pid, case, viol):
    for f in framework.load_findings().get('findings', []):
        if f['property'] != pid:
            continue
        m = MATCHERS.get(f['matcher'])
        if m and m(case, viol):
            return f
    return None
