"""C02 — time navigation is exact and bounds-safe."""
from . import framework, gen_trace


def probe_text(tids, single):
    if single:
        return '(list INDEX TS MAX-INDEX top.cnt top.d)'
    parts = []
    for t in tids:
        parts += [f'{t}^INDEX', f'{t}^TS', f'{t}^MAX-INDEX', f'{t}^top.cnt', f'{t}^top.d']
    return '(list ' + ' '.join(parts) + ')'


def gen_ops(rng, tids, lens, n_ops, exhaustive_alphabet=False):
    single = len(tids) == 1
    nmax = max(lens)
    ops = []
    for _ in range(n_ops):
        k = rng.randint(-(nmax + 2), nmax + 2)
        r = rng.random()
        if r < 0.06:
            # the trace is shortened (never below the current position): its end is the new MAX-INDEX from then on
            ops.append(['trim', rng.choice(tids), rng.randint(0, nmax)])
        elif r < 0.15:
            ops.append(['step'])
        elif r < 0.4:
            ops.append(['stepn', k])
        elif r < 0.5:
            ops.append(['stepid', rng.choice(tids)])
        elif r < 0.7:
            ops.append(['stepidn', [rng.choice(tids)], k])
        elif r < 0.75 and not single:
            ops.append(['stepidn', list(tids) if rng.random() < 0.7 else [tids[1], tids[0]], k])
        elif r < 0.8 and not single:
            # the amount is an expression over the position of the first-named trace: it is evaluated once, before any trace moves
            ops.append(['stepexpr', list(tids) if rng.random() < 0.5 else [tids[1], tids[0]], rng.choice([0, 1, 2])])
        elif r < 0.9 and single:
            ops.append(['setindex', rng.randint(-2, nmax + 2)] if rng.random() < 0.7 else ['setindexall', rng.randint(-2, nmax + 2)])
        elif r < 0.9:
            ops.append(['setindexall', rng.randint(-2, nmax + 2)])
        elif single:
            ops.append(['rewind'])
        else:
            ops.append(['stepn', k])
    return ops


def op_text(op):
    k = op[0]
    if k == 'step':
        return '(step)'
    if k == 'stepn':
        return f'(step {op[1]})'
    if k == 'stepid':
        return f'(step "{op[1]}")'
    if k == 'stepidn':
        return '(step ' + ' '.join(f'"{t}"' for t in op[1]) + f' {op[2]})'
    if k == 'stepsym':
        return '(step ' + ' '.join(op[1]) + f' {op[2]})'
    if k == 'stepexpr':
        return '(step ' + ' '.join(f'"{t}"' for t in op[1]) + f' (- {op[2]} {op[1][0]}^INDEX))'
    if k == 'setindex':
        return f'(set-index {op[1]})'
    if k == 'setindexall':
        return f'(set-index/all {op[1]})'
    if k == 'rewind':
        return '(step (- INDEX))'
    if k == 'sample':
        return "(sample-at '(" + ' '.join(map(str, op[2])) + f") {op[1]})"
    if k == 'stepunknown':
        return f'(step "{op[1]}" {op[2]})' if op[2] != 1 else f'(step "{op[1]}")'
    if k == 'trim':
        return f"(if (<= {op[1]}^INDEX {op[2]}) (trim-trace '{op[1]} {op[2]}) #f)"
    if k == 'trim1':
        return f"(if (<= INDEX {op[2]}) (trim-trace '{op[1]} {op[2]}) #f)"
    raise ValueError(k)


class C02(framework.PropertyCheck):
    pid = 'C02'
    quick_cases = 400
    thorough_cases = 12000
    rule = ('random op sequences (len<=12) over step / step n / step "tid" / step tid.. n / set-index / set-index/all / (step (- INDEX)) / trim-trace (at or above the position) on 1-2 '
            'generated traces (N<=9, different lengths), amounts in [-(N+2),N+2]; thorough adds all sequences of length<=3 over the op '
            'alphabet for N1,N2<=3; non-trivial = at least one in-range and one out-of-range request')
    assumptions = ['VCD files are read by the real reader; trace contents come from harness/gen_trace.simple_vcd',
                   'set-index is exercised with a single trace only (it reads the unqualified INDEX); set-index/all with one and two traces']

    def cases(self, rng, tier, n):
        for _ in range(n):
            ntr = 1 if rng.random() < 0.45 else 2
            lens = [rng.randint(1, 10) for _ in range(ntr)]
            if ntr == 2 and lens[0] == lens[1]:
                lens[1] = lens[1] % 10 + 1
            tids = ['t0', 'tB'][:ntr]
            seeds = [rng.randrange(1 << 30) for _ in range(ntr)]
            ops = gen_ops(rng, tids, lens, rng.randint(1, 12))
            if rng.random() < 0.25:
                # a resampling that names its trace, somewhere after the trace has moved: the position starts again at the first sample
                t = rng.choice(tids)
                n_t = lens[tids.index(t)]
                keep = sorted(rng.sample(range(n_t), rng.randint(1, n_t)))
                ops.insert(rng.randint(len(ops) // 2, len(ops)), ['sample', t, keep])
            if rng.random() < 0.15:
                # a request that names a trace which is not loaded is refused (last: the evaluation raises)
                ops.append(['stepunknown', rng.choice(['zz', 'tC', 't1']), rng.choice([1, 2, -1])])
            yield {'tids': tids, 'lens': lens, 'seeds': seeds, 'ops': ops}
        if tier == 'thorough':
            # bounded-exhaustive part
            import itertools
            for n1 in range(1, 4):
                for n2 in [None] + list(range(1, 4)):
                    tids = ['t0'] if n2 is None else ['t0', 'tB']
                    lens = [n1] if n2 is None else [n1, n2]
                    if n2 == n1:
                        continue
                    nm = max(lens)
                    alpha = [['step'], ['stepid', 't0']] + [['stepn', k] for k in range(-(nm + 1), nm + 2)]
                    alpha += [['stepidn', ['t0'], k] for k in (-1, 1, nm)]
                    if n2 is None:
                        alpha += [['setindex', i] for i in range(-1, nm + 1)] + [['rewind']]
                    else:
                        alpha += [['stepidn', ['tB'], k] for k in (-1, 1)] + [['stepidn', ['t0', 'tB'], 1], ['stepid', 'tB']]
                    for L in (1, 2, 3):
                        for seq in itertools.product(alpha, repeat=L):
                            yield {'tids': tids, 'lens': lens, 'seeds': [1, 2][:len(tids)], 'ops': [list(o) for o in seq]}

    def _traces(self, case):
        import random
        res = []
        for tid, n, s in zip(case['tids'], case['lens'], case['seeds']):
            vf, den = gen_trace.simple_vcd(random.Random(s), n)
            res.append((tid, vf, den))
        return res

    def steps(self, case):
        steps = []
        for tid, vf, _den in self._traces(case):
            steps.append(('loadvcd', tid, gen_trace.render(vf)))
        single = len(case['tids']) == 1
        pt = probe_text(case['tids'], single)
        steps.append(('eval', 'eorg', pt))
        for op in case['ops']:
            if op[0] == 'trim' and single:
                op = ['trim1'] + op[1:]
            steps.append(('eval', 'eorg', op_text(op)))
            steps.append(('eval', 'eorg', pt))
        return steps

    def oracle(self, case, iobs):
        """index arithmetic on the implementation's observations"""
        traces = self._traces(case)
        ntr = len(traces)
        idx = {tid: 0 for tid, _, _ in traces}
        mx = {tid: len(den['timestamps']) - 1 for tid, _, den in traces}
        dens = {tid: den for tid, _, den in traces}
        look = {}

        def expected_probe():
            vals = []
            for tid, _, _ in traces:
                d = dens[tid]
                i = look[tid][idx[tid]] if tid in look else idx[tid]
                vals += [('I', idx[tid]), ('I', d['timestamps'][i]), ('I', mx[tid]), _v(d['values']['top.cnt'][i]), _v(d['values']['top.d'][i])]
            return ('L', True, tuple(vals))

        def _v(x):
            return ('I', x) if isinstance(x, int) else ('S', x)

        k = ntr          # observation index after the loads
        for o in iobs[:ntr]:
            if o != ('ok',):
                return {'what': 'load failed', 'obs': o}
        if k >= len(iobs):
            return {'what': 'missing observation'}
        if iobs[k][0] != 'ok' or iobs[k][1] != expected_probe():
            return {'what': 'initial probe differs', 'got': iobs[k], 'want': expected_probe()}
        k += 1
        for n_op, op in enumerate(case['ops']):
            kind = op[0]
            if kind == 'stepunknown':
                if k >= len(iobs):
                    return {'what': 'evaluation stopped early', 'op': op_text(op), 'obs': iobs[-1]}
                if iobs[k][0] == 'ok':
                    return {'what': 'a request naming a trace that is not loaded was not refused', 'op': op_text(op), 'got': iobs[k]}
                return None
            if kind == 'sample':
                t, keep = op[1], op[2]
                if k + 1 >= len(iobs):
                    return {'what': 'evaluation stopped early', 'op': op_text(op), 'obs': iobs[-1]}
                look[t] = list(keep)
                idx[t] = 0
                mx[t] = len(keep) - 1
                got_r, got_p = iobs[k], iobs[k + 1]
                want = expected_probe()
                if got_r[0] != 'ok' or got_p[0] != 'ok' or got_p[1] != want:
                    return {'what': 'positions/values after a resampling that names its trace differ', 'op_index': n_op, 'op': op_text(op),
                            'got': got_p, 'want': want}
                k += 2
                continue
            if kind == 'trim':
                t, m = op[1], op[2]
                if idx[t] <= m:
                    mx[t] = min(m, mx[t])
                    want_r = ('I', mx[t])
                else:
                    want_r = ('B', False)
                if k + 1 >= len(iobs):
                    return {'what': 'evaluation stopped early', 'op': op_text(op), 'obs': iobs[-1]}
                got_r, got_p = iobs[k], iobs[k + 1]
                if got_r[0] != 'ok' or got_r[1] != want_r:
                    return {'what': 'wrong result of trimming', 'op_index': n_op, 'op': op_text(op), 'got': got_r, 'want': want_r}
                want = expected_probe()
                if got_p[0] != 'ok' or got_p[1] != want:
                    return {'what': 'positions/values after trimming differ', 'op_index': n_op, 'op': op_text(op), 'got': got_p, 'want': want}
                k += 2
                continue
            # expected effect
            if kind in ('step', 'stepn', 'rewind', 'setindex', 'setindexall'):
                if kind == 'setindexall':
                    amt = {t: op[1] - idx[t] for t in idx}      # every trace is asked to go to that index, each on its own
                elif kind == 'step':
                    amt = {t: 1 for t in idx}
                elif kind == 'stepn':
                    amt = {t: op[1] for t in idx}
                elif kind == 'rewind':
                    amt = {t: -idx[t] for t in idx}
                else:
                    i = op[1]
                    t0 = traces[0][0]
                    if i < 0 or i > mx[t0]:
                        amt = None
                    else:
                        amt = {t0: i - idx[t0]}
                targets = list(idx)
            elif kind == 'stepexpr':
                a0 = op[2] - idx[op[1][0]]
                amt = {t: a0 for t in op[1]}
                targets = op[1]
            elif kind == 'stepid':
                amt = {op[1]: 1}
                targets = [op[1]]
            else:
                amt = {t: op[2] for t in op[1]}
                targets = op[1]
            ok = True
            if amt is None:
                ok = False
            else:
                for t in targets:
                    if t not in amt:
                        continue
                    ni = idx[t] + amt[t]
                    if 0 <= ni <= mx[t]:
                        idx[t] = ni
                    else:
                        ok = False
            if k + 1 >= len(iobs):
                return {'what': 'evaluation stopped early', 'op': op_text(op), 'obs': iobs[-1]}
            got_r, got_p = iobs[k], iobs[k + 1]
            if got_r[0] != 'ok' or got_r[1] != ('B', ok):
                return {'what': 'wrong result of navigation request', 'op_index': n_op, 'op': op_text(op), 'got': got_r, 'want': ok}
            want = expected_probe()
            if got_p[0] != 'ok' or got_p[1] != want:
                return {'what': 'positions/values after request differ', 'op_index': n_op, 'op': op_text(op), 'got': got_p, 'want': want}
            k += 2
        return None

    def nontrivial(self, case, iobs):
        res = [o[1] for o in iobs if o[0] == 'ok' and len(o) > 1 and o[1][0] == 'B']
        return ('B', True) in res and ('B', False) in res

    def classify(self, case):
        return f'{len(case["tids"])}trace'


CHECK = C02()
