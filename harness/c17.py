"""C17 — completed evaluations leave a balanced context; run starts fresh."""
import random

from . import framework, gen_trace, gen_expr, impl, session, wire

CTX = '(list CS CG LOCAL-SIGNALS)'
TOP_LOCAL = ('L', True, (('S', ''), ('S', ''), ('L', False, ())))


def nest(r, depth, fresh):
    """a random nesting of context-establishing constructs around a body"""
    if depth <= 0:
        return r.choice(['(step 1)', '(step -1)', '(step 2)', 'INDEX', f'(define {fresh()} 1)', '(print INDEX)', '(+ top.cnt 1)',
                         '(do (step 1) INDEX)', 'CS', '(list CS CG)', '(step (- INDEX))'])
    k = r.choice(['let', 'call', 'in-scope', 'in-group', 'in-groups', 'reval', 'find', 'whenever', 'timeframe', 'all-scopes', 'do', 'if', 'map'])
    b = nest(r, depth - 1, fresh)
    if k == 'let':
        return f'(let ([{fresh()} {r.randint(0, 3)}]) {b})'
    if k == 'call':
        return f'((fn [{fresh()}] {b}) {r.randint(0, 3)})'
    if k in ('in-scope', 'in-group', 'in-groups') and r.random() < 0.25:
        # the body itself moves the captured scope: the construct puts back what was there before it started
        b = r.choice(['(set-scope top)', '(unset-scope)', '(do (set-scope top) CS)', f'(do (set-scope top) {b})'])
    if k == 'in-scope':
        return f'(in-scope "{r.choice(["top", "nosuchscope", "top"])}" {b})'
    if k == 'in-group':
        return f'(in-group "{r.choice(["top.d_", "top.e_", "grp"])}" {b})'
    if k == 'in-groups':
        return f'(in-groups (groups "_valid" "_ready") {b})'
    if k == 'reval':
        return f'(reval {b} {r.choice([1, -1, 2, 0, 9])})'
    if k == 'find':
        return f'(find (do {b} (= top.clk 1)))' if 'define' not in b and 'step' not in b else f'(do {b} (find (= top.clk 1)))'
    if k == 'whenever':
        if 'define' in b or 'step' in b:
            # a body that moves the index inside a scan may never terminate: keep it outside, use a timeframe inside
            return f'(do {b} (whenever (= top.clk 1) (timeframe (step 1) INDEX)))'
        return f'(whenever (= top.clk 1) {b})'
    if k == 'timeframe':
        return f'(timeframe {b})'
    if k == 'all-scopes':
        return f'(all-scopes (do {b}))' if 'define' not in b else f'(do {b} (all-scopes (list CS)))'
    if k == 'do':
        return f'(do {b} {nest(r, depth - 1, fresh)})'
    if k == 'if':
        return f'(if (> INDEX 1) {b} {nest(r, depth - 1, fresh)})'
    return f"(map (fn [{fresh()}] {b}) '(1 2))" if 'define' not in b else b


class C17(framework.PropertyCheck):
    pid = 'C17'
    theorem_coverage = True
    quick_cases = 300
    thorough_cases = 6000
    rule = ('histories of up to 6 top-level evaluations, each a random nesting (depth<=5) of let / call / in-scope / in-group / in-groups / reval / find / '
            'whenever / timeframe / all-scopes / map around bodies that move the index, read the context or define variables, each followed by probes '
            '(CS CG LOCAL-SIGNALS, captured scope/group, saved-position stack, current frame = global, a fresh top-level define visible from a new '
            'function); then Wal.run of a program vs the same program on a new interpreter with the same trace; keyword bindings for every subset of '
            'pre-defined/fresh names; non-trivial = nesting depth >= 3 or a prior history before run')

    def cases(self, rng, tier, n):
        for i in range(n):
            yield {'seed': rng.randrange(1 << 30), 'kind': 'kwargs' if i % 10 in (4, 9) else 'two' if i % 10 == 7 else 'history'}

    _trace2 = None

    def _plan_two(self, case):
        """two traces of different length: position-neutral constructs leave *every* trace where it was, also when the request could be
        served for one of them only"""
        if C17._trace2 is None:
            vf, _ = gen_trace.simple_vcd(random.Random(71), 3, sigs=gen_expr.SIGS)
            C17._trace2 = gen_trace.render(vf)
        r = random.Random(case['seed'])
        steps = [('loadvcd', 't0', self._vcd()), ('loadvcd', 'tB', C17._trace2)]
        marks = []
        idx = '(list t0^INDEX tB^INDEX)'
        for _k in range(r.randint(1, 4)):
            steps.append(('eval', 'eorg', r.choice(['(step t0 1)', '(step tB 1)', '(step t0 2)', '(step 1)', '(step t0 -1)', '(step tB -1)'])))
            form = r.choice(['(reval t0^top.cnt 1)', '(reval t0^top.cnt 2)', '(reval t0^top.cnt 4)', '(reval (list t0^top.cnt tB^top.cnt) 1)',
                             '(reval (reval t0^top.cnt 2) 1)', '(reval t0^top.cnt -1)', '(reval (reval tB^top.cnt 3) 1)', '(rising t0^top.clk)',
                             '(find/g (= t0^top.clk 1))', '(whenever (= t0^top.clk 1) 1)',
                             # a scan that walks the traces one after the other puts each of them back
                             '(find (= t0^top.clk 1))', '(count (= tB^top.clk 1))', '(length (find (= t0^top.cnt tB^top.cnt)))',
                             '(let ([z 1]) (find (= t0^top.clk z)))', '(reval (count (= t0^top.clk 1)) 1)'])
            marks.append(('pos2', len(steps), form))
            steps.append(('eval', 'eorg', idx))
            steps.append(('eval', 'eorg', form))
            steps.append(('eval', 'eorg', idx))
            marks.append(('state2', len(steps)))
            steps.append(('state',))
        return steps, marks

    _trace = None

    def _vcd(self):
        if C17._trace is None:
            vf, _ = gen_trace.simple_vcd(random.Random(17), 6, sigs=gen_expr.SIGS)
            C17._trace = gen_trace.render(vf)
        return C17._trace

    def _plan(self, case):
        r = random.Random(case['seed'])
        cnt = [0]

        def fresh():
            cnt[0] += 1
            return f'w{cnt[0]}'
        steps = [('loadvcd', 't0', self._vcd()), ('eval', 'eorg', '(defmacro lit9 [] 5)'), ('eval', 'eorg', '(defmacro id9 [x9] x9)')]
        marks = []
        for k in range(r.randint(1, 6)):
            form = nest(r, r.randint(1, 5), fresh)
            if r.random() < 0.12:
                form = r.choice(['(lit9)', '(id9 3)', '(id9 INDEX)'])      # a macro whose expansion is a literal / its operand, as a top-level form
            neutral = form.startswith(('(reval ', '(find ', '(whenever ', '(timeframe '))
            if neutral:
                marks.append(('pos', len(steps), form))
                steps.append(('eval', 'eorg', 'INDEX'))
            steps.append(('eval', 'eorg', form))
            if neutral:
                steps.append(('eval', 'eorg', 'INDEX'))
            marks.append(('ctx', len(steps)))
            steps.append(('eval', 'eorg', CTX))
            marks.append(('state', len(steps)))
            steps.append(('state',))
            v, g = fresh(), fresh()
            marks.append(('visible', len(steps) + 1, k))
            steps.append(('eval', 'eorg', f'(define {v} {k + 40})'))
            steps.append(('eval', 'eorg', f'(do (define {g} (fn [] {v})) ({g}))'))
        # explicit persistent operations, then run
        if r.random() < 0.7:
            steps.append(('eval', 'eorg', r.choice(['(set-scope top)', "(alias q9 'top.cnt)", '(step 2)', '(define zz 5)',
                                                   "(defmacro mm [a] `(+ ,a 1))", '(in-group "top.d_" (set-scope top))',
                                                   # library functions are variables like any other: what a history does to them ends with run
                                                   '(set! reverse (fn [xs] xs))', '(set [sort (fn [l] l)] [car (fn [l] 0)])', '(set! sum (fn [l] -1))'])))
        prog = r.choice(["(list INDEX CS CG (defined? 'zz) (defined? 'w1) (signal? 'q9) LOCAL-SIGNALS)",
                         "(do (step 1) (list INDEX (in-scope \"top\" ~cnt) (defined? 'mm)))",
                         '(list (find (= top.clk 1)) INDEX top.cnt)',
                         "(list (reverse '(1 2 3)) (sort '(2 3 1 0)) (car '(4 5)) (sum '(1 2)) INDEX)"])
        marks.append(('run', len(steps), prog))
        steps.append(('run', prog))
        steps.append(('state',))
        return steps, marks

    def steps(self, case):
        if case['kind'] == 'kwargs':
            return None
        if case['kind'] == 'two':
            return self._plan_two(case)[0]
        return self._plan(case)[0]

    def oracle(self, case, iobs):
        if case['kind'] == 'kwargs':
            return self._kwargs(case)
        steps, marks = self._plan_two(case) if case['kind'] == 'two' else self._plan(case)
        for m in marks:
            si = m[1]
            if m[0] == 'pos2':
                if si + 2 < len(iobs) and all(iobs[si + j][0] == 'ok' for j in range(3)) and iobs[si][1] != iobs[si + 2][1]:
                    return {'what': 'a position-neutral construct left one of two traces at another index', 'form': m[2],
                            'before': iobs[si][1], 'after': iobs[si + 2][1]}
                continue
            if m[0] == 'state2':
                if si < len(iobs) and iobs[si][0] == 'st' and iobs[si][4] != 0:
                    return {'what': 'saved-position stack not empty after a completed evaluation (two traces)', 'got': iobs[si]}
                continue
            if si >= len(iobs):
                return None         # an evaluation raised (e.g. in-scope of an unknown scope with ~ref): nothing is claimed afterwards
            o = iobs[si]
            if m[0] == 'ctx':
                if o[0] != 'ok' or session._sortinner(o[1]) != TOP_LOCAL:
                    return {'what': 'CS / CG / LOCAL-SIGNALS are not back at the top-level context after a completed evaluation',
                            'after': steps[si - 1][2] if steps[si - 1][2] != 'INDEX' else steps[si - 2][2], 'got': o}
            elif m[0] == 'pos':
                if si + 2 < len(iobs) and iobs[si + 1][0] == 'ok' and iobs[si + 2][0] == 'ok' and o[0] == 'ok' and o[1] != iobs[si + 2][1]:
                    return {'what': 'a position-neutral construct (reval / find / whenever / timeframe) left the trace at another index',
                            'form': m[2], 'before': o[1], 'after': iobs[si + 2][1]}
            elif m[0] == 'state':
                if o[:7] != ('st', '', '', 1, 0, 0, 0):
                    return {'what': 'interpreter context not balanced (captured scope/group, saved-position stack, current frame)',
                            'after': steps[si - 2][2], 'got': o}
            elif m[0] == 'visible':
                if o[0] != 'ok' or o[1] != ('I', m[2] + 40):
                    return {'what': 'a new top-level define is not visible from a new function', 'after': steps[si - 4][2] if si >= 4 else None, 'got': o}
            elif m[0] == 'run':
                fresh = session.run_impl([('loadvcd', 't0', self._vcd()), ('eval', 'eor', m[2]), ('state',)])
                if o[0] == 'ok' and fresh[1][0] == 'ok':
                    if (o[1], o[2]) != (fresh[1][1], fresh[1][2]):
                        return {'what': 'Wal.run differs from the same program on a freshly started interpreter', 'program': m[2],
                                'history': [s[2] for s in steps[1:si] if s[0] == 'eval'][-3:], 'run': o, 'fresh': fresh[1]}
                    if si + 1 < len(iobs) and iobs[si + 1] != fresh[2]:
                        return {'what': 'interpreter context after Wal.run differs from a fresh interpreter', 'run': iobs[si + 1], 'fresh': fresh[2]}
                elif (o[0] == 'ok') != (fresh[1][0] == 'ok'):
                    return {'what': 'Wal.run and a fresh interpreter disagree on success', 'program': m[2], 'run': o, 'fresh': fresh[1]}
        return None

    def _kwargs(self, case):
        """keyword bindings passed to Wal.eval: visible during the evaluation only, pre-existing variables untouched"""
        r = random.Random(case['seed'])
        w = impl.fresh()
        names = ['ka', 'kb', 'kc']
        pre = {n: r.choice([0, 0, r.randint(1, 9), None]) for n in names if r.random() < 0.5}    # also values that are false in Python, and "nothing"
        for n, v in pre.items():
            w.eval(impl.parse(f'(define {n} {v})' if v is not None else f'(define {n} (if #f 1))'))
        kw = {n: r.choice([0, r.randint(10, 19)]) for n in names if r.random() < 0.6}
        expr = '(list ' + ' '.join(f"(if (defined? '{n}) {n} \"-\")" for n in names) + ')'
        res = impl.run_eval(w, impl.parse(expr), 'eorg')
        try:
            import contextlib
            import io
            with contextlib.redirect_stdout(io.StringIO()):
                during = wire.canon(w.eval(impl.parse(expr), **kw))
        except BaseException as e:  # noqa: BLE001
            return {'what': 'Wal.eval with keyword bindings raised', 'pre': pre, 'kw': kw, 'error': type(e).__name__}
        after = impl.run_eval(w, impl.parse(expr), 'eorg')
        cv = lambda v: wire.canon(v)     # noqa: E731
        want_during = ('L', True, tuple(('I', kw[n]) if n in kw else cv(pre[n]) if n in pre else ('S', '-') for n in names))
        want_after = ('L', True, tuple(cv(pre[n]) if n in pre else ('S', '-') for n in names))
        if during != want_during:
            return {'what': 'keyword bindings not visible during the evaluation', 'pre': pre, 'kw': kw, 'got': during, 'want': want_during}
        if after[0] != 'ok' or wire.canon(after[1]) != want_after or res[0] != 'ok':
            return {'what': 'keyword bindings left a lasting effect on pre-existing variables', 'pre': pre, 'kw': kw,
                    'after': wire.canon(after[1]) if after[0] == 'ok' else after, 'want': want_after}
        return None

    def nontrivial(self, case, iobs):
        if case['kind'] in ('kwargs', 'two'):
            return True
        steps, _ = self._plan(case)
        return any(s[0] == 'eval' and s[2].count('(') >= 6 for s in steps)

    def classify(self, case):
        return case['kind']


CHECK = C17()
