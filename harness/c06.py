"""C06 — core evaluator: lexical scoping, closures, left-to-right single evaluation."""
from . import framework, gen_prog

PROBE = "(list (if (defined? 'a) a \"-\") (if (defined? 'b) b \"-\") (if (defined? 'c) c \"-\"))"
PROBE_REF = ['list'] + [['if', ['defined?', n], n, {'s': '-'}] for n in gen_prog.NAMES]


def ref_probe(r):
    vals = []
    for n in gen_prog.NAMES:
        if n in r.glob.vars:
            vals.append(gen_prog.ref_canon(r.glob.vars[n]))
        else:
            vals.append(('S', '-'))
    return ('L', tuple(vals))


class C06(framework.PropertyCheck):
    pid = 'C06'
    theorem_coverage = True
    quick_cases = 1500
    thorough_cases = 30000
    rule = ('closed programs of the core calculus (define let fn (fixed and variadic) call set if case while do quote quasiquote eval print '
            'arithmetic/logic/list) over the names {a,b,c}: random typed programs (size<=12 forms) with templates for recursion, higher-order '
            'functions, counters shared between closures, loops, shadowing, quoting, and deliberate unbound-name / arity / redefinition / '
            'undefined-assignment errors; each program runs through the full pipeline (Wal.eval) and through the bare evaluator; thorough adds '
            'all expressions of the binding grammar (let/fn/define/set/+ over {a,b}) up to size 6; the oracle is an independent textbook '
            'reference evaluator (harness/gen_prog.py::Ref); non-trivial = the program binds a name that shadows another binding or calls a closure')
    assumptions = ['the reference evaluator fixes WAL\'s surface conventions (define/set return the value, && / || return booleans, printed forms)',
                   'generated programs are well-typed except for the four error laws of the property']

    def cases(self, rng, tier, n):
        g = gen_prog.ProgGen(rng)
        for i in range(n):
            forms = g.program(rng.randint(1, 4))
            yield {'forms': forms, 'mode': 'eorg' if i % 3 else ''}
        if tier == 'thorough':
            for e in gen_prog.enumerate_small(6):
                yield {'forms': [['define', 'b', 5], e], 'mode': 'eorg'}
                yield {'forms': [['define', 'b', 5], e], 'mode': ''}

    def steps(self, case):
        steps = [('eval', case['mode'], gen_prog.render(f)) for f in case['forms']]
        steps.append(('eval', case['mode'], PROBE))
        return steps

    def oracle(self, case, iobs):
        r = gen_prog.Ref()
        n_ok = 0
        out = ''
        for k, f in enumerate(case['forms']):
            before = len(r.out)
            try:
                v = gen_prog.ref_canon(r.ev(f, r.glob))
            except gen_prog.RefOutside:
                return None
            except gen_prog.RefError as e:
                if k < len(iobs) and iobs[k][0] == 'ok':
                    return {'what': 'the program must raise an error here but produced a value', 'form_index': k, 'form': gen_prog.render(f),
                            'reference_error': str(e), 'got': iobs[k], 'program': [gen_prog.render(x) for x in case['forms']], 'mode': case['mode']}
                return None
            except (gen_prog.Fuel, RecursionError):
                return None
            want_out = ''.join(r.out[before:])
            if k >= len(iobs):
                return {'what': 'missing observation'}
            o = iobs[k]
            if o[0] == 'timeout':
                return None
            if o[0] != 'ok':
                if case['mode'] and gen_prog.static_redefine(f, set(r.glob.vars) - ({f[1]} if isinstance(f, list) and f and f[0] == 'define' and f[1] in r.glob.vars and False else set())):
                    return None     # refused up front: a name is defined twice in one scope (the property's redefinition error)
                return {'what': 'the program raised an error although the reference semantics gives a value', 'form_index': k,
                        'form': gen_prog.render(f), 'want': v, 'got': o, 'program': [gen_prog.render(x) for x in case['forms']], 'mode': case['mode']}
            got = gen_prog.strip_canon(o[1])
            if got != v:
                return {'what': 'result differs from lexically scoped reference semantics', 'form_index': k, 'form': gen_prog.render(f),
                        'want': v, 'got': got, 'program': [gen_prog.render(x) for x in case['forms']], 'mode': case['mode']}
            if o[2] != want_out:
                return {'what': 'printed output differs (evaluation order / single evaluation)', 'form_index': k, 'form': gen_prog.render(f),
                        'want': want_out, 'got': o[2], 'program': [gen_prog.render(x) for x in case['forms']], 'mode': case['mode']}
            n_ok += 1
        k = len(case['forms'])
        if k < len(iobs) and iobs[k][0] == 'ok':
            got = gen_prog.strip_canon(iobs[k][1])
            want = ref_probe(r)
            if got != want:
                return {'what': 'final values of the global variables differ', 'want': want, 'got': got,
                        'program': [gen_prog.render(x) for x in case['forms']], 'mode': case['mode']}
        return None

    def nontrivial(self, case, iobs):
        txt = ' '.join(gen_prog.render(f) for f in case['forms'])
        return '(fn ' in txt or txt.count('(let ') + txt.count('(define ') >= 2

    def classify(self, case):
        return 'pipeline' if case['mode'] else 'bare'


CHECK = C06()
