"""Wire codec (harness side) and canonical forms of WAL values.

canon(v): implementation value -> canonical nested tuples
enc(v):   implementation value (code) -> request tokens for the Lean driver
dec(toks): reply tokens of the driver -> canonical nested tuples
"""
import struct

from wal.ast_defs import Operator, Symbol, WList, Unquote, UnquoteSplice, Closure, Macro


def hx(s):
    return s.encode('utf-8').hex()


def unhx(h):
    return bytes.fromhex(h).decode('utf-8')


def fbits(f):
    return struct.unpack('<Q', struct.pack('<d', f))[0]


def canon(v, depth=0):
    if depth > 200:
        return ('DEEP',)
    if v is None:
        return ('N',)
    if isinstance(v, bool):
        return ('B', v)
    if isinstance(v, int):
        return ('I', v)
    if isinstance(v, float):
        return ('F', fbits(v))
    if isinstance(v, str):
        return ('S', v)
    if isinstance(v, Symbol):
        return ('Y', v.name, v.steps)
    if isinstance(v, Operator):
        return ('O', v.value)
    if isinstance(v, WList):
        return ('L', True, tuple(canon(x, depth + 1) for x in v.data))
    if isinstance(v, (list, tuple)):
        return ('L', False, tuple(canon(x, depth + 1) for x in v))
    if isinstance(v, Unquote):
        return ('U', canon(v.content, depth + 1))
    if isinstance(v, UnquoteSplice):
        return ('US', canon(v.content, depth + 1))
    if isinstance(v, Closure):
        return ('C',)
    if isinstance(v, Macro):
        return ('M',)
    if isinstance(v, dict):
        return ('A', tuple((str(k), canon(x, depth + 1)) for k, x in v.items()))
    if isinstance(v, type):
        return ('T', str(v)[8:-2])
    return ('X', type(v).__name__)


def enc(v, out=None):
    """tokens for a code value (what the reader / the generators produce)"""
    top = out is None
    if top:
        out = []
    if v is None:
        out.append('N')
    elif isinstance(v, bool):
        out.append('T' if v else 'F')
    elif isinstance(v, int):
        out.append(f'i{v}')
    elif isinstance(v, float):
        out.append(f'f{fbits(v)}')
    elif isinstance(v, str):
        out.append('s' + hx(v))
    elif isinstance(v, Symbol):
        if v.steps is None:
            out.append('y' + hx(v.name))
        else:
            out.append(f'Y{v.steps}:' + hx(v.name))
    elif isinstance(v, Operator):
        out.append('o' + hx(v.value))
    elif isinstance(v, WList):
        out.append('(')
        for x in v.data:
            enc(x, out)
        out.append(')')
    elif isinstance(v, (list, tuple)):
        out.append('[')
        for x in v:
            enc(x, out)
        out.append(']')
    elif isinstance(v, Unquote):
        out.append('u')
        enc(v.content, out)
    elif isinstance(v, UnquoteSplice):
        out.append('U')
        enc(v.content, out)
    else:
        raise TypeError(f'cannot encode {type(v)}')
    if top:
        return ' '.join(out)
    return None


def dec(toks, i=0):
    """decode one value from reply tokens; returns (canonical, next index)"""
    t = toks[i]
    if t == '(' or t == '[':
        w = t == '('
        close = ')' if w else ']'
        i += 1
        items = []
        while toks[i] != close:
            v, i = dec(toks, i)
            items.append(v)
        return ('L', w, tuple(items)), i + 1
    if t == 'N':
        return ('N',), i + 1
    if t == 'T':
        return ('B', True), i + 1
    if t == 'F':
        return ('B', False), i + 1
    if t == 'u':
        v, i = dec(toks, i + 1)
        return ('U', v), i
    if t == 'U':
        v, i = dec(toks, i + 1)
        return ('US', v), i
    if t == 'c':
        return ('C',), i + 1
    if t == 'm':
        return ('M',), i + 1
    if t == 'a(':
        i += 1
        items = []
        while toks[i] != ')':
            k = unhx(toks[i])
            v, i = dec(toks, i + 1)
            items.append((k, v))
        return ('A', tuple(items)), i + 1
    c, r = t[0], t[1:]
    if c == 'i':
        return ('I', int(r)), i + 1
    if c == 'f':
        return ('F', int(r)), i + 1
    if c == 's':
        return ('S', unhx(r)), i + 1
    if c == 'y':
        return ('Y', unhx(r), None), i + 1
    if c == 'Y':
        k, h = r.split(':', 1)
        return ('Y', unhx(h), int(k)), i + 1
    if c == 'o':
        return ('O', unhx(r)), i + 1
    if c == 't':
        return ('T', unhx(r)), i + 1
    raise ValueError(f'bad reply token {t!r}')


def show(c):
    """short human-readable rendering of a canonical value (for samples / replays)"""
    k = c[0]
    if k == 'N':
        return 'None'
    if k == 'B':
        return '#t' if c[1] else '#f'
    if k == 'I':
        return str(c[1])
    if k == 'F':
        return repr(struct.unpack('<d', struct.pack('<Q', c[1]))[0])
    if k == 'S':
        return '"' + c[1] + '"'
    if k == 'Y':
        return c[1] if c[2] is None else f'{c[1]}/{c[2]}'
    if k == 'O':
        return c[1]
    if k == 'L':
        return ('(' if c[1] else '[') + ' '.join(show(x) for x in c[2]) + (')' if c[1] else ']')
    if k == 'U':
        return ',' + show(c[1])
    if k == 'US':
        return ',@' + show(c[1])
    if k == 'A':
        return '{' + ' '.join(f'{kk}:{show(v)}' for kk, v in c[1]) + '}'
    return str(c)
