"""C07 — static variable resolution never changes program behaviour."""
from . import framework, gen_prog, session
from .c06 import PROBE


class C07(framework.PropertyCheck):
    pid = 'C07'
    theorem_coverage = True
    quick_cases = 1500
    thorough_cases = 30000
    rule = ('core-calculus programs whose names are disjoint from signal names and whose defines occur in straight-line positions: random '
            'typed programs with templates (recursion, higher-order functions, shared counters, multi-pair set, nil bindings, eval of quoted '
            'code, quasiquote) and std macros (when unless cond inc for/list map fold callbacks); each program runs twice on fresh interpreters, '
            'expand->optimize->resolve->eval vs expand->optimize->eval; thorough adds every nesting of let/fn/define/set over {a,b} up to size 6 '
            '(uses and assignments 0..3 frames below their binding, with and without intervening shadowing); non-trivial = some symbol is '
            'resolved with steps >= 2 or an assignment with steps >= 1')
    assumptions = ['a program that the pass refuses up front (a name defined twice in one scope) is outside the claim',
                   'a define that is shadowing a name captured earlier by a closure in an intermediate scope is outside the quantifier '
                   '(defines in straight-line positions, see DESIGN.md C07 ResolveSafe)']

    def cases(self, rng, tier, n):
        g = gen_prog.ProgGen(rng, errors=0.01)
        for i in range(n):
            forms = g.program(rng.randint(1, 4))
            if rng.random() < 0.3:
                forms = forms + self.macro_forms(rng)
            yield {'forms': forms}
        if tier == 'thorough':
            for e in gen_prog.enumerate_small(6):
                yield {'forms': [['define', 'b', 5], e, 'b']}

    def macro_forms(self, rng):
        x = rng.choice(gen_prog.NAMES)
        v = f'm{rng.randint(0, 9)}'
        return rng.choice([
            [['define', v, 0], ['let', [[x, 3]], ['when', ['>', x, 1], ['set', [v, ['+', v, x]]], v]], v],
            [['define', v, 1], ['let', [['q1', 1]], ['let', [['q2', 2]], ['inc', v], ['inc', v, v], ['list', v, 'q1', 'q2']]], v],
            [['define', v, 2], ['map', ['fn', [x], ['+', x, v]], ['quote', [1, 2, 3]]], ['fold', ['fn', ['acc', x], ['+', 'acc', ['*', x, v]]], 0, ['quote', [1, 2]]]],
            [['define', v, 2], ['for/list', [x, ['quote', [1, 2]]], ['let', [['z', x]], ['set', [v, ['+', v, 'z']]], v]], v],
            [['define', v, 0], ['let', [[x, 5]], ['cond', [['<', x, 1], 0], [['<', x, 9], ['set', [v, x]], ['+', v, 1]], ['else', 2]]], v],
            [['define', v, 3], ['define', 'ff', ['fn', [x], ['unless', ['<', x, 1], ['set', [v, ['+', v, 1]]], ['ff', ['-', x, 1]]]]], ['ff', 2], v],
            [['defun', 'gg', [x], ['let', [['u', x]], ['fn', [], ['set', ['u', ['+', 'u', 1]]], 'u']]], ['define', v, ['gg', 4]], [v], [v]],
            [['define', v, 1], ['let', [[x, 2]], ['eval', ['quote', ['set', [v, ['+', v, x]]]]]], v],
            # a user macro that inserts one operand at two different depths below its binding (once in the test, once inside a function body)
            [['defmacro', 'sc9', ['k', 'xs'], ['quasiquote', ['if', ['=', ['unquote', 'k'], 0], ['quote', []],
                                                            ['for/list', ['e9', ['unquote', 'xs']], ['*', ['unquote', 'k'], 'e9']]]]],
             ['define', v, 7], ['let', [[x, 3]], ['sc9', x, ['quote', [1, 2]]]], ['define', 'h9', ['fn', [x], ['let', [['w9', 1]], ['sc9', x, ['list', x, 'w9']]]]], ['h9', 2], v],
            [['defmacro', 'acc9', ['t', 'xs'], ['quasiquote', ['do', ['set', [['unquote', 't'], 0]],
                                                             ['for', ['e9', ['unquote', 'xs']], ['set', [['unquote', 't'], ['+', ['unquote', 't'], 'e9']]]], ['unquote', 't']]]],
             ['define', v, 100], ['let', [[x, 9]], ['acc9', x, ['quote', [1, 2, 3]]], ['list', x, v]], v],
            # a define that does not execute, then an assignment in the same body: the assignment reaches the outer variable
            [['define', v, 0], ['define', 'cd9', ['fn', ['c'], ['if', 'c', ['define', v, 5], 0], ['set', [v, 7]], v]], ['cd9', 0], v],
        ])

    def _steps(self, case, mode):
        st = [('eval', mode, gen_prog.render(f)) for f in case['forms']]
        st.append(('eval', mode, PROBE))
        return st

    def steps(self, case):
        return self._steps(case, 'eor')

    def oracle(self, case, iobs):
        dyn = session.run_impl(self._steps(case, 'eo'))
        for k in range(max(len(dyn), len(iobs))):
            d = dyn[k] if k < len(dyn) else None
            r = iobs[k] if k < len(iobs) else None
            if d == r:
                if d is not None and d[0] != 'ok':
                    break
                continue
            if d is None or r is None:
                return {'what': 'observation count differs', 'k': k}
            if d[0] == 'timeout' or r[0] == 'timeout':
                return None
            form = case['forms'][k] if k < len(case['forms']) else None
            if r[0] == 'err' and d[0] == 'ok' and form is not None:
                # refused up front? (a name defined twice in one scope: AssertionError from the pass)
                glob = set()
                for f in case['forms'][:k]:
                    if isinstance(f, list) and f and f[0] in ('define', 'defun') and isinstance(f[1], str):
                        glob.add(f[1])
                if r[1] == 'AssertionError' and gen_prog.static_redefine(form, glob):
                    return None
            if d[0] == 'err' and r[0] == 'err':
                break            # both fail (possibly with different exception classes)
            return {'what': 'behaviour differs with static resolution', 'form_index': k, 'form': gen_prog.render(form) if form is not None else 'probe',
                    'resolved': r, 'dynamic': d, 'program': [gen_prog.render(x) for x in case['forms']]}
        # second opinion: resolution that is wired into an operator (eval) cannot be switched off by the twin run;
        # compare the resolved run with the reference semantics of the core calculus as well
        if not any(isinstance(f, list) and f and isinstance(f[0], str) and f[0] in MACROS for f in _walk(case['forms'])):
            from .c06 import CHECK as C06
            v = C06.oracle({'forms': case['forms'], 'mode': 'eor'}, iobs)
            if v:
                v['what'] = 'with static resolution: ' + v['what']
                return v
        return None

    def nontrivial(self, case, iobs):
        from . import impl, wire
        try:
            for f in case['forms']:
                a = impl.resolve(impl.parse(gen_prog.render(f)), start={})
                if _deep(wire.canon(a)):
                    return True
        except Exception:  # noqa: BLE001
            pass
        return False

    def classify(self, case):
        return f'forms{min(len(case["forms"]), 12) // 4 * 4}+'


MACROS = {'when', 'unless', 'cond', 'inc', 'for/list', 'map', 'fold', 'defun', 'for', 'defmacro'}


def _walk(p):
    if isinstance(p, list):
        yield p
        for x in p:
            yield from _walk(x)


def _deep(c):
    if c[0] == 'Y':
        return c[2] is not None and c[2] >= 2
    if c[0] == 'L':
        items = c[2]
        if items and items[0] == ('O', 'set'):
            for pair in items[1:]:
                if pair[0] == 'L' and pair[2] and pair[2][0][0] == 'Y' and (pair[2][0][2] or 0) >= 1:
                    return True
        return any(_deep(x) for x in items)
    return False


CHECK = C07()
