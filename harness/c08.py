"""C08 — the optimisation pass never changes observable behaviour."""
import random

from . import framework, gen_trace, session

ATOMS = ['0', '1', '2', '0.0', '1.5', '""', '"a"', '#t', '#f', 'x', 'top.cnt',
         '(do (print "p") 3)', '(do (step) 0)', '(do (set [y (+ y 1)]) "")']
OPS = ['if', 'do', '+', '*', '&&', '||']
NEIGH = ['-', '=', '!', 'list', 'print', '>', 'first']

SETUP = ['(define x 3)', '(define y 0)', '(define s "")', '(define xs (list 1 2))', "(defmacro q8 [e] `(list ',e ,e))", '(define gs "lk")', '(define xf 0.3)']
PROBE = '(list x y INDEX)'


def gen_tree(rng, depth, ops=OPS, atoms=ATOMS):
    if depth <= 0 or rng.random() < 0.25:
        a = rng.choice(atoms + ['s', 'xs', '"b"', '3', '-1', '2.5'])
        return a
    op = rng.choice(ops) if rng.random() < 0.85 else rng.choice(NEIGH)
    if op == 'if':
        n = rng.choice([2, 3, 3])
    elif op in ('!', 'first'):
        n = 1
    elif op in ('-', '=', '>'):
        n = 2
    else:
        n = rng.choice([1, 2, 2, 3, 3])
    args = [gen_tree(rng, depth - 1, ops, atoms) for _ in range(n)]
    if op == 'first':
        return f'(first (list {args[0]}))'
    return '(' + op + ' ' + ' '.join(args) + ')'


LITS = ['0', '1', '2', '0.0', '1.5', '""', '"a"', '#t', '#f', '-1', '3']
NUMS = ['0', '1', '2', '0.0', '1.5', '3', '-1', '#t']
DYN = ['x', 's', 'xs', 'top.cnt', '(do (print "p") 3)', '(do (step) 0)', '(do (set [y (+ y 1)]) "")', '(do (set [s (+ s "q")]) s)']


def gen_sensitive(rng):
    """shapes on which the rewrites decide: literal conditions, literal prefixes followed by run-time operands"""
    k = rng.choice(['if', 'if', '+', '+', '*', '&&', '||', 'do', 'nest', 'ifbool', 'fsum', 'typed', 'emptydo', 'evalmacro', 'formarg', 'casekey', 'symarg'])
    if k == 'symarg':
        # neighbours that take a list operand as an expression to evaluate and a bare symbol as a name: what the pass makes of an operand
        # keeps it an expression
        e = rng.choice(['(do gs)', '(if #t gs "zz")', '(if 0 "zz" gs)', '(+ "l" "k")', '(do "lk")', '(do (do gs))'])
        return rng.choice([f'(groups {e})', f'(length (groups {e}))', f'(in-groups (groups {e}) CG)', f'(list (groups {e}) (groups "lk"))'])
    if k == 'casekey':
        # the key of a case clause is data (it is compared as it stands, never evaluated): a constant expression written there is not folded
        e = rng.choice(['(+ 1 2)', '(* 2 3)', '(if #t 1 2)', '(do 5)', '(&& 1 2)', '(|| 0 0)', '(+ "a" "b")'])
        v = rng.choice(['3', '6', '1', '5', '#t', '#f', '"ab"', f"'{e}", 'x', '(+ 1 2)'])
        if rng.random() < 0.3:
            # every default clause that stands before the matching clause is evaluated, in order, whatever the key form is
            kf = rng.choice(['2', '(+ 1 1)', '(do 2)', 'x', '(if #t 2 3)'])
            return rng.choice([f'(case {kf} (default (print "d") (set [y (+ y 1)])) (1 "one") (2 "two") (3 "three"))',
                               f'(case {kf} (1 "one") (default (print "d")) (2 (print "t") "two") (default (print "e") 5))',
                               f'(list (case {kf} (default (step) 0) (2 INDEX)) INDEX)'])
        return rng.choice([f'(case {v} ({e} "key") (default "dflt"))', f'(case {v} (7 "seven") ({e} (print "k") 1) (default (print "d") 2))',
                           f'(case {v} ({e} {e}) (default {e}))', f'(case {e} (3 "three") (6 "six") (default {e}))'])
    if k == 'formarg':
        # neighbours that take an expression as it stands (evaluated later, per scope / per position): what the pass makes of a constant
        # operand is still an expression they accept
        e = rng.choice(['(+ 1 2)', '(if #t 1 2)', '(do 5)', '(* 2 3)', '(&& 1 2)', '(|| 0 0)', '(+ "a" "b")', '(+ x 1)'])
        return rng.choice([f'(all-scopes {e})', f'(reval {e} 1)', f'(length (find {e}))', f'(in-scope "top" {e})', f'(timeframe {e})',
                           f'(whenever (= top.clk 1) {e})'])
    if k == 'evalmacro':
        # code that is evaluated from data goes through the same passes in the same order: a macro called there sees its operand as written
        e = rng.choice(['(+ 1 2)', '(if #t 1 2)', '(do 5)', '(* 2 3)', '(&& 1 2)', '(+ x 1)', '(+ 1 2 x)',
                        '(list (- 10 (* 2 3)))', '(= (> (* 2 3) 7) #t)', '(- (+ 1 2) (first (list (* 2 2))))'])
        return rng.choice([f"(eval '(q8 {e}))", f"(eval '(list (q8 {e}) {e}))", f"(let ([z 1]) (eval '(q8 {e})))", f'(q8 {e})',
                           # data that has been evaluated is still the data it was
                           f"(let ([qd '(when 1 {e})]) (list (eval qd) qd))", f"(let ([qd '(list (unless 0 {e}) {e})]) (list (eval qd) qd (eval qd)))"])
    if k == 'typed':
        # constant expressions whose operands are equal as numbers but differ in type: each folds to the value of its own type
        sets = [['(+ 1 2)', '(+ 1.0 2)', '(+ #t 2)', '(+ 1 2.0)'], ['(* 2 0)', '(* 2.0 0)', '(* 2 0.0)', '(* #t 0)'],
                ['(+ 0.0 0.0)', '(+ 0 0)', '(+ #f 0)'], ['(* 1 1)', '(* 1.0 1)', '(* #t #t)', '(* 1 1.0)'], ['(+ 3 -1)', '(+ 3.0 -1)', '(+ 3 -1.0)']]
        fs = list(rng.choice(sets))
        rng.shuffle(fs)
        return '(list ' + ' '.join(fs) + ')'
    if k == 'emptydo':
        # an empty do yields nothing; as last statement it decides the value of the enclosing do
        v = rng.choice(['5', 'x', '(do (set [y (+ y 1)]) 3)', '"a"'])
        e = rng.choice(['(do)', '(do (do))', '(if #t (do))', '(when #t)', '(do (do) (do))'])
        return rng.choice([f'(do {v} {e})', f'(if (do {v} {e}) (print "then") (print "else"))', f'(list (do {v} {e}) (do {e} {v}))',
                           f'(do {v} (do {v} {e}))'])
    if k == 'ifbool':
        # the branches are the two booleans (or 1/0) and the condition is a run-time value that is not itself a boolean
        c = rng.choice(DYN + ['x', 's', 'xs', 'top.cnt', '(+ x 2)', '(list)', '""', '(do (set [y 7]))'])
        a, b = rng.choice([('#t', '#f'), ('#f', '#t'), ('1', '0'), ('#t', '#f')])
        return rng.choice([f'(if {c} {a} {b})', f'(print (if {c} {a} {b}))', f'(list (if {c} {a} {b}) (if {c} {a}))'])
    if k == 'fsum':
        # sums / products of three and more float literals: folding must round exactly as the evaluation does
        fl = ['0.1', '0.2', '0.3', '0.7', '1.5', '-0.1', '10000000000000000.0', '-10000000000000000.0', '1.0', '3', '0.000001', '123456.789']
        args = [rng.choice(fl) for _ in range(rng.randint(3, 6))]
        if rng.random() < 0.2:
            # a constant expression that cannot be computed at all (an integer too large for a float sum), in code that never runs
            huge = '1' + '0' * rng.randint(309, 330)
            bad = rng.choice([f'(+ 0.5 {huge})', f'(* 1.5 {huge} 2)', f'(+ {huge} 0.25 1)'])
            return rng.choice([f'(if #f {bad} 7)', f'(case 1 (2 {bad}) (default 3))', f'(do (defun dead9 [] {bad}) 4)', f'(if (= x x) 5 {bad})'])
        if rng.random() < 0.3:
            args.insert(rng.randrange(len(args) + 1), rng.choice(['x', '(do (print "p") 0.2)']))
        return f'({rng.choice(["+", "+", "*"])} ' + ' '.join(args) + ')'
    if k == 'if':
        c = rng.choice(LITS + ['(+ "" "")', '(do "")', '(+ 0 0)', '(* 1 0.0)', '(&& 1 "")'])
        br = [rng.choice(DYN + LITS) for _ in range(rng.choice([1, 2, 2]))]
        return f'(if {c} ' + ' '.join(br) + ')'
    if k == '+' and rng.random() < 0.25:
        # string literals next to each other stay separate operands: with a list operand each becomes an element of its own
        lits = [rng.choice(['"a"', '"b"', '""', '"rst"']) for _ in range(rng.randint(2, 3))]
        other = rng.choice(['xs', '(list 1)', "'(\"clk\")", '(list)', 's', 'x'])
        args = rng.choice([[other] + lits, lits + [other], lits[:1] + [other] + lits[1:]])
        return rng.choice(['(+ ' + ' '.join(args) + ')', '(length (+ ' + ' '.join(args) + '))'])
    if k == '*' and rng.random() < 0.3:
        # a product inside a product is a product of its own: the grouping decides how floats round
        inner = rng.choice(['(* xf 5)', '(* 0.1 xf)', '(* xf xf 3)', '(* x 0.1)', '(* 2 xf)'])
        outer = [rng.choice(['0.1', '0.7', '3', 'xf', '1.5'])] + [inner] + [rng.choice(['0.1', '7', 'xf'])] * rng.randint(0, 1)
        if rng.random() < 0.3:
            outer = [inner] + outer[:1]
        return '(* ' + ' '.join(outer) + ')'
    if k in ('+', '*'):
        pre = [rng.choice(NUMS) for _ in range(rng.randint(0, 3))]
        post = [rng.choice(DYN + ['"a"', '""', '(list 1)']) for _ in range(rng.randint(0, 2))]
        mid = [rng.choice(NUMS)] if rng.random() < 0.3 else []
        args = pre + post + mid
        if not args:
            args = ['1']
        return f'({k} ' + ' '.join(args) + ')'
    if k in ('&&', '||'):
        pre = [rng.choice(LITS) for _ in range(rng.randint(0, 3))]
        post = [rng.choice(DYN + LITS) for _ in range(rng.randint(0, 2))]
        args = pre + post
        if rng.random() < 0.3:
            rng.shuffle(args)
        if not args:
            args = ['x']
        return f'({k} ' + ' '.join(args) + ')'
    if k == 'do':
        return f'(do {gen_sensitive(rng)})'
    return f'({rng.choice(["if", "+", "&&", "||", "list"])} {gen_sensitive(rng)} {gen_sensitive(rng)})'


def embed(rng, e):
    r = rng.random()
    if r < 0.5:
        return e
    if r < 0.65:
        return f'(let ([z {e}]) (list z x))'
    if r < 0.8:
        return f'((fn [q] (list q {e})) 1)'
    if r < 0.9:
        return f'(do (define k 0) (while (< k 2) {e} (set [k (+ k 1)])) k)'
    return f'(list {e} {e})'


class C08(framework.PropertyCheck):
    pid = 'C08'
    theorem_coverage = True
    quick_cases = 1200
    thorough_cases = 30000
    rule = ('trees over the rewritten operators (if do + * && ||) and neighbours with operands from a 14-atom alphabet (0 1 2 0.0 1.5 "" "a" #t #f, '
            'a variable, a signal, and operands that print, step or assign) plus string/list variables; sampled depth-1/2/3 trees, optionally '
            'embedded in let/fn/while; each program runs with and without the optimize step, each without and with resolve, on fresh '
            'interpreters with a loaded trace; thorough adds all depth-1 trees of arity<=3 over the alphabet; non-trivial = the pass changed the tree')
    assumptions = ['only programs that complete without the pass are claimed (the property\'s premise)',
                   'float literals are dyadic rationals; floats are compared by their IEEE bits']

    def cases(self, rng, tier, n):
        for _ in range(n // 2):
            d = rng.choice([1, 1, 2, 2, 3])
            e = embed(rng, gen_sensitive(rng) if rng.random() < 0.4 else gen_tree(rng, d))
            rs = rng.choice(['r', ''])
            yield {'e': e, 'mode': 'eo' + rs}
            yield {'e': e, 'mode': 'e' + rs}
        if tier == 'thorough':
            import itertools
            for op in OPS:
                for ar in (1, 2, 3):
                    if op == 'if' and ar == 1:
                        continue
                    for args in itertools.product(ATOMS, repeat=ar):
                        e = '(' + op + ' ' + ' '.join(args) + ')'
                        yield {'e': e, 'mode': 'eor'}
                        yield {'e': e, 'mode': 'er'}

    _trace = None

    def _vcd(self):
        if C08._trace is None:
            vf, _ = gen_trace.simple_vcd(random.Random(5), 6)
            C08._trace = gen_trace.render(vf)
        return C08._trace

    def _steps(self, e, mode):
        st = [('loadvcd', 't0', self._vcd())] + [('eval', 'eor', s) for s in SETUP]
        st.append(('eval', mode, f'(list {e})'))
        st.append(('eval', 'eor', PROBE))
        return st

    def steps(self, case):
        if "(eval qd)" in case['e']:
            # expand rewrites a macro call inside evaluated *data* in place (the datum reads expanded afterwards, with and without the
            # optimisation pass alike); the model's values are immutable, so these programs are compared on the implementation only
            return None
        return self._steps(case['e'], case['mode'])

    def oracle(self, case, iobs):
        if 'o' not in case['mode']:
            return None
        from . import impl
        if iobs is None:
            iobs = session.run_impl(self._steps(case['e'], case['mode']))
        with impl.no_optimize():
            base = session.run_impl(self._steps(case['e'], case['mode'].replace('o', '')))
        k = 1 + len(SETUP)
        if len(base) <= k + 1 or base[k][0] != 'ok':
            return None       # the unoptimised program does not complete: nothing is claimed
        if len(iobs) <= k + 1:
            return {'what': 'optimised program fails although the unoptimised one completes', 'e': case['e'], 'mode': case['mode'],
                    'optimised': iobs[-1], 'unoptimised': base[k]}
        if iobs[k] != base[k]:
            return {'what': 'result / printed output differ with and without the optimisation pass', 'e': case['e'], 'mode': case['mode'],
                    'optimised': iobs[k], 'unoptimised': base[k]}
        if iobs[k + 1] != base[k + 1]:
            return {'what': 'assignments / trace position differ with and without the optimisation pass', 'e': case['e'],
                    'optimised': iobs[k + 1], 'unoptimised': base[k + 1]}
        return None

    def nontrivial(self, case, iobs):
        from . import impl, wire
        try:
            a = impl.parse(f'(list {case["e"]})')
            b = impl.optimize(impl.parse(f'(list {case["e"]})'))
            return wire.canon(a) != wire.canon(b)
        except Exception:  # noqa: BLE001
            return False

    def classify(self, case):
        return case['mode']


CHECK = C08()
