"""C13 — virtual signals behave exactly like their body at every index."""
import random

from . import framework, gen_trace, gen_expr
from .c04 import truthy


class C13(framework.PropertyCheck):
    pid = 'C13'
    quick_cases = 250
    thorough_cases = 5000
    rule = ('random bodies of the trace-reading fragment (arithmetic/logic over signals, @ offsets, another virtual signal, ~/# references '
            'captured by in-scope / in-group at definition) x visit orders of length<=10 (forward, backward, random jumps, reads via @k, via '
            'find/count/whenever, repeated reads, an intervening sample-at, a sub-sampling read everywhere and then undone by a sample-at over all indices); optionally the name is queried before the definition, an earlier definition of the same name is read at every index and then replaced, or a grouped evaluation inside a captured scope precedes the definition; at every visit the virtual signal is compared with its body text '
            'evaluated in place; non-trivial = some index is read at least twice with a different index read in between, or a sample-at occurs')
    assumptions = ['single trace (defsig registers signals under the qualified name with several traces, outside the property)',
                   'strictly increasing timestamps; bodies without their own in-scope/in-group']

    def cases(self, rng, tier, n):
        for _ in range(n):
            N = rng.randint(2, 8)
            g = gen_expr.ExprGen(rng, None, virtual=False, funcs=False, n_max=N)
            kind = rng.choice(['top', 'top', 'scope', 'group', 'groups', 'topref', 'dep'])
            if kind == 'topref':
                # ~ and # references in a definition made at top level are fixed there too (nothing is captured: the names stand for themselves)
                body = rng.choice(['(+ ~top.cnt 1)', '(+ ~top.cnt ~top.d_valid@1)', '(&& #top.d_valid #top.d_ready)', '(- ~top.cnt (reval #top.e_valid -1))'])
                define = f'(defsig tv {body})'
                name = 'tv'
                body = body.replace('~', '').replace('#', '')
            if kind == 'dep':
                # no offset of its own: everything it knows about the neighbouring sample comes through another virtual signal
                body = rng.choice(['(+ (if u1 u1 -3) top.clk)', '(list u1 top.cnt)', '(if u1 (- u1 top.cnt) 99)'])
                define = f'(defsig dv {body})'
                name = 'dv'
            elif kind == 'topref':
                pass
            elif kind == 'top':
                body = g.expr(rng.randint(1, 3))
                r0 = rng.random()
                if r0 < 0.3:
                    body = f'(+ u0 {body})' if rng.random() < 0.5 else f'(if (> u0 3) {body} u0@1)'
                elif r0 < 0.5:
                    # no offset of its own, but built on a virtual signal that reads the neighbouring sample
                    body = f'(+ (if u1 u1 -3) {body})'
                define = f'(defsig vv {body})'
                name = 'vv'
            elif kind == 'scope':
                body = rng.choice(['(+ ~cnt 1)', '(&& (= ~clk 1) (> ~cnt 2))', '(+ ~cnt ~cnt@1)', '(- ~cnt (reval ~d_valid -1))'])
                define = f'(in-scope "top" (defsig sv {body}))'
                name = 'top.sv'
                body = body.replace('~', 'top.')
            elif kind == 'groups':
                # the same defsig form is evaluated once per group: references must be fixed per definition
                body = rng.choice(['(&& #valid #ready)', '(+ #valid #ready@1)', '(|| #valid (reval #ready -1))', '(+ (+ #valid 1) (* 2 #ready))'])
                define = f'(in-groups (groups "valid" "ready") (defsig hs {body}))'
                name = rng.choice(['top.d_hs', 'top.e_hs'])
                body = body.replace('#', name[:-2])
            else:
                body = rng.choice(['(&& #valid #ready)', '(+ #valid #ready@1)', '(|| #valid (reval #ready -1))'])
                define = f'(in-group "top.d_" (defsig hs {body}))'
                name = 'top.d_hs'
                body = body.replace('#', 'top.d_')
            visits = []
            for _k in range(rng.randint(3, 10)):
                r = rng.random()
                if r < 0.45:
                    visits.append(['at', rng.randrange(N)])
                elif r < 0.6:
                    visits.append(['rel', rng.randrange(N), rng.randint(-3, 3)])
                elif r < 0.66:
                    visits.append(['scoped', rng.randrange(N)])
                elif r < 0.72:
                    visits.append(['find', rng.randrange(N)])
                elif r < 0.8:
                    visits.append(['whenever', rng.randrange(N)])
                elif r < 0.9:
                    L = sorted(rng.sample(range(N), rng.randint(1, N)))
                    visits.append(['sample', L])
                else:
                    visits.append(['again'])
            if kind == 'dep':
                keep = sorted(rng.sample(range(N), max(1, N // 2)))
                visits = [['at', i] for i in range(N)] + [['sample', keep]] + [['at', j] for j in range(len(keep))] + [['find', 0]] + visits[:3]
            if N >= 3 and rng.random() < 0.3:
                # a sub-sampling, every remaining index read, then back to the complete trace: what was computed between the
                # sparser samples must not be served once all samples are there again
                keep = sorted(rng.sample(range(N), rng.randint(1, N - 1)))
                back = [['sample', keep]] + [['at', j] for j in range(len(keep))] + [['rel', j, rng.choice([-1, 1])] for j in range(len(keep))] + \
                       [['sample', list(range(N))]] + [['at', i] for i in range(N)] + [['find', 0]]
                visits = visits[:rng.randint(0, 3)] + back
            case = {'N': N, 'seed': rng.randrange(1 << 30), 'define': define, 'name': name, 'body': body, 'visits': visits}
            if rng.random() < 0.4:
                case['probe_before'] = True          # the name is asked for before it exists
            if kind == 'top' and rng.random() < 0.35:
                case['redefine'] = rng.choice(['(+ top.cnt 100)', '(* top.cnt top.cnt@1)', '(= top.clk 0)'])   # an earlier definition, read everywhere, then replaced
            if kind in ('top', 'scope') and rng.random() < 0.3:
                case['pre_groups'] = True            # a grouped evaluation inside a captured scope has come and gone before the definition
            yield case

    def _plan(self, case):
        vf, _den = gen_trace.simple_vcd(random.Random(case['seed']), case['N'], sigs=gen_expr.SIGS)
        steps = [('loadvcd', 't0', gen_trace.render(vf)), ('eval', 'eorg', '(defsig u0 (+ top.cnt (if (= top.clk 1) 2 0)))'),
                 ('eval', 'eorg', '(defsig u1 (reval top.cnt 1))')]
        v, b = case['name'], case['body']
        marks = []
        if case.get('probe_before'):
            marks.append(('unlisted', len(steps)))
            steps.append(('eval', 'eorg', f'(list (in "{v}" SIGNALS) (signal? "{v}"))'))
        if case.get('pre_groups'):
            steps.append(('eval', 'eorg', '(in-scope "top" (in-groups (groups "valid" "ready") (+ #valid #ready)))'))
        if case.get('redefine'):
            steps.append(('eval', 'eorg', f'(defsig {v} {case["redefine"]})'))
            for i in list(range(case['N'])) + [0]:
                steps.append(('eval', 'eorg', f'(step (- {i} INDEX))'))
                steps.append(('eval', 'eorg', f'(list {v} (reval {v} 1))'))
        steps.append(('eval', 'eorg', case['define']))
        marks.append(('listed', len(steps)))
        steps.append(('eval', 'eorg', f'(list (in "{v}" SIGNALS) (signal? "{v}"))'))
        n_cur = case['N']
        for vis in case['visits']:
            k = vis[0]
            if k == 'at':
                if vis[1] >= n_cur:
                    continue
                steps.append(('eval', 'eorg', f'(step (- {vis[1]} INDEX))'))
                steps.append(('eval', 'eorg', f'(list {b})'))
                marks.append(('pair', len(steps)))
                steps.append(('eval', 'eorg', f'(list {v} {b})'))
            elif k == 'scoped':
                if vis[1] >= n_cur:
                    continue
                steps.append(('eval', 'eorg', f'(step (- {vis[1]} INDEX))'))
                steps.append(('eval', 'eorg', f'(list {b})'))
                marks.append(('pair', len(steps)))
                steps.append(('eval', 'eorg', f'(list (in-scope "top" {v}) {b} (in-group "top.e_" {v}))'))
            elif k == 'again':
                steps.append(('eval', 'eorg', f'(list {b})'))
                marks.append(('pair', len(steps)))
                steps.append(('eval', 'eorg', f'(list {v} {b} {v})'))
            elif k == 'rel':
                if vis[1] >= n_cur:
                    continue
                steps.append(('eval', 'eorg', f'(step (- {vis[1]} INDEX))'))
                marks.append(('pair', len(steps)))
                steps.append(('eval', 'eorg', f'(list (reval {v} {vis[2]}) (reval {b} {vis[2]}))'))
            elif k == 'find':
                if vis[1] >= n_cur:
                    continue
                steps.append(('eval', 'eorg', f'(step (- {vis[1]} INDEX))'))
                marks.append(('pair', len(steps)))
                steps.append(('eval', 'eorg', f'(list (list (find {v}) (count {v})) (list (find {b}) (count {b})))'))
            elif k == 'whenever':
                if vis[1] >= n_cur:
                    continue
                steps.append(('eval', 'eorg', f'(step (- {vis[1]} INDEX))'))
                marks.append(('out', len(steps)))
                steps.append(('eval', 'eorg', f'(whenever {v} (print INDEX))'))
                steps.append(('eval', 'eorg', f'(whenever {b} (print INDEX))'))
            elif k == 'sample':
                steps.append(('eval', 'eorg', "(sample-at '(" + ' '.join(map(str, vis[1])) + '))'))
                n_cur = len(vis[1])
        return steps, marks

    def steps(self, case):
        return self._plan(case)[0]

    def oracle(self, case, iobs):
        steps, marks = self._plan(case)
        # bodies that establish a scope or group of their own are outside the quantifier (see assumptions): nothing is claimed when they raise
        own_ctx = 'in-scope' in case['body'] or 'in-group' in case['body']
        for kind, si in marks:
            if si >= len(iobs) or (kind == 'out' and si + 1 >= len(iobs)):
                if kind == 'pair' and si == len(iobs) and si >= 1 and iobs[si - 1][0] == 'ok' and not own_ctx:
                    return {'what': 'reading the virtual signal raises where its body evaluates', 'define': case['define'], 'query': steps[si][2]}
                if iobs and iobs[-1][0] in ('err', 'timeout'):
                    # the body raised somewhere (x-valued operand): v must raise there as well; nothing further is claimed
                    return None
                return {'what': 'missing observations'}
            o = iobs[si]
            if o[0] != 'ok':
                if kind == 'pair' and si >= 1 and iobs[si - 1][0] == 'ok' and not own_ctx:
                    # the body alone has just been evaluated at this very position
                    return {'what': 'reading the virtual signal raises where its body evaluates', 'define': case['define'], 'query': steps[si][2], 'got': o}
                return None
            if kind == 'unlisted':
                if o[1][2] != (('B', False), ('B', False)):
                    return {'what': 'a name is reported as a signal before it is defined', 'name': case['name'], 'got': o[1]}
            elif kind == 'listed':
                if o[1][2] != (('B', True), ('B', True)):
                    return {'what': 'virtual signal is not listed among the signals under its relative name', 'name': case['name'], 'got': o[1]}
            elif kind == 'pair':
                vals = o[1][2]
                if any(x != vals[1] for x in vals):
                    return {'what': 'virtual signal differs from its body at the same index', 'define': case['define'], 'query': steps[si][2],
                            'got': vals, 'visits': case['visits']}
            elif kind == 'out':
                o2 = iobs[si + 1]
                if o2[0] != 'ok':
                    return None
                if o[2] != o2[2]:
                    return {'what': 'whenever over the virtual signal differs from whenever over its body', 'v': o[2], 'body': o2[2]}
        return None

    def nontrivial(self, case, iobs):
        seen = []
        for vis in case['visits']:
            if vis[0] == 'sample':
                return True
            if vis[0] in ('at', 'rel', 'find', 'whenever'):
                seen.append(vis[1])
        for i, a in enumerate(seen):
            for j in range(i + 2, len(seen)):
                if seen[j] == a and any(x != a for x in seen[i + 1:j]):
                    return True
        return False

    def classify(self, case):
        return case['name']


CHECK = C13()
